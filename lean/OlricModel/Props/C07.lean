/-
  C07 — Incr, Decr, IncrByFloat and GetPut are atomic across all clients.

  Three layers:
    A. a micro-step model of n concurrent read-modify-write callers, each taking the named mutex of the
       member it executes on, reading, writing, releasing — for EVERY schedule of the micro-steps: if all
       callers execute on one member (after the fix: the partition owner, whatever the entry point) the
       outcome is a serial execution: no update is lost and each caller saw exactly the effect of the
       callers serialized before it.  With callers on two members the statement is false (witness).
    B. the serial step itself: in a stable healthy cluster `incr` / `getPut` of DMap/Model.lean read the
       stored number / value and write the new one on owner and backups, keeping the key's expiry; the
       decimal encoding round-trips, so a sequence of n steps adds up.
    C. where the code executes a call: extracted from the source on every run
       (Facts.atomic_ops_run_on_owner); the correspondence stream drives real concurrent callers through
       every member and client kind, and schedules a second caller inside the first one's
       read-modify-write window at the yield point of the harness build.
-/
import OlricModel.Props.C08
import OlricModel.Generated.Facts
namespace Olric.C07
open Olric Olric.DMap Olric.C04 Olric.C09 Olric.C08

/-! ## A. every schedule of lock / read / write / unlock micro-steps -/

/-- `n` callers on a register of type `σ`.  Caller `i` executes on member `member i` and stores
    `upd i v` when it read `v`.  `pc`: 0 waiting for the member's mutex, 1 holds it, 2 has read, 3 done. -/
structure Sys (σ : Type) where
  reg : σ
  pc : Nat → Nat
  seen : Nat → σ
  histR : List (Nat × σ)      -- newest first: (caller, the value it read) in the order of the writes

variable {σ : Type}

def holds (pc : Nat → Nat) (j : Nat) : Bool := pc j == 1 || pc j == 2

/-- one micro-step of caller `i` (`i < n`) -/
def mstep (n : Nat) (member : Nat → Nat) (upd : Nat → σ → σ) (s : Sys σ) (i : Nat) : Sys σ :=
  if i ≥ n then s else
  match s.pc i with
  | 0 =>
    -- the named mutex of the executing member
    if (List.range n).any (fun j => member j == member i && holds s.pc j) then s
    else { s with pc := fun j => if j = i then 1 else s.pc j }
  | 1 => { s with pc := fun j => if j = i then 2 else s.pc j, seen := fun j => if j = i then s.reg else s.seen j }
  | 2 => { s with pc := fun j => if j = i then 3 else s.pc j, reg := upd i (s.seen i), histR := (i, s.seen i) :: s.histR }
  | _ => s

def mrun (n : Nat) (member : Nat → Nat) (upd : Nat → σ → σ) (s : Sys σ) (sched : List Nat) : Sys σ :=
  sched.foldl (mstep n member upd) s

/-- `histR` (newest first) is a serial execution from `r0` that ends in `r`: every caller read the
    register as the callers before it left it -/
def SerialR (upd : Nat → σ → σ) (r0 : σ) : List (Nat × σ) → σ → Prop
  | [], r => r = r0
  | (i, v) :: older, r => r = upd i v ∧ SerialR upd r0 older v

structure MInv (n : Nat) (upd : Nat → σ → σ) (r0 : σ) (s : Sys σ) : Prop where
  one : ∀ j k, j < n → k < n → holds s.pc j = true → holds s.pc k = true → j = k
  fresh : ∀ j, j < n → s.pc j = 2 → s.seen j = s.reg
  serial : SerialR upd r0 s.histR s.reg
  done : ∀ j, j ∈ s.histR.map (·.1) ↔ (j < n ∧ s.pc j = 3)
  nodup : (s.histR.map (·.1)).Nodup
  range : ∀ j, s.pc j ≤ 3

theorem minv_step (n : Nat) (member : Nat → Nat) (upd : Nat → σ → σ) (r0 : σ) (m0 : Nat)
    (hsame : ∀ j, member j = m0) (s : Sys σ) (i : Nat) (h : MInv n upd r0 s) :
    MInv n upd r0 (mstep n member upd s i) := by
  unfold mstep
  by_cases hi : i ≥ n
  · simp only [hi, if_true]; exact h
  · simp only [hi, if_false]
    have hin : i < n := Nat.lt_of_not_ge hi
    split
    · -- acquire
      rename_i hpc
      split
      · exact h
      · rename_i hfree
        have hnone : ∀ j, j < n → holds s.pc j = false := by
          intro j hj
          cases hh : holds s.pc j with
          | false => rfl
          | true =>
            exfalso; apply hfree
            rw [List.any_eq_true]
            exact ⟨j, List.mem_range.mpr hj, by simp [hsame, hh]⟩
        refine ⟨?_, ?_, h.serial, ?_, h.nodup, ?_⟩
        · intro j k hj hk hhj hhk
          simp only [holds] at hhj hhk
          by_cases ej : j = i <;> by_cases ek : k = i
          · rw [ej, ek]
          · simp only [ek, if_false] at hhk
            have := hnone k hk; simp only [holds] at this; rw [this] at hhk; cases hhk
          · simp only [ej, if_false] at hhj
            have := hnone j hj; simp only [holds] at this; rw [this] at hhj; cases hhj
          · simp only [ej, if_false] at hhj
            have := hnone j hj; simp only [holds] at this; rw [this] at hhj; cases hhj
        · intro j hj hp
          by_cases ej : j = i
          · simp [ej] at hp
          · simp only [ej, if_false] at hp; exact h.fresh j hj hp
        · intro j
          rw [h.done j]
          by_cases ej : j = i
          · subst ej; simp [hpc]
          · simp [ej]
        · intro j; by_cases ej : j = i <;> simp [ej, h.range j]
    · -- read
      rename_i hpc
      refine ⟨?_, ?_, h.serial, ?_, h.nodup, ?_⟩
      · intro j k hj hk hhj hhk
        have hi1 : holds s.pc i = true := by simp [holds, hpc]
        have hj' : holds s.pc j = true := by
          by_cases ej : j = i
          · rw [ej]; exact hi1
          · simpa [holds, ej] using hhj
        have hk' : holds s.pc k = true := by
          by_cases ek : k = i
          · rw [ek]; exact hi1
          · simpa [holds, ek] using hhk
        exact h.one j k hj hk hj' hk'
      · intro j hj hp
        by_cases ej : j = i
        · simp [ej]
        · simp only [ej, if_false] at hp ⊢
          -- another caller with pc = 2 would hold the mutex together with i
          have hi1 : holds s.pc i = true := by simp [holds, hpc]
          have hj1 : holds s.pc j = true := by simp [holds, hp]
          exact absurd (h.one j i hj hin hj1 hi1) ej
      · intro j
        rw [h.done j]
        by_cases ej : j = i
        · subst ej; simp [hpc]
        · simp [ej]
      · intro j; by_cases ej : j = i <;> simp [ej, h.range j]
    · -- write and release
      rename_i hpc
      have hseen := h.fresh i hin hpc
      refine ⟨?_, ?_, ?_, ?_, ?_, ?_⟩
      · intro j k hj hk hhj hhk
        have hj' : j ≠ i := by intro e; simp [holds, e] at hhj
        have hk' : k ≠ i := by intro e; simp [holds, e] at hhk
        exact h.one j k hj hk (by simpa [holds, hj'] using hhj) (by simpa [holds, hk'] using hhk)
      · intro j hj hp
        by_cases ej : j = i
        · simp [ej] at hp
        · simp only [ej, if_false] at hp
          have hi1 : holds s.pc i = true := by simp [holds, hpc]
          have hj1 : holds s.pc j = true := by simp [holds, hp]
          exact absurd (h.one j i hj hin hj1 hi1) ej
      · exact ⟨rfl, by rw [hseen]; exact h.serial⟩
      · intro j
        simp only [List.map_cons, List.mem_cons]
        rw [h.done j]
        by_cases ej : j = i
        · subst ej; simp [hin]
        · simp [ej]
      · simp only [List.map_cons, List.nodup_cons]
        refine ⟨?_, h.nodup⟩
        intro hmem
        have := (h.done i).mp hmem
        rw [hpc] at this; exact absurd this.2 (by decide)
      · intro j; by_cases ej : j = i <;> simp [ej, h.range j]
    · exact h

def minit (r0 : σ) : Sys σ := { reg := r0, pc := fun _ => 0, seen := fun _ => r0, histR := [] }

theorem minv_init (n : Nat) (upd : Nat → σ → σ) (r0 : σ) : MInv n upd r0 (minit r0) :=
  ⟨fun j k _ _ hj _ => by simp [holds, minit] at hj, fun j _ hp => by simp [minit] at hp, rfl,
   fun j => by simp [minit], by simp [minit], fun j => by simp [minit]⟩

/-- **C07 (all interleavings).**  For every schedule of the micro-steps of n callers that all execute
    on one member: the writes form a serial execution (each caller read exactly what the callers
    serialized before it left), no caller appears twice, and once every caller is done all n are in it. -/
theorem C07_serializable (n : Nat) (member : Nat → Nat) (upd : Nat → σ → σ) (r0 : σ) (m0 : Nat)
    (hsame : ∀ j, member j = m0) (sched : List Nat) :
    let s := mrun n member upd (minit r0) sched
    SerialR upd r0 s.histR s.reg ∧ (s.histR.map (·.1)).Nodup ∧
    ((∀ j, j < n → s.pc j = 3) → ∀ j, j < n → j ∈ s.histR.map (·.1)) := by
  have key : ∀ (sched : List Nat) (s : Sys σ), MInv n upd r0 s → MInv n upd r0 (mrun n member upd s sched) := by
    intro sched
    induction sched with
    | nil => intro s h; exact h
    | cons i rest ih => intro s h; exact ih _ (minv_step n member upd r0 m0 hsame s i h)
  have h := key sched (minit r0) (minv_init n upd r0)
  exact ⟨h.serial, h.nodup, fun hall j hj => (h.done j).mpr ⟨hj, hall j hj⟩⟩

/-- counters: a serial execution of additions ends at the initial value plus the sum of all deltas, and
    each caller read (hence returned `+ its delta`) the initial value plus the deltas before it -/
theorem serial_sum (delta : Nat → Int) (r0 : Int) (hist : List (Nat × Int)) (r : Int)
    (h : SerialR (fun i v => v + delta i) r0 hist r) :
    r = r0 + (hist.map (fun p => delta p.1)).sum := by
  induction hist generalizing r with
  | nil => simpa [SerialR] using h
  | cons p older ih =>
    obtain ⟨i, v⟩ := p
    obtain ⟨h1, h2⟩ := h
    have := ih v h2
    have h1' : r = v + delta i := h1
    simp only [List.map_cons, List.sum_cons]
    omega

/-- **C07 (no lost update).**  n concurrent Incr/Decr callers executing on one member, any schedule:
    when all are done the counter is the initial value plus the sum of the deltas of ALL callers that
    wrote — and all n wrote, each once. -/
theorem C07_no_lost_update (n : Nat) (member : Nat → Nat) (delta : Nat → Int) (r0 : Int) (m0 : Nat)
    (hsame : ∀ j, member j = m0) (sched : List Nat) :
    let s := mrun n member (fun i v => v + delta i) (minit r0) sched
    s.reg = r0 + (s.histR.map (fun p => delta p.1)).sum ∧ (s.histR.map (·.1)).Nodup ∧
    ((∀ j, j < n → s.pc j = 3) → ∀ j, j < n → j ∈ s.histR.map (·.1)) := by
  obtain ⟨h1, h2, h3⟩ := C07_serializable n member (fun i v => v + delta i) r0 m0 hsame sched
  exact ⟨serial_sum delta r0 _ _ h1, h2, h3⟩

/-- GetPut: every caller writes its own value and returns what it read; in a serial execution the value a
    caller returns is the value written by the caller just before it (or the initial one): one chain. -/
theorem C07_getput_chain (val : Nat → σ) (r0 : σ) (hist : List (Nat × σ)) (r : σ)
    (h : SerialR (fun i _ => val i) r0 hist r) :
    (match hist with | [] => r = r0 | (i, _) :: _ => r = val i) ∧
    ∀ (pre : List (Nat × σ)) (i j : Nat) (vi vj : σ) (post : List (Nat × σ)),
      hist = pre ++ (i, vi) :: (j, vj) :: post → vi = val j := by
  refine ⟨?_, ?_⟩
  · cases hist with
    | nil => exact h
    | cons p older => obtain ⟨i, v⟩ := p; exact h.1
  · intro pre
    induction pre generalizing hist r with
    | nil =>
      intro i j vi vj post e
      subst e
      exact h.2.1
    | cons p pre ih =>
      intro i j vi vj post e
      subst e
      obtain ⟨i0, v0⟩ := p
      exact ih _ v0 h.2 i j vi vj post rfl

/-- the statement is false when callers execute on different members (the pre-fix behaviour of embedded
    clients): two callers, +5 on member 0 and +7 on member 1, schedule lock0 read0 lock1 read1 write1 write0 -/
example : (mrun 2 (fun j => j) (fun i v => v + (if i = 0 then 5 else 7)) (minit (0 : Int)) [0, 0, 1, 1, 1, 0]).reg = 5 := by decide
/-- non-vacuity: the same schedule with both callers on one member: caller 1 is blocked until 0 is done -/
example : (mrun 2 (fun _ => 0) (fun i v => v + (if i = 0 then 5 else 7)) (minit (0 : Int)) [0, 0, 1, 1, 1, 0, 1, 1, 1]).reg = 12 := by decide

/-! ## B. the serial step on the cluster model -/

theorem u8_digit (d : Nat) (h : d < 10) : (UInt8.ofNat (48 + d)).toNat = 48 + d := by
  have : d = 0 ∨ d = 1 ∨ d = 2 ∨ d = 3 ∨ d = 4 ∨ d = 5 ∨ d = 6 ∨ d = 7 ∨ d = 8 ∨ d = 9 := by omega
  rcases this with rfl | rfl | rfl | rfl | rfl | rfl | rfl | rfl | rfl | rfl <;> decide

theorem parseDigitsB_append (a b : Bytes) (acc : Nat) :
    parseDigitsB (a ++ b) acc = (parseDigitsB a acc).bind (fun x => parseDigitsB b x) := by
  induction a generalizing acc with
  | nil => rfl
  | cons c cs ih =>
    simp only [List.cons_append, parseDigitsB]
    split
    · exact ih _
    · rfl

theorem parseDigitsB_natBytes (n acc : Nat) :
    parseDigitsB (natBytes n) acc = some (acc * 10 ^ (natBytes n).length + n) := by
  fun_induction natBytes n generalizing acc with
  | case1 n h =>
    have := u8_digit n h
    simp only [parseDigitsB, this, List.length_cons, List.length_nil]
    have h1 : 48 ≤ 48 + n ∧ 48 + n ≤ 57 := by omega
    simp only [h1, and_self, if_true]
    congr 1; omega
  | case2 n h ih =>
    rw [parseDigitsB_append, ih]
    have hd := u8_digit (n % 10) (Nat.mod_lt _ (by omega))
    have h1 : 48 ≤ 48 + n % 10 ∧ 48 + n % 10 ≤ 57 := by have := Nat.mod_lt n (show 10 > 0 by omega); omega
    simp only [Option.bind_some, parseDigitsB, hd, h1, and_self, if_true, List.length_append, List.length_cons,
      List.length_nil, Nat.pow_succ]
    congr 1
    have := Nat.div_add_mod n 10
    rw [Nat.add_mul, Nat.mul_assoc]
    omega

theorem natBytes_head (n : Nat) : ∃ c cs, natBytes n = c :: cs ∧ c ≠ 45 ∧ c ≠ 43 := by
  fun_induction natBytes n with
  | case1 n h =>
    refine ⟨UInt8.ofNat (48 + n), [], rfl, ?_, ?_⟩ <;>
    · intro e
      have := u8_digit n h
      rw [e] at this
      revert this; simp; omega
  | case2 n h ih =>
    obtain ⟨c, cs, e, h1, h2⟩ := ih
    exact ⟨c, cs ++ [UInt8.ofNat (48 + n % 10)], by rw [e]; rfl, h1, h2⟩

/-- **the stored decimal number round-trips**: what one Incr wrote is what the next one reads -/
theorem parseIntB_intBytes (i : Int) : parseIntB (intBytes i) = some i := by
  unfold intBytes
  split
  · rename_i hneg
    obtain ⟨c, cs, e, _, _⟩ := natBytes_head i.natAbs
    have hne : natBytes i.natAbs ≠ [] := by rw [e]; simp
    simp only [parseIntB, hne, if_false, parseDigitsB_natBytes, Nat.zero_mul, Nat.zero_add]
    simp
    omega
  · rename_i hpos
    obtain ⟨c, cs, e, h45, h43⟩ := natBytes_head i.toNat
    have hp := parseDigitsB_natBytes i.toNat 0
    rw [e] at hp ⊢
    unfold parseIntB
    split
    · rename_i heq; cases heq
    · rename_i ds heq; injection heq with h1 _; exact absurd h1 h45
    · rename_i ds heq; injection heq with h1 _; exact absurd h1 h43
    · rw [hp]; simp; omega

/-- the abstract counter step: number read (absent / unparsable = 0), expiry kept -/
def sIncr (dmTTL : Int) (s : LState) (delta now : Int) : LState × Int :=
  let cur : Int × Int := match live s now with
    | some x => (match parseIntB x.val with | some n => (n, x.ttl) | none => (0, 0))
    | none => (0, 0)
  let ttl' := prepareTTL (if cur.2 != 0 then TTLOpt.px (cur.2 * 1000000 - now) else TTLOpt.none) dmTTL now
  (some ⟨intBytes (cur.1 + delta), ttl', now⟩, cur.1 + delta)

/-- **refinement, Incr/Decr**: in a stable healthy cluster the model's `incr` is the abstract counter step,
    acknowledged, mirrored on every backup owner -/
theorem incr_refines (cfg : Cfg) (r : Route) (h : Healthy cfg r) (c : Cluster) (dm : Bytes) (k : Key)
    (delta now : Int) (hm : Mirror c r dm k) :
    (incr cfg r allReach c dm k delta now).2 = some (sIncr cfg.dmTTL (abs c r dm k) delta now).2 ∧
    abs (incr cfg r allReach c dm k delta now).1 r dm k = (sIncr cfg.dmTTL (abs c r dm k) delta now).1 ∧
    Mirror (incr cfg r allReach c dm k delta now).1 r dm k := by
  simp only [incr, get_healthy cfg r h c dm k now hm, sIncr]
  -- whatever was read, the write is an unconditional Put on a healthy cluster
  have hput : ∀ (v : Bytes) (pc : PutCfg), pc.nx = false → pc.xx = false →
      (put cfg r allReach c dm k v pc now).2 = .ok ∧
      abs (put cfg r allReach c dm k v pc now).1 r dm k = some ⟨v, prepareTTL pc.ttl cfg.dmTTL now, now⟩ ∧
      Mirror (put cfg r allReach c dm k v pc now).1 r dm k := by
    intro v pc hnx hxx
    simp only [DMap.put, hnx, hxx, Bool.false_and, Bool.false_eq_true, if_false]
    exact replicate_healthy cfg r h c dm k _
  cases hl : live (abs c r dm k) now with
  | none =>
    simp only
    obtain ⟨p1, p2, p3⟩ := hput (intBytes (0 + delta)) {} rfl rfl
    simp only [bne_self_eq_false, Bool.false_eq_true, if_false]
    exact ⟨by rw [p1]; simp, p2, p3⟩
  | some x =>
    simp only
    cases hp : parseIntB x.val with
    | none =>
      simp only
      obtain ⟨p1, p2, p3⟩ := hput (intBytes (0 + delta)) {} rfl rfl
      simp only [bne_self_eq_false, Bool.false_eq_true, if_false]
      exact ⟨by rw [p1]; simp, p2, p3⟩
    | some nn =>
      simp only
      by_cases ht : x.ttl = 0
      · simp only [ht, bne_self_eq_false, Bool.false_eq_true, if_false]
        obtain ⟨p1, p2, p3⟩ := hput (intBytes (nn + delta)) {} rfl rfl
        exact ⟨by rw [p1]; simp, p2, p3⟩
      · have hb : (x.ttl != 0) = true := by simpa [bne_iff_ne] using ht
        simp only [hb, if_true]
        obtain ⟨p1, p2, p3⟩ := hput (intBytes (nn + delta)) { ttl := .px (x.ttl * 1000000 - now) } rfl rfl
        exact ⟨by rw [p1]; simp, p2, p3⟩

/-- the key's expiry survives an Incr: the remaining lifetime is re-applied -/
theorem incr_keeps_ttl (ttl now : Int) : Int.tdiv (ttl * 1000000 - now + now) 1000000 = ttl := by
  have : ttl * 1000000 - now + now = ttl * 1000000 := by omega
  rw [this]; exact Int.mul_tdiv_cancel _ (by decide)

/-- **C07 (sequence of counter steps adds up)**: n abstract steps from a stored number (or nothing) end
    at that number plus the sum of the deltas, each step returning its prefix sum -/
def sIncrRun (dmTTL : Int) (s : LState) : List (Int × Int) → LState × List Int
  | [] => (s, [])
  | (delta, now) :: rest =>
    let (s1, v) := sIncr dmTTL s delta now
    let (s2, vs) := sIncrRun dmTTL s1 rest
    (s2, v :: vs)

def prefixSums (v0 : Int) : List Int → List Int
  | [] => []
  | d :: ds => (v0 + d) :: prefixSums (v0 + d) ds

theorem C07_counter_sums (v0 ttl0 ts0 : Int) (hlive : ∀ now, expired ttl0 now = false)
    (steps : List (Int × Int)) :
    (sIncrRun 0 (some ⟨intBytes v0, ttl0, ts0⟩) steps).2 = prefixSums v0 (steps.map (·.1)) := by
  induction steps generalizing v0 ts0 with
  | nil => rfl
  | cons st rest ih =>
    obtain ⟨delta, now⟩ := st
    simp only [sIncrRun, List.map_cons, prefixSums]
    have hl : live (some (⟨intBytes v0, ttl0, ts0⟩ : Copy)) now = some ⟨intBytes v0, ttl0, ts0⟩ := by
      simp [live, hlive now]
    have hs : sIncr 0 (some ⟨intBytes v0, ttl0, ts0⟩) delta now = (some ⟨intBytes (v0 + delta), ttl0, now⟩, v0 + delta) := by
      simp only [sIncr, hl, parseIntB_intBytes]
      congr 2
      by_cases ht : ttl0 = 0
      · simp [ht, prepareTTL]
      · have hb : (ttl0 != 0) = true := by simpa [bne_iff_ne] using ht
        simp only [hb, if_true, prepareTTL]
        rw [incr_keeps_ttl]
    rw [hs]
    simp only
    rw [ih (v0 + delta) now]

/-- **refinement, GetPut**: returns the stored live value (none if absent / expired), stores the new one -/
theorem getPut_refines (cfg : Cfg) (r : Route) (h : Healthy cfg r) (c : Cluster) (dm : Bytes) (k : Key)
    (v : Bytes) (now : Int) (hm : Mirror c r dm k) :
    (getPut cfg r allReach c dm k v now).2.1 = .ok ∧
    (getPut cfg r allReach c dm k v now).2.2 = live (abs c r dm k) now ∧
    abs (getPut cfg r allReach c dm k v now).1 r dm k = some ⟨v, prepareTTL .none cfg.dmTTL now, now⟩ ∧
    Mirror (getPut cfg r allReach c dm k v now).1 r dm k := by
  simp only [getPut, get_healthy cfg r h c dm k now hm]
  have hput : (put cfg r allReach c dm k v {} now).2 = .ok ∧
      abs (put cfg r allReach c dm k v {} now).1 r dm k = some ⟨v, prepareTTL .none cfg.dmTTL now, now⟩ ∧
      Mirror (put cfg r allReach c dm k v {} now).1 r dm k := by
    simp only [DMap.put, Bool.false_and, Bool.false_eq_true, if_false]
    exact replicate_healthy cfg r h c dm k _
  obtain ⟨p1, p2, p3⟩ := hput
  generalize put cfg r allReach c dm k v {} now = res at p1 p2 p3
  obtain ⟨c', rr⟩ := res
  simp only at p1; subst p1
  cases hl : live (abs c r dm k) now with
  | none => exact ⟨rfl, rfl, p2, p3⟩
  | some x => exact ⟨rfl, rfl, p2, p3⟩

/-! ## C. where the code executes an atomic operation (regenerated from the source on every run) -/

/-- the three read-modify-write functions begin by forwarding the request to the partition owner when
    this member is not the owner — so all callers of one key meet on one member's named mutex -/
theorem facts_tie : Facts.atomic_ops_run_on_owner = true := by decide

end Olric.C07
