/-
  C01 — Per-key linearizability in a stable cluster, from any entry point.

  The micro-step model of one key (owner + backup owners, stable membership):
    * a write (Put plain / NX / XX that passes its condition, or Delete) is a critical section under the
      owner's fragment lock: BEGIN (the condition is evaluated on the owner's copy), one step per backup
      owner (the copy on that backup is replaced / removed), END (the owner's own copy is replaced /
      removed).  Backups before the owner: Facts.sync_put_backups_before_local, deleteOnCluster;
    * a Get is NOT one step: it reads the owner's copy under the read lock (so never inside a write's
      critical section), then asks every backup owner, one at a time, with no lock held, then answers
      with one of the versions it gathered (the code picks the newest timestamp; the theorem holds for
      ANY choice among the gathered versions).

  Theorem (C01_read_in_interval): in every execution — every interleaving of any number of writers' and
  readers' micro-steps — the version a Get answers with is a value the abstract register held at some
  instant between the Get's first step and its answer, where the register is defined by ONE instant per
  write (its BEGIN step), and conditional writes decide by the register's value at that instant.
  For a single register this is linearizability: writes are totally ordered by their instants, each read
  can be placed at the instant whose value it returns, and instants inside the operations' intervals
  respect real-time order by construction.

  The same execution with read-repair switched on is NOT linearizable: C01_read_repair_resurrects is the
  witness (finding F14, replayed on the implementation by the stream and listed in known_findings.json).
-/
import OlricModel.Generated.Facts
namespace Olric.C01
open Olric

/-- a version: `none` = no entry; `some n` = the entry written by the n-th write (writes are numbered) -/
abbrev Ver := Option Nat

structure Writer where
  new : Ver                 -- what the write installs (none = delete)
  todo : List Nat           -- backup owners not yet updated
  deriving Repr

structure Reader where
  h0 : Nat                  -- length of the register history when the owner's copy was read
  seen : List Ver           -- versions gathered so far (owner's copy first)
  deriving Repr

structure St where
  nb : Nat                          -- number of backup owners
  hist : List Ver                   -- every value the register has had, newest first; never empty
  loc : Ver                         -- the owner's copy
  baks : Nat → Ver                  -- the backup owners' copies
  writer : Option Writer
  readers : Nat → Option Reader

def St.reg (s : St) : Ver := s.hist.headD none

inductive Cond | always | nx | xx
  deriving DecidableEq, Repr

def Cond.passes : Cond → Ver → Bool
  | .always, _ => true
  | .nx, v => v.isNone
  | .xx, v => v.isSome

inductive Step
  | beginWrite (new : Ver) (c : Cond)     -- takes the fragment lock; THE instant of the write
  | writeBackup (b : Nat)
  | endWrite                               -- the owner's copy; releases the lock
  | getLocal (j : Nat)                     -- under the read lock: not inside a critical section
  | getBackup (j b : Nat)
  | getReturn (j : Nat) (pick : Nat)       -- answers with the pick-th gathered version; the reader is done
  deriving Repr

/-- one micro-step; a step that is not enabled leaves the state unchanged -/
def step (s : St) : Step → St
  | .beginWrite new c =>
    match s.writer with
    | some _ => s
    | none =>
      if c.passes s.loc then
        { s with hist := new :: s.hist, writer := some ⟨new, List.range s.nb⟩ }
      else s     -- the condition failed: key-found / not-found is answered, nothing changes
  | .writeBackup b =>
    match s.writer with
    | some w =>
      if b ∈ w.todo then
        { s with baks := fun x => if x = b then w.new else s.baks x, writer := some { w with todo := w.todo.erase b } }
      else s
    | none => s
  | .endWrite =>
    match s.writer with
    | some w => if w.todo = [] then { s with loc := w.new, writer := none } else s
    | none => s
  | .getLocal j =>
    match s.writer with
    | some _ => s
    | none => { s with readers := fun x => if x = j then some ⟨s.hist.length, [s.loc]⟩ else s.readers x }
  | .getBackup j b =>
    match s.readers j with
    | some r => if b < s.nb then { s with readers := fun x => if x = j then some { r with seen := r.seen ++ [s.baks b] } else s.readers x } else s
    | none => s
  | .getReturn j _ => { s with readers := fun x => if x = j then none else s.readers x }

def run (s : St) (steps : List Step) : St := steps.foldl step s

/-- the versions the register has had since (and including) the moment its history had length `h0` -/
def window (s : St) (h0 : Nat) : List Ver := s.hist.take (s.hist.length - h0 + 1)

structure Inv (s : St) : Prop where
  nonempty : s.hist ≠ []
  idle : s.writer = none → s.loc = s.reg ∧ ∀ b, b < s.nb → s.baks b = s.reg
  busy : ∀ w, s.writer = some w → s.reg = w.new ∧ (∀ b ∈ w.todo, b < s.nb) ∧ w.todo.Nodup ∧
      ∃ prev rest, s.hist = w.new :: prev :: rest ∧ s.loc = prev ∧
        ∀ b, b < s.nb → s.baks b = (if b ∈ w.todo then prev else w.new)
  rd : ∀ j r, s.readers j = some r → r.h0 ≥ 1 ∧ r.h0 ≤ s.hist.length ∧ (∀ v ∈ r.seen, v ∈ window s r.h0) ∧
      (s.writer ≠ none → r.h0 < s.hist.length)

theorem window_grow (s : St) (v : Ver) (h0 : Nat) (hle : h0 ≤ s.hist.length) (x : Ver) (hx : x ∈ window s h0) :
    x ∈ ({ s with hist := v :: s.hist } : St).hist.take (({ s with hist := v :: s.hist } : St).hist.length - h0 + 1) := by
  simp only [window] at hx
  simp only [List.length_cons]
  have : s.hist.length + 1 - h0 + 1 = (s.hist.length - h0 + 1) + 1 := by omega
  rw [this, List.take_succ_cons]
  exact List.mem_cons_of_mem _ hx

theorem inv_step (s : St) (st : Step) (h : Inv s) : Inv (step s st) := by
  cases st with
  | beginWrite new c =>
    simp only [step]
    cases hw : s.writer with
    | some w => simpa [hw] using h
    | none =>
      simp only
      split
      · obtain ⟨hl, hb⟩ := h.idle hw
        obtain ⟨p, rest, hp⟩ : ∃ p rest, s.hist = p :: rest := by
          cases hh : s.hist with
          | nil => exact absurd hh h.nonempty
          | cons a r => exact ⟨a, r, rfl⟩
        have hreg : s.reg = p := by simp [St.reg, hp]
        refine ⟨by simp, by intro hn; simp at hn, ?_, ?_⟩
        · intro w hw'
          simp only [Option.some.injEq] at hw'
          subst hw'
          refine ⟨by simp [St.reg], fun b hb' => by simpa using hb', List.nodup_range, p, rest, by simp [hp], by rw [hl, hreg], ?_⟩
          intro b hbn
          simp only [List.mem_range, hbn, if_true]
          rw [hb b hbn, hreg]
        · intro j r hr
          obtain ⟨r1, r2, r3, _⟩ := h.rd j r hr
          refine ⟨r1, by simp only [List.length_cons]; omega, ?_, fun _ => by simp only [List.length_cons]; omega⟩
          intro v hv
          exact window_grow s new r.h0 r2 v (r3 v hv)
      · exact h
  | writeBackup b =>
    simp only [step]
    cases hw : s.writer with
    | none => simpa [hw] using h
    | some w =>
      simp only
      split
      · rename_i hb
        obtain ⟨b1, b2, b3, prev, rest, b4, b5, b6⟩ := h.busy w hw
        refine ⟨h.nonempty, by intro hn; simp at hn, ?_, ?_⟩
        · intro w' hw'
          simp only [Option.some.injEq] at hw'
          subst hw'
          refine ⟨b1, fun x hx => b2 x (List.mem_of_mem_erase hx), List.Nodup.erase _ b3, prev, rest, b4, b5, ?_⟩
          intro x hxn
          simp only
          by_cases hxb : x = b
          · subst hxb
            simp only [if_true]
            have : x ∉ w.todo.erase x := fun hm => (List.Nodup.mem_erase_iff b3).mp hm |>.1 rfl
            simp [this]
          · simp only [hxb, if_false]
            rw [b6 x hxn]
            have : x ∈ w.todo.erase b ↔ x ∈ w.todo := by
              rw [List.Nodup.mem_erase_iff b3]; exact ⟨fun h => h.2, fun h => ⟨hxb, h⟩⟩
            simp only [this]
        · intro j r hr
          obtain ⟨r1, r2, r3, r4⟩ := h.rd j r hr
          exact ⟨r1, r2, r3, fun _ => r4 (by rw [hw]; simp)⟩
      · exact h
  | endWrite =>
    simp only [step]
    cases hw : s.writer with
    | none => simpa [hw] using h
    | some w =>
      simp only
      split
      · rename_i ht
        obtain ⟨b1, _, _, prev, rest, b4, _, b6⟩ := h.busy w hw
        refine ⟨h.nonempty, ?_, by intro w' hw'; simp at hw', ?_⟩
        · intro _
          refine ⟨by simp only [St.reg, b4, List.headD_cons], fun b hbn => ?_⟩
          have hbn' : b < s.nb := hbn
          simp only [St.reg, b4, List.headD_cons]
          rw [b6 b hbn', ht]; simp
        · intro j r hr
          obtain ⟨r1, r2, r3, _⟩ := h.rd j r hr
          exact ⟨r1, r2, r3, fun hn => absurd rfl hn⟩
      · exact h
  | getLocal j =>
    simp only [step]
    cases hw : s.writer with
    | some w => simpa [hw] using h
    | none =>
      simp only
      obtain ⟨hl, _⟩ := h.idle hw
      refine ⟨h.nonempty, fun _ => h.idle hw, fun w hw' => by simp at hw', ?_⟩
      intro i r hr
      simp only at hr
      by_cases hij : i = j
      · simp only [hij, if_true, Option.some.injEq] at hr
        subst hr
        have hpos : s.hist.length ≥ 1 := by
          cases hh : s.hist with
          | nil => exact absurd hh h.nonempty
          | cons a r => simp
        refine ⟨hpos, Nat.le_refl _, ?_, fun hn => absurd rfl hn⟩
        intro v hv
        simp only [List.mem_singleton] at hv
        subst hv
        simp only [window, Nat.sub_self, Nat.zero_add]
        rw [hl]
        cases hh : s.hist with
        | nil => exact absurd hh h.nonempty
        | cons a r => simp [St.reg, hh]
      · simp only [hij, if_false] at hr
        obtain ⟨r1, r2, r3, _⟩ := h.rd i r hr
        exact ⟨r1, r2, r3, fun hn => absurd rfl hn⟩
  | getBackup j b =>
    simp only [step]
    cases hr : s.readers j with
    | none => simpa [hr] using h
    | some r =>
      simp only
      split
      · rename_i hbn
        obtain ⟨r1, r2, r3, r4⟩ := h.rd j r hr
        refine ⟨h.nonempty, h.idle, h.busy, ?_⟩
        intro i r' hr'
        simp only at hr'
        by_cases hij : i = j
        · simp only [hij, if_true, Option.some.injEq] at hr'
          subst hr'
          refine ⟨r1, r2, ?_, r4⟩
          intro v hv
          rcases List.mem_append.mp hv with hv | hv
          · exact r3 v hv
          · simp only [List.mem_singleton] at hv
            subst hv
            -- the backup copy is the register's value, or (inside a critical section) the one before
            cases hw : s.writer with
            | none =>
              obtain ⟨_, hb⟩ := h.idle hw
              rw [hb b hbn]
              simp only [window, St.reg]
              cases hh : s.hist with
              | nil => exact absurd hh h.nonempty
              | cons a rr => simp
            | some w =>
              obtain ⟨_, _, _, prev, rest, b4, _, b6⟩ := h.busy w hw
              have hlt := r4 (by rw [hw]; simp)
              rw [b6 b hbn]
              simp only [window, b4, List.length_cons] at hlt ⊢
              have : rest.length + 1 + 1 - r.h0 + 1 = (rest.length + 1 + 1 - r.h0 - 1) + 1 + 1 := by omega
              rw [this, List.take_succ_cons, List.take_succ_cons]
              split <;> simp
        · simp only [hij, if_false] at hr'
          exact h.rd i r' hr'
      · exact h
  | getReturn j pick =>
    simp only [step]
    refine ⟨h.nonempty, h.idle, h.busy, ?_⟩
    intro i r hr
    simp only at hr
    by_cases hij : i = j
    · simp [hij] at hr
    · simp only [hij, if_false] at hr
      exact h.rd i r hr

def init (nb : Nat) : St :=
  { nb := nb, hist := [none], loc := none, baks := fun _ => none, writer := none, readers := fun _ => none }

theorem inv_init (nb : Nat) : Inv (init nb) :=
  ⟨by simp [init], fun _ => ⟨rfl, fun _ _ => rfl⟩, fun w hw => by simp [init] at hw, fun j r hr => by simp [init] at hr⟩

theorem inv_run (s : St) (steps : List Step) (h : Inv s) : Inv (run s steps) := by
  induction steps generalizing s with
  | nil => exact h
  | cons a rest ih => exact ih _ (inv_step s a h)

/-- **C01 (reads).**  After ANY interleaving of writers' and readers' micro-steps, whichever gathered
    version a Get answers with is a value the register held at some instant since the Get read the
    owner's copy (positions 0 … length − h0 of the newest-first history are exactly those instants). -/
theorem C01_read_in_interval (nb : Nat) (steps : List Step) (j : Nat) (r : Reader) (pick : Nat) (v : Ver)
    (hr : (run (init nb) steps).readers j = some r) (hp : r.seen[pick]? = some v) :
    v ∈ window (run (init nb) steps) r.h0 ∧ r.h0 ≥ 1 ∧ r.h0 ≤ (run (init nb) steps).hist.length := by
  obtain ⟨r1, r2, r3, _⟩ := (inv_run (init nb) steps (inv_init nb)).rd j r hr
  exact ⟨r3 v (List.mem_of_getElem? hp), r1, r2⟩

/-- **C01 (writes).**  Writes are mutually exclusive critical sections; a conditional write decides by the
    owner's copy, which outside critical sections IS the register: NX succeeds iff the register is empty at
    the write's instant, XX iff it is not. -/
theorem C01_write_decides_on_register (nb : Nat) (steps : List Step) (new : Ver) (c : Cond)
    (hidle : (run (init nb) steps).writer = none) :
    let s := run (init nb) steps
    (c.passes s.reg = true → (step s (.beginWrite new c)).reg = new) ∧
    (c.passes s.reg = false → step s (.beginWrite new c) = s) := by
  have hi := inv_run (init nb) steps (inv_init nb)
  obtain ⟨hl, _⟩ := hi.idle hidle
  intro s
  refine ⟨fun hp => ?_, fun hp => ?_⟩
  · have hp' : c.passes ((run (init nb) steps).hist.headD none) = true := hp
    simp only [step, s, hidle, hl, St.reg, hp', if_true, List.headD_cons]
  · have hp' : c.passes ((run (init nb) steps).hist.headD none) = false := hp
    simp only [step, s, hidle, hl, St.reg, hp', Bool.false_eq_true, if_false]

/-- once a write has ended every copy is the register's value: a later Get — all of whose steps come
    after — gathers only that value -/
theorem C01_quiescent (nb : Nat) (steps : List Step) (hidle : (run (init nb) steps).writer = none) :
    let s := run (init nb) steps
    s.loc = s.reg ∧ ∀ b, b < nb → s.baks b = s.reg := by
  have hi := inv_run (init nb) steps (inv_init nb)
  have hnb : (run (init nb) steps).nb = nb := by
    have : ∀ (st : List Step) (s0 : St), (run s0 st).nb = s0.nb := by
      intro st
      induction st with
      | nil => intro s0; rfl
      | cons a rest ih =>
        intro s0
        simp only [run, List.foldl_cons] at ih ⊢
        rw [ih]
        cases a <;> simp only [step] <;> (try split) <;> (try split) <;> rfl
    exact this steps (init nb)
  obtain ⟨hl, hb⟩ := hi.idle hidle
  exact ⟨hl, fun b hbn => hb b (by rw [hnb]; exact hbn)⟩

/-! ### read-repair breaks it (finding F14) -/

/-- the repair step of a Get: a gathered holder whose version differs from the winner (or that had none)
    receives the winner — with no lock spanning the gathering and the repair -/
def repairBackup (s : St) (b : Nat) (winner : Ver) : St :=
  { s with baks := fun x => if x = b then winner else s.baks x }

/-- Put #1 completes; a Get reads the owner's copy; a Delete runs to completion (acknowledged); the Get
    then asks the backup (nothing there), answers with version 1 and repairs the backup with it.  A Get
    that starts afterwards finds version 1 on the backup although the register has been empty since the
    Delete's instant — its answer is outside its interval: not linearizable. -/
theorem C01_read_repair_resurrects :
    let s1 := run (init 1) [.beginWrite (some 1) .always, .writeBackup 0, .endWrite,      -- Put #1
                            .getLocal 7,                                                   -- Get A reads the owner
                            .beginWrite none .always, .writeBackup 0, .endWrite,           -- Delete, complete
                            .getBackup 7 0]                                                -- Get A asks the backup
    let s2 := repairBackup s1 0 (some 1)                                                   -- Get A repairs the backup
    let s3 := run s2 [.getReturn 7 0, .getLocal 8, .getBackup 8 0]                         -- Get B, afterwards
    s3.reg = none ∧ (s3.readers 8).map (·.seen) = some [none, some 1] ∧
    (some 1 : Ver) ∉ window s3 ((s3.readers 8).map (·.h0) |>.getD 0) := by
  decide

/-- the order of the sub-steps the model relies on is read from the source on every run -/
theorem facts_tie : Facts.sync_put_backups_before_local = true ∧ Facts.write_sections_hold_fragment_lock = true ∧
    Facts.get_reads_owner_under_read_lock_then_replicas = true := by decide

/-! Non-vacuity: two backups; Put #1 in flight (one backup written) while a Get gathers: it sees the old
    and the new version and may answer with either — both are in its window. -/
def sDemo : St := run (init 2) [.beginWrite (some 1) .always, .writeBackup 0, .writeBackup 1, .endWrite,
                                 .getLocal 3, .beginWrite (some 2) .always, .writeBackup 1, .getBackup 3 0, .getBackup 3 1]
example : (sDemo.readers 3).map (·.seen) = some [some 1, some 1, some 2] := by decide
example : window sDemo ((sDemo.readers 3).map (·.h0) |>.getD 0) = [some 2, some 1] := by decide

end Olric.C01
