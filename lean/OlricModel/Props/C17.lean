/-
  C17 — Values and keys read back identical to what was written.
  Statements about Base/Codec.lean (byte layout, decimal text) and Store/Model.lean.
-/
import OlricModel.Proofs.CodecLemmas
import OlricModel.Props.C11
namespace Olric.C17
open Olric KV

/-- **C17 (entry layout).**  For every record whose key fits one length byte and whose value fits a
    32-bit length (and int64 stamps), the bytes written by Entry.Encode / table.Put decode to exactly
    that record: every key byte and value byte (NUL, CR/LF, any binary, empty, any length) verbatim.
    The same bytes travel to backups (DM.PUTENTRY), previous owners and inside a moved table. -/
theorem C17_layout_roundtrip (r : Rec) (h : r.Enc) : decodeRec (encodeRec r) = some r :=
  decode_encode r h

/-- the encoding is injective on encodable records: two different entries never share bytes -/
theorem C17_layout_injective (r s : Rec) (hr : r.Enc) (hs : s.Enc) (e : encodeRec r = encodeRec s) : r = s := by
  have a := decode_encode r hr
  rw [e, decode_encode s hs] at a
  injection a with a; exact a.symm

/-- **C17 (signed integers of every width).**  int8/16/32/64 (and `int`, time.Duration): the decimal
    text produced by Encode is read back by Scan into a type of `bits` bits as the same number when
    it fits, and is a range error — never a wrapped value — when it does not. -/
theorem C17_int_roundtrip (bits : Nat) (n : Int) :
    parseInt bits (fmtInt n) =
      if -(2 ^ (bits - 1) : Int) ≤ n ∧ n < 2 ^ (bits - 1) then .ok n else .error .range :=
  parseInt_fmtInt bits n

theorem C17_int64_exact (n : Int) (h1 : -(2 ^ 63 : Int) ≤ n) (h2 : n < 2 ^ 63) :
    parseInt 64 (fmtInt n) = .ok n := by
  rw [C17_int_roundtrip]; simp; omega

/-- **C17 (unsigned integers of every width).** -/
theorem C17_uint_roundtrip (bits n : Nat) :
    parseUint bits (fmtNat n) = if n < 2 ^ bits then .ok n else .error .range :=
  parseUint_fmtNat bits n

/-- **C17 (store).**  What `Put` accepted is what `Get` returns: key, value, expiry and timestamp are
    exactly the stored ones, in every reachable store state. -/
theorem C17_put_get (k : KV) (w : k.WF) (h : Nat) (r : Rec) (now now' : Int)
    (hok : (k.put h r now).2 = .ok) :
    ((k.put h r now).1.get h now').1 = some { r with la := now } := by
  obtain ⟨pw, _, _, pok, _⟩ := put_spec k w h r now
  rw [(get_spec _ pw h now').1, pok hok h]; simp

/-- **C17 (limits).**  A key of 256 bytes or more, and an entry that does not fit a table, are
    refused with the documented errors and leave every key of the store as it was (nothing truncated,
    no neighbour touched); everything smaller is accepted. -/
theorem C17_limits (k : KV) (w : k.WF) (h : Nat) (r : Rec) (now : Int) :
    ((k.put h r now).2 = .entryTooLarge ↔ r.size ≥ k.tableSize) ∧
    ((k.put h r now).2 = .keyTooLarge ↔ (r.size < k.tableSize ∧ r.key.length ≥ 256)) ∧
    ((k.put h r now).2 = .ok ↔ (r.size < k.tableSize ∧ r.key.length < 256)) ∧
    ((k.put h r now).2 ≠ .ok → ∀ h', (k.put h r now).1.lookup h' = k.lookup h') := by
  obtain ⟨pnd, pbig, pkey, perr⟩ := C11.C11_errors k w h r now
  refine ⟨pbig, pkey, ?_, perr⟩
  constructor
  · intro hok
    constructor
    · cases Nat.lt_or_ge r.size k.tableSize with
      | inl h => exact h
      | inr h => rw [pbig.mpr h] at hok; cases hok
    · cases Nat.lt_or_ge r.key.length 256 with
      | inl h => exact h
      | inr h =>
        cases Nat.lt_or_ge r.size k.tableSize with
        | inl h' => rw [pkey.mpr ⟨h', h⟩] at hok; cases hok
        | inr h' => rw [pbig.mpr h'] at hok; cases hok
  · intro ⟨a, b⟩
    cases hr : (k.put h r now).2 with
    | ok => rfl
    | entryTooLarge => have := pbig.mp hr; omega
    | keyTooLarge => have := (pkey.mp hr).2; omega
    | diverge => exact absurd hr pnd

/-- **C17 (migration).**  A record that travels inside an exported table arrives unchanged when the
    destination has no copy of the key. -/
theorem C17_migration (src src' dst : KV) (t : Table) (ws : src.WF) (wd : dst.WF)
    (hT : dst.tableSize = src.tableSize) (he : src.exportDrop = some (t, src'))
    (order : List Nat) (now : Int) (hnd : order.Nodup) (hcov : ∀ s ∈ t.slots, s.hk ∈ order)
    (h : Nat) (s : Slot) (hs : t.find h = some s) (hnone : dst.lookup h = none) :
    ((dst.importTable t order now).lookup h).map Rec.core = some s.r.core := by
  obtain ⟨_, _, hx, _⟩ := C11.C11_transfer src src' dst t ws wd hT he order now hnd hcov
  rw [(hx h s hs).2.2, hnone]; rfl

/-! Non-vacuity: a record with binary key and value bytes, extreme stamps -/
def sample : Rec := { key := [0, 13, 10, 255], ttl := 2 ^ 63 - 1, ts := -(2 ^ 63), la := 0, val := [0, 0, 13, 10] }
example : sample.Enc := by simp [Rec.Enc, sample]
example : decodeRec (encodeRec sample) = some sample := C17_layout_roundtrip sample (by simp [Rec.Enc, sample])
example : parseInt 8 (fmtInt 128) = .error .range := by rw [C17_int_roundtrip]; simp
example : parseInt 8 (fmtInt (-128)) = .ok (-128) := by rw [C17_int_roundtrip]; simp

end Olric.C17
