/-
  C11 — The storage engine behaves as a map under compaction and table transfer.

  Only property statements live here; helper lemmas are in OlricModel/Proofs.  Everything is about
  the executable model OlricModel/Store/Model.lean, which the `kv` correspondence stream ties to
  internal/kvstore on every run.
-/
import OlricModel.Proofs.KVXfer
import OlricModel.Proofs.KVTerm
import OlricModel.Generated.Facts
namespace Olric.C11
open Olric KV

/-- the abstract map: hkey ↦ (key, ttl, timestamp, value) -/
abbrev Map := Nat → Option Core

def upd (m : Map) (h : Nat) (v : Option Core) : Map := fun x => if x = h then v else m x

/-- operations of one store, with every argument the code takes (clock and Go's map-iteration
    order included as explicit inputs) -/
inductive Op
  | put (h : Nat) (r : Rec) (now : Int)
  | putRaw (h : Nat) (r : Rec)
  | get (h : Nat) (now : Int)
  | del (h : Nat)
  | ttl (h : Nat) (ttl ts now : Int)
  | compact (now : Int) (order : List Nat)

/-- what the caller observes -/
inductive Out
  | res (r : Res)
  | val (v : Option Core)
  | found (b : Bool)
  | done (b : Bool)
  deriving DecidableEq

/-- raw entries are byte strings produced by Entry.Encode: their key length fits one byte -/
def Op.ok : Op → Prop
  | .putRaw _ r => r.key.length < 256
  | _ => True

def step (k : KV) : Op → KV × Out
  | .put h r now => let x := k.put h r now; (x.1, .res x.2)
  | .putRaw h r => let x := k.putRaw h r; (x.1, .res x.2)
  | .get h now => let x := k.get h now; (x.2, .val (x.1.map Rec.core))
  | .del h => (k.delete h, .res .ok)
  | .ttl h ttl ts now => let x := k.updateTTL h ttl ts now; (x.1, .found x.2)
  | .compact now order => let x := k.compaction now order; (x.1, .done x.2)

/-- the specification: a plain map.  `T` is the table size (entries of T bytes or more are refused). -/
def specStep (T : Nat) (m : Map) : Op → Map
  | .put h r _ => if r.size ≥ T ∨ r.key.length ≥ 256 then m else upd m h (some r.core)
  | .putRaw h r => if r.size ≥ T then m else upd m h (some r.core)
  | .get _ _ => m
  | .del h => upd m h none
  | .ttl h ttl ts _ => upd m h ((m h).map (fun c => { c with ttl := ttl, ts := ts }))
  | .compact _ _ => m

def specOut (T : Nat) (m : Map) : Op → Out → Prop
  | .put _ r _, o => o = .res (if r.size ≥ T then .entryTooLarge else if r.key.length ≥ 256 then .keyTooLarge else .ok)
  | .putRaw _ r, o => o = .res (if r.size ≥ T then .entryTooLarge else .ok)
  | .get h _, o => o = .val (m h)
  | .del _, o => o = .res .ok
  | .ttl h _ _ _, o => o = .found (m h).isSome
  | .compact _ _, o => ∃ b, o = .done b          -- contents never depend on it

/-- One step: the invariant is kept, the abstract contents change exactly as the map says, and the
    caller sees exactly what the map would answer.  In particular `Put` never diverges (the Go retry
    loop terminates) and compaction never changes the contents. -/
theorem C11_step (k : KV) (w : k.WF) (op : Op) (hop : op.ok) :
    (step k op).1.WF ∧ (step k op).1.tableSize = k.tableSize ∧
    (∀ h, (step k op).1.absV h = specStep k.tableSize k.absV op h) ∧
    specOut k.tableSize k.absV op (step k op).2 := by
  cases op with
  | put h r now =>
    obtain ⟨pw, pnd, ps, pok, perr, pbig, pkey⟩ := put_spec k w h r now
    refine ⟨pw, ps, ?_, ?_⟩
    · intro x
      simp only [step, specStep, absV]
      by_cases hb : r.size ≥ k.tableSize
      · have := pbig.mpr hb
        rw [perr (by rw [this]; simp) x]; simp [hb, absV]
      · by_cases hk : r.key.length ≥ 256
        · have := pkey.mpr ⟨by omega, hk⟩
          rw [perr (by rw [this]; simp) x]; simp [hk, absV]
        · have hok : (k.put h r now).2 = .ok := by
            cases hr : (k.put h r now).2 with
            | ok => rfl
            | entryTooLarge => exact absurd (pbig.mp hr) hb
            | keyTooLarge => exact absurd (pkey.mp hr).2 hk
            | diverge => exact absurd hr pnd
          rw [pok hok x]
          simp only [hb, hk, or_self, if_false, upd]
          by_cases e : x = h <;> simp [e, Rec.core, absV]
    · simp only [step, specOut]
      by_cases hb : r.size ≥ k.tableSize
      · simp [hb, pbig.mpr hb]
      · by_cases hk : r.key.length ≥ 256
        · simp [hb, hk, pkey.mpr ⟨by omega, hk⟩]
        · cases hr : (k.put h r now).2 with
          | ok => simp [hb, hk]
          | entryTooLarge => exact absurd (pbig.mp hr) hb
          | keyTooLarge => exact absurd (pkey.mp hr).2 hk
          | diverge => exact absurd hr pnd
  | putRaw h r =>
    obtain ⟨pw, pnd, ps, pok, perr, pbig, pokiff⟩ := putRaw_spec k w h r hop
    refine ⟨pw, ps, ?_, ?_⟩
    · intro x
      simp only [step, specStep, absV]
      by_cases hb : r.size ≥ k.tableSize
      · have := pbig.mpr hb
        rw [perr (by rw [this]; simp) x]; simp [hb, absV]
      · have hok := pokiff.mpr (by omega)
        rw [pok hok x]
        simp only [hb, if_false, upd]
        by_cases e : x = h <;> simp [e, absV]
    · simp only [step, specOut]
      by_cases hb : r.size ≥ k.tableSize
      · simp [hb, pbig.mpr hb]
      · simp [hb, pokiff.mpr (by omega)]
  | get h now =>
    obtain ⟨g1, gw, gs, gl⟩ := get_spec k w h now
    refine ⟨gw, gs, ?_, ?_⟩
    · intro x
      simp only [step, specStep, absV, gl x]
      by_cases e : x = h
      · subst e; cases k.lookup x <;> simp [Rec.core]
      · simp [e]
    · simp only [step, specOut, g1, absV]
  | del h =>
    obtain ⟨dw, ds, dl⟩ := delete_spec k w h
    refine ⟨dw, ds, ?_, rfl⟩
    intro x
    simp only [step, specStep, absV, dl x, upd]
    by_cases e : x = h <;> simp [e]
  | ttl h ttl ts now =>
    obtain ⟨u1, uw, us, ul⟩ := updateTTL_spec k w h ttl ts now
    refine ⟨uw, us, ?_, ?_⟩
    · intro x
      simp only [step, specStep, absV, ul x, upd]
      by_cases e : x = h
      · subst e; cases k.lookup x <;> simp [Rec.core]
      · simp [e]
    · simp only [step, specOut, u1, absV]
      cases k.lookup h <;> simp
  | compact now order =>
    obtain ⟨cw, cs, ca⟩ := compaction_spec k w now order
    exact ⟨cw, cs, fun x => by simp only [step, specStep]; exact ca x, ⟨_, rfl⟩⟩

def run (k : KV) : List Op → KV × List Out
  | [] => (k, [])
  | op :: ops => let x := step k op; let y := run x.1 ops; (y.1, x.2 :: y.2)

def specRun (T : Nat) (m : Map) : List Op → Map
  | [] => m
  | op :: ops => specRun T (specStep T m op) ops

/-- the observations of a run agree with the map specification, one by one -/
def specOuts (T : Nat) (m : Map) : List Op → List Out → Prop
  | [], [] => True
  | op :: ops, o :: os => specOut T m op o ∧ specOuts T (specStep T m op) ops os
  | _, _ => False

theorem specOut_congr (T : Nat) (m m' : Map) (hm : ∀ h, m h = m' h) (op : Op) (o : Out) :
    specOut T m op o → specOut T m' op o := by
  cases op <;> simp only [specOut, hm] <;> exact id

theorem specStep_congr (T : Nat) (m m' : Map) (hm : ∀ h, m h = m' h) (op : Op) :
    ∀ h, specStep T m op h = specStep T m' op h := by
  intro h
  cases op <;> simp only [specStep] <;> (try split) <;> simp [upd, hm]

theorem specRun_congr (T : Nat) (ops : List Op) (m m' : Map) (hm : ∀ h, m h = m' h) :
    ∀ h, specRun T m ops h = specRun T m' ops h := by
  induction ops generalizing m m' with
  | nil => exact hm
  | cons op ops ih => exact ih _ _ (specStep_congr T m m' hm op)

theorem specOuts_congr (T : Nat) (ops : List Op) (os : List Out) (m m' : Map) (hm : ∀ h, m h = m' h) :
    specOuts T m ops os → specOuts T m' ops os := by
  induction ops generalizing m m' os with
  | nil => cases os <;> exact id
  | cons op ops ih =>
    cases os with
    | nil => exact id
    | cons o os =>
      intro ⟨a, b⟩
      exact ⟨specOut_congr T m m' hm op o a, ih os _ _ (specStep_congr T m m' hm op) b⟩

/-- **C11 (refinement).**  For every operation sequence, of any length, with inserts, raw inserts,
    reads, deletes, expiry updates and compaction steps interleaved in any way and with any entry
    sizes: the store stays well-formed (in particular a key has at most one live version), every
    answer is the answer of a plain map, and the final contents are those of the plain map. -/
theorem C11_refines (ops : List Op) (hok : ∀ op ∈ ops, op.ok) (k : KV) (w : k.WF) :
    (run k ops).1.WF ∧
    (∀ h, (run k ops).1.absV h = specRun k.tableSize k.absV ops h) ∧
    specOuts k.tableSize k.absV ops (run k ops).2 := by
  induction ops generalizing k with
  | nil => exact ⟨w, fun _ => rfl, trivial⟩
  | cons op ops ih =>
    obtain ⟨w1, s1, a1, o1⟩ := C11_step k w op (hok op List.mem_cons_self)
    obtain ⟨w2, a2, o2⟩ := ih (fun x hx => hok x (List.mem_cons_of_mem _ hx)) (step k op).1 w1
    refine ⟨w2, ?_, ?_⟩
    · intro h
      simp only [run, specRun]
      rw [a2 h, s1]
      exact specRun_congr _ ops _ _ a1 h
    · simp only [run, specOuts]
      refine ⟨o1, ?_⟩
      rw [s1] at o2
      exact specOuts_congr _ ops _ _ _ a1 o2

/-- the same from a freshly forked fragment store: the map starts empty -/
theorem C11_refines_fork (size : Nat) (idle : Int) (ops : List Op) (hok : ∀ op ∈ ops, op.ok) :
    (run (KV.fork size idle) ops).1.WF ∧
    (∀ h, (run (KV.fork size idle) ops).1.absV h = specRun size (fun _ => none) ops h) ∧
    specOuts size (fun _ => none) ops (run (KV.fork size idle) ops).2 := by
  obtain ⟨a, b, c⟩ := C11_refines ops hok (KV.fork size idle) (fork_wf size idle)
  have h0 : ∀ h, (KV.fork size idle).absV h = (fun _ => none : Map) h := by
    intro h; simp [absV, lookup, newestFirst, fork, findIn, Table.find, Table.new]
  refine ⟨a, fun h => ?_, ?_⟩
  · rw [b h]; exact specRun_congr _ ops _ _ h0 h
  · exact specOuts_congr _ ops _ _ _ h0 c

/-- **C11 (count and iteration).**  In every reachable state `Stats.Length` is the number of present
    keys and `Range` visits each present key exactly once with its stored record. -/
theorem C11_length_range (k : KV) (w : k.WF) :
    k.stats.length = k.rangeAll.length ∧ (k.rangeAll.map (·.1)).Nodup ∧
    ∀ h r, (h, r) ∈ k.rangeAll ↔ k.lookup h = some r :=
  ⟨stats_length k w, (rangeAll_spec k w).1, (rangeAll_spec k w).2⟩

/-- **C11 (errors).**  The only failures of an insert are the two documented ones, decided by sizes
    alone, and a failed insert changes nothing; `Put` always returns (no table-allocation loop). -/
theorem C11_errors (k : KV) (w : k.WF) (h : Nat) (r : Rec) (now : Int) :
    (k.put h r now).2 ≠ .diverge ∧
    ((k.put h r now).2 = .entryTooLarge ↔ r.size ≥ k.tableSize) ∧
    ((k.put h r now).2 = .keyTooLarge ↔ (r.size < k.tableSize ∧ r.key.length ≥ 256)) ∧
    ((k.put h r now).2 ≠ .ok → ∀ h', (k.put h r now).1.lookup h' = k.lookup h') := by
  obtain ⟨_, pnd, _, _, perr, pbig, pkey⟩ := put_spec k w h r now
  exact ⟨pnd, pbig, pkey, perr⟩

/-- **C11 (transfer).**  Export+Drop removes from the source exactly the keys of one table; Import
    gives each of them, in the destination, the last-write-wins winner of the destination's and the
    incoming version (incoming wins ties), and touches no other key.  Holds for every Range order
    that lists each exported key once. -/
theorem C11_transfer (src src' dst : KV) (t : Table) (ws : src.WF) (wd : dst.WF)
    (hT : dst.tableSize = src.tableSize) (he : src.exportDrop = some (t, src'))
    (order : List Nat) (now : Int) (hnd : order.Nodup) (hcov : ∀ s ∈ t.slots, s.hk ∈ order) :
    let dst' := dst.importTable t order now
    src'.WF ∧ dst'.WF ∧
    (∀ h s, t.find h = some s →
        src.lookup h = some s.r ∧ src'.lookup h = none ∧ dst'.lookup h = lww (dst.lookup h) s.r now) ∧
    (∀ h, t.find h = none → src'.lookup h = src.lookup h ∧ dst'.lookup h = dst.lookup h) := by
  intro dst'
  obtain ⟨w', _, htm, e1, e2⟩ := exportDrop_spec src src' t ws he
  have hslots : ∀ s ∈ order.filterMap t.find, s ∈ t.slots ∧ t.find s.hk = some s := by
    intro s hs
    rw [List.mem_filterMap] at hs
    obtain ⟨h0, _, hf⟩ := hs
    have := Table.find_hk t h0 s hf
    exact ⟨List.mem_of_find?_eq_some hf, by rw [this]; exact hf⟩
  have hfit : ∀ s ∈ order.filterMap t.find, s.r.size < dst.tableSize ∧ s.r.key.length < 256 := by
    intro s hs; rw [hT]; exact ws.fits t htm s (hslots s hs).1
  have hnodup : ((order.filterMap t.find).map (·.hk)).Nodup := by
    have : (order.filterMap t.find).map (·.hk) = order.filter (fun h => (t.find h).isSome) := by
      clear hfit hslots hcov hnd
      induction order with
      | nil => rfl
      | cons a l ih =>
        simp only [List.filterMap_cons, List.filter_cons]
        cases hf : t.find a with
        | none => simpa using ih
        | some s => simp [ih, Table.find_hk t a s hf]
    rw [this]; exact hnd.filter _
  obtain ⟨wd', _, lother⟩ := importTable_spec (order.filterMap t.find) dst wd now hfit
  refine ⟨w', wd', ?_, ?_⟩
  · intro h s hs
    obtain ⟨a, b⟩ := e1 h s hs
    refine ⟨a, b, ?_⟩
    have hmem : s ∈ order.filterMap t.find := by
      rw [List.mem_filterMap]
      have hk := Table.find_hk t h s hs
      exact ⟨h, by rw [← hk]; exact hcov s (List.mem_of_find?_eq_some hs), hs⟩
    have := importTable_key (order.filterMap t.find) dst wd now hfit hnodup s hmem
    rw [Table.find_hk t h s hs] at this
    exact this
  · intro h hn
    refine ⟨e2 h hn, lother h ?_⟩
    intro s hs e
    have := (hslots s hs).2
    rw [e, hn] at this; cases this

/-- **C11 (compaction completes).**  From every reachable store (any table size > 0), calling
    `Compaction` again and again — whatever order Go's map iteration hands to each call (`ord`, any
    enumeration of the drained table's keys without repetition) and whatever the clock reads — answers
    `done` within `2·(stored records) + (retired tables) + 3` calls; the store it leaves has the same
    contents, keeps the invariant, and has no garbage-heavy table behind the head.  The bound comes from
    the measure `KV.mu` (Proofs/KVTerm.lean), which every not-done call strictly lowers
    (`KV.compaction_mu`): every record moved leaves a table that carries garbage for the head, and
    when the head fills up the tables that replace it carry none. -/
theorem C11_compaction_terminates (ord : KV → List Nat) (now : Nat → Int)
    (hord : ∀ k : KV, k.WF → KV.ValidOrder k (ord k)) (k : KV) (w : k.WF) (hts : 0 < k.tableSize) :
    let n := 2 * k.stats.length + k.old.length + 3
    (KV.compactLoop ord now n k).2 = true ∧ (KV.compactLoop ord now n k).1.WF ∧
    (∀ h, (KV.compactLoop ord now n k).1.absV h = k.absV h) ∧
    (∀ t ∈ (KV.compactLoop ord now n k).1.old, needsCompaction t = false) := by
  intro n
  have hb := KV.mu_le k
  obtain ⟨a, b, _, d, e⟩ := KV.compactLoop_terminates ord now hord n k w hts (by omega)
  exact ⟨a, b, d, e⟩

/-- one call that is not the last one makes progress on the measure -/
theorem C11_compaction_progress (k : KV) (w : k.WF) (hts : 0 < k.tableSize) (now : Int) (order : List Nat)
    (hv : KV.ValidOrder k order) (hnd : (k.compaction now order).2 = false) :
    KV.mu (k.compaction now order).1 < KV.mu k := by
  have := KV.compaction_mu k w hts now order hv hnd; omega

/-- the hypothesis on `ord` is met by the table's own key list (what `Range` enumerates) -/
theorem C11_range_order_valid (k : KV) (w : k.WF) : KV.ValidOrder k (KV.rangeOrder k) := KV.rangeOrder_valid k w

/-- **Tie to the source (regenerated on every run).**  The constants and code shapes the model encodes
    are the ones the extractor finds in internal/kvstore today: record overhead 29, key limit 256,
    garbage ratio 2/5, Put/PutRaw delete the superseded slot, Compaction skips the read-write table,
    the sweep does not unregister by the (reset) coefficient. -/
theorem facts_tie :
    (∀ r : Rec, r.size = Facts.metadataLength + r.key.length + r.val.length) ∧
    Facts.maxKeyLength = 256 ∧
    (∀ t : Table, needsCompaction t = ((Facts.compaction_takes_tables_without_live_entries && t.inuse == 0 && decide (t.garbage > 0)) ||
        decide (t.garbage * Facts.maxGarbageRatioDen ≥ t.alloc * Facts.maxGarbageRatioNum))) ∧
    Facts.table_put_deletes_existing = true ∧ Facts.table_putraw_deletes_existing = true ∧
    Facts.compaction_skips_readwrite = true ∧ Facts.sweep_unregisters_by_coefficient = false ∧
    Facts.table_pack_is_checked_before_a_table_is_built = true := by
  refine ⟨fun r => by simp [Rec.size, Facts.metadataLength], rfl, ?_, rfl, rfl, rfl, rfl, rfl⟩
  intro t
  simp only [needsCompaction, Facts.maxGarbageRatioDen, Facts.maxGarbageRatioNum,
    Facts.compaction_takes_tables_without_live_entries, Bool.true_and]
  congr 2
  apply propext
  constructor <;> intro h <;> omega

/-! Non-vacuity: the hypotheses are met by concrete, non-trivial stores. -/

def recA : Rec := { key := [97], ttl := 0, ts := 5, la := 0, val := [1, 2, 3] }
def recB : Rec := { key := [98], ttl := 9, ts := 7, la := 0, val := List.replicate 150 7 }

/-- a 256-byte-table store after inserts that spill into a second table, an overwrite across
    tables, a delete and a compaction step -/
def demoOps : List Op :=
  [.put 1 recA 10, .put 2 recB 11, .put 3 recB 12, .put 2 recA 13, .del 3, .compact 14 [2, 3], .get 2 15]

theorem demoOps_ok : ∀ op ∈ demoOps, op.ok := by
  intro op hop
  simp only [demoOps, List.mem_cons, List.mem_nil_iff, or_false] at hop
  rcases hop with rfl | rfl | rfl | rfl | rfl | rfl | rfl <;> trivial

example : (run (KV.fork 256 1000) demoOps).1.WF := (C11_refines_fork 256 1000 demoOps demoOps_ok).1
set_option maxRecDepth 100000 in
example : ((run (KV.fork 256 1000) demoOps).1.tables.length = 2) := by decide
set_option maxRecDepth 100000 in
example : (run (KV.fork 256 1000) demoOps).2.getLast? = some (.val (some recA.core)) := by decide

/-- a store with a garbage-heavy retired table: three inserts spill into a second table, then two
    overwrites turn most of the first table into garbage.  The loop needs two calls (one drains the
    table, the second answers done) and keeps the contents. -/
def dirtyOps : List Op :=
  [.put 1 recB 10, .put 2 recA 11, .put 3 recB 12, .put 1 recA 13]
set_option maxRecDepth 100000 in
example : KV.mu (run (KV.fork 256 1000) dirtyOps).1 = 2 := by decide
set_option maxRecDepth 100000 in
example : (KV.compactLoop KV.rangeOrder (fun _ => 20) 1 (run (KV.fork 256 1000) dirtyOps).1).2 = false := by decide
set_option maxRecDepth 100000 in
example : (KV.compactLoop KV.rangeOrder (fun _ => 20) 2 (run (KV.fork 256 1000) dirtyOps).1).2 = true := by decide

end Olric.C11
