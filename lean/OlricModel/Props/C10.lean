/-
  C10 — Eviction keeps a DMap within its configured bounds without harming fresh keys.
  Statements about DMap/Evict.lean.  The random choices of the code (which entries the LRU sampling
  picks, which entries a background scan visits) are universally quantified inputs.
-/
import OlricModel.Props.C08
import OlricModel.DMap.Evict
import OlricModel.Generated.Facts
namespace Olric.C10
open Olric Olric.DMap Olric.C04 Olric.C09 Olric.C08

/-! ### counting over the keys of a partition -/

theorem filter_update_len (univ : List Key) (hnd : univ.Nodup) (k : Key) (hk : k ∈ univ) (p q : Key → Bool)
    (hsame : ∀ x, x ≠ k → q x = p x) :
    (univ.filter q).length + (if p k then 1 else 0) = (univ.filter p).length + (if q k then 1 else 0) := by
  induction univ with
  | nil => cases hk
  | cons a l ih =>
    obtain ⟨hnotin, hnd'⟩ := List.nodup_cons.mp hnd
    by_cases ha : a = k
    · subst ha
      have hl : l.filter q = l.filter p := by
        apply List.filter_congr
        intro x hx
        exact hsame x (fun e => hnotin (e ▸ hx))
      simp only [List.filter_cons, hl]
      cases p a <;> cases q a <;> simp
    · have hkl : k ∈ l := by
        rcases List.mem_cons.mp hk with h | h
        · exact absurd h.symm ha
        · exact h
      have := ih hnd' hkl
      simp only [List.filter_cons, hsame a ha]
      cases p a <;> simp <;> omega

theorem sum_update (univ : List Key) (hnd : univ.Nodup) (k : Key) (hk : k ∈ univ) (w w' : Key → Nat)
    (hsame : ∀ x, x ≠ k → w' x = w x) :
    (univ.map w').sum + w k = (univ.map w).sum + w' k := by
  induction univ with
  | nil => cases hk
  | cons a l ih =>
    obtain ⟨hnotin, hnd'⟩ := List.nodup_cons.mp hnd
    by_cases ha : a = k
    · subst ha
      have hl : l.map w' = l.map w := by
        apply List.map_congr_left
        intro x hx
        exact hsame x (fun e => hnotin (e ▸ hx))
      simp only [List.map_cons, List.sum_cons, hl]
      omega
    · have hkl : k ∈ l := by
        rcases List.mem_cons.mp hk with h | h
        · exact absurd h.symm ha
        · exact h
      have := ih hnd' hkl
      simp only [List.map_cons, List.sum_cons, hsame a ha]
      omega

/-! ### what a delete and a write do to the owner's primary entries -/

theorem copy_owner_del (cfg : Cfg) (r : Route) (c : Cluster) (dm : Bytes) (v x : Key) :
    (del cfg r c dm v).copy r.owner .prim dm x = if x = v then none else c.copy r.owner .prim dm x := by
  rw [copy_del]
  by_cases h : x = v
  · simp [h]
  · simp [h]

theorem copy_owner_replicate (cfg : Cfg) (r : Route) (reach : Reach) (c : Cluster) (dm : Bytes) (k x : Key) (e : Copy) :
    (replicate cfg r reach c dm k e).1.copy r.owner .prim dm x = if x = k then some e else c.copy r.owner .prim dm x := by
  rw [copy_replicate]
  by_cases h : x = k
  · simp [h]
  · simp [h]

theorem fragLen_del (cfg : Cfg) (r : Route) (c : Cluster) (dm : Bytes) (univ : List Key) (hnd : univ.Nodup) (v : Key)
    (hv : v ∈ univ) (hp : present c r.owner dm v = true) :
    fragLen (del cfg r c dm v) r.owner dm univ + 1 = fragLen c r.owner dm univ := by
  have := filter_update_len univ hnd v hv (present c r.owner dm) (present (del cfg r c dm v) r.owner dm)
    (fun x hx => by simp [present, copy_owner_del, hx])
  have hq : present (del cfg r c dm v) r.owner dm v = false := by simp [present, copy_owner_del]
  simp only [hp, hq, if_true, Bool.false_eq_true, if_false] at this
  unfold fragLen; omega

theorem fragLen_replicate (cfg : Cfg) (r : Route) (reach : Reach) (c : Cluster) (dm : Bytes) (univ : List Key) (hnd : univ.Nodup)
    (k : Key) (hk : k ∈ univ) (e : Copy) :
    fragLen (replicate cfg r reach c dm k e).1 r.owner dm univ =
      fragLen c r.owner dm univ + (if present c r.owner dm k then 0 else 1) := by
  have := filter_update_len univ hnd k hk (present c r.owner dm) (present (replicate cfg r reach c dm k e).1 r.owner dm)
    (fun x hx => by simp [present, copy_owner_replicate, hx])
  have hq : present (replicate cfg r reach c dm k e).1 r.owner dm k = true := by simp [present, copy_owner_replicate]
  simp only [hq, if_true] at this
  unfold fragLen
  cases hp : present c r.owner dm k <;> simp [hp] at this ⊢ <;> omega

/-- one eviction: an empty fragment stays as it is, otherwise exactly one entry goes -/
theorem evictOne_len (cfg : Cfg) (r : Route) (c : Cluster) (dm : Bytes) (univ : List Key) (hnd : univ.Nodup)
    (victims : List Key) (c1 : Cluster) (vs : List Key) (h : evictOne cfg r c dm univ victims = some (c1, vs)) :
    (fragLen c r.owner dm univ = 0 → c1 = c) ∧
    (fragLen c r.owner dm univ > 0 → fragLen c1 r.owner dm univ + 1 = fragLen c r.owner dm univ) := by
  unfold evictOne at h
  split at h
  · rename_i h0
    injection h with h; injection h with h1 _
    exact ⟨fun _ => h1.symm, fun hpos => by omega⟩
  · rename_i hne
    cases victims with
    | nil => cases h
    | cons v rest =>
      simp only at h
      split at h
      · rename_i hv
        simp only [Bool.and_eq_true, List.contains_eq_mem, decide_eq_true_eq] at hv
        injection h with h; injection h with h1 _
        subst h1
        exact ⟨fun h0 => absurd h0 hne, fun _ => fragLen_del cfg r c dm univ hnd v hv.2 hv.1⟩
      · cases h

/-! ## MaxKeys -/

/-- the share of one primary fragment: MaxKeys divided among the partitions the member owns, at least one -/
def share (maxKeys owned : Nat) : Nat := max 1 (maxKeys / owned)

/-- **C10 (MaxKeys, one Put).**  Whatever the sampling evicts: a fragment within its share stays within
    its share after any Put (plain, NX, XX, any expiry option, new key or overwrite). -/
theorem C10_maxkeys_step (ecfg : EvCfg) (owned : Nat) (cfg : Cfg) (r : Route) (reach : Reach) (c : Cluster) (dm : Bytes)
    (univ : List Key) (hnd : univ.Nodup) (k : Key) (hk : k ∈ univ) (v : Bytes) (pc : PutCfg) (now : Int) (victims : List Key)
    (hlru : ecfg.lru = true) (hown : owned > 0) (hmk : ecfg.maxKeys > 0)
    (hb : fragLen c r.owner dm univ ≤ share ecfg.maxKeys owned)
    (c' : Cluster) (res : Res)
    (h : lruPut ecfg owned cfg r reach c dm univ k v pc now victims = some (c', res)) :
    fragLen c' r.owner dm univ ≤ share ecfg.maxKeys owned := by
  simp only [lruPut] at h
  by_cases hnx : (pc.nx && (live (c.copy r.owner Kind.prim dm k) now).isSome) = true
  · simp only [hnx, if_true] at h; injection h with h; injection h with h1 _; rw [← h1]; exact hb
  · simp only [hnx, if_false] at h
    by_cases hxx : (pc.xx && (live (c.copy r.owner Kind.prim dm k) now).isNone) = true
    · simp only [hxx, if_true] at h; injection h with h; injection h with h1 _; rw [← h1]; exact hb
    · simp only [hxx, if_false] at h
      have hne : (!ecfg.lru || decide (owned = 0)) = false := by simp [hlru]; omega
      simp only [hne, Bool.false_eq_true, if_false] at h
      generalize he : (⟨v, prepareTTL pc.ttl cfg.dmTTL now, now⟩ : Copy) = e at h
      -- first limit
      cases hkf : keysFull ecfg owned (fragLen c r.owner dm univ) with
      | true =>
        simp only [hkf, if_true] at h
        have hfull : fragLen c r.owner dm univ > 0 ∧ fragLen c r.owner dm univ ≥ ecfg.maxKeys / owned := by
          simp only [keysFull, Bool.and_eq_true, decide_eq_true_eq] at hkf; exact ⟨hkf.1.2, hkf.2⟩
        cases h1 : evictOne cfg r c dm univ victims with
        | none => simp [h1] at h
        | some p1 =>
          obtain ⟨c1, vs1⟩ := p1
          simp only [h1] at h
          have hl1 := (evictOne_len cfg r c dm univ hnd victims c1 vs1 h1).2 hfull.1
          -- second limit
          have hl2 : ∀ c2 x, (if inuseFull ecfg owned (fragInuse c r.owner dm univ) = true then evictOne cfg r c1 dm univ vs1 else some (c1, vs1)) = some (c2, x) →
              fragLen c2 r.owner dm univ ≤ fragLen c1 r.owner dm univ := by
            intro c2 x hh
            split at hh
            · obtain ⟨a1, a2⟩ := evictOne_len cfg r c1 dm univ hnd vs1 c2 x hh
              by_cases h0 : fragLen c1 r.owner dm univ = 0
              · rw [a1 h0]; omega
              · have := a2 (by omega); omega
            · injection hh with hh; injection hh with hh1 _; rw [hh1]; omega
          cases h2 : (if inuseFull ecfg owned (fragInuse c r.owner dm univ) = true then evictOne cfg r c1 dm univ vs1 else some (c1, vs1)) with
          | none => simp [h2] at h
          | some p2 =>
            obtain ⟨c2, x⟩ := p2
            simp only [h2] at h
            injection h with h
            have hc : (replicate cfg r reach c2 dm k e).1 = c' := by rw [h]
            rw [← hc, fragLen_replicate cfg r reach c2 dm univ hnd k hk e]
            have := hl2 c2 x h2
            split <;> omega
      | false =>
        simp only [hkf, Bool.false_eq_true, if_false] at h
        have hroom : fragLen c r.owner dm univ + 1 ≤ share ecfg.maxKeys owned := by
          simp only [keysFull, Bool.and_eq_false_iff, decide_eq_false_iff_not] at hkf
          unfold share
          rcases hkf with (hh | hh) | hh
          · omega
          · have : fragLen c r.owner dm univ = 0 := by omega
            omega
          · omega
        have hl2 : ∀ c2 x, (if inuseFull ecfg owned (fragInuse c r.owner dm univ) = true then evictOne cfg r c dm univ victims else some (c, victims)) = some (c2, x) →
            fragLen c2 r.owner dm univ ≤ fragLen c r.owner dm univ := by
          intro c2 x hh
          split at hh
          · obtain ⟨a1, a2⟩ := evictOne_len cfg r c dm univ hnd victims c2 x hh
            by_cases h0 : fragLen c r.owner dm univ = 0
            · rw [a1 h0]; omega
            · have := a2 (by omega); omega
          · injection hh with hh; injection hh with hh1 _; rw [hh1]; omega
        cases h2 : (if inuseFull ecfg owned (fragInuse c r.owner dm univ) = true then evictOne cfg r c dm univ victims else some (c, victims)) with
        | none => simp [h2] at h
        | some p2 =>
          obtain ⟨c2, x⟩ := p2
          simp only [h2] at h
          injection h with h
          have hc : (replicate cfg r reach c2 dm k e).1 = c' := by rw [h]
          rw [← hc, fragLen_replicate cfg r reach c2 dm univ hnd k hk e]
          have := hl2 c2 x h2
          split <;> omega

/-- a sequence of Puts on the keys of one partition, each with whatever the sampling evicted -/
def lruRun (ecfg : EvCfg) (owned : Nat) (cfg : Cfg) (r : Route) (reach : Reach) (dm : Bytes) (univ : List Key) :
    Cluster → List (Key × Bytes × PutCfg × Int × List Key) → Option Cluster
  | c, [] => some c
  | c, (k, v, pc, now, victims) :: rest =>
    match lruPut ecfg owned cfg r reach c dm univ k v pc now victims with
    | some (c', _) => lruRun ecfg owned cfg r reach dm univ c' rest
    | none => none

/-- **C10 (MaxKeys).**  After ANY sequence of Puts on the keys of a partition, with any eviction choices,
    the member's fragment holds at most its share of MaxKeys (at least one key). -/
theorem C10_maxkeys (ecfg : EvCfg) (owned : Nat) (cfg : Cfg) (r : Route) (reach : Reach) (dm : Bytes)
    (univ : List Key) (hnd : univ.Nodup) (hlru : ecfg.lru = true) (hown : owned > 0) (hmk : ecfg.maxKeys > 0)
    (ops : List (Key × Bytes × PutCfg × Int × List Key)) (hks : ∀ op ∈ ops, op.1 ∈ univ)
    (c c' : Cluster) (hb : fragLen c r.owner dm univ ≤ share ecfg.maxKeys owned)
    (h : lruRun ecfg owned cfg r reach dm univ c ops = some c') :
    fragLen c' r.owner dm univ ≤ share ecfg.maxKeys owned := by
  induction ops generalizing c with
  | nil => simp only [lruRun] at h; injection h with h; rw [← h]; exact hb
  | cons op rest ih =>
    obtain ⟨k, v, pc, now, victims⟩ := op
    simp only [lruRun] at h
    cases hp : lruPut ecfg owned cfg r reach c dm univ k v pc now victims with
    | none => simp [hp] at h
    | some p =>
      obtain ⟨c1, res⟩ := p
      simp only [hp] at h
      exact ih (fun op hop => hks op (List.mem_cons_of_mem _ hop)) c1
        (C10_maxkeys_step ecfg owned cfg r reach c dm univ hnd k (hks _ List.mem_cons_self) v pc now victims hlru hown hmk hb c1 res hp) h

/-- the empty fragment is within every share -/
theorem fragLen_empty (m : Nat) (dm : Bytes) (univ : List Key) : fragLen Cluster.empty m dm univ = 0 := by
  unfold fragLen
  rw [List.length_eq_zero_iff, List.filter_eq_nil_iff]
  intro x _; simp [present, Cluster.copy, Cluster.empty]

/-- **C10 (member-wide bound).**  Fragment lengths within their shares add up to at most
    `owned × share`; when MaxKeys is at least the number of owned partitions that is at most MaxKeys. -/
theorem C10_member_bound (maxKeys owned : Nat) (lens : List Nat) (hlen : lens.length ≤ owned)
    (hb : ∀ l ∈ lens, l ≤ share maxKeys owned) :
    lens.sum ≤ owned * share maxKeys owned ∧ (owned ≤ maxKeys → owned > 0 → owned * share maxKeys owned ≤ maxKeys) := by
  refine ⟨?_, ?_⟩
  · have : lens.sum ≤ lens.length * share maxKeys owned := by
      induction lens with
      | nil => simp
      | cons a l ih =>
        simp only [List.sum_cons, List.length_cons]
        have h1 := hb a List.mem_cons_self
        have h2 := ih (by simp at hlen; omega) (fun x hx => hb x (List.mem_cons_of_mem _ hx))
        rw [Nat.add_mul]; omega
    exact Nat.le_trans this (Nat.mul_le_mul_right _ hlen)
  · intro h1 h2
    have hq : maxKeys / owned ≥ 1 := (Nat.one_le_div_iff h2).mpr h1
    have : share maxKeys owned = maxKeys / owned := by unfold share; omega
    rw [this]; exact Nat.mul_div_le maxKeys owned

/-! ## Puts never fail; the key just written is there -/

/-- **C10 (no failure).**  A plain Put under the LRU policy in a healthy cluster has no failing outcome:
    whatever was evicted, the answer is OK … -/
theorem C10_put_ok (ecfg : EvCfg) (owned : Nat) (cfg : Cfg) (r : Route) (hh : Healthy cfg r) (c : Cluster) (dm : Bytes)
    (univ : List Key) (k : Key) (v : Bytes) (ttl : TTLOpt) (now : Int) (victims : List Key) (c' : Cluster) (res : Res)
    (h : lruPut ecfg owned cfg r allReach c dm univ k v { ttl := ttl } now victims = some (c', res)) :
    res = .ok ∧ c'.copy r.owner .prim dm k = some ⟨v, prepareTTL ttl cfg.dmTTL now, now⟩ := by
  simp only [lruPut, Bool.false_and, Bool.false_eq_true, if_false] at h
  have fin : ∀ c2, (replicate cfg r allReach c2 dm k ⟨v, prepareTTL ttl cfg.dmTTL now, now⟩) = (c', res) →
      res = .ok ∧ c'.copy r.owner .prim dm k = some ⟨v, prepareTTL ttl cfg.dmTTL now, now⟩ := by
    intro c2 hr
    obtain ⟨p1, p2, _⟩ := replicate_healthy cfg r hh c2 dm k ⟨v, prepareTTL ttl cfg.dmTTL now, now⟩
    rw [hr] at p1 p2
    exact ⟨p1, p2⟩
  split at h
  · injection h with h; exact fin c h
  · split at h
    · cases h
    · split at h
      · cases h
      · injection h with h; exact fin _ h

/-- … and there always is a possible run: the sampling finds a victim whenever the fragment is not empty -/
theorem evictOne_possible (cfg : Cfg) (r : Route) (c : Cluster) (dm : Bytes) (univ : List Key) :
    ∃ victims, (evictOne cfg r c dm univ victims).isSome = true := by
  unfold evictOne
  by_cases h0 : fragLen c r.owner dm univ = 0
  · exact ⟨[], by simp [h0]⟩
  · simp only [h0, if_false]
    have : (univ.filter (present c r.owner dm)) ≠ [] := by
      intro e; apply h0; unfold fragLen; rw [e]; rfl
    obtain ⟨v, hv⟩ := List.exists_mem_of_ne_nil _ this
    rw [List.mem_filter] at hv
    refine ⟨[v], ?_⟩
    simp [hv.2, hv.1]

/-- **C10 (fresh key readable).**  Right after its Put the key reads back, from a healthy cluster -/
theorem C10_just_written (ecfg : EvCfg) (owned : Nat) (cfg : Cfg) (r : Route) (hh : Healthy cfg r) (c : Cluster) (dm : Bytes)
    (univ : List Key) (k : Key) (v : Bytes) (now : Int) (victims : List Key) (c' : Cluster) (res : Res)
    (hd : cfg.dmTTL = 0)
    (h : lruPut ecfg owned cfg r allReach c dm univ k v {} now victims = some (c', res)) :
    ∀ later, ∃ w, (get cfg r allReach c' dm k later).2 = .val w ∧ w.val = v := by
  intro later
  -- the write is the last thing lruPut does: owner and backups hold the new entry
  have hfin : ∃ c2, replicate cfg r allReach c2 dm k ⟨v, prepareTTL TTLOpt.none cfg.dmTTL now, now⟩ = (c', res) := by
    simp only [lruPut, Bool.false_and, Bool.false_eq_true, if_false] at h
    split at h
    · injection h with h; exact ⟨c, h⟩
    · split at h
      · cases h
      · split at h
        · cases h
        · injection h with h; exact ⟨_, h⟩
  obtain ⟨c2, hr⟩ := hfin
  obtain ⟨_, p2, p3⟩ := replicate_healthy cfg r hh c2 dm k ⟨v, prepareTTL TTLOpt.none cfg.dmTTL now, now⟩
  rw [hr] at p2 p3
  simp only at p2 p3
  rw [get_healthy cfg r hh c' dm k later p3, p2]
  have : live (some (⟨v, prepareTTL TTLOpt.none cfg.dmTTL now, now⟩ : Copy)) later = some ⟨v, prepareTTL TTLOpt.none cfg.dmTTL now, now⟩ := by
    simp [live, prepareTTL, hd, expired]
  rw [this]
  exact ⟨_, rfl, rfl⟩

/-! ## MaxInuse with equally sized entries -/

/-- all present entries of the partition occupy `s` bytes -/
def EqualSize (c : Cluster) (m : Nat) (dm : Bytes) (univ : List Key) (s : Nat) : Prop :=
  ∀ x ∈ univ, present c m dm x = true → sizeOf? c m dm x = s

theorem inuse_eq (c : Cluster) (m : Nat) (dm : Bytes) (univ : List Key) (s : Nat) (h : EqualSize c m dm univ s) :
    fragInuse c m dm univ = s * fragLen c m dm univ := by
  unfold fragInuse fragLen
  induction univ with
  | nil => simp
  | cons a l ih =>
    have ih' := ih (fun x hx hp => h x (List.mem_cons_of_mem _ hx) hp)
    simp only [List.map_cons, List.sum_cons, List.filter_cons]
    cases hp : present c m dm a with
    | true =>
      have := h a List.mem_cons_self hp
      simp only [if_true, List.length_cons, this, ih']
      rw [Nat.mul_add]; omega
    | false =>
      have : sizeOf? c m dm a = 0 := by
        simp only [present] at hp
        simp only [sizeOf?]
        cases hc : c.copy m .prim dm a with
        | none => rfl
        | some y => simp [hc] at hp
      simp only [this, Bool.false_eq_true, if_false, ih']; omega

theorem equalSize_del (cfg : Cfg) (r : Route) (c : Cluster) (dm : Bytes) (univ : List Key) (s : Nat) (v : Key)
    (h : EqualSize c r.owner dm univ s) : EqualSize (del cfg r c dm v) r.owner dm univ s := by
  intro x hx hp
  simp only [present, sizeOf?, copy_owner_del] at hp ⊢
  by_cases e : x = v
  · simp [e] at hp
  · simp only [e, if_false] at hp ⊢
    exact h x hx hp

theorem equalSize_replicate (cfg : Cfg) (r : Route) (reach : Reach) (c : Cluster) (dm : Bytes) (univ : List Key) (s : Nat)
    (k : Key) (e : Copy) (hs : entrySize k e = s) (h : EqualSize c r.owner dm univ s) :
    EqualSize (replicate cfg r reach c dm k e).1 r.owner dm univ s := by
  intro x hx hp
  simp only [present, sizeOf?, copy_owner_replicate] at hp ⊢
  by_cases ek : x = k
  · simp [ek, hs]
  · simp only [ek, if_false] at hp ⊢
    exact h x hx hp

theorem evictOne_equalSize (cfg : Cfg) (r : Route) (c : Cluster) (dm : Bytes) (univ : List Key) (s : Nat)
    (victims : List Key) (c1 : Cluster) (vs : List Key) (h : evictOne cfg r c dm univ victims = some (c1, vs))
    (he : EqualSize c r.owner dm univ s) : EqualSize c1 r.owner dm univ s := by
  unfold evictOne at h
  split at h
  · injection h with h; injection h with h1 _; rw [← h1]; exact he
  · cases victims with
    | nil => cases h
    | cons v rest =>
      simp only at h
      split at h
      · injection h with h; injection h with h1 _; rw [← h1]; exact equalSize_del cfg r c dm univ s v he
      · cases h

/-- **C10 (MaxInuse, one Put).**  With entries of one size `s` (the new one included): if the fragment's
    bytes in use are within its share of MaxInuse plus one entry, they still are after any Put — and the
    entries still have one size. -/
theorem C10_maxinuse_step (ecfg : EvCfg) (owned : Nat) (cfg : Cfg) (r : Route) (reach : Reach) (c : Cluster) (dm : Bytes)
    (univ : List Key) (hnd : univ.Nodup) (k : Key) (hk : k ∈ univ) (v : Bytes) (pc : PutCfg) (now : Int) (victims : List Key)
    (hlru : ecfg.lru = true) (hown : owned > 0) (hmi : ecfg.maxInuse > 0) (s : Nat) (hspos : s > 0)
    (hs : entrySize k ⟨v, prepareTTL pc.ttl cfg.dmTTL now, now⟩ = s)
    (he : EqualSize c r.owner dm univ s)
    (hb : fragInuse c r.owner dm univ ≤ ecfg.maxInuse / owned + s)
    (c' : Cluster) (res : Res)
    (h : lruPut ecfg owned cfg r reach c dm univ k v pc now victims = some (c', res)) :
    fragInuse c' r.owner dm univ ≤ ecfg.maxInuse / owned + s ∧ EqualSize c' r.owner dm univ s := by
  simp only [lruPut] at h
  generalize hBb : ecfg.maxInuse / owned = Bb at hb ⊢
  by_cases hnx : (pc.nx && (live (c.copy r.owner Kind.prim dm k) now).isSome) = true
  · simp only [hnx, if_true] at h; injection h with h; injection h with h1 _; rw [← h1]; exact ⟨hb, he⟩
  · simp only [hnx, if_false] at h
    by_cases hxx : (pc.xx && (live (c.copy r.owner Kind.prim dm k) now).isNone) = true
    · simp only [hxx, if_true] at h; injection h with h; injection h with h1 _; rw [← h1]; exact ⟨hb, he⟩
    · simp only [hxx, if_false] at h
      have hne : (!ecfg.lru || decide (owned = 0)) = false := by simp [hlru]; omega
      simp only [hne, Bool.false_eq_true, if_false] at h
      have hI := inuse_eq c r.owner dm univ s he
      -- generic tail: from a state c2 with equal sizes, the write adds at most one entry
      have tail : ∀ c2, EqualSize c2 r.owner dm univ s →
          replicate cfg r reach c2 dm k ⟨v, prepareTTL pc.ttl cfg.dmTTL now, now⟩ = (c', res) →
          fragInuse c' r.owner dm univ ≤ s * (fragLen c2 r.owner dm univ + 1) ∧ EqualSize c' r.owner dm univ s := by
        intro c2 he2 hr
        have hes := equalSize_replicate cfg r reach c2 dm univ s k _ hs he2
        rw [hr] at hes
        refine ⟨?_, hes⟩
        rw [inuse_eq c' r.owner dm univ s hes]
        have := fragLen_replicate cfg r reach c2 dm univ hnd k hk ⟨v, prepareTTL pc.ttl cfg.dmTTL now, now⟩
        rw [hr] at this
        simp only at this
        rw [this]
        apply Nat.mul_le_mul_left
        split <;> omega
      cases hkf : keysFull ecfg owned (fragLen c r.owner dm univ) with
      | true =>
        simp only [hkf, if_true] at h
        have hpos : fragLen c r.owner dm univ > 0 := by
          simp only [keysFull, Bool.and_eq_true, decide_eq_true_eq] at hkf; exact hkf.1.2
        cases h1 : evictOne cfg r c dm univ victims with
        | none => simp [h1] at h
        | some p1 =>
          obtain ⟨c1, vs1⟩ := p1
          simp only [h1] at h
          have hl1 := (evictOne_len cfg r c dm univ hnd victims c1 vs1 h1).2 hpos
          have he1 := evictOne_equalSize cfg r c dm univ s victims c1 vs1 h1 he
          cases hif : inuseFull ecfg owned (fragInuse c r.owner dm univ) with
          | true =>
            simp only [hif, if_true] at h
            cases h2 : evictOne cfg r c1 dm univ vs1 with
            | none => simp [h2] at h
            | some p2 =>
              obtain ⟨c2, x⟩ := p2
              simp only [h2] at h
              obtain ⟨a1, a2⟩ := evictOne_len cfg r c1 dm univ hnd vs1 c2 x h2
              have he2 := evictOne_equalSize cfg r c1 dm univ s vs1 c2 x h2 he1
              injection h with h
              obtain ⟨t1, t2⟩ := tail c2 he2 h
              refine ⟨?_, t2⟩
              by_cases h0 : fragLen c1 r.owner dm univ = 0
              · rw [a1 h0, h0] at t1
                simp only [Nat.zero_add, Nat.mul_one] at t1; omega
              · have := a2 (by omega)
                have hle : fragLen c2 r.owner dm univ + 1 ≤ fragLen c r.owner dm univ := by omega
                have := Nat.mul_le_mul_left s hle
                omega
          | false =>
            simp only [hif, Bool.false_eq_true, if_false] at h
            injection h with h
            obtain ⟨t1, t2⟩ := tail c1 he1 h
            refine ⟨?_, t2⟩
            rw [hl1, ← hI] at t1; omega
      | false =>
        simp only [hkf, Bool.false_eq_true, if_false] at h
        cases hif : inuseFull ecfg owned (fragInuse c r.owner dm univ) with
        | true =>
          simp only [hif, if_true] at h
          have hpos : fragLen c r.owner dm univ > 0 := by
            simp only [inuseFull, Bool.and_eq_true, decide_eq_true_eq, hBb] at hif
            have := hif.1.2
            rw [hI] at this
            exact Nat.pos_of_ne_zero (fun e => by rw [e] at this; simp at this)
          cases h2 : evictOne cfg r c dm univ victims with
          | none => simp [h2] at h
          | some p2 =>
            obtain ⟨c2, x⟩ := p2
            simp only [h2] at h
            have hl := (evictOne_len cfg r c dm univ hnd victims c2 x h2).2 hpos
            have he2 := evictOne_equalSize cfg r c dm univ s victims c2 x h2 he
            injection h with h
            obtain ⟨t1, t2⟩ := tail c2 he2 h
            refine ⟨?_, t2⟩
            rw [hl, ← hI] at t1; omega
        | false =>
          simp only [hif, Bool.false_eq_true, if_false] at h
          injection h with h
          obtain ⟨t1, t2⟩ := tail c he h
          refine ⟨?_, t2⟩
          rw [Nat.mul_add, ← hI, Nat.mul_one] at t1
          simp only [inuseFull, Bool.and_eq_false_iff, decide_eq_false_iff_not, hBb] at hif
          rcases hif with (hh | hh) | hh
          · omega
          · omega
          · omega

/-! ## MaxIdleDuration -/

/-- **C10 (idle window).**  An entry last touched at `t` is idle exactly from the millisecond
    ⌊(t + MaxIdleDuration) / 1 ms⌋ on: before it, never; from it on, always. -/
theorem C10_idle_window (ecfg : EvCfg) (hi : ecfg.idle ≠ 0) (t now : Int) (hd : Int.tdiv (ecfg.idle + t) 1000000 ≠ 0) :
    (Int.tdiv now 1000000 < Int.tdiv (ecfg.idle + t) 1000000 → idleExpired ecfg t now = false) ∧
    (Int.tdiv (ecfg.idle + t) 1000000 ≤ Int.tdiv now 1000000 → idleExpired ecfg t now = true) := by
  have hb : (ecfg.idle != 0) = true := by simpa [bne_iff_ne] using hi
  refine ⟨fun h => ?_, fun h => ?_⟩
  · simp only [idleExpired, hb, Bool.true_and, expired, Bool.and_eq_false_iff, decide_eq_false_iff_not]
    right; omega
  · simp only [idleExpired, hb, Bool.true_and, expired, Bool.and_eq_true, bne_iff_ne, decide_eq_true_eq]
    exact ⟨hd, h⟩

theorem idle_off (ecfg : EvCfg) (hi : ecfg.idle = 0) (t now : Int) : idleExpired ecfg t now = false := by
  simp [idleExpired, hi]

/-- a scan only ever deletes: an entry of another key is never created or changed by it -/
theorem evScan_frame (ecfg : EvCfg) (cfg : Cfg) (route : Key → Route) (la : LA) (dm : Bytes) (now : Int)
    (visited : List Key) (c : Cluster) (j : Nat) (kind : Kind) (k : Key) (hk : k ∉ visited) :
    (evScan ecfg cfg route la dm now c visited).1.copy j kind dm k = c.copy j kind dm k := by
  induction visited generalizing c with
  | nil => rfl
  | cons a rest ih =>
    have ha : k ≠ a := fun e => hk (e ▸ List.mem_cons_self)
    have hr : k ∉ rest := fun h => hk (List.mem_cons_of_mem _ h)
    simp only [evScan]
    split
    · split
      · simp only
        rw [ih _ hr, copy_del]
        simp [ha]
      · exact ih _ hr
    · exact ih _ hr

/-- **C10 (idle: safe).**  An entry that is neither expired nor idle at the time of a background scan —
    in particular one read or written within the idle window — is still there afterwards, on the owner
    and on every backup, whatever else the scan visited and evicted. -/
theorem C10_idle_safe (ecfg : EvCfg) (cfg : Cfg) (route : Key → Route) (la : LA) (dm : Bytes) (now : Int)
    (visited : List Key) (c : Cluster) (k : Key) (x : Copy)
    (hc : c.copy (route k).owner .prim dm k = some x) (hexp : expired x.ttl now = false)
    (hidle : idleExpired ecfg (la dm k) now = false) (j : Nat) (kind : Kind) :
    (evScan ecfg cfg route la dm now c visited).1.copy j kind dm k = c.copy j kind dm k := by
  induction visited generalizing c with
  | nil => rfl
  | cons a rest ih =>
    simp only [evScan]
    by_cases ha : a = k
    · subst ha
      simp only [hc, hexp, hidle, Bool.or_self, Bool.false_eq_true, if_false]
      exact ih c hc
    · have hka : ¬ (k = a) := fun e => ha e.symm
      split
      · split
        · simp only
          have hc' : (del cfg (route a) c dm a).copy (route k).owner .prim dm k = some x := by
            rw [copy_del]; simp [hka, hc]
          rw [ih _ hc', copy_del]; simp [hka]
        · exact ih c hc
      · exact ih c hc

/-- **C10 (idle: evicted).**  An entry that a background scan visits while it is idle (or expired) is
    deleted from its owner and from every backup owner; nothing re-creates it during the scan. -/
theorem C10_scan_evicts (ecfg : EvCfg) (cfg : Cfg) (route : Key → Route) (la : LA) (dm : Bytes) (now : Int)
    (visited : List Key) (c : Cluster) (k : Key) (x : Copy) (hv : k ∈ visited)
    (hc : c.copy (route k).owner .prim dm k = some x)
    (hgone : expired x.ttl now = true ∨ idleExpired ecfg (la dm k) now = true) :
    (evScan ecfg cfg route la dm now c visited).1.copy (route k).owner .prim dm k = none ∧
    (cfg.R > 1 → ∀ b ∈ (route k).baks, (evScan ecfg cfg route la dm now c visited).1.copy b .bak dm k = none) := by
  -- once deleted, the key stays deleted for the rest of the scan
  have stay : ∀ (vs : List Key) (c0 : Cluster) (j : Nat) (kind : Kind), c0.copy j kind dm k = none →
      (evScan ecfg cfg route la dm now c0 vs).1.copy j kind dm k = none := by
    intro vs
    induction vs with
    | nil => intro c0 j kind h; exact h
    | cons a rest ih =>
      intro c0 j kind h
      simp only [evScan]
      split
      · split
        · simp only
          apply ih
          rw [copy_del]; split <;> simp [h]
        · exact ih c0 j kind h
      · exact ih c0 j kind h
  induction visited generalizing c with
  | nil => cases hv
  | cons a rest ih =>
    simp only [evScan]
    by_cases ha : a = k
    · subst ha
      have hcond : (expired x.ttl now || idleExpired ecfg (la dm a) now) = true := by
        rcases hgone with h | h <;> simp [h]
      simp only [hc, hcond, if_true]
      refine ⟨?_, ?_⟩
      · apply stay; rw [copy_del]; simp
      · intro hR b hb
        apply stay; rw [copy_del]; simp [hR, hb]
    · have hka : ¬ (k = a) := fun e => ha e.symm
      have hvr : k ∈ rest := by
        rcases List.mem_cons.mp hv with h | h
        · exact absurd h hka
        · exact h
      split
      · split
        · simp only
          have hc' : (del cfg (route a) c dm a).copy (route k).owner .prim dm k = some x := by
            rw [copy_del]; simp [hka, hc]
          exact ih _ hvr hc'
        · exact ih c hvr hc
      · exact ih c hvr hc

/-- the shapes the model follows, regenerated from the source on every run: one sampled entry is evicted per
    limit (an empty fragment is not an error), both limits are checked on one snapshot of the statistics,
    and the background scan deletes expired or idle entries on the whole cluster under the DMap's own name -/
theorem facts_tie : Facts.lru_evicts_one_sampled_entry = true ∧ Facts.lru_limits_checked_on_one_snapshot = true ∧
    Facts.eviction_scan_deletes_expired_or_idle_on_cluster = true ∧
    -- the `EvCfg` / default TTL a theorem is instantiated with is the DMap's own: its custom section when it has one
    Facts.dmap_config_custom_section_overrides_global = true := by decide

/-! Non-vacuity: MaxKeys = 2 over 1 owned partition, three Puts: the third evicts (here: the first key),
    the fragment holds 2 keys and the key just written is there. -/
def ecfg0 : EvCfg := { lru := true, maxKeys := 2 }
def univ0 : List Key := [[1], [2], [3]]
def run0 : Option Cluster :=
  lruRun ecfg0 1 cfg1 r1 allReach [100] univ0 Cluster.empty
    [([1], [9], {}, 10, []), ([2], [9], {}, 20, []), ([3], [9], {}, 30, [[1]])]
example : (run0.map (fun c => fragLen c 1 [100] univ0)) = some 2 := by decide
example : (run0.map (fun c => (c.copy 1 .prim [100] [3]).isSome)) = some true := by decide
example : (run0.map (fun c => (c.copy 0 .bak [100] [1]).isSome)) = some false := by decide
example : idleExpired { idle := 200000000 } 1000000000 1199999999 = false ∧ idleExpired { idle := 200000000 } 1000000000 1200000000 = true := by decide

end Olric.C10
