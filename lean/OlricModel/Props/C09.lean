/-
  C09 — A key is visible until its expiry and never after it.
  Statements about DMap/Model.lean; `now` (unix ns) is an arbitrary input of every operation, and
  "background eviction has or has not run" is covered by quantifying over both stored states
  (the expired entry is still there / it is gone).
-/
import OlricModel.Props.C04
namespace Olric.C09
open Olric Olric.DMap Olric.C04

/-- every copy of the key, on every member, is absent or expired at `now` -/
def Gone (c : Cluster) (dm : Bytes) (k : Key) (now : Int) : Prop :=
  ∀ m kind, live (c.copy m kind dm k) now = none

theorem mem_insertV (x y : Nat × Kind × Copy) (l : List (Nat × Kind × Copy)) :
    y ∈ insertV x l ↔ y = x ∨ y ∈ l := by
  induction l with
  | nil => simp [insertV]
  | cons a l ih =>
    simp only [insertV]
    split
    · simp
    · simp only [List.mem_cons, ih]
      constructor
      · rintro (h | h | h)
        · exact Or.inr (Or.inl h)
        · exact Or.inl h
        · exact Or.inr (Or.inr h)
      · rintro (h | h | h)
        · exact Or.inr (Or.inl h)
        · exact Or.inl h
        · exact Or.inr (Or.inr h)

theorem mem_sortV (y : Nat × Kind × Copy) (l : List (Nat × Kind × Copy)) : y ∈ sortV l ↔ y ∈ l := by
  have : ∀ (l acc : List (Nat × Kind × Copy)), y ∈ l.foldl (fun acc x => insertV x acc) acc ↔ y ∈ acc ∨ y ∈ l := by
    intro l
    induction l with
    | nil => intro acc; simp
    | cons a l ih =>
      intro acc
      simp only [List.foldl_cons, ih, mem_insertV, List.mem_cons]
      constructor
      · rintro ((h | h) | h)
        · exact Or.inr (Or.inl h)
        · exact Or.inl h
        · exact Or.inr (Or.inr h)
      · rintro (h | h | h)
        · exact Or.inl (Or.inr h)
        · exact Or.inl (Or.inl h)
        · exact Or.inr h
  simpa [sortV] using this l []

theorem filter_allReach (l : List Nat) : l.filter allReach = l := by
  rw [List.filter_eq_self]; intro _ _; rfl

/-- nothing live anywhere: the gathered versions carry no entry -/
theorem present_nil_of_gone (r : Route) (reach : Reach) (c : Cluster) (dm : Bytes) (k : Key) (now : Int)
    (hg : Gone c dm k now) :
    (versions r reach c dm k now).filterMap (fun v => v.2.2.map (fun x => (v.1, v.2.1, x))) = [] := by
  rw [List.filterMap_eq_nil_iff]
  intro v hv
  simp only [versions, List.mem_cons, List.mem_append, List.mem_filterMap, List.mem_map] at hv
  rcases hv with rfl | ⟨m, _, hm⟩ | ⟨m, _, rfl⟩
  · simp only [hg r.owner Kind.prim, Option.map_none]
  · rw [hg] at hm; simp at hm
  · simp only [hg m Kind.bak, Option.map_none]

/-- **C09 (never after).**  Once the deadline has passed — whether the expired entry is still stored
    or background eviction already removed it, on any member — in a healthy cluster:
    Get answers not-found, a Put with NX is accepted (the key counts as absent), a Put with XX and an
    Expire answer not-found and change nothing. -/
theorem C09_invisible_after (cfg : Cfg) (r : Route) (c : Cluster) (dm : Bytes) (k : Key) (now : Int)
    (hg : Gone c dm k now) (hq : cfg.RQ ≤ r.baks.length + 1) :
    (get cfg r allReach c dm k now).2 = .notFound ∧
    (∀ v t, (put cfg r allReach c dm k v { nx := true, ttl := t } now).2 ≠ .keyFound) ∧
    (∀ v t, put cfg r allReach c dm k v { xx := true, ttl := t } now = (c, .notFound)) ∧
    (∀ timeout, expire cfg r allReach c dm k timeout now = (c, .notFound)) := by
  refine ⟨?_, ?_, ?_, ?_⟩
  · have hp := present_nil_of_gone r allReach c dm k now hg
    have hlen : ¬ (versions r allReach c dm k now).length < cfg.RQ := by
      simp only [versions, List.length_cons, List.length_append, List.length_map, filter_allReach]
      omega
    simp only [DMap.get, hlen, if_false, hp, sortV, List.foldl_nil]
  · intro v t
    simp only [DMap.put, hg r.owner .prim]
    simp only [Option.isSome_none, Bool.and_false, Bool.false_eq_true, if_false, Bool.false_and]
    simp only [replicate]
    split
    · split <;> simp
    · simp
  · intro v t
    simp [DMap.put, hg r.owner .prim]
  · intro timeout
    simp [DMap.expire, hg r.owner .prim]

/-- **C09 (visible before).**  While the deadline has not passed and the copies agree (C04), a Get
    returns the stored value, for every `now` before the deadline. -/
theorem C09_visible_before (cfg : Cfg) (r : Route) (c : Cluster) (dm : Bytes) (k : Key) (now : Int) (x : Copy)
    (hown : c.copy r.owner .prim dm k = some x) (hlive : expired x.ttl now = false)
    (hm : Mirror c r dm k) (hprev : r.prev = []) (hq : cfg.RQ ≤ r.baks.length + 1) :
    ∃ w, (get { cfg with readRepair := false } r allReach c dm k now).2 = .val w ∧ w = x := by
  have hlx : live (some x) now = some x := by simp [live, hlive]
  -- every gathered version is x
  have hvs : versions r allReach c dm k now = (r.owner, Kind.prim, some x) :: r.baks.map (fun m => (m, Kind.bak, some x)) := by
    simp only [versions, hown, hlx, hprev, List.reverse_nil, List.filter_nil, List.filterMap_nil, List.nil_append,
      filter_allReach]
    congr 1
    apply List.map_congr_left
    intro m hmem
    rw [hm m hmem, hown, hlx]
  have hpres : (versions r allReach c dm k now).filterMap (fun v => v.2.2.map (fun x => (v.1, v.2.1, x))) =
      (r.owner, Kind.prim, x) :: r.baks.map (fun m => (m, Kind.bak, x)) := by
    rw [hvs]; simp [List.filterMap_map, Function.comp_def]
  have hlen : ¬ (versions r allReach c dm k now).length < cfg.RQ := by
    rw [hvs]; simp; omega
  simp only [DMap.get, hlen, if_false, hpres]
  cases hs : sortV ((r.owner, Kind.prim, x) :: r.baks.map (fun m => (m, Kind.bak, x))) with
  | nil =>
    have := (mem_sortV (r.owner, Kind.prim, x) ((r.owner, Kind.prim, x) :: r.baks.map (fun m => (m, Kind.bak, x)))).mpr List.mem_cons_self
    rw [hs] at this; cases this
  | cons w ws =>
    have hw : w ∈ sortV ((r.owner, Kind.prim, x) :: r.baks.map (fun m => (m, Kind.bak, x))) := by rw [hs]; exact List.mem_cons_self
    rw [mem_sortV] at hw
    have hwx : w.2.2 = x := by
      rcases List.mem_cons.mp hw with h | h
      · rw [h]
      · simp only [List.mem_map] at h; obtain ⟨m, _, rfl⟩ := h; rfl
    have hl2 : ¬ ((r.owner, Kind.prim, x) :: r.baks.map (fun m => (m, Kind.bak, x))).length < cfg.RQ := by simp; omega
    simp only [hl2, if_false, hwx, hlive, Bool.false_eq_true]
    exact ⟨x, rfl, rfl⟩

/-- **C09 (ttl rules).**  A plain Put clears the expiry (or applies the DMap default), every option
    form sets exactly its deadline in unix ms, and Expire replaces the deadline without touching the value. -/
theorem C09_ttl_rules (now : Int) (d t dflt : Int) :
    prepareTTL .none 0 now = 0 ∧
    (dflt ≠ 0 → prepareTTL .none dflt now = Int.tdiv (dflt + now) 1000000) ∧
    prepareTTL (.ex d) dflt now = Int.tdiv (d + now) 1000000 ∧
    prepareTTL (.px d) dflt now = Int.tdiv (d + now) 1000000 ∧
    prepareTTL (.exat t) dflt now = Int.tdiv t 1000000 ∧
    prepareTTL (.pxat t) dflt now = Int.tdiv t 1000000 := by
  refine ⟨by simp [prepareTTL], fun h => by simp [prepareTTL, h], rfl, rfl, rfl, rfl⟩

theorem C09_expire_keeps_value (cfg : Cfg) (r : Route) (c : Cluster) (dm : Bytes) (k : Key) (timeout now : Int) (x : Copy)
    (hown : c.copy r.owner .prim dm k = some x) (hlive : expired x.ttl now = false) (ht : timeout ≠ 0) :
    (expire cfg r allReach c dm k timeout now).1.copy r.owner .prim dm k =
      some ⟨x.val, Int.tdiv (timeout + now) 1000000, now⟩ := by
  simp only [DMap.expire, hown, live, hlive, Bool.false_eq_true, if_false]
  rw [copy_replicate]
  simp [prepareTTL, ht]

/-- the deadline test itself: at the very millisecond of the deadline the key is already gone -/
theorem C09_boundary (ttl now : Int) (h0 : ttl ≠ 0) :
    expired ttl now = true ↔ ttl ≤ Int.tdiv now 1000000 := by
  simp [expired, h0]

/-! Non-vacuity -/
example : Gone Cluster.empty [100] [107] 5 := fun m kind => by cases kind <;> rfl
example : expired 1700000000001 1700000000001000000 = true := by decide
example : expired 1700000000001 1700000000000999999 = false := by decide

end Olric.C09
