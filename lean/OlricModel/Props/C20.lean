/-
  C20 — Storage stays bounded under overwrite and delete churn.
  Statements about the store model (Store/Model.lean); helper lemmas in OlricModel/Proofs.
-/
import OlricModel.Props.C11
namespace Olric.C20
open Olric KV Table

/-- **C20 (accounting).**  In every state reachable by any operation sequence (C11_refines gives `WF`),
    for every table: the bytes in use are exactly the bytes of its live records, and every byte ever
    written to the table is either in use or accounted as garbage.  A superseding write, a delete, a
    replica (raw) write and a compaction move therefore each turn the old record's bytes into garbage. -/
theorem C20_accounting (k : KV) (w : k.WF) :
    ∀ t ∈ k.newestFirst, t.inuse = sumSize t.slots ∧ t.inuse + t.garbage = t.off :=
  fun t ht => ⟨w.acct t ht, w.tot t ht⟩

/-- the accounting invariant holds after every run from a fresh fragment store -/
theorem C20_accounting_run (size : Nat) (idle : Int) (ops : List C11.Op) (hok : ∀ op ∈ ops, op.ok) :
    ∀ t ∈ (C11.run (KV.fork size idle) ops).1.newestFirst,
      t.inuse = sumSize t.slots ∧ t.inuse + t.garbage = t.off :=
  C20_accounting _ (C11.C11_refines_fork size idle ops hok).1

/-- one overwrite, seen from the table that held the old version: its bytes move to garbage -/
theorem C20_supersede (t : Table) (h : Nat) (s : Slot) (hf : t.find h = some s)
    (hn : (t.slots.map (·.hk)).Nodup) (ha : t.inuse = sumSize t.slots) :
    (t.deleteD h).garbage = t.garbage + s.r.size ∧ (t.deleteD h).inuse + s.r.size = t.inuse := by
  have hs := sumSize_filter t.slots h s hn hf
  unfold Table.deleteD Table.delete
  simp only [hf, Option.getD]
  constructor
  · trivial
  · omega

theorem pickLast_none (p : Table → Bool) (ts : List Table) (hp : pickLast p ts = none) : ∀ t ∈ ts, p t = false := by
  induction ts with
  | nil => intro t ht; cases ht
  | cons a l ih =>
    simp only [pickLast] at hp
    cases hq : pickLast p l with
    | some q => obtain ⟨r, rest⟩ := q; simp [hq] at hp
    | none =>
      simp only [hq] at hp
      intro t ht
      cases ht with
      | head => by_cases h : p a = true <;> simp_all
      | tail _ ht => exact ih hq t ht

/-- **C20 (compaction completes only below the threshold).**  `Compaction` answers done = true exactly
    when no table other than the read-write head holds 40 % garbage or more; otherwise it drains one
    batch of the oldest such table (and never changes the contents: C11). -/
theorem C20_done_below_threshold (k : KV) (now : Int) (order : List Nat)
    (hd : (k.compaction now order).2 = true) : ∀ t ∈ k.old, t.garbage * 5 < t.alloc * 2 := by
  have := (compaction_done_iff k now order).mp hd
  intro t ht
  have h := pickLast_none _ _ this t ht
  simp only [needsCompaction, decide_eq_false_iff_not, Nat.not_le] at h
  exact h

/-- **C20 (per-table bound).**  A table that is below the compaction threshold and was retired because
    an entry of at most `E` bytes did not fit any more carries live data for at least 60 % of its size
    minus `E`:  3·alloc < 5·inuse + 5·E.  (The "retired ⇒ nearly full" premise is the guard of
    table.Put; it is stated as a hypothesis here, not carried as an invariant — partial.) -/
theorem C20_table_bound (t : Table) (E : Nat) (hacc : t.inuse + t.garbage = t.off)
    (hthr : t.garbage * 5 < t.alloc * 2) (hfull : t.off + E ≥ t.alloc) :
    3 * t.alloc < 5 * t.inuse + 5 * E + 1 := by omega

/-- summed over the retired tables of a store whose compaction is done -/
theorem C20_bound (k : KV) (w : k.WF) (now : Int) (order : List Nat) (E : Nat)
    (hd : (k.compaction now order).2 = true)
    (hfull : ∀ t ∈ k.old, t.off + E ≥ t.alloc ∨ t.slots = []) :
    ∀ t ∈ k.old, t.slots ≠ [] → 3 * t.alloc < 5 * t.inuse + 5 * E + 1 := by
  intro t ht hne
  have h1 := C20_done_below_threshold k now order hd t ht
  have h2 := w.tot t (by simp [newestFirst, ht])
  rcases hfull t ht with h | h
  · exact C20_table_bound t E h2 h1 h
  · exact absurd h hne

/-- **C20 (recycling).**  A new table is allocated only when no recycled one exists: with a recycled
    table present `makeTable` leaves the allocated total unchanged. -/
theorem C20_reuse (k : KV) (t : Table) (rest : List Table)
    (hp : pickLast isRecycled k.demoted = some (t, rest)) :
    k.makeTable.tables.length = k.tables.length := by
  rw [makeTable_eq, hp]
  have hlen : ∀ (p : Table → Bool) (ts rs : List Table) (r : Table), pickLast p ts = some (r, rs) → rs.length + 1 = ts.length := by
    intro p ts
    induction ts with
    | nil => intro rs r h; simp [pickLast] at h
    | cons a l ih =>
      intro rs r h
      simp only [pickLast] at h
      cases hq : pickLast p l with
      | some q =>
        obtain ⟨r', rest'⟩ := q
        simp only [hq] at h
        injection h with h; injection h with h1 h2
        subst h1; subst h2
        simp [ih rest' r' hq]
      | none =>
        simp only [hq] at h
        split at h
        · injection h with h; injection h with h1 h2; subst h1; subst h2; simp
        · cases h
  have := hlen _ _ _ _ hp
  simp only [tables, List.length_append, List.length_reverse, Option.toList, List.length_cons, List.length_nil]
  unfold demoted at this
  cases hh : k.head with
  | none => simp [hh] at this ⊢; omega
  | some hd => simp [hh] at this ⊢; omega

/-! Non-vacuity -/
example : ∀ t ∈ (C11.run (KV.fork 256 1000) C11.demoOps).1.newestFirst,
    t.inuse = sumSize t.slots ∧ t.inuse + t.garbage = t.off :=
  C20_accounting_run 256 1000 C11.demoOps C11.demoOps_ok

end Olric.C20
