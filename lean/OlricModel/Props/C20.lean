/-
  C20 — Storage stays bounded under overwrite and delete churn.
  Statements about the store model (Store/Model.lean); helper lemmas in OlricModel/Proofs.
-/
import OlricModel.Props.C11
import OlricModel.Proofs.KVFull
import OlricModel.Generated.Facts
namespace Olric.C20
open Olric KV Table

/-- **C20 (accounting).**  In every state reachable by any operation sequence (C11_refines gives `WF`),
    for every table: the bytes in use are exactly the bytes of its live records, and every byte ever
    written to the table is either in use or accounted as garbage.  A superseding write, a delete, a
    replica (raw) write and a compaction move therefore each turn the old record's bytes into garbage. -/
theorem C20_accounting (k : KV) (w : k.WF) :
    ∀ t ∈ k.newestFirst, t.inuse = sumSize t.slots ∧ t.inuse + t.garbage = t.off :=
  fun t ht => ⟨w.acct t ht, w.tot t ht⟩

/-- the accounting invariant holds after every run from a fresh fragment store -/
theorem C20_accounting_run (size : Nat) (idle : Int) (ops : List C11.Op) (hok : ∀ op ∈ ops, op.ok) :
    ∀ t ∈ (C11.run (KV.fork size idle) ops).1.newestFirst,
      t.inuse = sumSize t.slots ∧ t.inuse + t.garbage = t.off :=
  C20_accounting _ (C11.C11_refines_fork size idle ops hok).1

/-- one overwrite, seen from the table that held the old version: its bytes move to garbage -/
theorem C20_supersede (t : Table) (h : Nat) (s : Slot) (hf : t.find h = some s)
    (hn : (t.slots.map (·.hk)).Nodup) (ha : t.inuse = sumSize t.slots) :
    (t.deleteD h).garbage = t.garbage + s.r.size ∧ (t.deleteD h).inuse + s.r.size = t.inuse := by
  have hs := sumSize_filter t.slots h s hn hf
  unfold Table.deleteD Table.delete
  simp only [hf, Option.getD]
  constructor
  · trivial
  · omega

theorem pickLast_none (p : Table → Bool) (ts : List Table) (hp : pickLast p ts = none) : ∀ t ∈ ts, p t = false := by
  induction ts with
  | nil => intro t ht; cases ht
  | cons a l ih =>
    simp only [pickLast] at hp
    cases hq : pickLast p l with
    | some q => obtain ⟨r, rest⟩ := q; simp [hq] at hp
    | none =>
      simp only [hq] at hp
      intro t ht
      cases ht with
      | head => by_cases h : p a = true <;> simp_all
      | tail _ ht => exact ih hq t ht

/-- **C20 (compaction completes only below the threshold).**  `Compaction` answers done = true exactly
    when no table other than the read-write head holds 40 % garbage or more; otherwise it drains one
    batch of the oldest such table (and never changes the contents: C11). -/
theorem C20_done_below_threshold (k : KV) (now : Int) (order : List Nat)
    (hd : (k.compaction now order).2 = true) : ∀ t ∈ k.old, t.garbage * 5 < t.alloc * 2 := by
  have := (compaction_done_iff k now order).mp hd
  intro t ht
  have h := pickLast_none _ _ this t ht
  simp only [needsCompaction, Bool.or_eq_false_iff, decide_eq_false_iff_not, Nat.not_le] at h
  exact h.2

/-- **C20 (no dead table is kept).**  When `Compaction` answers done, a table behind the head that holds no live
    entry carries no garbage either: it is blank (recycled, waiting to be reused or freed).  Before the repair
    6031b9a a table retired nearly empty — the entry that did not fit was a large one — stayed allocated forever once
    its few entries were superseded: it never reached the 40 % ratio (finding F44; `dead_table_witness` below). -/
theorem C20_done_no_dead_table (k : KV) (w : k.WF) (now : Int) (order : List Nat)
    (hd : (k.compaction now order).2 = true) : ∀ t ∈ k.old, t.slots = [] → t.garbage = 0 ∧ t.off = 0 := by
  have := (compaction_done_iff k now order).mp hd
  intro t ht hs
  have h := pickLast_none _ _ this t ht
  have hi : t.inuse = 0 := by rw [w.acct t (by simp [newestFirst, ht]), hs]; rfl
  have htot := w.tot t (by simp [newestFirst, ht])
  simp only [needsCompaction, Bool.or_eq_false_iff, Bool.and_eq_false_iff, beq_eq_false_iff_ne, decide_eq_false_iff_not] at h
  rcases h.1 with h1 | h1
  · exact absurd hi h1
  · omega

/-- ... hence the tables in use behind the head are at most as many as the present keys: each holds a live entry
    of its own (the entries of different tables belong to different keys: C11 uniqueness). -/
theorem C20_tables_le_keys (k : KV) (w : k.WF) (now : Int) (order : List Nat)
    (hd : (k.compaction now order).2 = true) :
    (k.old.filter (fun t => decide (t.off > 0))).length ≤ k.stats.length := by
  have hdead := C20_done_no_dead_table k w now order hd
  have hlen : (k.old.map (fun t => t.slots.length)).sum ≤ k.stats.length := by
    simp only [stats, tables, List.map_append, List.sum_append, List.map_reverse, List.sum_reverse]
    omega
  refine Nat.le_trans ?_ hlen
  have : ∀ ts : List Table, (∀ t ∈ ts, t.slots = [] → t.off = 0) →
      (ts.filter (fun t => decide (t.off > 0))).length ≤ (ts.map (fun t => t.slots.length)).sum := by
    intro ts
    induction ts with
    | nil => intro _; simp
    | cons a l ih =>
      intro h
      have ih' := ih (fun t ht => h t (List.mem_cons_of_mem _ ht))
      simp only [List.filter_cons, List.map_cons, List.sum_cons]
      split
      · rename_i hpos
        have hne : a.slots ≠ [] := fun e => by
          have := h a List.mem_cons_self e
          simp only [decide_eq_true_eq] at hpos; omega
        have : 0 < a.slots.length := List.length_pos_iff.mpr hne
        simp only [List.length_cons]; omega
      · omega
  exact this k.old (fun t ht hs => (hdead t ht hs).2)

/-- the table the repaired predicate is about: no live entry, 79 bytes of garbage in 1000 — below the ratio, so the
    ratio alone (`garbage * 5 ≥ alloc * 2`) never selects it, the predicate of the code now does -/
def deadTable : Table := { cf := 0, off := 79, alloc := 1000, inuse := 0, garbage := 79, state := .ro, recycledAt := 0, slots := [] }
theorem dead_table_witness : decide (deadTable.garbage * 5 ≥ deadTable.alloc * 2) = false ∧ needsCompaction deadTable = true := by
  decide

/-- **C20 (per-table bound).**  A table that is below the compaction threshold and was retired because
    an entry of at most `E` bytes did not fit any more carries live data for at least 60 % of its size
    minus `E`:  3·alloc < 5·inuse + 5·E.  (The "retired ⇒ nearly full" premise is the guard of
    table.Put; it is stated as a hypothesis here, not carried as an invariant — partial.) -/
theorem C20_table_bound (t : Table) (E : Nat) (hacc : t.inuse + t.garbage = t.off)
    (hthr : t.garbage * 5 < t.alloc * 2) (hfull : t.off + E ≥ t.alloc) :
    3 * t.alloc < 5 * t.inuse + 5 * E + 1 := by omega

/-- summed over the retired tables of a store whose compaction is done -/
theorem C20_bound (k : KV) (w : k.WF) (now : Int) (order : List Nat) (E : Nat)
    (hd : (k.compaction now order).2 = true)
    (hfull : ∀ t ∈ k.old, t.off + E ≥ t.alloc ∨ t.slots = []) :
    ∀ t ∈ k.old, t.slots ≠ [] → 3 * t.alloc < 5 * t.inuse + 5 * E + 1 := by
  intro t ht hne
  have h1 := C20_done_below_threshold k now order hd t ht
  have h2 := w.tot t (by simp [newestFirst, ht])
  rcases hfull t ht with h | h
  · exact C20_table_bound t E h2 h1 h
  · exact absurd h hne

/-- the entries a workload writes are at most `E` bytes long (29 + key + value) -/
def sizeLe (E : Nat) : C11.Op → Prop
  | .put _ r _ => r.size ≤ E
  | .putRaw _ r => r.size ≤ E
  | _ => True

/-- **C20 (a retired table is nearly full), one step.**  Every store operation keeps: each table
    behind the head has less than `E` bytes of room left or is empty, and every stored entry is at
    most `E` bytes long — `E` being a bound on the entries the workload writes. -/
theorem C20_nearfull_step (E : Nat) (k : KV) (w : k.WF) (c : KV.Churn E k) (op : C11.Op) (hsz : sizeLe E op) :
    KV.Churn E (C11.step k op).1 := by
  cases op with
  | put h r now => exact KV.churn_put E k w c h r now hsz
  | putRaw h r => exact KV.churn_putRaw E k w c h r hsz
  | get h now => exact KV.churn_get E k w c h now
  | del h => exact KV.churn_delete E k w c h
  | ttl h ttl ts now => exact KV.churn_updateTTL E k w c h ttl ts now
  | compact now order => exact KV.churn_compaction E k w c now order

/-- ... hence in every state a churn workload can reach, of any length -/
theorem C20_nearfull_run (E : Nat) (ops : List C11.Op) (hok : ∀ op ∈ ops, op.ok) (hsz : ∀ op ∈ ops, sizeLe E op)
    (k : KV) (w : k.WF) (c : KV.Churn E k) : KV.Churn E (C11.run k ops).1 := by
  induction ops generalizing k with
  | nil => exact c
  | cons op ops ih =>
    obtain ⟨w1, _⟩ := C11.C11_step k w op (hok op List.mem_cons_self)
    exact ih (fun x hx => hok x (List.mem_cons_of_mem _ hx)) (fun x hx => hsz x (List.mem_cons_of_mem _ hx))
      _ w1 (C20_nearfull_step E k w c op (hsz op List.mem_cons_self))

/-- **C20 (bound, every reachable state).**  After any workload of inserts, raw inserts, reads,
    deletes, expiry updates and compaction calls, in any order and of any length, whose entries are
    at most `E` bytes long: once `Compaction` answers done, every non-empty table behind the head holds
    live data for more than 60 % of its size minus `E` bytes — 3·alloc < 5·inuse + 5·E + 1.  No
    hypothesis about the tables is left: "retired ⇒ nearly full" is the invariant `KV.Churn`. -/
theorem C20_bound_reachable (E size : Nat) (idle : Int) (ops : List C11.Op) (hok : ∀ op ∈ ops, op.ok)
    (hsz : ∀ op ∈ ops, sizeLe E op) (now : Int) (order : List Nat)
    (hd : ((C11.run (KV.fork size idle) ops).1.compaction now order).2 = true) :
    ∀ t ∈ (C11.run (KV.fork size idle) ops).1.old, t.slots ≠ [] → 3 * t.alloc < 5 * t.inuse + 5 * E + 1 := by
  have w := (C11.C11_refines_fork size idle ops hok).1
  have c := C20_nearfull_run E ops hok hsz _ (fork_wf size idle) (KV.churn_fork E size idle)
  exact C20_bound _ w now order E hd c.full

/-- summed over the tables behind the head: 3·(allocated) ≤ 5·(bytes in use) + (5·E + 1)·(tables),
    empty tables aside -/
theorem C20_bound_sum (E : Nat) (ts : List Table)
    (h : ∀ t ∈ ts, 3 * t.alloc < 5 * t.inuse + 5 * E + 1) :
    3 * (ts.map (·.alloc)).sum ≤ 5 * (ts.map (·.inuse)).sum + (5 * E + 1) * ts.length := by
  induction ts with
  | nil => simp
  | cons t ts ih =>
    have h1 := h t List.mem_cons_self
    have h2 := ih (fun x hx => h x (List.mem_cons_of_mem _ hx))
    simp only [List.map_cons, List.sum_cons, List.length_cons]
    rw [Nat.mul_add, Nat.mul_add, Nat.mul_add]
    omega

/-- **C20 (recycling).**  A new table is allocated only when no recycled one exists: with a recycled
    table present `makeTable` leaves the allocated total unchanged. -/
theorem C20_reuse (k : KV) (t : Table) (rest : List Table)
    (hp : pickLast isRecycled k.demoted = some (t, rest)) :
    k.makeTable.tables.length = k.tables.length := by
  rw [makeTable_eq, hp]
  have hlen : ∀ (p : Table → Bool) (ts rs : List Table) (r : Table), pickLast p ts = some (r, rs) → rs.length + 1 = ts.length := by
    intro p ts
    induction ts with
    | nil => intro rs r h; simp [pickLast] at h
    | cons a l ih =>
      intro rs r h
      simp only [pickLast] at h
      cases hq : pickLast p l with
      | some q =>
        obtain ⟨r', rest'⟩ := q
        simp only [hq] at h
        injection h with h; injection h with h1 h2
        subst h1; subst h2
        simp [ih rest' r' hq]
      | none =>
        simp only [hq] at h
        split at h
        · injection h with h; injection h with h1 h2; subst h1; subst h2; simp
        · cases h
  have := hlen _ _ _ _ hp
  simp only [tables, List.length_append, List.length_reverse, Option.toList, List.length_cons, List.length_nil]
  unfold demoted at this
  cases hh : k.head with
  | none => simp [hh] at this ⊢; omega
  | some hd => simp [hh] at this ⊢; omega

/-- **C20 (compaction keeps making progress until the garbage ratio is below its threshold).**  From
    every reachable store, the worker's loop (call `Compaction` until it answers done) stops within
    `2·(stored records) + (retired tables) + 3` calls for every iteration order and clock, and then
    every table behind the head is below 40 % garbage; each call before that lowers `KV.mu`
    (C11_compaction_progress). -/
theorem C20_compaction_reaches_threshold (ord : KV → List Nat) (now : Nat → Int)
    (hord : ∀ k : KV, k.WF → KV.ValidOrder k (ord k)) (k : KV) (w : k.WF) (hts : 0 < k.tableSize) :
    let n := 2 * k.stats.length + k.old.length + 3
    (KV.compactLoop ord now n k).2 = true ∧
    ∀ t ∈ (KV.compactLoop ord now n k).1.old, t.garbage * 5 < t.alloc * 2 := by
  intro n
  obtain ⟨a, _, _, e⟩ := C11.C11_compaction_terminates ord now hord k w hts
  refine ⟨a, fun t ht => ?_⟩
  have h := e t ht
  simp only [needsCompaction, Bool.or_eq_false_iff, decide_eq_false_iff_not, Nat.not_le] at h
  exact h.2

/-- **Tie to the source (regenerated on every run).**  The member-level worker (internal/dmap/compaction.go)
    calls `Compaction` until done on every DMap fragment of the primary AND of the backup partitions: the loop the
    theorem `C20_compaction_reaches_threshold` is about, for the copies on both sides; a fragment closed under the
    worker (Destroy, janitor, hand-over) answers done, so the loop ends there too (before 1e49019 it never did: F45);
    a table without live entries is selected whatever its ratio (6031b9a, F44). -/
theorem facts_tie : Facts.compaction_worker_runs_primary_and_backup_until_done = true ∧ Facts.compaction_skips_readwrite = true ∧
    Facts.closed_fragment_compaction_answers_done = true ∧ Facts.compaction_takes_tables_without_live_entries = true := by
  decide

/-! Non-vacuity -/
example : ∀ t ∈ (C11.run (KV.fork 256 1000) C11.demoOps).1.newestFirst,
    t.inuse = sumSize t.slots ∧ t.inuse + t.garbage = t.off :=
  C20_accounting_run 256 1000 C11.demoOps C11.demoOps_ok

/-- the churn hypotheses are met by the demo workload (entries of at most 180 bytes), and after it a
    retired table that is not empty really is within 180 bytes of full -/
example : KV.Churn 180 (C11.run (KV.fork 256 1000) C11.demoOps).1 :=
  C20_nearfull_run 180 C11.demoOps C11.demoOps_ok (by
    intro op hop
    simp only [C11.demoOps, List.mem_cons, List.mem_nil_iff, or_false] at hop
    rcases hop with rfl | rfl | rfl | rfl | rfl | rfl | rfl <;> simp [sizeLe, C11.recA, C11.recB, Rec.size])
    _ (fork_wf 256 1000) (KV.churn_fork 180 256 1000)
set_option maxRecDepth 100000 in
example : (C11.run (KV.fork 256 1000) C11.demoOps).1.old.map (fun t => (t.off, t.alloc, t.slots.length)) = [(213, 256, 1)] := by decide

end Olric.C20
