/-
  C14 — Pub/Sub delivers each message exactly once to every matching subscriber.
  Statements about PubSub/Model.lean, for an arbitrary glob matcher `g`.
-/
import OlricModel.PubSub.Model
import OlricModel.Generated.Facts
namespace Olric.C14
open Olric Olric.PubSub

/-- operations on the subscriptions of the cluster -/
inductive Op
  | sub (m conn : Nat) (pat : Bool) (name : Bytes)
  | unsub (m conn : Nat) (pat : Bool) (name : Bytes)
  | unsubAll (m conn : Nat) (pat : Bool)
  | disconnect (m conn : Nat)

def step (ps : PS) : Op → PS
  | .sub m c p n => (subscribe ps m c p n).1
  | .unsub m c p n => (unsubscribe ps m c p n).1
  | .unsubAll m c p => unsubscribeAll ps m c p
  | .disconnect m c => disconnect ps m c

/-- no member holds the same subscription twice -/
def Inv (ps : PS) : Prop := ∀ m, (ps m).Nodup

theorem nodup_map_of_inj {α β} (f : α → β) (l : List α) (hinj : ∀ a ∈ l, ∀ b ∈ l, f a = f b → a = b)
    (h : l.Nodup) : (l.map f).Nodup := by
  induction l with
  | nil => simp
  | cons x xs ih =>
    rw [List.nodup_cons] at h
    rw [List.map_cons, List.nodup_cons]
    refine ⟨?_, ih (fun a ha b hb e => hinj a (List.mem_cons_of_mem _ ha) b (List.mem_cons_of_mem _ hb) e) h.2⟩
    intro hmem
    rw [List.mem_map] at hmem
    obtain ⟨y, hy, e⟩ := hmem
    have := hinj y (List.mem_cons_of_mem _ hy) x List.mem_cons_self e
    exact h.1 (this ▸ hy)

theorem setM_same (ps : PS) (m : Nat) (l : List Sub) : setM ps m l m = l := by simp [setM]
theorem setM_other (ps : PS) (m j : Nat) (l : List Sub) (h : j ≠ m) : setM ps m l j = ps j := by simp [setM, h]

theorem inv_step (ps : PS) (op : Op) (h : Inv ps) : Inv (step ps op) := by
  intro j
  cases op with
  | sub m c p n =>
    simp only [step, subscribe]
    by_cases hj : j = m
    · subst hj
      rw [setM_same]
      split
      · exact h j
      · rename_i hc
        rw [List.nodup_append]
        refine ⟨h j, by simp, ?_⟩
        intro a ha b hb e
        simp only [List.mem_singleton] at hb
        subst hb; subst e
        exact hc (List.contains_iff_mem.mpr ha)
    · rw [setM_other _ _ _ _ hj]; exact h j
  | unsub m c p n =>
    simp only [step, unsubscribe]
    by_cases hj : j = m
    · subst hj; rw [setM_same]; exact (h j).filter _
    · rw [setM_other _ _ _ _ hj]; exact h j
  | unsubAll m c p =>
    simp only [step, unsubscribeAll]
    by_cases hj : j = m
    · subst hj; rw [setM_same]; exact (h j).filter _
    · rw [setM_other _ _ _ _ hj]; exact h j
  | disconnect m c =>
    simp only [step, disconnect]
    by_cases hj : j = m
    · subst hj; rw [setM_same]; exact (h j).filter _
    · rw [setM_other _ _ _ _ hj]; exact h j

/-- the invariant holds after every history -/
theorem inv_run (ops : List Op) : Inv (ops.foldl step PS.empty) := by
  have : ∀ (ops : List Op) (ps : PS), Inv ps → Inv (ops.foldl step ps) := by
    intro ops
    induction ops with
    | nil => intro ps h; exact h
    | cons op ops ih => intro ps h; exact ih _ (inv_step ps op h)
  exact this ops _ (fun _ => List.nodup_nil)

/-- **C14 (delivery).**  After any history of subscribe / psubscribe / unsubscribe / punsubscribe /
    disconnect over any connections and members, a message published on `ch` is delivered exactly
    once to every current subscription whose channel is `ch` or whose pattern isMatch `ch` — on every
    member — and to nothing else. -/
theorem C14_delivery (g : Glob) (ops : List Op) (members : List Nat) (hm : members.Nodup) (ch : Bytes) :
    let ps := ops.foldl step PS.empty
    (publish g ps members ch).1.Nodup ∧
    ∀ m s, (m, s) ∈ (publish g ps members ch).1 ↔ (m ∈ members ∧ s ∈ ps m ∧ isMatch g ch s = true) := by
  intro ps
  have hinv : Inv ps := inv_run ops
  constructor
  · simp only [publish]
    induction members with
    | nil => simp
    | cons a l ih =>
      rw [List.nodup_cons] at hm
      simp only [List.flatMap_cons]
      rw [List.nodup_append]
      refine ⟨?_, ih hm.2, ?_⟩
      · exact nodup_map_of_inj _ _ (fun x _ y _ e => by injection e) ((hinv a).filter _)
      · intro x hx y hy e
        subst e
        simp only [List.mem_map] at hx
        obtain ⟨s, _, rfl⟩ := hx
        simp only [List.mem_flatMap, List.mem_map] at hy
        obtain ⟨m', hm', s', _, e⟩ := hy
        injection e with e1 e2
        exact hm.1 (e1 ▸ hm')
  · intro m s
    simp only [publish, List.mem_flatMap, List.mem_map, deliveries, List.mem_filter]
    constructor
    · rintro ⟨m', hm', s', ⟨h1, h2⟩, e⟩
      injection e with e1 e2
      subst e1; subst e2
      exact ⟨hm', h1, h2⟩
    · rintro ⟨h1, h2, h3⟩
      exact ⟨m, h1, s, ⟨h2, h3⟩, rfl⟩

/-- **C14 (count).**  The number PUBLISH returns is the number of deliveries. -/
theorem C14_count (g : Glob) (ps : PS) (members : List Nat) (ch : Bytes) :
    (publish g ps members ch).2 = (publish g ps members ch).1.length := rfl

/-- a pattern that does not match, and a channel that differs, are neither delivered nor counted -/
theorem C14_no_match_no_count (g : Glob) (ps : PS) (m : Nat) (ch : Bytes)
    (h : ∀ s ∈ ps m, isMatch g ch s = false) : (publish g ps [m] ch).2 = 0 := by
  simp only [publish, List.flatMap_cons, List.flatMap_nil, List.append_nil, List.length_map, deliveries]
  rw [List.length_eq_zero_iff, List.filter_eq_nil_iff]
  intro s hs; simp [h s hs]

/-- **C14 (silence).**  After UNSUBSCRIBE / PUNSUBSCRIBE of a subscription, or the disconnect of its
    connection, no later message reaches it. -/
theorem C14_silence_unsub (g : Glob) (ps : PS) (m conn : Nat) (pat : Bool) (name ch : Bytes) :
    (⟨conn, pat, name⟩ : Sub) ∉ deliveries g ((unsubscribe ps m conn pat name).1 m) ch := by
  simp [unsubscribe, setM_same, deliveries]

theorem C14_silence_disconnect (g : Glob) (ps : PS) (m conn : Nat) (ch : Bytes) :
    ∀ s ∈ deliveries g ((disconnect ps m conn) m) ch, s.conn ≠ conn := by
  intro s hs
  simp only [disconnect, setM_same, deliveries, List.mem_filter] at hs
  simpa using hs.1.2

theorem mem_dedup (x : Bytes) (l : List Bytes) : x ∈ dedup l ↔ x ∈ l := by
  induction l with
  | nil => simp [dedup]
  | cons a l ih =>
    simp only [dedup]
    split
    · rename_i hc
      rw [ih, List.mem_cons]
      constructor
      · exact Or.inr
      · rintro (h | h)
        · rw [h]; exact List.contains_iff_mem.mp hc
        · exact h
    · simp [ih]

theorem nodup_dedup (l : List Bytes) : (dedup l).Nodup := by
  induction l with
  | nil => simp [dedup]
  | cons a l ih =>
    simp only [dedup]
    split
    · exact ih
    · rename_i hc
      rw [List.nodup_cons]
      refine ⟨?_, ih⟩
      rw [mem_dedup]
      intro h; exact hc (List.contains_iff_mem.mpr h)

/-- **C14 (introspection).**  PUBSUB CHANNELS lists each channel that has a subscriber exactly once and
    no pattern; NUMSUB counts the connections subscribed to the channel (pattern subscriptions with
    the same text do not count); NUMPAT counts distinct patterns. -/
theorem C14_introspection (g : Glob) (ps : PS) (m : Nat) (hinv : Inv ps) :
    (channels g ps m none).Nodup ∧
    (∀ ch, ch ∈ channels g ps m none ↔ ∃ s ∈ ps m, s.pat = false ∧ s.name = ch) ∧
    (∀ ch, numsub ps m ch = ((ps m).filter (fun s => !s.pat && s.name == ch)).length) ∧
    (∀ ch, (((ps m).filter (fun s => !s.pat && s.name == ch)).map (·.conn)).Nodup) := by
  refine ⟨nodup_dedup _, ?_, fun _ => rfl, ?_⟩
  · intro ch
    simp only [channels, mem_dedup, List.mem_map, List.mem_filter]
    constructor
    · rintro ⟨s, ⟨h1, h2⟩, rfl⟩
      exact ⟨s, h1, by simpa using h2, rfl⟩
    · rintro ⟨s, h1, h2, rfl⟩
      exact ⟨s, ⟨h1, by simp [h2]⟩, rfl⟩
  · intro ch
    have hnd := (hinv m).filter (fun s => !s.pat && s.name == ch)
    refine nodup_map_of_inj _ _ ?_ hnd
    intro a ha b hb e
    simp only [List.mem_filter, Bool.and_eq_true, Bool.not_eq_eq_eq_not, Bool.not_true, beq_iff_eq] at ha hb
    cases a; cases b
    simp_all

/-- **Tie to the source.** -/
theorem facts_tie :
    Facts.publish_counts_only_matches = true ∧ Facts.subscribe_is_idempotent = true ∧
    Facts.numsub_excludes_patterns = true := ⟨rfl, rfl, rfl⟩

/-! Non-vacuity -/
example : (publish globMatch ((subscribe ((subscribe PS.empty 0 1 false [110]).1) 0 2 true [110, 42]).1) [0] [110, 49]).2 = 1 := by decide
example : (publish globMatch ((subscribe ((subscribe PS.empty 0 1 false [110]).1) 0 1 false [110]).1) [0] [110]).2 = 1 := by decide

end Olric.C14
