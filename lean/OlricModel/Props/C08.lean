/-
  C08 — Distributed lock: mutual exclusion, token safety and timeout behaviour.

  Layering (IronFleet style):
    1. `sLock / sUnlockFin / sLeaseFin / sChk`: the abstract lock, a single `Option Copy`
       (token, deadline, acquisition time) — short enough to read in a minute;
    2. refinement: in a stable, healthy cluster (no previous owner, every backup owner reachable, copies
       mirrored — the invariant of C04) every lock step of DMap/Model.lean answers what the abstract
       step answers and leaves the abstract state the abstract step leaves, and keeps the invariant;
    3. the property statements, proved on the abstract lock for EVERY history of steps by any number of
       clients at non-decreasing instants — including the second halves of Unlock and Lease executed at a
       later instant than their first halves, with other steps in between (every interleaving at the
       granularity at which the code holds the owner's fragment lock).
-/
import OlricModel.Props.C09
import OlricModel.Generated.Facts
namespace Olric.C08
open Olric Olric.DMap Olric.C04 Olric.C09

/-! ## 1. the abstract lock -/

abbrev LState := Option Copy

/-- deadline stored for a lock taken at `now` (unix ms; 0 = none) -/
def lockTTL (dmTTL timeout now : Int) : Int :=
  prepareTTL (if timeout != 0 then TTLOpt.px timeout else TTLOpt.none) dmTTL now

def sLock (dmTTL : Int) (s : LState) (tok : Bytes) (timeout now : Int) : LState × LockRes :=
  if (live s now).isSome then (s, .notAcquired)
  else (some ⟨tok, lockTTL dmTTL timeout now, now⟩, .acquired)

/-- first half of Unlock / Lease: only looks -/
def sChk (s : LState) (tok : Bytes) (now : Int) : Option LockRes :=
  match live s now with
  | some x => if x.val = tok then none else some .noSuchLock
  | none => some .noSuchLock

def sUnlockFin (s : LState) (tok : Bytes) (now : Int) : LState × LockRes :=
  match s with
  | some x => if expired x.ttl now || x.val != tok then (s, .noSuchLock) else (none, .ok)
  | none => (none, .ok)

def leaseTTL (dmTTL timeout now : Int) : Int :=
  prepareTTL .none (if timeout != 0 then timeout else dmTTL) now

def sLeaseFin (dmTTL : Int) (s : LState) (tok : Bytes) (timeout now : Int) : LState × LockRes :=
  match s with
  | some x =>
    if expired x.ttl now || x.val != tok then (s, .noSuchLock)
    else (some ⟨x.val, leaseTTL dmTTL timeout now, now⟩, .ok)
  | none => (s, .noSuchLock)

/-! ## 2. refinement -/

/-- a stable, healthy cluster as seen from the key's owner -/
structure Healthy (cfg : Cfg) (r : Route) : Prop where
  prev : r.prev = []
  rq : cfg.RQ ≤ r.baks.length + 1
  w : cfg.W ≤ r.baks.length + 1
  baks : cfg.R > 1 ∨ r.baks = []

/-- the abstract state of a cluster: what the owner stores for the key -/
def abs (c : Cluster) (r : Route) (dm : Bytes) (k : Key) : LState := c.copy r.owner .prim dm k

theorem mirror_of_R1 (cfg : Cfg) (r : Route) (h : Healthy cfg r) (hR : ¬ cfg.R > 1) (c : Cluster) (dm : Bytes) (k : Key) :
    Mirror c r dm k := by
  intro b hb
  rcases h.baks with h1 | h1
  · exact absurd h1 hR
  · rw [h1] at hb; cases hb

/-- a Get in a healthy, mirrored cluster answers from the owner's copy and changes nothing
    (read-repair on or off: all versions carry the same timestamp) -/
theorem get_healthy (cfg : Cfg) (r : Route) (h : Healthy cfg r) (c : Cluster) (dm : Bytes) (k : Key) (now : Int)
    (hm : Mirror c r dm k) :
    get cfg r allReach c dm k now =
      (c, match live (abs c r dm k) now with | some x => Res.val x | none => Res.notFound) := by
  unfold abs
  cases hl : live (c.copy r.owner .prim dm k) now with
  | none =>
    have hvs : versions r allReach c dm k now =
        (r.owner, Kind.prim, none) :: r.baks.map (fun m => (m, Kind.bak, none)) := by
      simp only [versions, hl, h.prev, List.reverse_nil, List.filter_nil, List.filterMap_nil, List.nil_append,
        filter_allReach]
      congr 1
      apply List.map_congr_left
      intro m hmem
      rw [hm m hmem, hl]
    have hlen : ¬ (versions r allReach c dm k now).length < cfg.RQ := by
      rw [hvs]; simp only [List.length_cons, List.length_map]; have := h.rq; omega
    have hp : (versions r allReach c dm k now).filterMap (fun v => v.2.2.map (fun x => (v.1, v.2.1, x))) = [] := by
      rw [hvs]; simp [List.filterMap_map, Function.comp_def]
    simp only [DMap.get, hlen, if_false, hp, sortV, List.foldl_nil]
  | some x =>
    have hlive : expired x.ttl now = false := by
      unfold live at hl
      cases hc : c.copy r.owner .prim dm k with
      | none => simp [hc] at hl
      | some y =>
        simp only [hc] at hl
        split at hl
        · cases hl
        · injection hl with hl; subst hl; simpa using ‹¬ expired y.ttl now = true›
    have hvs : versions r allReach c dm k now = (r.owner, Kind.prim, some x) :: r.baks.map (fun m => (m, Kind.bak, some x)) := by
      simp only [versions, hl, h.prev, List.reverse_nil, List.filter_nil, List.filterMap_nil, List.nil_append,
        filter_allReach]
      congr 1
      apply List.map_congr_left
      intro m hmem
      rw [hm m hmem, hl]
    have hpres : (versions r allReach c dm k now).filterMap (fun v => v.2.2.map (fun x => (v.1, v.2.1, x))) =
        (r.owner, Kind.prim, x) :: r.baks.map (fun m => (m, Kind.bak, x)) := by
      rw [hvs]; simp [List.filterMap_map, Function.comp_def]
    have hlen : ¬ (versions r allReach c dm k now).length < cfg.RQ := by
      rw [hvs]; simp only [List.length_cons, List.length_map]; have := h.rq; omega
    simp only [DMap.get, hlen, if_false, hpres]
    cases hs : sortV ((r.owner, Kind.prim, x) :: r.baks.map (fun m => (m, Kind.bak, x))) with
    | nil =>
      have := (mem_sortV (r.owner, Kind.prim, x) ((r.owner, Kind.prim, x) :: r.baks.map (fun m => (m, Kind.bak, x)))).mpr List.mem_cons_self
      rw [hs] at this; cases this
    | cons w ws =>
      have hw : w ∈ sortV ((r.owner, Kind.prim, x) :: r.baks.map (fun m => (m, Kind.bak, x))) := by rw [hs]; exact List.mem_cons_self
      rw [mem_sortV] at hw
      have hwx : w.2.2 = x := by
        rcases List.mem_cons.mp hw with h | h
        · rw [h]
        · simp only [List.mem_map] at h; obtain ⟨m, _, rfl⟩ := h; rfl
      have hl2 : ¬ ((r.owner, Kind.prim, x) :: r.baks.map (fun m => (m, Kind.bak, x))).length < cfg.RQ := by
        simp only [List.length_cons, List.length_map]; have := h.rq; omega
      simp only [hl2, if_false, hwx, hlive, Bool.false_eq_true]
      -- the repair loop finds the winner's timestamp everywhere
      have hfold : ∀ (f : Cluster → (Nat × Kind × Option Copy) → Cluster), (∀ c v, v.2.2 = some x → f c v = c) →
          ∀ (vs : List (Nat × Kind × Option Copy)) (c0 : Cluster), (∀ v ∈ vs, v.2.2 = some x) → vs.foldl f c0 = c0 := by
        intro f hf vs
        induction vs with
        | nil => intro c0 _; rfl
        | cons v vs ih =>
          intro c0 hall
          simp only [List.foldl_cons]
          rw [hf c0 v (hall v List.mem_cons_self)]
          exact ih c0 (fun v' hv' => hall v' (List.mem_cons_of_mem _ hv'))
      have hall : ∀ v ∈ versions r allReach c dm k now, v.2.2 = some x := by
        rw [hvs]; intro v hv
        rcases List.mem_cons.mp hv with h | h
        · rw [h]
        · simp only [List.mem_map] at h; obtain ⟨m, _, rfl⟩ := h; rfl
      split
      · congr 1
        apply hfold _ _ _ c hall
        intro c0 v hv
        simp only [hv, if_true, ite_self]
      · rfl

/-- replication in a healthy cluster is acknowledged, stores the entry on the owner and keeps the mirror -/
theorem replicate_healthy (cfg : Cfg) (r : Route) (h : Healthy cfg r) (c : Cluster) (dm : Bytes) (k : Key) (e : Copy) :
    (replicate cfg r allReach c dm k e).2 = .ok ∧
    abs (replicate cfg r allReach c dm k e).1 r dm k = some e ∧
    Mirror (replicate cfg r allReach c dm k e).1 r dm k := by
  refine ⟨?_, ?_, ?_⟩
  · simp only [replicate, filter_allReach]
    split
    · have := h.w; simp only [ge_iff_le]; split <;> simp_all
    · rfl
  · unfold abs; rw [copy_replicate]; simp
  · by_cases hR : cfg.R > 1
    · exact mirror_replicate cfg hR r c dm k e
    · exact mirror_of_R1 cfg r h hR _ dm k

theorem del_healthy (cfg : Cfg) (r : Route) (h : Healthy cfg r) (c : Cluster) (dm : Bytes) (k : Key) :
    abs (del cfg r c dm k) r dm k = none ∧ Mirror (del cfg r c dm k) r dm k := by
  refine ⟨?_, ?_⟩
  · unfold abs; rw [copy_del]; simp
  · by_cases hR : cfg.R > 1
    · intro b hb
      rw [copy_del, copy_del]
      simp [hR, hb]
    · exact mirror_of_R1 cfg r h hR _ dm k

/-- **refinement, Lock** -/
theorem lock_refines (cfg : Cfg) (r : Route) (h : Healthy cfg r) (c : Cluster) (dm : Bytes) (k : Key)
    (tok : Bytes) (timeout now : Int) (hm : Mirror c r dm k) :
    (lock cfg r allReach c dm k tok timeout now).2 = (sLock cfg.dmTTL (abs c r dm k) tok timeout now).2 ∧
    abs (lock cfg r allReach c dm k tok timeout now).1 r dm k = (sLock cfg.dmTTL (abs c r dm k) tok timeout now).1 ∧
    Mirror (lock cfg r allReach c dm k tok timeout now).1 r dm k := by
  simp only [lock, DMap.put, sLock, Bool.true_and, Bool.false_and, Bool.false_eq_true, if_false]
  unfold abs at *
  cases hl : (live (c.copy r.owner Kind.prim dm k) now).isSome with
  | true => simp only [if_true]; exact ⟨trivial, trivial, hm⟩
  | false =>
    simp only [Bool.false_eq_true, if_false]
    obtain ⟨h1, h2, h3⟩ := replicate_healthy cfg r h c dm k
      ⟨tok, prepareTTL (if timeout != 0 then TTLOpt.px timeout else TTLOpt.none) cfg.dmTTL now, now⟩
    generalize hrep : replicate cfg r allReach c dm k
      ⟨tok, prepareTTL (if timeout != 0 then TTLOpt.px timeout else TTLOpt.none) cfg.dmTTL now, now⟩ = res at h1 h2 h3
    obtain ⟨c', rr⟩ := res
    simp only at h1; subst h1
    simp only
    refine ⟨trivial, ?_, h3⟩
    simpa [abs, lockTTL] using h2

/-- **refinement, first halves**: they answer like the abstract check and change nothing -/
theorem unlockChk_refines (cfg : Cfg) (r : Route) (h : Healthy cfg r) (c : Cluster) (dm : Bytes) (k : Key)
    (tok : Bytes) (now : Int) (hm : Mirror c r dm k) :
    unlockChk cfg r allReach c dm k tok now = (c, sChk (abs c r dm k) tok now) := by
  simp only [unlockChk, get_healthy cfg r h c dm k now hm, sChk]
  cases live (abs c r dm k) now with
  | none => rfl
  | some x => simp only; split <;> rfl

theorem leaseChk_refines (cfg : Cfg) (r : Route) (h : Healthy cfg r) (c : Cluster) (dm : Bytes) (k : Key)
    (tok : Bytes) (now : Int) (hm : Mirror c r dm k) :
    leaseChk cfg r allReach c dm k tok now = (c, sChk (abs c r dm k) tok now) := by
  simp only [leaseChk, get_healthy cfg r h c dm k now hm, sChk]
  cases hl : live (abs c r dm k) now with
  | none => rfl
  | some x =>
    simp only
    split
    · -- the extra expiry test of leaseKey can never fire on a live entry
      have hlive : expired x.ttl now = false := by
        unfold live at hl
        cases hc : abs c r dm k with
        | none => simp [hc] at hl
        | some y =>
          simp only [hc] at hl
          split at hl
          · cases hl
          · injection hl with hl; subst hl; simpa using ‹¬ expired y.ttl now = true›
      have : (x.ttl > 0 && decide (Int.tdiv now 1000000 ≥ x.ttl)) = false := by
        simp only [expired, Bool.and_eq_false_iff, bne_eq_false_iff_eq, decide_eq_false_iff_not] at hlive
        simp only [Bool.and_eq_false_iff, decide_eq_false_iff_not]
        rcases hlive with h0 | h1
        · left; omega
        · right; exact h1
      simp only [this, Bool.false_eq_true, if_false]
    · rfl

/-- **refinement, second half of Unlock** -/
theorem unlockFin_refines (cfg : Cfg) (r : Route) (h : Healthy cfg r) (c : Cluster) (dm : Bytes) (k : Key)
    (tok : Bytes) (now : Int) (hm : Mirror c r dm k) :
    (unlockFin cfg r c dm k tok now).2 = (sUnlockFin (abs c r dm k) tok now).2 ∧
    abs (unlockFin cfg r c dm k tok now).1 r dm k = (sUnlockFin (abs c r dm k) tok now).1 ∧
    Mirror (unlockFin cfg r c dm k tok now).1 r dm k := by
  obtain ⟨d1, d2⟩ := del_healthy cfg r h c dm k
  simp only [unlockFin, sUnlockFin]
  unfold abs at *
  cases hc : c.copy r.owner Kind.prim dm k with
  | none => exact ⟨rfl, d1, d2⟩
  | some x =>
    simp only
    split
    · exact ⟨rfl, hc, hm⟩
    · exact ⟨rfl, d1, d2⟩

/-- **refinement, second half of Lease** -/
theorem leaseFin_refines (cfg : Cfg) (r : Route) (h : Healthy cfg r) (c : Cluster) (dm : Bytes) (k : Key)
    (tok : Bytes) (timeout now : Int) (hm : Mirror c r dm k) :
    (leaseFin cfg r allReach c dm k tok timeout now).2 = (sLeaseFin cfg.dmTTL (abs c r dm k) tok timeout now).2 ∧
    abs (leaseFin cfg r allReach c dm k tok timeout now).1 r dm k = (sLeaseFin cfg.dmTTL (abs c r dm k) tok timeout now).1 ∧
    Mirror (leaseFin cfg r allReach c dm k tok timeout now).1 r dm k := by
  simp only [leaseFin, sLeaseFin]
  unfold abs at *
  cases hc : c.copy r.owner Kind.prim dm k with
  | none => exact ⟨rfl, hc, hm⟩
  | some x =>
    simp only
    by_cases hg : (expired x.ttl now || x.val != tok) = true
    · simp only [hg, if_true]; exact ⟨trivial, hc, hm⟩
    · simp only [hg, Bool.false_eq_true, if_false]
      have hlive : expired x.ttl now = false := by
        cases he : expired x.ttl now with
        | false => rfl
        | true => simp [he] at hg
      simp only [DMap.expire, hc, live, hlive, Bool.false_eq_true, if_false]
      obtain ⟨h1, h2, h3⟩ := replicate_healthy cfg r h c dm k
        ⟨x.val, prepareTTL TTLOpt.none (if timeout != 0 then timeout else cfg.dmTTL) now, now⟩
      generalize replicate cfg r allReach c dm k
        ⟨x.val, prepareTTL TTLOpt.none (if timeout != 0 then timeout else cfg.dmTTL) now, now⟩ = res at h1 h2 h3
      obtain ⟨c', rr⟩ := res
      simp only at h1; subst h1
      exact ⟨rfl, by simpa [abs, leaseTTL] using h2, h3⟩

/-! ## 3. the property, on the abstract lock -/

/-- what a step of a history does (the first halves of Unlock / Lease do not change anything and are not
    steps; a complete Unlock is `sChk` followed — at the same or a later instant — by `unlockFin`) -/
inductive Ev
  | lock (tok : Bytes) (timeout : Int)
  | unlockFin (tok : Bytes)
  | leaseFin (tok : Bytes) (timeout : Int)
  deriving Repr

def sStep (dmTTL : Int) (s : LState) (ev : Ev) (now : Int) : LState × LockRes :=
  match ev with
  | .lock tok timeout => sLock dmTTL s tok timeout now
  | .unlockFin tok => sUnlockFin s tok now
  | .leaseFin tok timeout => sLeaseFin dmTTL s tok timeout now

/-- **C08 (a live lock is only ever touched by its own token).**  While the stored lock is live, any
    step that does not present its token — an acquisition attempt, or an Unlock / Lease (second half
    included) with a stale or forged token — fails with lock-not-acquired / no-such-lock and changes
    nothing. -/
theorem C08_holder_stable (dmTTL : Int) (x : Copy) (now : Int) (hlive : expired x.ttl now = false) (ev : Ev)
    (hother : match ev with | .lock _ _ => True | .unlockFin t => t ≠ x.val | .leaseFin t _ => t ≠ x.val) :
    (sStep dmTTL (some x) ev now).1 = some x ∧
    (sStep dmTTL (some x) ev now).2 = (match ev with | .lock _ _ => LockRes.notAcquired | _ => LockRes.noSuchLock) := by
  cases ev with
  | lock tok timeout => simp [sStep, sLock, live, hlive]
  | unlockFin t =>
    have : (x.val != t) = true := by simpa [bne_iff_ne] using (Ne.symm hother)
    simp [sStep, sUnlockFin, this]
  | leaseFin t timeout =>
    have : (x.val != t) = true := by simpa [bne_iff_ne] using (Ne.symm hother)
    simp [sStep, sLeaseFin, this]

/-- the first half alone also refuses a token that is not the live holder's, and lets the holder's through -/
theorem C08_chk (s : LState) (tok : Bytes) (now : Int) :
    (sChk s tok now = none ↔ ∃ x, s = some x ∧ expired x.ttl now = false ∧ x.val = tok) ∧
    (sChk s tok now ≠ none → sChk s tok now = some .noSuchLock) := by
  unfold sChk live
  cases s with
  | none => simp
  | some x =>
    simp only
    cases he : expired x.ttl now with
    | true => simp [he]
    | false =>
      simp only [Bool.false_eq_true, if_false]
      by_cases hv : x.val = tok
      · simp [hv, he]
      · simp [hv]

/-- **C08 (acquisition only of a free or expired lock).**  Lock returns a token exactly when no live
    entry is stored — the key was never locked, was unlocked, or its holder's deadline has passed —
    and then stores the new token with the deadline `now + timeout` (none without a timeout). -/
theorem C08_acquire_iff (dmTTL : Int) (s : LState) (tok : Bytes) (timeout now : Int) :
    ((sLock dmTTL s tok timeout now).2 = .acquired ↔ live s now = none) ∧
    ((sLock dmTTL s tok timeout now).2 = .acquired →
        (sLock dmTTL s tok timeout now).1 = some ⟨tok, lockTTL dmTTL timeout now, now⟩) ∧
    ((sLock dmTTL s tok timeout now).2 ≠ .acquired →
        (sLock dmTTL s tok timeout now) = (s, .notAcquired)) := by
  unfold sLock
  cases hl : live s now with
  | none => simp
  | some x => simp

/-- **C08 (timeouts).**  A lock taken with a timeout (no DMap default expiry needed) carries the
    deadline ⌊(now + timeout) / 1 ms⌋; it is live — nobody else can acquire it — at every instant whose
    millisecond is before the deadline, and it is free for acquisition at every instant from the
    deadline on.  A lock taken without a timeout (and no DMap default expiry) never expires. -/
theorem C08_timeout (dmTTL : Int) (tok : Bytes) (timeout t0 : Int) (hto : timeout ≠ 0) :
    lockTTL dmTTL timeout t0 = Int.tdiv (timeout + t0) 1000000 ∧
    ∀ now tok' timeout', lockTTL dmTTL timeout t0 ≠ 0 →
      ((Int.tdiv now 1000000 < lockTTL dmTTL timeout t0 →
          sLock dmTTL (some ⟨tok, lockTTL dmTTL timeout t0, t0⟩) tok' timeout' now =
            (some ⟨tok, lockTTL dmTTL timeout t0, t0⟩, .notAcquired)) ∧
       (lockTTL dmTTL timeout t0 ≤ Int.tdiv now 1000000 →
          (sLock dmTTL (some ⟨tok, lockTTL dmTTL timeout t0, t0⟩) tok' timeout' now).2 = .acquired)) := by
  have h1 : lockTTL dmTTL timeout t0 = Int.tdiv (timeout + t0) 1000000 := by
    simp [lockTTL, prepareTTL, hto]
  refine ⟨h1, ?_⟩
  intro now tok' timeout' hnz
  generalize lockTTL dmTTL timeout t0 = d at hnz ⊢
  refine ⟨fun hlt => ?_, fun hge => ?_⟩
  · have : expired d now = false := by
      simp only [expired, Bool.and_eq_false_iff, decide_eq_false_iff_not]; right; omega
    simp [sLock, live, this]
  · have : expired d now = true := by
      simp only [expired, Bool.and_eq_true, bne_iff_ne, decide_eq_true_eq]; exact ⟨hnz, hge⟩
    simp [sLock, live, this]

theorem C08_no_timeout (tok : Bytes) (t0 : Int) :
    lockTTL 0 0 t0 = 0 ∧
    ∀ now tok' timeout', sLock 0 (some ⟨tok, 0, t0⟩) tok' timeout' now = (some ⟨tok, 0, t0⟩, .notAcquired) := by
  refine ⟨by simp [lockTTL, prepareTTL], ?_⟩
  intro now tok' timeout'
  simp [sLock, live, expired]

/-- the deadline is never earlier than `timeout` minus the millisecond truncation of the stored expiry -/
theorem C08_deadline_granularity (dmTTL timeout t0 : Int) (hto : timeout ≠ 0) (h0 : 0 ≤ timeout + t0) :
    timeout + t0 - 1000000 < lockTTL dmTTL timeout t0 * 1000000 ∧ lockTTL dmTTL timeout t0 * 1000000 ≤ timeout + t0 := by
  have h1 : lockTTL dmTTL timeout t0 = Int.tdiv (timeout + t0) 1000000 := by
    simp [lockTTL, prepareTTL, hto]
  rw [h1, Int.tdiv_eq_ediv_of_nonneg h0]
  omega

/-! ### mutual exclusion over whole histories -/

/-- what the clients believe: the tokens handed out and not given back, with their deadlines -/
abbrev Bel := List (Bytes × Int)

def validB (now : Int) (b : Bytes × Int) : Bool := !expired b.2 now

/-- one step of a history with the clients' beliefs updated from the replies they receive -/
def gStep (dmTTL : Int) (sb : LState × Bel) (ev : Ev) (now : Int) : LState × Bel :=
  match ev with
  | .lock tok timeout =>
    match sLock dmTTL sb.1 tok timeout now with
    | (s', .acquired) => (s', (tok, lockTTL dmTTL timeout now) :: sb.2)
    | (s', _) => (s', sb.2)
  | .unlockFin tok =>
    match sUnlockFin sb.1 tok now with
    | (s', .ok) => (s', sb.2.filter (fun b => b.1 != tok))
    | (s', _) => (s', sb.2)
  | .leaseFin tok timeout =>
    match sLeaseFin dmTTL sb.1 tok timeout now with
    | (s', .ok) => (s', sb.2.map (fun b => if b.1 = tok then (tok, leaseTTL dmTTL timeout now) else b))
    | (s', _) => (s', sb.2)

/-- every belief that is still valid is the stored lock -/
def Inv (now : Int) (sb : LState × Bel) : Prop :=
  ∀ b ∈ sb.2, validB now b = true → ∃ ts, sb.1 = some ⟨b.1, b.2, ts⟩

theorem expired_mono (d now now' : Int) (hle : now ≤ now') (h : expired d now = true) : expired d now' = true := by
  simp only [expired, Bool.and_eq_true, bne_iff_ne, decide_eq_true_eq] at *
  refine ⟨h.1, ?_⟩
  have := @Int.tdiv_le_tdiv now now' 1000000 (by decide) hle
  omega

theorem inv_mono (now now' : Int) (hle : now ≤ now') (sb : LState × Bel) (h : Inv now sb) : Inv now' sb := by
  intro b hb hv
  apply h b hb
  simp only [validB, Bool.not_eq_true'] at *
  cases he : expired b.2 now with
  | false => rfl
  | true => rw [expired_mono b.2 now now' hle he] at hv; cases hv

theorem inv_step (dmTTL : Int) (now : Int) (sb : LState × Bel) (ev : Ev) (h : Inv now sb) :
    Inv now (gStep dmTTL sb ev now) := by
  obtain ⟨s, bel⟩ := sb
  cases ev with
  | lock tok timeout =>
    simp only [gStep, sLock]
    cases hl : (live s now).isSome with
    | true => simpa using h
    | false =>
      simp only [Bool.false_eq_true, if_false]
      intro b hb hv
      rcases List.mem_cons.mp hb with rfl | hb
      · exact ⟨now, rfl⟩
      · -- an old belief that is still valid would be the stored, live lock
        obtain ⟨ts, hs⟩ := h b hb hv
        simp only at hs
        have : (live s now).isSome = true := by
          simp only [hs, live]
          simp only [validB, Bool.not_eq_true'] at hv
          simp [hv]
        rw [hl] at this; cases this
  | unlockFin tok =>
    simp only [gStep, sUnlockFin]
    cases s with
    | none =>
      intro b hb hv
      simp only [List.mem_filter] at hb
      obtain ⟨ts, hs⟩ := h b hb.1 hv
      cases hs
    | some x =>
      simp only
      by_cases hg : (expired x.ttl now || x.val != tok) = true
      · simpa [hg] using h
      · simp only [hg, Bool.false_eq_true, if_false]
        intro b hb hv
        simp only [List.mem_filter, bne_iff_ne, ne_eq] at hb
        obtain ⟨ts, hs⟩ := h b hb.1 hv
        simp only [Option.some.injEq] at hs
        have hxv : x.val = tok := by
          cases hv' : (x.val != tok) with
          | false => simpa [bne_iff_ne] using hv'
          | true => simp [hv'] at hg
        rw [hs] at hxv
        exact absurd hxv hb.2
  | leaseFin tok timeout =>
    simp only [gStep, sLeaseFin]
    cases s with
    | none => simpa using h
    | some x =>
      simp only
      by_cases hg : (expired x.ttl now || x.val != tok) = true
      · simpa [hg] using h
      · simp only [hg, Bool.false_eq_true, if_false]
        have hxv : x.val = tok := by
          cases hv' : (x.val != tok) with
          | false => simpa [bne_iff_ne] using hv'
          | true => simp [hv'] at hg
        have hxl : expired x.ttl now = false := by
          cases he : expired x.ttl now with
          | false => rfl
          | true => simp [he] at hg
        intro b hb hv
        simp only [List.mem_map] at hb
        obtain ⟨b0, hb0, rfl⟩ := hb
        by_cases hbt : b0.1 = tok
        · simp only [hbt, if_true]
          exact ⟨now, by rw [hxv]⟩
        · simp only [hbt, if_false] at hv ⊢
          obtain ⟨ts, hs⟩ := h b0 hb0 hv
          simp only [Option.some.injEq] at hs
          rw [hs] at hxv
          exact absurd hxv hbt

/-- a history: steps by any clients at the given instants -/
def run (dmTTL : Int) (sb : LState × Bel) : List (Ev × Int) → LState × Bel
  | [] => sb
  | (ev, now) :: rest => run dmTTL (gStep dmTTL sb ev now) rest

/-- the instants of a history never go backwards, starting from `t` -/
def Monotone (t : Int) : List (Ev × Int) → Prop
  | [] => True
  | (_, now) :: rest => t ≤ now ∧ Monotone now rest

def lastTime (t : Int) : List (Ev × Int) → Int
  | [] => t
  | (_, now) :: rest => lastTime now rest

theorem inv_run (dmTTL : Int) (h : List (Ev × Int)) (t : Int) (sb : LState × Bel) (hi : Inv t sb) (hm : Monotone t h) :
    Inv (lastTime t h) (run dmTTL sb h) := by
  induction h generalizing t sb with
  | nil => exact hi
  | cons e rest ih =>
    obtain ⟨ev, now⟩ := e
    simp only [run, lastTime]
    exact ih now _ (inv_step dmTTL now sb ev (inv_mono t now hm.1 sb hi)) hm.2

/-- **C08 (mutual exclusion).**  After ANY history of lock steps by any number of clients — acquisition
    attempts with any timeouts, Unlocks and Leases with current, stale or forged tokens, their second
    halves delayed past other clients' steps and past deadlines — at non-decreasing instants, at any
    later instant: every client whose token was handed out, not given back, and whose deadline (as
    extended by its Leases) has not passed, holds THE stored lock; in particular any two such clients
    hold the same token with the same deadline.  At most one token is held at any instant. -/
theorem C08_mutex (dmTTL : Int) (h : List (Ev × Int)) (t0 : Int) (hm : Monotone t0 h) (later : Int)
    (hl : lastTime t0 h ≤ later) (b1 b2 : Bytes × Int)
    (h1 : b1 ∈ (run dmTTL (none, []) h).2) (h2 : b2 ∈ (run dmTTL (none, []) h).2)
    (v1 : validB later b1 = true) (v2 : validB later b2 = true) :
    b1 = b2 ∧ ∃ ts, (run dmTTL (none, []) h).1 = some ⟨b1.1, b1.2, ts⟩ := by
  have hinv : Inv later (run dmTTL (none, []) h) :=
    inv_mono _ _ hl _ (inv_run dmTTL h t0 (none, []) (fun b hb => by cases hb) hm)
  obtain ⟨ts1, e1⟩ := hinv b1 h1 v1
  obtain ⟨ts2, e2⟩ := hinv b2 h2 v2
  rw [e1] at e2
  simp only [Option.some.injEq, Copy.mk.injEq] at e2
  exact ⟨Prod.ext e2.1 e2.2.1, ts1, e1⟩

/-- with tokens that are never reused (16 random bytes in the code) a token appears at most once among
    the beliefs: "the same token" above is "the same client" -/
theorem C08_tokens_unique (dmTTL : Int) (h : List (Ev × Int)) (sb : LState × Bel)
    (hnd : (sb.2.map (·.1)).Nodup)
    (hfresh : ∀ (i : Nat) tok timeout now, h[i]? = some (Ev.lock tok timeout, now) →
        tok ∉ sb.2.map (·.1) ∧ ∀ j tok' timeout' now', j < i → h[j]? = some (Ev.lock tok' timeout', now') → tok' ≠ tok) :
    ((run dmTTL sb h).2.map (·.1)).Nodup := by
  induction h generalizing sb with
  | nil => exact hnd
  | cons e rest ih =>
    obtain ⟨ev, now⟩ := e
    simp only [run]
    -- tokens in the beliefs after one step are old ones, plus the acquired one
    have hsub : ∀ t, t ∈ (gStep dmTTL sb ev now).2.map (·.1) →
        t ∈ sb.2.map (·.1) ∨ ∃ timeout, ev = Ev.lock t timeout := by
      intro t ht
      cases ev with
      | lock tok timeout =>
        simp only [gStep] at ht
        split at ht
        · simp only [List.map_cons, List.mem_cons] at ht
          rcases ht with rfl | ht
          · exact Or.inr ⟨timeout, rfl⟩
          · exact Or.inl ht
        · exact Or.inl ht
      | unlockFin tok =>
        simp only [gStep] at ht
        split at ht
        · simp only [List.mem_map, List.mem_filter] at ht
          obtain ⟨b, ⟨hb, _⟩, rfl⟩ := ht
          exact Or.inl (List.mem_map.mpr ⟨b, hb, rfl⟩)
        · exact Or.inl ht
      | leaseFin tok timeout =>
        simp only [gStep] at ht
        split at ht
        · simp only [List.mem_map] at ht
          obtain ⟨b, ⟨b0, hb0, rfl⟩, rfl⟩ := ht
          left
          by_cases hbt : b0.1 = tok
          · simp only [hbt, if_true]; exact List.mem_map.mpr ⟨b0, hb0, hbt⟩
          · simp only [hbt, if_false]; exact List.mem_map.mpr ⟨b0, hb0, rfl⟩
        · exact Or.inl ht
    apply ih
    · -- no duplicates after the step
      cases ev with
      | lock tok timeout =>
        simp only [gStep]
        split
        · simp only [List.map_cons, List.nodup_cons]
          exact ⟨(hfresh 0 tok timeout now rfl).1, hnd⟩
        · exact hnd
      | unlockFin tok =>
        simp only [gStep]
        split
        · exact (List.Nodup.sublist (List.Sublist.map _ List.filter_sublist) hnd)
        · exact hnd
      | leaseFin tok timeout =>
        simp only [gStep]
        split
        · have : (sb.2.map (fun b => if b.1 = tok then (tok, leaseTTL dmTTL timeout now) else b)).map (·.1) = sb.2.map (·.1) := by
            rw [List.map_map]
            apply List.map_congr_left
            intro b _
            simp only [Function.comp]
            split
            · rename_i hb; exact hb.symm
            · rfl
          rw [this]; exact hnd
        · exact hnd
    · intro i tok timeout now' hi
      have hf := hfresh (i + 1) tok timeout now' (by simpa using hi)
      refine ⟨?_, ?_⟩
      · intro hmem
        rcases hsub tok hmem with hold | ⟨to, hev⟩
        · exact hf.1 hold
        · exact hf.2 0 tok to now (by omega) (by simp [hev]) rfl
      · intro j tok' timeout' now'' hj hjj
        exact hf.2 (j + 1) tok' timeout' now'' (by omega) (by simpa using hjj)

/-! ## 4. the property, for the cluster model: histories of concrete steps -/

/-- the concrete step that corresponds to an event -/
def cStep (cfg : Cfg) (r : Route) (dm : Bytes) (k : Key) (c : Cluster) (ev : Ev) (now : Int) : Cluster × LockRes :=
  match ev with
  | .lock tok timeout => lock cfg r allReach c dm k tok timeout now
  | .unlockFin tok => unlockFin cfg r c dm k tok now
  | .leaseFin tok timeout => leaseFin cfg r allReach c dm k tok timeout now

theorem cStep_refines (cfg : Cfg) (r : Route) (h : Healthy cfg r) (dm : Bytes) (k : Key) (c : Cluster) (ev : Ev) (now : Int)
    (hm : Mirror c r dm k) :
    (cStep cfg r dm k c ev now).2 = (sStep cfg.dmTTL (abs c r dm k) ev now).2 ∧
    abs (cStep cfg r dm k c ev now).1 r dm k = (sStep cfg.dmTTL (abs c r dm k) ev now).1 ∧
    Mirror (cStep cfg r dm k c ev now).1 r dm k := by
  cases ev with
  | lock tok timeout => exact lock_refines cfg r h c dm k tok timeout now hm
  | unlockFin tok => exact unlockFin_refines cfg r h c dm k tok now hm
  | leaseFin tok timeout => exact leaseFin_refines cfg r h c dm k tok timeout now hm

def cRun (cfg : Cfg) (r : Route) (dm : Bytes) (k : Key) (c : Cluster) : List (Ev × Int) → Cluster × List LockRes
  | [] => (c, [])
  | (ev, now) :: rest =>
    let (c1, res) := cStep cfg r dm k c ev now
    let (c2, ress) := cRun cfg r dm k c1 rest
    (c2, res :: ress)

def sRun (dmTTL : Int) (s : LState) : List (Ev × Int) → LState × List LockRes
  | [] => (s, [])
  | (ev, now) :: rest =>
    let (s1, res) := sStep dmTTL s ev now
    let (s2, ress) := sRun dmTTL s1 rest
    (s2, res :: ress)

/-- **C08 (refinement of whole histories).**  Every history of lock steps on the cluster model — in a
    stable healthy cluster, for every replica count, quorum setting and read-repair setting — produces
    exactly the replies of the abstract lock and ends in a cluster whose owner stores the abstract
    lock's state, mirrored on every backup owner.  All statements of section 3 therefore hold for the
    cluster model. -/
theorem C08_refines (cfg : Cfg) (r : Route) (h : Healthy cfg r) (dm : Bytes) (k : Key) (hist : List (Ev × Int))
    (c : Cluster) (hm : Mirror c r dm k) :
    (cRun cfg r dm k c hist).2 = (sRun cfg.dmTTL (abs c r dm k) hist).2 ∧
    abs (cRun cfg r dm k c hist).1 r dm k = (sRun cfg.dmTTL (abs c r dm k) hist).1 ∧
    Mirror (cRun cfg r dm k c hist).1 r dm k := by
  induction hist generalizing c with
  | nil => exact ⟨rfl, rfl, hm⟩
  | cons e rest ih =>
    obtain ⟨ev, now⟩ := e
    obtain ⟨r1, r2, r3⟩ := cStep_refines cfg r h dm k c ev now hm
    obtain ⟨i1, i2, i3⟩ := ih (cStep cfg r dm k c ev now).1 r3
    simp only [cRun, sRun]
    rw [r2] at i1 i2
    exact ⟨by rw [i1, r1], i2, i3⟩

/-- the belief component of `run` is computed from the replies only: `run` and `sRun` walk the same states -/
theorem run_state (dmTTL : Int) (hist : List (Ev × Int)) (sb : LState × Bel) :
    (run dmTTL sb hist).1 = (sRun dmTTL sb.1 hist).1 := by
  induction hist generalizing sb with
  | nil => rfl
  | cons e rest ih =>
    obtain ⟨ev, now⟩ := e
    simp only [run, sRun]
    rw [ih]
    congr 1
    cases ev with
    | lock tok timeout => simp only [gStep, sStep]; split <;> simp_all
    | unlockFin tok => simp only [gStep, sStep]; split <;> simp_all
    | leaseFin tok timeout => simp only [gStep, sStep]; split <;> simp_all

/-- Unlock and Lease executed at one instant are the two halves in sequence (definitional) -/
theorem C08_unlock_is_chk_fin (cfg : Cfg) (r : Route) (c : Cluster) (dm : Bytes) (k : Key) (tok : Bytes) (now : Int) :
    unlock cfg r allReach c dm k tok now =
      (match unlockChk cfg r allReach c dm k tok now with
       | (c1, some e) => (c1, e)
       | (c1, none) => unlockFin cfg r c1 dm k tok now) := rfl

theorem C08_lease_is_chk_fin (cfg : Cfg) (r : Route) (c : Cluster) (dm : Bytes) (k : Key) (tok : Bytes) (timeout now : Int) :
    lease cfg r allReach c dm k tok timeout now =
      (match leaseChk cfg r allReach c dm k tok now with
       | (c1, some e) => (c1, e)
       | (c1, none) => leaseFin cfg r allReach c1 dm k tok timeout now) := rfl

/-- where the code finishes Unlock / Lease (regenerated from the source on every run): the token is compared
    once more under the owner's fragment lock, together with the delete / the expiry update — the two
    second-half steps `unlockFin` / `leaseFin` are atomic steps of that shape -/
theorem facts_tie : Facts.lock_release_compares_under_fragment_lock = true := by decide

/-! Non-vacuity: R = 2, a lock with a 500 ms timeout taken at t = 1 s through the model; a competitor at
    1.499 s is refused, at 1.5 s it acquires; the first holder's delayed Unlock then answers no-such-lock
    and leaves the competitor's lock in place. -/
def r1 : Route := ⟨[1], [0]⟩
def cfg1 : Cfg := { R := 2, W := 2, RQ := 1 }
example : Healthy cfg1 r1 := ⟨rfl, by decide, by decide, Or.inl (by decide)⟩
def cA : Cluster := (lock cfg1 r1 allReach Cluster.empty [100] [76] [1] 500000000 1000000000).1
example : (lock cfg1 r1 allReach Cluster.empty [100] [76] [1] 500000000 1000000000).2 = .acquired := by decide
example : (lock cfg1 r1 allReach cA [100] [76] [2] 0 1499000000).2 = .notAcquired := by decide
example : (lock cfg1 r1 allReach cA [100] [76] [2] 0 1500000000).2 = .acquired := by decide
example : (unlockFin cfg1 r1 (lock cfg1 r1 allReach cA [100] [76] [2] 0 1500000000).1 [100] [76] [1] 1500000000).2 = .noSuchLock := by decide
example : ((unlockFin cfg1 r1 (lock cfg1 r1 allReach cA [100] [76] [2] 0 1500000000).1 [100] [76] [1] 1500000000).1.copy 1 .prim [100] [76]).map (·.val)
    = some [2] := by decide

end Olric.C08
