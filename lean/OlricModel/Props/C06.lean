/-
  C06 — Conflicting copies resolve to the newest write (LWW read, merge, read-repair).
  Statements about DMap/Model.lean (`sortV`, `get`) and the store-level merge `KV.lww` (C11_transfer).
-/
import OlricModel.Props.C09
import OlricModel.Props.C11
namespace Olric.C06
open Olric Olric.DMap

abbrev V := Nat × Kind × Copy

def Desc (l : List V) : Prop := l.Pairwise (fun a b => a.2.2.ts ≥ b.2.2.ts)

theorem insertV_desc (x : V) (l : List V) (h : Desc l) : Desc (insertV x l) := by
  induction l with
  | nil => simp [insertV, Desc]
  | cons y ys ih =>
    simp only [insertV]
    split
    · rename_i hge
      rw [Desc, List.pairwise_cons]
      refine ⟨?_, h⟩
      intro b hb
      cases hb with
      | head => exact hge
      | tail _ hb =>
        have := (List.pairwise_cons.mp h).1 b hb
        omega
    · rename_i hlt
      rw [Desc, List.pairwise_cons] at h ⊢
      refine ⟨?_, ih h.2⟩
      intro b hb
      rw [C09.mem_insertV] at hb
      rcases hb with rfl | hb
      · omega
      · exact h.1 b hb

theorem sortV_desc (l : List V) : Desc (sortV l) := by
  have : ∀ (l acc : List V), Desc acc → Desc (l.foldl (fun acc x => insertV x acc) acc) := by
    intro l
    induction l with
    | nil => intro acc h; exact h
    | cons a l ih => intro acc h; exact ih _ (insertV_desc a acc h)
  exact this l [] List.Pairwise.nil

/-- **C06 (read newest).**  Of any set of gathered versions — with ties and missing copies — the one
    a read returns carries the newest write timestamp. -/
theorem C06_read_newest (l : List V) (w : V) (ws : List V) (hs : sortV l = w :: ws) :
    ∀ v ∈ l, v.2.2.ts ≤ w.2.2.ts := by
  intro v hv
  have hmem : v ∈ sortV l := (C09.mem_sortV v l).mpr hv
  have hd := sortV_desc l
  rw [hs] at hmem hd
  cases hmem with
  | head => exact Int.le_refl _
  | tail _ hm => exact (List.pairwise_cons.mp hd).1 v hm

/-- and it is one of the gathered versions -/
theorem C06_winner_is_a_copy (l : List V) (w : V) (ws : List V) (hs : sortV l = w :: ws) : w ∈ l :=
  (C09.mem_sortV w l).mp (by rw [hs]; exact List.mem_cons_self)

/-- what Get answers is the newest live copy among owner, previous owners and reachable backups -/
theorem C06_get_returns_newest (cfg : Cfg) (r : Route) (reach : Reach) (c : Cluster) (dm : Bytes) (k : Key) (now : Int)
    (w : Copy) (h : (get cfg r reach c dm k now).2 = .val w) :
    ∀ v ∈ versions r reach c dm k now, ∀ x, v.2.2 = some x → x.ts ≤ w.ts := by
  simp only [DMap.get] at h
  split at h
  · cases h
  · generalize hp : (versions r reach c dm k now).filterMap (fun v => v.2.2.map (fun x => (v.1, v.2.1, x))) = pres at h
    cases hs : sortV pres with
    | nil => simp [hs] at h
    | cons top rest =>
      simp only [hs] at h
      split at h
      · cases h
      · split at h
        · cases h
        · injection h with h
          subst h
          intro v hv x hx
          have hmem : (v.1, v.2.1, x) ∈ pres := by
            rw [← hp, List.mem_filterMap]
            exact ⟨v, hv, by simp [hx]⟩
          exact C06_read_newest pres top rest hs _ hmem

/-! ### merge: last write wins, whatever the arrival order and however often a table is re-delivered -/

def mergeAll (cur : Option Copy) (incs : List Copy) : Option Copy :=
  incs.foldl (fun acc x => some (lwwC acc x)) cur

theorem mergeAll_ts (incs : List Copy) (cur : Option Copy) :
    (∀ x ∈ incs, ∀ r, mergeAll cur incs = some r → x.ts ≤ r.ts) ∧
    (∀ c, cur = some c → ∀ r, mergeAll cur incs = some r → c.ts ≤ r.ts) ∧
    (∀ r, mergeAll cur incs = some r → cur = some r ∨ r ∈ incs) := by
  induction incs generalizing cur with
  | nil =>
    simp only [mergeAll, List.foldl_nil]
    refine ⟨fun x hx => (by cases hx), fun c hc r hr => ?_, fun r hr => Or.inl hr⟩
    rw [hc] at hr; injection hr with hr; subst hr; exact Int.le_refl _
  | cons a l ih =>
    simp only [mergeAll, List.foldl_cons]
    obtain ⟨i1, i2, i3⟩ := ih (some (lwwC cur a))
    have hstep : ∀ c, cur = some c → c.ts ≤ (lwwC cur a).ts := by
      intro c hc; subst hc; simp only [lwwC]; split <;> omega
    have hinc : a.ts ≤ (lwwC cur a).ts := by
      cases cur with
      | none => simp [lwwC]
      | some c => simp only [lwwC]; split <;> omega
    refine ⟨?_, ?_, ?_⟩
    · intro x hx r hr
      cases hx with
      | head => exact Int.le_trans hinc (i2 _ rfl r hr)
      | tail _ hx => exact i1 x hx r hr
    · intro c hc r hr
      exact Int.le_trans (hstep c hc) (i2 _ rfl r hr)
    · intro r hr
      rcases i3 r hr with h | h
      · injection h with h
        cases cur with
        | none => right; simp [lwwC] at h; rw [← h]; exact List.mem_cons_self
        | some c =>
          simp only [lwwC] at h
          split at h
          · right; rw [← h]; exact List.mem_cons_self
          · left; rw [h]
      · exact Or.inr (List.mem_cons_of_mem _ h)

/-- **C06 (merge).**  Merging any list of incoming versions of a key — in ANY order, with ANY
    repetitions — onto the stored one leaves a version whose timestamp is the maximum of all of them;
    two deliveries that contain the same versions (a permutation, with duplicates) agree on that
    timestamp, and on the whole record when no two different versions share a timestamp. -/
theorem C06_merge_lww (cur : Option Copy) (l1 l2 : List Copy) (r1 r2 : Copy)
    (hsame : ∀ x, x ∈ l1 ↔ x ∈ l2) (h1 : mergeAll cur l1 = some r1) (h2 : mergeAll cur l2 = some r2) :
    r1.ts = r2.ts ∧
    ((∀ x y, (x ∈ l1 ∨ cur = some x) → (y ∈ l1 ∨ cur = some y) → x.ts = y.ts → x = y) → r1 = r2) := by
  obtain ⟨a1, a2, a3⟩ := mergeAll_ts l1 cur
  obtain ⟨b1, b2, b3⟩ := mergeAll_ts l2 cur
  have hle12 : r1.ts ≤ r2.ts := by
    rcases a3 r1 h1 with h | h
    · exact b2 r1 h r2 h2
    · exact b1 r1 ((hsame r1).mp h) r2 h2
  have hle21 : r2.ts ≤ r1.ts := by
    rcases b3 r2 h2 with h | h
    · exact a2 r2 h r1 h1
    · exact a1 r2 ((hsame r2).mpr h) r1 h1
  have hts : r1.ts = r2.ts := by omega
  refine ⟨hts, fun hinj => ?_⟩
  apply hinj r1 r2 _ _ hts
  · rcases a3 r1 h1 with h | h
    · exact Or.inr h
    · exact Or.inl h
  · rcases b3 r2 h2 with h | h
    · exact Or.inr h
    · exact Or.inl ((hsame r2).mpr h)

/-- the cluster-level hand-over is that fold: after any sequence of received tables (entries of any keys,
    in any order, repeated at will) the receiver's copy of `k` is `mergeAll` of its versions of `k` in
    arrival order, and the copies of every other member / kind / DMap are untouched -/
theorem C06_mergeEntries (incs : List (Key × Copy)) (c : Cluster) (m : Nat) (kind : Kind) (dm : Bytes) (k : Key) :
    (mergeEntries c m kind dm incs).1.copy m kind dm k =
      (if (incs.filter (fun e => e.1 = k)).isEmpty then c.copy m kind dm k
       else mergeAll (c.copy m kind dm k) ((incs.filter (fun e => e.1 = k)).map (·.2))) ∧
    ∀ j kind' dm' k', ¬(j = m ∧ kind' = kind ∧ dm' = dm) →
      (mergeEntries c m kind dm incs).1.copy j kind' dm' k' = c.copy j kind' dm' k' := by
  induction incs generalizing c with
  | nil => simp [mergeEntries]
  | cons e l ih =>
    have hunf : mergeEntries c m kind dm (e :: l) =
        mergeEntries (c.setCopy m kind dm e.1 (some (lwwC (c.copy m kind dm e.1) e.2))) m kind dm l := by
      simp only [mergeEntries]
    rw [hunf]
    obtain ⟨i1, i2⟩ := ih (c.setCopy m kind dm e.1 (some (lwwC (c.copy m kind dm e.1) e.2)))
    refine ⟨?_, ?_⟩
    · rw [i1, copy_setCopy]
      by_cases hk : e.1 = k
      · subst hk
        simp only [and_self, if_true, List.filter_cons, decide_true, List.isEmpty_cons, Bool.false_eq_true, if_false,
          List.map_cons, mergeAll, List.foldl_cons]
        split
        · rename_i he
          have : List.filter (fun e_1 => decide (e_1.fst = e.fst)) l = [] := List.isEmpty_iff.mp he
          simp [this]
        · rfl
      · have hk' : ¬ k = e.1 := fun h => hk h.symm
        simp only [hk', and_false, if_false, List.filter_cons, hk, decide_false, Bool.false_eq_true]
    · intro j kind' dm' k' hne
      rw [i2 j kind' dm' k' hne, copy_setCopy]
      have : ¬(j = m ∧ kind' = kind ∧ dm' = dm ∧ k' = e.1) := fun h => hne ⟨h.1, h.2.1, h.2.2.1⟩
      simp only [this, if_false]

/-- re-delivering the same table changes nothing more (idempotence on the timestamp) -/
theorem C06_merge_idempotent (cur : Option Copy) (l : List Copy) (r r' : Copy)
    (h1 : mergeAll cur l = some r) (h2 : mergeAll cur (l ++ l) = some r') : r.ts = r'.ts :=
  (C06_merge_lww cur l (l ++ l) r r' (fun x => by simp) h1 h2).1

/-- the store-level merge callback is this function (dmap.fragmentMergeFunction over kvstore) -/
theorem C06_store_merge_is_lww (c : Rec) (inc : Rec) (now : Int) :
    (KV.lww (some c) inc now).map (·.ts) = some (if inc.ts ≥ c.ts then inc.ts else c.ts) := by
  simp only [KV.lww]; split <;> rfl

/-! ### read-repair -/

/-- the repair loop of `get`: a version is left alone iff it carries the winner's timestamp -/
def repairStep (r : Route) (dm : Bytes) (k : Key) (w : Copy) (c : Cluster) (v : Nat × Kind × Option Copy) : Cluster :=
  match v.2.2 with
  | some x => if x.ts = w.ts then c else c.setCopy v.1 (if v.1 = r.owner then .prim else .bak) dm k (some w)
  | none => c.setCopy v.1 (if v.1 = r.owner then .prim else .bak) dm k (some w)

theorem repair_fold (r : Route) (dm : Bytes) (k : Key) (w : Copy) (vs : List (Nat × Kind × Option Copy)) (c : Cluster)
    (hnd : (vs.map (·.1)).Nodup) (m : Nat) :
    (vs.foldl (repairStep r dm k w) c).copy m (if m = r.owner then .prim else .bak) dm k =
      match vs.find? (fun v => v.1 == m) with
      | some v => (match v.2.2 with
          | some x => if x.ts = w.ts then c.copy m (if m = r.owner then .prim else .bak) dm k else some w
          | none => some w)
      | none => c.copy m (if m = r.owner then .prim else .bak) dm k := by
  induction vs generalizing c with
  | nil => rfl
  | cons v vs ih =>
    simp only [List.map_cons, List.nodup_cons] at hnd
    simp only [List.foldl_cons, List.find?_cons]
    rw [ih _ hnd.2]
    by_cases hv : v.1 = m
    · have hnone : vs.find? (fun v => v.1 == m) = none := by
        rw [List.find?_eq_none]
        intro x hx hxm
        have : x.1 = m := by simpa using hxm
        exact hnd.1 (by rw [hv, ← this]; exact List.mem_map_of_mem hx)
      simp only [hnone, hv, beq_self_eq_true]
      unfold repairStep
      cases hx : v.2.2 with
      | none => simp only [hv]; rw [DMap.copy_setCopy]; simp
      | some x =>
        simp only
        split
        · rfl
        · simp only [hv]; rw [DMap.copy_setCopy]; simp
    · have hb : (v.1 == m) = false := by simpa using hv
      simp only [hb]
      have hframe : (repairStep r dm k w c v).copy m (if m = r.owner then Kind.prim else Kind.bak) dm k =
          c.copy m (if m = r.owner then Kind.prim else Kind.bak) dm k := by
        unfold repairStep
        cases v.2.2 with
        | none => rw [DMap.copy_setCopy]; simp [Ne.symm hv]
        | some x =>
          simp only
          split
          · rfl
          · rw [DMap.copy_setCopy]; simp [Ne.symm hv]
      cases vs.find? (fun v => v.1 == m) with
      | none => simp only [hframe]
      | some v' =>
        simp only
        cases v'.2.2 with
        | none => rfl
        | some x => simp only [hframe]

/-- **C06 (read-repair).**  With read-repair on, after a Get that returned `w`: the owner's primary
    copy carries w's timestamp, and so does the backup copy of every reachable backup owner — whether
    it held an older version or none. -/
theorem C06_read_repair (cfg : Cfg) (hrr : cfg.readRepair = true) (r : Route) (c : Cluster) (dm : Bytes) (k : Key)
    (now : Int) (w : Copy) (hprev : r.prev = []) (hown : r.owner ∉ r.baks) (hnd : r.baks.Nodup)
    (h : (get cfg r C04.allReach c dm k now).2 = .val w) :
    ((get cfg r C04.allReach c dm k now).1.copy r.owner .prim dm k).map (·.ts) = some w.ts ∧
    ∀ b ∈ r.baks, ((get cfg r C04.allReach c dm k now).1.copy b .bak dm k).map (·.ts) = some w.ts := by
  have hvs : versions r C04.allReach c dm k now =
      (r.owner, Kind.prim, live (c.copy r.owner .prim dm k) now) ::
        r.baks.map (fun m => (m, Kind.bak, live (c.copy m .bak dm k) now)) := by
    simp only [versions, hprev, List.reverse_nil, List.filter_nil, List.filterMap_nil, List.nil_append, C09.filter_allReach]
  have hnodup : ((versions r C04.allReach c dm k now).map (·.1)).Nodup := by
    rw [hvs, List.map_cons, List.map_map, List.nodup_cons]
    refine ⟨?_, ?_⟩
    · simpa [Function.comp_def] using hown
    · simpa [Function.comp_def] using hnd
  -- open `get` along the path that returns a value
  simp only [DMap.get] at h ⊢
  split at h
  · cases h
  · rename_i hlen
    simp only [hlen, if_false]
    generalize hp : (versions r C04.allReach c dm k now).filterMap (fun v => v.2.2.map (fun x => (v.1, v.2.1, x))) = pres at h ⊢
    cases hs : sortV pres with
    | nil => simp [hs] at h
    | cons top rest =>
      simp only [hs] at h ⊢
      split at h
      · cases h
      · rename_i h2
        split at h
        · cases h
        · rename_i h3
          injection h with h
          simp only [h2, h3, if_false, hrr, if_true, Bool.false_eq_true]
          have hfold : ∀ m, ((versions r C04.allReach c dm k now).foldl (repairStep r dm k top.2.2) c).copy m
              (if m = r.owner then Kind.prim else Kind.bak) dm k = _ :=
            fun m => repair_fold r dm k top.2.2 _ c hnodup m
          rw [← h]
          -- no gathered version comes from a previous owner: the loop is a fold of `repairStep`
          have hnoprev : ∀ v ∈ versions r C04.allReach c dm k now, ¬ (v.2.1 = Kind.prim ∧ v.1 ≠ r.owner) := by
            rw [hvs]
            intro v hv
            rcases List.mem_cons.mp hv with rfl | hv
            · intro hc; exact hc.2 rfl
            · simp only [List.mem_map] at hv
              obtain ⟨m, _, rfl⟩ := hv
              intro hc; cases hc.1
          have hcongr : ∀ (f : Cluster → (Nat × Kind × Option Copy) → Cluster),
              (∀ c0 v, ¬ (v.2.1 = Kind.prim ∧ v.1 ≠ r.owner) → f c0 v = repairStep r dm k top.2.2 c0 v) →
              ∀ (vs : List (Nat × Kind × Option Copy)) (c0 : Cluster),
              (∀ v ∈ vs, ¬ (v.2.1 = Kind.prim ∧ v.1 ≠ r.owner)) →
              vs.foldl f c0 = vs.foldl (repairStep r dm k top.2.2) c0 := by
            intro f hf vs
            induction vs with
            | nil => intro c0 _; rfl
            | cons v vs ih =>
              intro c0 hall
              simp only [List.foldl_cons]
              rw [hf c0 v (hall v List.mem_cons_self)]
              exact ih _ (fun v' hv' => hall v' (List.mem_cons_of_mem _ hv'))
          have key : ∀ f, (∀ c0 v, ¬ (v.2.1 = Kind.prim ∧ v.1 ≠ r.owner) → f c0 v = repairStep r dm k top.2.2 c0 v) →
              (versions r C04.allReach c dm k now).foldl f c = (versions r C04.allReach c dm k now).foldl (repairStep r dm k top.2.2) c :=
            fun f hf => hcongr f hf _ c hnoprev
          suffices hsuff : Option.map (fun x => x.ts) (((versions r C04.allReach c dm k now).foldl (repairStep r dm k top.2.2) c).copy r.owner Kind.prim dm k) = some top.2.2.ts ∧
              ∀ b, b ∈ r.baks → Option.map (fun x => x.ts) (((versions r C04.allReach c dm k now).foldl (repairStep r dm k top.2.2) c).copy b Kind.bak dm k) = some top.2.2.ts by
            rw [key]
            · exact hsuff
            · intro c0 v hv
              simp only [hv, if_false]
              unfold repairStep
              rfl
          constructor
          · have := hfold r.owner
            simp only [if_true] at this
            rw [this, hvs]
            simp only [List.find?_cons, beq_self_eq_true]
            cases hl : live (c.copy r.owner Kind.prim dm k) now with
            | none => rfl
            | some x =>
              simp only
              split
              · rename_i hx
                have : c.copy r.owner Kind.prim dm k = some x := by
                  unfold live at hl
                  cases hc : c.copy r.owner Kind.prim dm k with
                  | none => simp [hc] at hl
                  | some y => simp only [hc] at hl; split at hl; cases hl; injection hl with hl; rw [hl]
                rw [this]; simp [hx]
              · rfl
          · intro b hb
            have hbo : b ≠ r.owner := fun e => hown (e ▸ hb)
            have := hfold b
            simp only [hbo, if_false] at this
            rw [this, hvs]
            have hfind : ((r.owner, Kind.prim, live (c.copy r.owner Kind.prim dm k) now) ::
                r.baks.map (fun m => (m, Kind.bak, live (c.copy m Kind.bak dm k) now))).find? (fun v => v.1 == b) =
                some (b, Kind.bak, live (c.copy b Kind.bak dm k) now) := by
              simp only [List.find?_cons]
              have : (r.owner == b) = false := by simpa using (Ne.symm hbo)
              simp only [this]
              clear this hfold hnodup hvs hlen hp
              revert hb hnd hown
              generalize r.baks = l
              intro hown hnd hb
              induction l with
              | nil => cases hb
              | cons a l ih =>
                simp only [List.map_cons, List.find?_cons]
                by_cases e : a = b
                · subst e; simp
                · have : (a == b) = false := by simpa using e
                  simp only [this]
                  cases hb with
                  | head => exact absurd rfl e
                  | tail _ hb => exact ih (fun h => hown (List.mem_cons_of_mem _ h)) (List.nodup_cons.mp hnd).2 hb
            rw [hfind]
            cases hl : live (c.copy b Kind.bak dm k) now with
            | none => rfl
            | some x =>
              simp only
              split
              · rename_i hx
                have : c.copy b Kind.bak dm k = some x := by
                  unfold live at hl
                  cases hc : c.copy b Kind.bak dm k with
                  | none => simp [hc] at hl
                  | some y => simp only [hc] at hl; split at hl; cases hl; injection hl with hl; rw [hl]
                rw [this]; simp [hx]
              · rfl

/-! Non-vacuity: owner 2 holds ts 1, backup 0 holds ts 5, backup 1 holds nothing; R = 3, read-repair on.
    The read returns the ts-5 copy and afterwards all three hold it. -/
def exC : Cluster :=
  ((Cluster.empty.setCopy 2 .prim [100] [107] (some ⟨[1], 0, 1⟩)).setCopy 0 .bak [100] [107] (some ⟨[9], 0, 5⟩))
example : (get { R := 3, RQ := 2, readRepair := true } ⟨[2], [0, 1]⟩ C04.allReach exC [100] [107] 7).2 = .val ⟨[9], 0, 5⟩ := by decide
example : ((get { R := 3, RQ := 2, readRepair := true } ⟨[2], [0, 1]⟩ C04.allReach exC [100] [107] 7).1.copy 1 .bak [100] [107]) = some ⟨[9], 0, 5⟩ := by decide
example : ((get { R := 3, RQ := 2, readRepair := true } ⟨[2], [0, 1]⟩ C04.allReach exC [100] [107] 7).1.copy 2 .prim [100] [107]) = some ⟨[9], 0, 5⟩ := by decide
example : mergeAll (some ⟨[1], 0, 4⟩) [⟨[2], 0, 9⟩, ⟨[3], 0, 2⟩, ⟨[2], 0, 9⟩] = some ⟨[2], 0, 9⟩ := by decide

end Olric.C06
