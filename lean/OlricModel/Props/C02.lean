/-
  C02 — Acknowledged writes survive the loss of up to ReplicaCount − 1 members.

  Composition of three facts:
    (a) C04: an acknowledged write left the same entry on the owner and on every backup owner, and
        nowhere else (`Stored`);
    (b) C13: the routing table computed after the failures keeps every surviving holder listed (a listed
        owner / backup owner is dropped only when it is gone or reports zero keys) — `C02_survivor_listed_*`;
    (c) this file: a Get over ANY route that lists at least one surviving holder with the right kind of
        copy, over a cluster state in which the survivors still hold what they held, answers with the
        acknowledged entry (`C02_survives`); since fewer than R members failed, a survivor exists
        (`C02_some_survivor`).  Deleted keys stay not-found because no copy exists anywhere
        (`C02_delete_survives`).
-/
import OlricModel.Props.C05
import OlricModel.Props.C09
import OlricModel.Props.C13
namespace Olric.C02
open Olric Olric.DMap Olric.C04 Olric.C09

/-- after an acknowledged write in a healthy cluster (C04_put_written): the entry is on the owner's primary
    fragment and on every backup owner's backup fragment, and no other copy of the key exists -/
structure Stored (c : Cluster) (r : Route) (dm : Bytes) (k : Key) (x : Copy) : Prop where
  owner : c.copy r.owner .prim dm k = some x
  baks : ∀ b ∈ r.baks, c.copy b .bak dm k = some x
  only_prim : ∀ m, m ≠ r.owner → c.copy m .prim dm k = none
  only_bak : ∀ m, m ∉ r.baks → c.copy m .bak dm k = none

/-- every copy of the key in the cluster is `x` or absent -/
theorem stored_any_copy (c : Cluster) (r : Route) (dm : Bytes) (k : Key) (x : Copy) (h : Stored c r dm k x)
    (m : Nat) (kind : Kind) : c.copy m kind dm k = none ∨ c.copy m kind dm k = some x := by
  cases kind with
  | prim =>
    by_cases e : m = r.owner
    · right; rw [e]; exact h.owner
    · left; exact h.only_prim m e
  | bak =>
    by_cases e : m ∈ r.baks
    · right; exact h.baks m e
    · left; exact h.only_bak m e

/-- a Get whose gathered versions are all `x` or nothing, with at least one `x`, answers `x` -/
theorem get_all_same (cfg : Cfg) (r : Route) (reach : Reach) (c : Cluster) (dm : Bytes) (k : Key) (now : Int) (x : Copy)
    (hq : cfg.RQ ≤ 1) (hlive : expired x.ttl now = false)
    (hall : ∀ v ∈ versions r reach c dm k now, v.2.2 = none ∨ v.2.2 = some x)
    (hone : ∃ v ∈ versions r reach c dm k now, v.2.2 = some x) :
    ∃ w, (get cfg r reach c dm k now).2 = .val w ∧ w = x := by
  simp only [DMap.get]
  generalize hvs : versions r reach c dm k now = vs at hall hone
  have hlen : ¬ vs.length < cfg.RQ := by
    obtain ⟨v, hv, _⟩ := hone
    have : vs.length ≥ 1 := List.length_pos_of_mem hv
    omega
  simp only [hlen, if_false]
  generalize hp : vs.filterMap (fun v => v.2.2.map (fun y => (v.1, v.2.1, y))) = pres
  have hpres : ∀ p ∈ pres, p.2.2 = x := by
    intro p hpm
    rw [← hp, List.mem_filterMap] at hpm
    obtain ⟨v, hv, hvp⟩ := hpm
    rcases hall v hv with h | h
    · rw [h] at hvp; cases hvp
    · rw [h] at hvp; simp only [Option.map_some, Option.some.injEq] at hvp; rw [← hvp]
  have hne : pres ≠ [] := by
    obtain ⟨v, hv, hx⟩ := hone
    intro e
    have : (v.1, v.2.1, x) ∈ pres := by
      rw [← hp, List.mem_filterMap]; exact ⟨v, hv, by rw [hx]; rfl⟩
    rw [e] at this; cases this
  cases hs : sortV pres with
  | nil =>
    have := C05.sortV_length pres
    rw [hs] at this
    exact absurd (List.length_eq_zero_iff.mp this.symm) hne
  | cons w ws =>
    have hw : w ∈ pres := (mem_sortV w pres).mp (by rw [hs]; exact List.mem_cons_self)
    have hwx := hpres w hw
    have hl2 : ¬ pres.length < cfg.RQ := by
      have : pres.length ≥ 1 := List.length_pos_of_mem hw
      omega
    simp only [hl2, if_false, hwx, hlive, Bool.false_eq_true]
    exact ⟨x, rfl, rfl⟩

theorem split_last (l : List Nat) (h : l ≠ []) : l = l.dropLast ++ [l.getLast?.getD 0] := by
  induction l with
  | nil => exact absurd rfl h
  | cons a t ih =>
    cases t with
    | nil => simp
    | cons b t' =>
      have := ih (by simp)
      simp only [List.dropLast_cons_cons, List.getLast?_cons_cons, List.cons_append]
      rw [← this]

/-- **C02 (survival).**  Before the failures the entry was `Stored` under route `r`.  Members then fail;
    the survivors still hold what they held (`c` is unchanged on them; failed members are simply no longer
    asked).  For ANY new route `r'` — whoever the new owner is, whatever previous owners and new backup
    owners it lists — under which every listed member is reachable and at least one surviving holder is
    listed with the kind of copy it holds, a Get answers with the acknowledged entry: not an older value,
    not not-found. -/
theorem C02_survives (cfg : Cfg) (r r' : Route) (c : Cluster) (dm : Bytes) (k : Key) (x : Copy) (now : Int)
    (hs : Stored c r dm k x) (hq : cfg.RQ ≤ 1) (hlive : expired x.ttl now = false)
    (hsurv : r.owner ∈ r'.prims ∨ ∃ b ∈ r.baks, b ∈ r'.baks) (hne : r'.prims ≠ []) :
    ∃ w, (get cfg r' allReach c dm k now).2 = .val w ∧ w = x := by
  have hlx : live (some x) now = some x := by simp [live, hlive]
  apply get_all_same cfg r' allReach c dm k now x hq hlive
  · intro v hv
    simp only [versions, List.mem_cons, List.mem_append, List.mem_filterMap, List.mem_map] at hv
    rcases hv with rfl | ⟨m, _, hm⟩ | ⟨m, _, rfl⟩
    · simp only
      rcases stored_any_copy c r dm k x hs r'.owner .prim with h | h
      · left; rw [h]; rfl
      · right; rw [h, hlx]
    · rcases stored_any_copy c r dm k x hs m .prim with h | h
      · rw [h] at hm; simp [live] at hm
      · rw [h, hlx] at hm; simp only [Option.map_some, Option.some.injEq] at hm; right; rw [← hm]
    · simp only
      rcases stored_any_copy c r dm k x hs m .bak with h | h
      · left; rw [h]; rfl
      · right; rw [h, hlx]
  · rcases hsurv with ho | ⟨b, hb, hb'⟩
    · -- the old owner is listed among the primary owners: as the owner, or as a previous owner
      have hsplit : r'.prims = r'.prev ++ [r'.owner] := by
        unfold Route.prev Route.owner
        rw [List.getLastD_eq_getLast?]
        exact split_last r'.prims hne
      rw [hsplit] at ho
      rcases List.mem_append.mp ho with hp | hp
      · refine ⟨(r.owner, Kind.prim, some x), ?_, rfl⟩
        simp only [versions, List.mem_cons, List.mem_append, List.mem_filterMap]
        right; left
        refine ⟨r.owner, ?_, by rw [hs.owner, hlx]; rfl⟩
        rw [filter_allReach]; exact List.mem_reverse.mpr hp
      · simp only [List.mem_singleton] at hp
        refine ⟨(r'.owner, Kind.prim, some x), ?_, rfl⟩
        simp only [versions, List.mem_cons]
        left
        rw [← hp, hs.owner, hlx]
    · refine ⟨(b, Kind.bak, some x), ?_, rfl⟩
      simp only [versions, List.mem_cons, List.mem_append, List.mem_map]
      right; right
      refine ⟨b, by rw [filter_allReach]; exact hb', by rw [hs.baks b hb, hlx]⟩

/-- fewer failures than holders: a holder survives (pigeonhole over distinct holders) -/
theorem nodup_subset_length (l f : List Nat) (hnd : l.Nodup) (hsub : ∀ a ∈ l, a ∈ f) : l.length ≤ f.length := by
  induction l generalizing f with
  | nil => simp
  | cons a l ih =>
    obtain ⟨hna, hnd'⟩ := List.nodup_cons.mp hnd
    have haf : a ∈ f := hsub a List.mem_cons_self
    have := ih (f.erase a) hnd' (fun b hb => by
      have hbf := hsub b (List.mem_cons_of_mem _ hb)
      have hne : b ≠ a := fun e => hna (e ▸ hb)
      exact (List.mem_erase_of_ne hne).mpr hbf)
    rw [List.length_erase_of_mem haf] at this
    have hpos : f.length ≥ 1 := List.length_pos_of_mem haf
    simp only [List.length_cons]; omega

theorem C02_some_survivor (r : Route) (failed : List Nat) (hnd : (r.owner :: r.baks).Nodup)
    (hfew : failed.length < (r.owner :: r.baks).length) :
    r.owner ∉ failed ∨ ∃ b ∈ r.baks, b ∉ failed := by
  by_cases ho : r.owner ∈ failed
  · right
    by_cases hall : ∀ b ∈ r.baks, b ∈ failed
    · have := nodup_subset_length (r.owner :: r.baks) failed hnd (fun a ha => by
        rcases List.mem_cons.mp ha with rfl | h
        · exact ho
        · exact hall a h)
      omega
    · have : ∃ b, b ∈ r.baks ∧ b ∉ failed := by
        apply Classical.byContradiction
        intro hn
        apply hall
        intro b hb
        apply Classical.byContradiction
        intro hbf
        exact hn ⟨b, hb, hbf⟩
      obtain ⟨b, hb, hbf⟩ := this
      exact ⟨b, hb, hbf⟩
  · exact Or.inl ho

/-- **C02 (acknowledged Delete).**  After an acknowledged Delete no copy of the key exists on any member
    (C04 / copy_del): whatever members fail and however the key is routed afterwards, it reads not-found. -/
theorem C02_delete_survives (cfg : Cfg) (r' : Route) (c : Cluster) (dm : Bytes) (k : Key) (now : Int)
    (hgone : ∀ m kind, c.copy m kind dm k = none) (hq : cfg.RQ ≤ r'.baks.length + 1) :
    (get cfg r' allReach c dm k now).2 = .notFound :=
  (C09_invisible_after cfg r' c dm k now (fun m kind => by rw [hgone m kind]; rfl) hq).1

/-- a Delete in a healthy cluster leaves no copy on the members it was routed over — `Stored` before, nothing after -/
theorem C02_delete_removes_all (cfg : Cfg) (r : Route) (c : Cluster) (dm : Bytes) (k : Key) (x : Copy)
    (hs : Stored c r dm k x) (hRb : cfg.R > 1 ∨ r.baks = []) :
    ∀ m kind, (del cfg r c dm k).copy m kind dm k = none := by
  intro m kind
  rw [copy_del]
  split
  · rfl
  · rename_i hn
    rcases stored_any_copy c r dm k x hs m kind with h | h
    · exact h
    · exfalso
      apply hn
      refine ⟨rfl, rfl, ?_⟩
      cases kind with
      | prim =>
        left
        by_cases e : m = r.owner
        · exact ⟨e, rfl⟩
        · rw [hs.only_prim m e] at h; cases h
      | bak =>
        right; right
        have hm : m ∈ r.baks := by
          apply Classical.byContradiction
          intro hn'
          rw [hs.only_bak m hn'] at h; cases h
        rcases hRb with hR' | hR'
        · exact ⟨hR', hm, rfl⟩
        · rw [hR'] at hm; cases hm

/-! ### (b) the new routing table keeps the survivors listed (from C13) -/

open Olric.Routing in
/-- a previous owner that is still a live member and reports keys stays in the primary owners list -/
theorem C02_survivor_listed_primary (live : List Mem) (count : Mem → Option Nat) (owners : List Mem) (ro o : Mem)
    (hne : owners ≠ []) (ho : o ∈ owners) (ha : alive live o = true) (hc : count o ≠ some 0) :
    ∃ o' ∈ distributePrimary live count owners ro, o'.id = o.id := by
  unfold distributePrimary
  simp only [hne, if_false]
  have hk : o ∈ pruneEmpty count (pruneDead live owners) := by
    simp only [pruneEmpty, pruneDead, List.mem_filter]
    exact ⟨⟨ho, ha⟩, by simpa using hc⟩
  unfold moveToEnd
  split
  · by_cases e : o.id = ro.id
    · exact ⟨ro, by simp, e.symm⟩
    · refine ⟨o, List.mem_append_left _ ?_, rfl⟩
      -- o is not the removed element
      have : ∀ (l : List Mem), o ∈ l → o ∈ removeFirst ro l := by
        intro l
        induction l with
        | nil => intro h; cases h
        | cons a rest ih =>
          intro h
          simp only [removeFirst]
          split
          · rename_i ha'
            rcases List.mem_cons.mp h with rfl | h
            · exfalso; exact e (by simpa using ha')
            · exact h
          · rcases List.mem_cons.mp h with rfl | h
            · exact List.mem_cons_self
            · exact List.mem_cons_of_mem _ (ih h)
      exact this _ hk
  · exact ⟨o, List.mem_append_left _ hk, rfl⟩

open Olric.Routing in
/-- a backup owner that is still a live member and reports keys stays in the backup owners list -/
theorem C02_survivor_listed_backup (live : List Mem) (count : Mem → Option Nat) (owners : List Mem) (cs : List Mem) (o : Mem)
    (hnd : (owners.map (·.id)).Nodup) (hcs : (cs.tail.map (·.id)).Nodup)
    (hne : owners ≠ []) (ho : o ∈ owners) (ha : alive live o = true) (hc : count o ≠ some 0) :
    ∃ o' ∈ distributeBackups live count owners (some cs), o'.id = o.id := by
  rw [C13.C13_backups live count owners cs hnd hcs hne]
  have hk : o ∈ pruneEmpty count (pruneDead live owners) := by
    simp only [pruneEmpty, pruneDead, List.mem_filter]
    exact ⟨⟨ho, ha⟩, by simpa using hc⟩
  by_cases hin : cs.tail.any (fun n => n.id == o.id) = true
  · rw [List.any_eq_true] at hin
    obtain ⟨n, hn, e⟩ := hin
    exact ⟨n, List.mem_append_right _ hn, by simpa using e⟩
  · refine ⟨o, List.mem_append_left _ ?_, rfl⟩
    rw [List.mem_filter]
    exact ⟨hk, by simpa using hin⟩

/-! Non-vacuity: R = 3 (owner 2, backups 0 and 1); the owner and backup 0 fail; the new owner is member 3
    (empty), the surviving backup 1 is still listed: the Get on member 3 answers the acknowledged entry. -/
def cS : Cluster := (put { R := 3, W := 1 } ⟨[2], [0, 1]⟩ allReach Cluster.empty [100] [107] [7] {} 5).1
example : (get { R := 3 } ⟨[3], [1, 4]⟩ allReach cS [100] [107] 9).2 = .val ⟨[7], 0, 5⟩ := by decide
example : (2 ∉ [2, 0]) ∨ ∃ b ∈ [0, 1], b ∉ [2, 0] := Or.inr ⟨1, by decide, by decide⟩

end Olric.C02
