/-
  C16 — No request can crash or wedge a member (argument-vector handling).

  The parsers are not hand-modelled: Generated/Parsers.lean is produced from internal/protocol/*.go
  by /verif/extract/parsers on every run, Generated/ParsersSafe.lean holds one `decide`d obligation
  per parser, and Proofs/IRSound.lean proves the checker sound once and for all.
-/
import OlricModel.Generated.ParsersSafe
import OlricModel.Proofs.IRSound
import OlricModel.Store.Pack
import OlricModel.Generated.Facts
namespace Olric.C16
open Olric.IR Olric.Parsers

/-- the outcome is a reply: a parsed command or an error — not a Go panic, not an endless loop -/
def Replies : Res → Prop
  | .retOk => True
  | .retErr => True
  | .next _ => True
  | _ => False

/-- **C16 (parsers).**  For every `Parse*Command` function found in internal/protocol today, every
    argument vector of every length (Args[0] being the command name, as redcon guarantees) and every
    behaviour of strconv on its tokens: the parser returns a command or an error.  No index or slice
    is out of range — options in any order, an option without its value, too few or too many
    arguments — and every option loop terminates within len(args)+1 iterations. -/
theorem C16_parsers_total (name : String) (p : Block) (hmem : (name, p) ∈ Parsers.all)
    (ok : NumOk) (args : List Tok) (hargs : 1 ≤ args.length) : Replies (run ok p args) := by
  have hall := Parsers.all_safe
  rw [List.all_eq_true] at hall
  have hsafe : safe p = true := hall (name, p) hmem
  have := safe_sound p hsafe ok args hargs
  cases hr : run ok p args <;> rw [hr] at this <;> first | trivial | exact this

/-- nothing in the source was outside the translated subset -/
theorem C16_translation_complete : Parsers.untranslated = [] := Parsers.translator_complete

/-- the checker is not vacuous: it rejects the shapes that were defects in this repository
    (an index one past the checked length; an option loop without progress) -/
theorem C16_checker_rejects_bad_index :
    safe (.cons (.ifLen 0 .lt 2 (.cons (.ret false) .nil) .nil) (.cons (.index 0 2) (.cons (.ret true) .nil))) = false := by
  decide

theorem C16_checker_rejects_spinning_loop :
    safe (.cons (.slice 1 0 1) (.cons (.loop 1 (.cons (.switchTok 1 0 (.cons [82, 67] (.cons (.slice 1 1 1) .nil) .nil) .nil) .nil)) (.cons (.ret true) .nil))) = false := by
  decide

/-- and the interpreter really panics / spins on them -/
example : (match run (fun _ _ => true) (.cons (.ifLen 0 .lt 2 (.cons (.ret false) .nil) .nil) (.cons (.index 0 2) (.cons (.ret true) .nil))) [[1], [2]] with | .panic => true | _ => false) = true := by decide
example : (match run (fun _ _ => true)
    (.cons (.slice 1 0 1) (.cons (.loop 1 (.cons (.switchTok 1 0 (.cons [82, 67] (.cons (.slice 1 1 1) .nil) .nil) .nil) .nil)) (.cons (.ret true) .nil)))
    [[1], [120]] with | .spin => true | _ => false) = true := by decide

/-! ## a table received over the network (fix ef8ceb4, finding F49) -/

open Olric.Pack in
/-- **C16 (received table).**  For every pack that `Pack.validate` accepts - whatever bytes, sizes and index it carries -
    the decoded table is no larger than 4 GiB, its memory is exactly as long as its write offset, and every position that
    the readers of the table access for an indexed entry (key-length byte, key, the three time stamps, the value length, the
    value) lies inside the received memory: no reader of a decoded table indexes or slices out of range. -/
theorem C16_validated_pack_reads_in_bounds (p : Pack) (h : validate p = true) :
    p.allocated ≤ maxPackAllocation ∧ p.offset ≤ p.allocated ∧ p.memory.length = p.offset ∧
    ∀ e ∈ p.hkeys, e.2 < p.memory.length ∧ vlenAt p.memory e.2 + 4 ≤ p.memory.length ∧
      ∀ i ∈ readPositions p.memory e.2, i < p.memory.length := by
  unfold validate at h
  simp only [Bool.and_eq_true, decide_eq_true_eq, List.all_eq_true] at h
  obtain ⟨⟨⟨ha, ho⟩, hm⟩, he⟩ := h
  refine ⟨ha, ho, hm, ?_⟩
  intro e hmem
  have hk := he e hmem
  unfold entryOk at hk
  simp only [Bool.and_eq_true, decide_eq_true_eq] at hk
  obtain ⟨⟨h1, h2⟩, h3⟩ := hk
  refine ⟨by omega, by omega, ?_⟩
  intro i hi
  unfold readPositions at hi
  rw [List.mem_range'_1] at hi
  have : e.2 ≤ entryEnd p.memory e.2 := by unfold entryEnd vlenAt; omega
  omega

/-- the check is where the model says it is, regenerated from internal/kvstore/table/pack.go and
    internal/cluster/routingtable/operations.go on every run -/
theorem facts_tie_payloads : Facts.table_pack_is_checked_before_a_table_is_built = true ∧
    Facts.pushed_table_is_checked_before_it_is_applied = true := by decide

/-! Non-vacuity: one entry (key "ab", value [7,7,7]) at offset 0; and the three falsified packs of F49 are refused -/
def goodMem : List Nat := [2, 97, 98] ++ List.replicate 24 0 ++ [0, 0, 0, 3] ++ [7, 7, 7]
example : Pack.validate ⟨34, 512, goodMem, [(12345, 0)]⟩ = true := by decide
example : Pack.validate ⟨612, 512, goodMem, [(12345, 0)]⟩ = false := by decide          -- write offset beyond the allocation
example : Pack.validate ⟨34, 512, goodMem, [(12345, 562)]⟩ = false := by decide         -- index entry outside the table
example : Pack.validate ⟨34, 512, [2, 97, 98] ++ List.replicate 24 0 ++ [127, 255, 0, 3] ++ [7, 7, 7], [(12345, 0)]⟩ = false := by decide  -- value length past the end

end Olric.C16
