/-
  C16 — No request can crash or wedge a member (argument-vector handling).

  The parsers are not hand-modelled: Generated/Parsers.lean is produced from internal/protocol/*.go
  by /verif/extract/parsers on every run, Generated/ParsersSafe.lean holds one `decide`d obligation
  per parser, and Proofs/IRSound.lean proves the checker sound once and for all.
-/
import OlricModel.Generated.ParsersSafe
import OlricModel.Proofs.IRSound
namespace Olric.C16
open Olric.IR Olric.Parsers

/-- the outcome is a reply: a parsed command or an error — not a Go panic, not an endless loop -/
def Replies : Res → Prop
  | .retOk => True
  | .retErr => True
  | .next _ => True
  | _ => False

/-- **C16 (parsers).**  For every `Parse*Command` function found in internal/protocol today, every
    argument vector of every length (Args[0] being the command name, as redcon guarantees) and every
    behaviour of strconv on its tokens: the parser returns a command or an error.  No index or slice
    is out of range — options in any order, an option without its value, too few or too many
    arguments — and every option loop terminates within len(args)+1 iterations. -/
theorem C16_parsers_total (name : String) (p : Block) (hmem : (name, p) ∈ Parsers.all)
    (ok : NumOk) (args : List Tok) (hargs : 1 ≤ args.length) : Replies (run ok p args) := by
  have hall := Parsers.all_safe
  rw [List.all_eq_true] at hall
  have hsafe : safe p = true := hall (name, p) hmem
  have := safe_sound p hsafe ok args hargs
  cases hr : run ok p args <;> rw [hr] at this <;> first | trivial | exact this

/-- nothing in the source was outside the translated subset -/
theorem C16_translation_complete : Parsers.untranslated = [] := Parsers.translator_complete

/-- the checker is not vacuous: it rejects the shapes that were defects in this repository
    (an index one past the checked length; an option loop without progress) -/
theorem C16_checker_rejects_bad_index :
    safe (.cons (.ifLen 0 .lt 2 (.cons (.ret false) .nil) .nil) (.cons (.index 0 2) (.cons (.ret true) .nil))) = false := by
  decide

theorem C16_checker_rejects_spinning_loop :
    safe (.cons (.slice 1 0 1) (.cons (.loop 1 (.cons (.switchTok 1 0 (.cons [82, 67] (.cons (.slice 1 1 1) .nil) .nil) .nil) .nil)) (.cons (.ret true) .nil))) = false := by
  decide

/-- and the interpreter really panics / spins on them -/
example : (match run (fun _ _ => true) (.cons (.ifLen 0 .lt 2 (.cons (.ret false) .nil) .nil) (.cons (.index 0 2) (.cons (.ret true) .nil))) [[1], [2]] with | .panic => true | _ => false) = true := by decide
example : (match run (fun _ _ => true)
    (.cons (.slice 1 0 1) (.cons (.loop 1 (.cons (.switchTok 1 0 (.cons [82, 67] (.cons (.slice 1 1 1) .nil) .nil) .nil) .nil)) (.cons (.ret true) .nil)))
    [[1], [120]] with | .spin => true | _ => false) = true := by decide

end Olric.C16
