/-
  C19 — Destroy removes one DMap everywhere and DMaps never interfere.
  Statements about DMap/Model.lean: a member's storage is keyed by (DMap name, key); the hashed key
  plays no role above the fragment, so equal hashes of different (name, key) pairs cannot collide.
-/
import OlricModel.Props.C09
namespace Olric.C19
open Olric Olric.DMap Olric.C04

/-- **C19 (destroy).**  After Destroy, on every member, primary and backup, no entry of the DMap is
    left: every key reads not-found through every route and every quorum setting that can be met;
    entries of every other DMap are untouched. -/
theorem C19_destroy (c : Cluster) (dm : Bytes) :
    (∀ m kind k, (destroy c dm).copy m kind dm k = none) ∧
    (∀ m kind dm' k, dm' ≠ dm → (destroy c dm).copy m kind dm' k = c.copy m kind dm' k) := by
  constructor
  · intro m kind k; cases kind <;> simp [destroy, Cluster.copy]
  · intro m kind dm' k h; cases kind <;> simp [destroy, Cluster.copy, h]

theorem C19_destroy_reads_not_found (cfg : Cfg) (r : Route) (c : Cluster) (dm : Bytes) (k : Key) (now : Int)
    (hq : cfg.RQ ≤ r.baks.length + 1) :
    (get cfg r allReach (destroy c dm) dm k now).2 = .notFound := by
  have hg : C09.Gone (destroy c dm) dm k now := by
    intro m kind; rw [(C19_destroy c dm).1]; rfl
  exact (C09.C09_invisible_after cfg r (destroy c dm) dm k now hg hq).1

/-- the DMap stays usable: a Put after Destroy is stored and readable -/
theorem C19_put_after_destroy (cfg : Cfg) (r : Route) (c : Cluster) (dm : Bytes) (k : Key) (v : Bytes) (now : Int) :
    (put cfg r allReach (destroy c dm) dm k v {} now).1.copy r.owner .prim dm k =
      some ⟨v, prepareTTL .none cfg.dmTTL now, now⟩ := by
  have hnone : (destroy c dm).copy r.owner .prim dm k = none := (C19_destroy c dm).1 _ _ _
  simp only [DMap.put, hnone, live]
  simp only [Bool.false_and, Bool.false_eq_true, if_false]
  rw [copy_replicate]; simp

/-- **C19 (isolation).**  No operation on DMap `a` — Put with any option, Expire, Delete, Get with
    read-repair off, Destroy — changes any copy of a DMap with a different name, for any keys,
    including identical keys and keys whose concatenation with the name coincides. -/
theorem C19_isolation (cfg : Cfg) (r : Route) (a b : Bytes) (hab : b ≠ a) (k : Key) (c : Cluster) (op : Op)
    (m : Nat) (kind : Kind) (k' : Key) :
    (step cfg r a k c op).copy m kind b k' = c.copy m kind b k' :=
  C04_frame cfg r a k c op m kind b k' (fun ⟨h, _⟩ => hab h)

/-- and its results do not depend on the other DMap's contents: two clusters that agree on DMap `a`
    give the same answers and the same copies of `a` -/
theorem C19_results_independent (cfg : Cfg) (r : Route) (reach : Reach) (a : Bytes) (k : Key) (v : Bytes) (pc : PutCfg)
    (now : Int) (c1 c2 : Cluster) (hagree : ∀ m kind k', c1.copy m kind a k' = c2.copy m kind a k') :
    (put cfg r reach c1 a k v pc now).2 = (put cfg r reach c2 a k v pc now).2 ∧
    (get cfg r reach c1 a k now).2 = (get cfg r reach c2 a k now).2 := by
  constructor
  · simp only [DMap.put, hagree]
    split
    · rfl
    · split
      · rfl
      · simp only [replicate]; split <;> rfl
  · have hv : versions r reach c1 a k now = versions r reach c2 a k now := by
      simp only [versions, hagree]
    simp only [DMap.get, hv]
    split
    · rfl
    · split
      · rfl
      · split
        · rfl
        · split <;> rfl

/-! Non-vacuity: ("ab","c") and ("a","bc") have the same concatenation and are independent -/
example : ((put {} ⟨[0], []⟩ allReach Cluster.empty [97, 98] [99] [1] {} 5).1.copy 0 .prim [97] [98, 99]) = none := by decide

end Olric.C19
