/-
  C15 — An operation means the same thing through every client path.
  Statements about Proto/Codec.lean composed with DMap/Model.lean.
-/
import OlricModel.Proto.Codec
import OlricModel.Proofs.DMapLemmas
import OlricModel.Generated.Facts
import OlricModel.Proofs.PipelineProofs
namespace Olric.C15
open Olric Olric.DMap Olric.Codec

/-- **C15 (option codec).**  Every Put configuration the API can build — one of NX / XX or neither,
    with one of EX / PX / EXAT / PXAT or none, in any combination — is decoded by the receiving
    handler to exactly the configuration that was sent. -/
theorem C15_put_roundtrip (pc : PutCfg) (h : ApiCfg pc) : decodePut (encodePut pc) = pc := by
  obtain ⟨hnx, httl⟩ := h
  cases pc with
  | mk nx xx ttl =>
    cases ttl with
    | none => cases nx <;> cases xx <;> simp_all [encodePut, decodePut]
    | ex d => simp only at httl; cases nx <;> cases xx <;> simp_all [encodePut, decodePut]
    | px d => obtain ⟨h0, hm⟩ := httl; cases nx <;> cases xx <;> simp_all [encodePut, decodePut]
    | exat t => simp only at httl; cases nx <;> cases xx <;> simp_all [encodePut, decodePut]
    | pxat t => obtain ⟨h0, hm⟩ := httl; cases nx <;> cases xx <;> simp_all [encodePut, decodePut]

/-- **C15 (paths).**  Whatever the entry path, the partition owner executes the same Put: same result,
    same stored entry (value, expiry, timestamp), same copies on every member. -/
theorem C15_put_paths_equal (p q : Path) (pc : PutCfg) (h : ApiCfg pc) (cfg : Cfg) (r : Route) (reach : Reach)
    (c : Cluster) (dm : Bytes) (k : Key) (v : Bytes) (now : Int) :
    put cfg r reach c dm k v (atOwner p pc) now = put cfg r reach c dm k v (atOwner q pc) now := by
  have hp : ∀ x : Path, atOwner x pc = pc := by
    intro x; unfold atOwner; split
    · exact C15_put_roundtrip pc h
    · rfl
  rw [hp p, hp q]

/-- a conditional Put with an expiry keeps BOTH when forwarded (the lock-with-timeout shape) -/
theorem C15_nx_px_kept (d : Int) (hd : d ≠ 0) (hm : Int.tdiv d 1000000 * 1000000 = d) :
    decodePut (encodePut { nx := true, ttl := .px d }) = { nx := true, ttl := .px d } :=
  C15_put_roundtrip _ ⟨by simp, hd, hm⟩

/-- **C15 (multi-key Delete).**  Whatever order the per-owner groups are processed in, every named key
    is deleted on its owner exactly once and the count returned is the number of keys. -/
theorem C15_delete_all_groups (ownerOf : Key → Nat) (groupOrder : List Nat) (keys : List Key)
    (hcover : ∀ k ∈ keys, ownerOf k ∈ groupOrder) (hnd : groupOrder.Nodup) :
    (deleteKeys ownerOf groupOrder keys).2 = keys.length ∧
    ∀ k, k ∈ (deleteKeys ownerOf groupOrder keys).1 ↔ k ∈ keys := by
  refine ⟨rfl, ?_⟩
  intro k
  simp only [deleteKeys, List.mem_flatMap, List.mem_filter, beq_iff_eq]
  constructor
  · rintro ⟨m, _, hk, _⟩; exact hk
  · intro hk; exact ⟨ownerOf k, hcover k hk, hk, rfl⟩

/-- every deleted key is deleted once if the keys are distinct -/
theorem C15_delete_once (ownerOf : Key → Nat) (groupOrder : List Nat) (keys : List Key)
    (hnd : groupOrder.Nodup) (hk : keys.Nodup) : (deleteKeys ownerOf groupOrder keys).1.Nodup := by
  simp only [deleteKeys]
  induction groupOrder with
  | nil => simp
  | cons m ms ih =>
    rw [List.nodup_cons] at hnd
    simp only [List.flatMap_cons]
    rw [List.nodup_append]
    refine ⟨hk.filter _, ih hnd.2, ?_⟩
    intro a ha b hb e
    subst e
    simp only [List.mem_filter, beq_iff_eq] at ha
    simp only [List.mem_flatMap, List.mem_filter, beq_iff_eq] at hb
    obtain ⟨m', hm', _, e⟩ := hb
    rw [ha.2] at e
    exact hnd.1 (e ▸ hm')

/-- **C15 (pipeline, every queue).**  Whatever commands are queued, for whatever partitions, and whatever the
    partition owners do with one command (`step`): once `Exec` returned, the i-th future reads exactly the reply
    its command gets when the same commands are issued one at a time, each waiting for its answer. -/
theorem C15_pipeline_futures {σ κ ρ : Type} (step : σ → κ → σ × ρ) (st : Nat → σ) (q : List (Nat × κ)) :
    (Pipeline.futures [] q).map (Pipeline.futureResult step st q) = (Pipeline.seqRun step st q).2.map some := by
  have h := Pipeline.futures_read_seq step st [] q
  have h0 : Pipeline.execState step st ([] : List (Nat × κ)) = st := by
    funext x; simp [Pipeline.execState, Pipeline.batch_nil, Pipeline.partRun]
  simpa [h0] using h

/-- … and the stored state of every partition after `Exec` is the state the one-at-a-time run leaves. -/
theorem C15_pipeline_state {σ κ ρ : Type} (step : σ → κ → σ × ρ) (st : Nat → σ) (q : List (Nat × κ)) (p : Nat) :
    Pipeline.execState step st q p = (Pipeline.seqRun step st q).1 p :=
  Pipeline.execState_eq_seq step st q p

/-- every future has a reply (no index out of range) -/
theorem C15_pipeline_every_future_answered {σ κ ρ : Type} (step : σ → κ → σ × ρ) (st : Nat → σ) (q : List (Nat × κ)) :
    ∀ r ∈ (Pipeline.futures [] q).map (Pipeline.futureResult step st q), r ≠ none := by
  rw [C15_pipeline_futures]; intro r hr; simp only [List.mem_map] at hr; obtain ⟨a, _, rfl⟩ := hr; simp

/-- no two futures of a pipeline share a slot: a future can only ever read its own command's reply -/
theorem C15_pipeline_slots_distinct {κ : Type} (q : List (Nat × κ)) : (Pipeline.futures [] q).Nodup :=
  Pipeline.futures_nodup [] q

/-- the index mapping of `pipelineSlots` (the one the example below evaluates) is the one of `Pipeline.futures` -/
theorem pipelineSlots_eq_futures (partOf : Key → Nat) (keys : List Key) :
    pipelineSlots partOf keys = Pipeline.futures [] (keys.map (fun k => (partOf k, k))) := by
  have gen : ∀ (keys : List Key) (A B : List (Nat × Nat)) (q0 : List (Nat × Key)),
      (∀ p, (B.filter (fun x => x.1 == p)).length = (Pipeline.batch p q0).length) →
      (keys.foldl (fun (acc : List (Nat × Nat) × List (Nat × Nat)) k =>
          let p := partOf k
          let idx := (acc.2.filter (fun x => x.1 == p)).length
          (acc.1 ++ [(p, idx)], acc.2 ++ [(p, idx)])) (A, B)).1
        = A ++ Pipeline.futures q0 (keys.map (fun k => (partOf k, k))) := by
    intro keys
    induction keys with
    | nil => intro A B q0 _; simp [Pipeline.futures]
    | cons k ks ih =>
      intro A B q0 hB
      simp only [List.foldl_cons, List.map_cons, Pipeline.futures, Pipeline.add]
      rw [ih _ _ (q0 ++ [(partOf k, k)])]
      · rw [hB (partOf k)]; simp
      · intro p
        rw [List.filter_append, List.length_append, Pipeline.batch_append, List.length_append, hB p, hB (partOf k)]
        by_cases e : partOf k = p
        · subst e; simp [Pipeline.batch]
        · have : (partOf k == p) = false := by simpa using e
          simp [Pipeline.batch, this]
  have := gen keys [] [] [] (by intro p; simp [Pipeline.batch])
  simpa [pipelineSlots] using this

/-- **C15 (pipeline life cycle).**  A future of an open, not yet executed pipeline answers "not ready"; `Exec` runs
    once; after a `Discard` every future of an earlier generation answers "closed" whatever happens to the pipeline
    afterwards; a closed pipeline refuses `Exec` and `Discard`. -/
inductive LifeOp | exec | discard | close
  deriving DecidableEq, Repr

def lifeStep (l : Pipeline.Life) : LifeOp → Pipeline.Life
  | .exec => l.exec.1
  | .discard => l.discard.1
  | .close => l.close

theorem lifeStep_gen_mono (l : Pipeline.Life) (o : LifeOp) : l.gen ≤ (lifeStep l o).gen := by
  cases o
  · simp only [lifeStep, Pipeline.Life.exec]
    by_cases hc : l.closed = true
    · simp [hc]
    · by_cases he : l.executed = true <;> simp [hc, he]
  · simp only [lifeStep, Pipeline.Life.discard]
    by_cases hc : l.closed = true <;> simp [hc]
  · simp [lifeStep, Pipeline.Life.close]

theorem C15_pipeline_old_futures_closed (l : Pipeline.Life) (g : Nat) (hg : g < l.gen) (ops : List LifeOp) :
    (ops.foldl lifeStep l).read g = some .closed := by
  induction ops generalizing l with
  | nil =>
    have : (g != l.gen) = true := by simp; omega
    simp [Pipeline.Life.read, Pipeline.Life.futClosed, this]
  | cons o os ih => exact ih _ (Nat.lt_of_lt_of_le hg (lifeStep_gen_mono l o))

theorem C15_pipeline_lifecycle (l : Pipeline.Life) :
    (l.closed = false → l.executed = false → l.read l.gen = some .notReady) ∧
    (l.closed = false → l.executed = false → l.exec.2 = none ∧ l.exec.1.read l.gen = none ∧ l.exec.1.exec.2 = some .executed) ∧
    (l.closed = false → l.discard.2 = none ∧ l.discard.1.read l.gen = some .closed ∧
        l.discard.1.read l.discard.1.gen = some .notReady) ∧
    (l.close.exec.2 = some .closed ∧ l.close.discard.2 = some .closed ∧ l.close.read l.gen = some .closed) := by
  refine ⟨?_, ?_, ?_, ?_⟩
  · intro hc he; simp [Pipeline.Life.read, Pipeline.Life.futClosed, hc, he]
  · intro hc he; simp [Pipeline.Life.read, Pipeline.Life.futClosed, Pipeline.Life.exec, hc, he]
  · intro hc; simp [Pipeline.Life.read, Pipeline.Life.futClosed, Pipeline.Life.discard, hc]
  · simp [Pipeline.Life.read, Pipeline.Life.futClosed, Pipeline.Life.exec, Pipeline.Life.discard, Pipeline.Life.close]


/-- **C15 (pipeline).**  The i-th command queued for a partition gets slot i of that partition:
    slots of one partition are 0,1,2,… in queueing order, so every future reads its own reply. -/
theorem C15_pipeline_slots_example :
    pipelineSlots (fun k => k.length % 2) [[1], [1, 2], [3], [4, 5], [6]] = [(1, 0), (0, 0), (1, 1), (0, 1), (1, 2)] := by
  decide

/-- **Tie to the source.** -/
theorem facts_tie :
    Facts.put_handler_options_independent = true ∧ Facts.expire_forwarded_as_pexpire = true ∧
    Facts.del_forward_returns_early = false ∧ Facts.pipeline_future_reads_its_partition_slot = true := ⟨rfl, rfl, rfl, rfl⟩

/-! Non-vacuity -/
example : ApiCfg { nx := true, ttl := .px 200000000 } := by simp [ApiCfg]
example : decodePut (encodePut { xx := true, ttl := .exat 1700000000000000000 }) = { xx := true, ttl := .exat 1700000000000000000 } := by decide

/-- a closed run of the pipeline model: two partitions, counters; futures read 1, 10, 3 as the one-at-a-time run answers -/
example : (Pipeline.futures [] [(0, 1), (1, 10), (0, 2)]).map
      (Pipeline.futureResult (fun (s : Nat) (c : Nat) => (s + c, s + c)) (fun _ => 0) [(0, 1), (1, 10), (0, 2)])
    = [some 1, some 10, some 3] := by decide
example : Pipeline.futures [] [(0, 1), (1, 10), (0, 2)] = [(0, 0), (1, 0), (0, 1)] := by decide

end Olric.C15
