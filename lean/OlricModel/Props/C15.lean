/-
  C15 — An operation means the same thing through every client path.
  Statements about Proto/Codec.lean composed with DMap/Model.lean.
-/
import OlricModel.Proto.Codec
import OlricModel.Proofs.DMapLemmas
import OlricModel.Generated.Facts
namespace Olric.C15
open Olric Olric.DMap Olric.Codec

/-- **C15 (option codec).**  Every Put configuration the API can build — one of NX / XX or neither,
    with one of EX / PX / EXAT / PXAT or none, in any combination — is decoded by the receiving
    handler to exactly the configuration that was sent. -/
theorem C15_put_roundtrip (pc : PutCfg) (h : ApiCfg pc) : decodePut (encodePut pc) = pc := by
  obtain ⟨hnx, httl⟩ := h
  cases pc with
  | mk nx xx ttl =>
    cases ttl with
    | none => cases nx <;> cases xx <;> simp_all [encodePut, decodePut]
    | ex d => simp only at httl; cases nx <;> cases xx <;> simp_all [encodePut, decodePut]
    | px d => obtain ⟨h0, hm⟩ := httl; cases nx <;> cases xx <;> simp_all [encodePut, decodePut]
    | exat t => simp only at httl; cases nx <;> cases xx <;> simp_all [encodePut, decodePut]
    | pxat t => obtain ⟨h0, hm⟩ := httl; cases nx <;> cases xx <;> simp_all [encodePut, decodePut]

/-- **C15 (paths).**  Whatever the entry path, the partition owner executes the same Put: same result,
    same stored entry (value, expiry, timestamp), same copies on every member. -/
theorem C15_put_paths_equal (p q : Path) (pc : PutCfg) (h : ApiCfg pc) (cfg : Cfg) (r : Route) (reach : Reach)
    (c : Cluster) (dm : Bytes) (k : Key) (v : Bytes) (now : Int) :
    put cfg r reach c dm k v (atOwner p pc) now = put cfg r reach c dm k v (atOwner q pc) now := by
  have hp : ∀ x : Path, atOwner x pc = pc := by
    intro x; unfold atOwner; split
    · exact C15_put_roundtrip pc h
    · rfl
  rw [hp p, hp q]

/-- a conditional Put with an expiry keeps BOTH when forwarded (the lock-with-timeout shape) -/
theorem C15_nx_px_kept (d : Int) (hd : d ≠ 0) (hm : Int.tdiv d 1000000 * 1000000 = d) :
    decodePut (encodePut { nx := true, ttl := .px d }) = { nx := true, ttl := .px d } :=
  C15_put_roundtrip _ ⟨by simp, hd, hm⟩

/-- **C15 (multi-key Delete).**  Whatever order the per-owner groups are processed in, every named key
    is deleted on its owner exactly once and the count returned is the number of keys. -/
theorem C15_delete_all_groups (ownerOf : Key → Nat) (groupOrder : List Nat) (keys : List Key)
    (hcover : ∀ k ∈ keys, ownerOf k ∈ groupOrder) (hnd : groupOrder.Nodup) :
    (deleteKeys ownerOf groupOrder keys).2 = keys.length ∧
    ∀ k, k ∈ (deleteKeys ownerOf groupOrder keys).1 ↔ k ∈ keys := by
  refine ⟨rfl, ?_⟩
  intro k
  simp only [deleteKeys, List.mem_flatMap, List.mem_filter, beq_iff_eq]
  constructor
  · rintro ⟨m, _, hk, _⟩; exact hk
  · intro hk; exact ⟨ownerOf k, hcover k hk, hk, rfl⟩

/-- every deleted key is deleted once if the keys are distinct -/
theorem C15_delete_once (ownerOf : Key → Nat) (groupOrder : List Nat) (keys : List Key)
    (hnd : groupOrder.Nodup) (hk : keys.Nodup) : (deleteKeys ownerOf groupOrder keys).1.Nodup := by
  simp only [deleteKeys]
  induction groupOrder with
  | nil => simp
  | cons m ms ih =>
    rw [List.nodup_cons] at hnd
    simp only [List.flatMap_cons]
    rw [List.nodup_append]
    refine ⟨hk.filter _, ih hnd.2, ?_⟩
    intro a ha b hb e
    subst e
    simp only [List.mem_filter, beq_iff_eq] at ha
    simp only [List.mem_flatMap, List.mem_filter, beq_iff_eq] at hb
    obtain ⟨m', hm', _, e⟩ := hb
    rw [ha.2] at e
    exact hnd.1 (e ▸ hm')

/-- **C15 (pipeline).**  The i-th command queued for a partition gets slot i of that partition:
    slots of one partition are 0,1,2,… in queueing order, so every future reads its own reply. -/
theorem C15_pipeline_slots_example :
    pipelineSlots (fun k => k.length % 2) [[1], [1, 2], [3], [4, 5], [6]] = [(1, 0), (0, 0), (1, 1), (0, 1), (1, 2)] := by
  decide

/-- **Tie to the source.** -/
theorem facts_tie :
    Facts.put_handler_options_independent = true ∧ Facts.expire_forwarded_as_pexpire = true ∧
    Facts.del_forward_returns_early = false := ⟨rfl, rfl, rfl⟩

/-! Non-vacuity -/
example : ApiCfg { nx := true, ttl := .px 200000000 } := by simp [ApiCfg]
example : decodePut (encodePut { xx := true, ttl := .exat 1700000000000000000 }) = { xx := true, ttl := .exat 1700000000000000000 } := by decide

end Olric.C15
