/-
  C12 — A full scan returns every stable key exactly once and nothing else (storage-engine part).
  Statements about Store/Model.lean; the client iterator is covered by the `iter` stream only.
-/
import OlricModel.Proofs.ScanLemmas
import OlricModel.Props.C11
namespace Olric.C12
open Olric KV Table

/-- in every reachable store state the slots of a table are in strictly increasing offset order -/
theorem sorted_of_wf (k : KV) (w : k.WF) : ∀ t ∈ k.newestFirst, Table.Sorted t.slots := by
  intro t ht
  have hl := (w.layout t ht).1
  refine hl.imp (fun {a b} hab => ?_)
  have : a.r.size ≥ 29 := by unfold Rec.size; omega
  omega

/-- **C12 (one table).**  Iterating `Table.Scan` / `ScanRegexMatch` from any cursor until it answers
    0 yields every (matching) entry stored at or after the cursor exactly once, in offset order, for
    every page size ≥ 1 and every pattern, whatever holes deletes and overwrites left in the table;
    it terminates within (entries left + 1) pages.  Holds in every reachable state of the store. -/
theorem C12_table_walk (k : KV) (w : k.WF) (t : Table) (ht : t ∈ k.newestFirst) (m : Rec → Bool)
    (count : Nat) (hc : 1 ≤ count) (cursor : Nat) :
    walkTable m t.slots count ((t.slots.filter (fun s => decide (s.off ≥ cursor))).length + 1) cursor =
      (t.slots.filter (fun s => decide (s.off ≥ cursor))).filter (fun s => m s.r) :=
  walkTable_complete m t.slots count (sorted_of_wf k w t ht) hc _ cursor (Nat.lt_succ_self _)

/-- from cursor 0: exactly the matching entries of the table, each once -/
theorem C12_table_walk_all (k : KV) (w : k.WF) (t : Table) (ht : t ∈ k.newestFirst) (m : Rec → Bool)
    (count : Nat) (hc : 1 ≤ count) :
    walkTable m t.slots count (t.slots.length + 1) 0 = t.slots.filter (fun s => m s.r) := by
  have h := walkTable_complete m t.slots count (sorted_of_wf k w t ht) hc (t.slots.length + 1) 0
    (by have := List.length_filter_le (fun s => decide (s.off ≥ 0)) t.slots; omega)
  rw [h]
  congr 1
  rw [List.filter_eq_self]; intro s _; simp

/-- the page function of the model is the one the walk theorem is about -/
theorem scan_eq_scanAux (t : Table) (cursor count : Nat) (m : Rec → Bool) (now : Int) :
    (t.scan cursor count m now).1 = (scanAux m (t.slots.filter (fun s => s.off ≥ cursor)) count cursor []).1 ∧
    (t.scan cursor count m now).2.1 = (scanAux m (t.slots.filter (fun s => s.off ≥ cursor)) count cursor []).2.map (·.r) := by
  simp [Table.scan]

theorem minList_spec (l : List Nat) :
    (minList l = none ↔ l = []) ∧ ∀ n, minList l = some n → n ∈ l ∧ ∀ x ∈ l, n ≤ x := by
  induction l with
  | nil => simp [minList]
  | cons a l ih =>
    obtain ⟨i1, i2⟩ := ih
    constructor
    · simp only [minList]
      cases minList l <;> simp
    · intro n hn
      simp only [minList] at hn
      cases hm : minList l with
      | none =>
        simp only [hm] at hn
        injection hn with hn
        subst hn
        have := i1.mp hm
        subst this
        simp
      | some mn =>
        simp only [hm] at hn
        injection hn with hn
        obtain ⟨j1, j2⟩ := i2 mn hm
        by_cases hle : a ≤ mn
        · simp only [hle, if_true] at hn
          subst hn
          refine ⟨List.mem_cons_self, ?_⟩
          intro x hx
          cases hx with
          | head => exact Nat.le_refl _
          | tail _ hx => exact Nat.le_trans hle (j2 x hx)
        · simp only [hle, if_false] at hn
          subst hn
          refine ⟨List.mem_cons_of_mem _ j1, ?_⟩
          intro x hx
          cases hx with
          | head => omega
          | tail _ hx => exact j2 x hx

/-- **C12 (hop to the next table).**  When a table is exhausted the scan continues with the smallest
    registered coefficient above the current one — never skipping an existing table, whatever holes
    compaction and transfers left in the numbering — and ends only when there is none. -/
theorem C12_next_table (k : KV) (c : Nat) :
    (k.findCoefficient c = none ↔ ∀ x ∈ k.cfs, x ≤ c) ∧
    ∀ n, k.findCoefficient c = some n → n ∈ k.cfs ∧ c < n ∧ ∀ x ∈ k.cfs, c < x → n ≤ x := by
  obtain ⟨i1, i2⟩ := minList_spec (k.cfs.filter (· > c))
  unfold findCoefficient
  constructor
  · rw [i1, List.filter_eq_nil_iff]
    constructor
    · intro h x hx; have := h x hx; simp at this; exact this
    · intro h x hx; have := h x hx; simp; exact this
  · intro n hn
    obtain ⟨j1, j2⟩ := i2 n hn
    have := List.mem_filter.mp j1
    refine ⟨this.1, by simpa using this.2, ?_⟩
    intro x hx hcx
    exact j2 x (List.mem_filter.mpr ⟨hx, by simpa using hcx⟩)

/-- the keys a full walk must produce are exactly the present keys, each in one table only (C11) -/
theorem C12_present_once (k : KV) (w : k.WF) :
    (k.rangeAll.map (·.1)).Nodup ∧ ∀ h r, (h, r) ∈ k.rangeAll ↔ k.lookup h = some r :=
  ⟨(rangeAll_spec k w).1, (rangeAll_spec k w).2⟩

/-! Non-vacuity -/
example : walkTable (fun _ => true)
    [⟨1, 0, C11.recA⟩, ⟨2, 40, C11.recA⟩, ⟨3, 90, C11.recA⟩] 2 4 0 =
    [⟨1, 0, C11.recA⟩, ⟨2, 40, C11.recA⟩, ⟨3, 90, C11.recA⟩] := by decide

end Olric.C12
