/-
  C12 — A full scan returns every stable key exactly once and nothing else (storage-engine part).
  Statements about Store/Model.lean, and (C12_client_iterator) about how the client iterator combines the pages of
  the owners of a partition (Cluster/Iterator.lean).
-/
import OlricModel.Proofs.ScanLemmas
import OlricModel.Proofs.KVErase
import OlricModel.Proofs.KVScanInv
import OlricModel.Props.C11
import OlricModel.Proofs.IterProofs
import OlricModel.Generated.Facts
namespace Olric.C12
open Olric KV Table

/-- in every reachable store state the slots of a table are in strictly increasing offset order -/
theorem sorted_of_wf (k : KV) (w : k.WF) : ∀ t ∈ k.newestFirst, Table.Sorted t.slots := KV.sorted_of_wf k w

/-- **C12 (one table).**  Iterating `Table.Scan` / `ScanRegexMatch` from any cursor until it answers
    0 yields every (matching) entry stored at or after the cursor exactly once, in offset order, for
    every page size ≥ 1 and every pattern, whatever holes deletes and overwrites left in the table;
    it terminates within (entries left + 1) pages.  Holds in every reachable state of the store. -/
theorem C12_table_walk (k : KV) (w : k.WF) (t : Table) (ht : t ∈ k.newestFirst) (m : Rec → Bool)
    (count : Nat) (hc : 1 ≤ count) (cursor : Nat) :
    walkTable m t.slots count ((t.slots.filter (fun s => decide (s.off ≥ cursor))).length + 1) cursor =
      (t.slots.filter (fun s => decide (s.off ≥ cursor))).filter (fun s => m s.r) :=
  walkTable_complete m t.slots count (sorted_of_wf k w t ht) hc _ cursor (Nat.lt_succ_self _)

/-- from cursor 0: exactly the matching entries of the table, each once -/
theorem C12_table_walk_all (k : KV) (w : k.WF) (t : Table) (ht : t ∈ k.newestFirst) (m : Rec → Bool)
    (count : Nat) (hc : 1 ≤ count) :
    walkTable m t.slots count (t.slots.length + 1) 0 = t.slots.filter (fun s => m s.r) := by
  have h := walkTable_complete m t.slots count (sorted_of_wf k w t ht) hc (t.slots.length + 1) 0
    (by have := List.length_filter_le (fun s => decide (s.off ≥ 0)) t.slots; omega)
  rw [h]
  congr 1
  rw [List.filter_eq_self]; intro s _; simp

/-- the page function of the model is the one the walk theorem is about -/
theorem scan_eq_scanAux (t : Table) (cursor count : Nat) (m : Rec → Bool) (now : Int) :
    (t.scan cursor count m now).1 = (scanAux m (t.slots.filter (fun s => s.off ≥ cursor)) count cursor []).1 ∧
    (t.scan cursor count m now).2.1 = (scanAux m (t.slots.filter (fun s => s.off ≥ cursor)) count cursor []).2.map (·.r) := by
  simp [Table.scan]

/-- **C12 (hop to the next table).**  When a table is exhausted the scan continues with the smallest
    registered coefficient above the current one — never skipping an existing table, whatever holes
    compaction and transfers left in the numbering — and ends only when there is none. -/
theorem C12_next_table (k : KV) (c : Nat) :
    (k.findCoefficient c = none ↔ ∀ x ∈ k.cfs, x ≤ c) ∧
    ∀ n, k.findCoefficient c = some n → n ∈ k.cfs ∧ c < n ∧ ∀ x ∈ k.cfs, c < x → n ≤ x :=
  KV.findCoefficient_spec k c

/-- the keys a full walk must produce are exactly the present keys, each in one table only (C11) -/
theorem C12_present_once (k : KV) (w : k.WF) :
    (k.rangeAll.map (·.1)).Nodup ∧ ∀ h r, (h, r) ∈ k.rangeAll ↔ k.lookup h = some r :=
  ⟨(rangeAll_spec k w).1, (rangeAll_spec k w).2⟩

/-! ### The whole iteration: composition of the per-table walks -/

/-- the invariant the composition needs — coefficients of the tables in use pairwise different and
    below `nextCf`, no table written beyond its allocation — is kept by every store operation ... -/
theorem C12_scaninv_step (k : KV) (w : k.WF) (si : k.ScanInv) (op : C11.Op) : KV.ScanInv (C11.step k op).1 := by
  cases op with
  | put h r now => exact KV.scanInv_put k w si h r now
  | putRaw h r => exact KV.scanInv_putRaw k w si h r
  | get h now => exact KV.scanInv_get k w si h now
  | del h => exact KV.scanInv_delete k w si h
  | ttl h ttl ts now => exact KV.scanInv_updateTTL k w si h ttl ts now
  | compact now order => exact KV.scanInv_compaction k w si now order

/-- ... hence holds in every state reachable from a fresh fragment store, by any operation sequence -/
theorem C12_scaninv_run (ops : List C11.Op) (hok : ∀ op ∈ ops, op.ok) (k : KV) (w : k.WF) (si : k.ScanInv) :
    KV.ScanInv (C11.run k ops).1 := by
  induction ops generalizing k with
  | nil => exact si
  | cons op ops ih =>
    obtain ⟨w1, _⟩ := C11.C11_step k w op (hok op List.mem_cons_self)
    exact ih (fun x hx => hok x (List.mem_cons_of_mem _ hx)) _ w1 (C12_scaninv_step k w si op)

/-- **C12 (full iteration of one fragment store).**  Run kvstore.Scan / ScanRegexMatch from cursor 0,
    feeding every returned cursor back, each page stamping lastAccess on what it yields, until the
    cursor is 0 again: for every page size ≥ 1 and every pattern on the key, in every reachable store
    state (any table layout: holes in the coefficients after compaction, tables of any fill, empty
    and recycled tables), the loop ends within (entries + tables + 1) pages and yields — lastAccess
    aside — exactly the matching entries of the tables in use, table by table in ascending order of
    coefficient, each entry once. -/
theorem C12_full_walk (k : KV) (w : k.WF) (si : k.ScanInv) (hT : 0 < k.tableSize) (m : Rec → Bool)
    (hm : LaInd m) (count : Nat) (hc : 1 ≤ count) (now : Nat → Int) (fuel : Nat) (hfuel : k.totalLen + 1 ≤ fuel) :
    (KV.walkKV m count now fuel 0 k).map Rec.core = ((k.startTables).flatMap (KV.yieldOf m)).map Rec.core := by
  have h1 := KV.walkKV_er m hm count now fuel 0 k si.cfd
  rw [KV.walkP_zero k w si hT m count hc now fuel hfuel] at h1
  have hcore : ∀ l : List Rec, l.map Rec.core = (l.map Rec.er).map Rec.core := by
    intro l; rw [List.map_map]; rfl
  rw [hcore, h1, ← hcore]

/-- the tables visited are exactly the tables in use, each once -/
theorem C12_tables_once (k : KV) (si : k.ScanInv) :
    (k.startTables).Perm (k.newestFirst.filter (fun t => !isRecycled t)) := by
  obtain ⟨hmem, hasc⟩ := KV.startTables_spec k si
  have hn1 : (k.startTables).Nodup := by
    rw [List.nodup_iff_pairwise_ne]
    exact hasc.imp (fun {a b} h e => by rw [e] at h; exact Nat.lt_irrefl _ h)
  have hn2 : (k.newestFirst.filter (fun t => !isRecycled t)).Nodup := by
    rw [List.nodup_iff_pairwise_ne]
    refine (si.cfd.filter _).imp_of_mem ?_
    intro a b ha hb d e
    have hal := (List.mem_filter.mp ha).2
    have hbl := (List.mem_filter.mp hb).2
    simp only [Bool.not_eq_eq_eq_not, Bool.not_true] at hal hbl
    exact d hal hbl (by rw [e])
  rw [List.perm_ext_iff_of_nodup hn1 hn2]
  intro x
  rw [hmem x, List.mem_filter]
  simp

/-- what `Range` enumerates, restricted to the pattern, table by table -/
theorem rangeAll_filter (k : KV) (w : k.WF) (m : Rec → Bool) :
    (k.rangeAll.filter (fun p => m p.2)).map (·.2) =
      (k.newestFirst.filter (fun t => !isRecycled t)).flatMap (KV.yieldOf m) := by
  have hrec : ∀ t ∈ k.newestFirst, isRecycled t = true → t.slots = [] := by
    intro t ht hr
    simp only [newestFirst, List.mem_append] at ht
    rcases ht with ht | ht
    · cases hh : k.head with
      | none => rw [hh] at ht; cases ht
      | some hd =>
        rw [hh] at ht; simp only [Option.toList, List.mem_singleton] at ht; subst ht
        have := w.headRW t hh
        simp [isRecycled, this] at hr
    · exact w.recEmpty t ht hr
  simp only [rangeAll, List.filter_flatMap, List.map_flatMap]
  generalize k.newestFirst = ts at hrec
  induction ts with
  | nil => rfl
  | cons t ts ih =>
    have ih' := ih (fun x hx => hrec x (List.mem_cons_of_mem _ hx))
    simp only [List.flatMap_cons, List.filter_cons]
    have hy : List.map (fun x => x.2) (List.filter (fun p => m p.2) (List.map (fun s => (s.hk, s.r)) t.slots)) = KV.yieldOf m t := by
      simp only [KV.yieldOf, List.filter_map, List.map_map]
      rfl
    rw [hy, ih']
    cases hr : isRecycled t with
    | false => simp
    | true => simp [KV.yieldOf, hrec t List.mem_cons_self hr]

/-- **C12 (every present key exactly once, nothing else).**  The entries a full iteration yields
    are, lastAccess aside, a rearrangement of the entries of the present keys that match the pattern:
    by C12_present_once every present key has exactly one entry in that list, so every key present
    during the iteration is yielded exactly once and no deleted, superseded or never-stored key is. -/
theorem C12_full_walk_exactly_once (k : KV) (w : k.WF) (si : k.ScanInv) (hT : 0 < k.tableSize) (m : Rec → Bool)
    (hm : LaInd m) (count : Nat) (hc : 1 ≤ count) (now : Nat → Int) (fuel : Nat) (hfuel : k.totalLen + 1 ≤ fuel) :
    ((KV.walkKV m count now fuel 0 k).map Rec.core).Perm
      (((k.rangeAll.filter (fun p => m p.2)).map (·.2)).map Rec.core) := by
  rw [C12_full_walk k w si hT m hm count hc now fuel hfuel, rangeAll_filter k w m]
  exact ((C12_tables_once k si).flatMap_right _).map _

/-- stated on keys: a present matching key is yielded; whatever is yielded is a present matching key -/
theorem C12_full_walk_complete_sound (k : KV) (w : k.WF) (si : k.ScanInv) (hT : 0 < k.tableSize) (m : Rec → Bool)
    (hm : LaInd m) (count : Nat) (hc : 1 ≤ count) (now : Nat → Int) (fuel : Nat) (hfuel : k.totalLen + 1 ≤ fuel) :
    (∀ h r, k.lookup h = some r → m r = true → r.core ∈ (KV.walkKV m count now fuel 0 k).map Rec.core) ∧
    (∀ c ∈ (KV.walkKV m count now fuel 0 k).map Rec.core, ∃ h r, k.lookup h = some r ∧ m r = true ∧ r.core = c) := by
  have hp := C12_full_walk_exactly_once k w si hT m hm count hc now fuel hfuel
  obtain ⟨_, hr⟩ := rangeAll_spec k w
  constructor
  · intro h r hl hmr
    rw [hp.mem_iff, List.mem_map]
    refine ⟨r, ?_, rfl⟩
    rw [List.mem_map]
    exact ⟨(h, r), List.mem_filter.mpr ⟨(hr h r).mpr hl, hmr⟩, rfl⟩
  · intro c hc'
    rw [hp.mem_iff, List.mem_map] at hc'
    obtain ⟨r, hr', rfl⟩ := hc'
    rw [List.mem_map] at hr'
    obtain ⟨p, hpm, rfl⟩ := hr'
    obtain ⟨hp1, hp2⟩ := List.mem_filter.mp hpm
    exact ⟨p.1, p.2, (hr p.1 p.2).mp hp1, hp2, rfl⟩

/-- **C12 (client iterator, one partition).**  For every set of owners on the iterator's route (primary owners, previous
    ones included, then replica owners) and whatever pages they answer until their cursor comes back 0: the iterator
    fetches every page of every owner exactly once and stops (`schedule_perm`: the fetched pages are a permutation of all
    pages, with the fuel the page count gives), hands out no key twice, and hands out exactly the keys that occur in some
    page of some owner.  With C12_full_walk_complete_sound for the pages of one owner: every key present on some listed
    owner during the whole iteration is yielded exactly once, and nothing else. -/
theorem C12_client_iterator {α : Type} [DecidableEq α] (os : List (List (List α))) (hne : ∀ o ∈ os, o ≠ []) :
    (Iter.iterate os).Nodup ∧ (∀ k, k ∈ Iter.iterate os ↔ ∃ o ∈ os, ∃ p ∈ o, k ∈ p) ∧
    (Iter.schedule (Iter.total os + 1) os).Perm os.flatten := by
  have hp := Iter.schedule_perm (Iter.total os + 1) os hne (Nat.lt_succ_self _)
  refine ⟨Iter.foldl_emit_nodup _ [] List.nodup_nil, ?_, hp⟩
  intro k
  unfold Iter.iterate
  rw [Iter.mem_foldl_emit]
  constructor
  · rintro (h | ⟨p, hp', hk⟩)
    · cases h
    · obtain ⟨o, ho, hpo⟩ := List.mem_flatten.mp (hp.mem_iff.mp hp')
      exact ⟨o, ho, p, hpo, hk⟩
  · rintro ⟨o, ho, p, hpo, hk⟩
    exact Or.inr ⟨p, hp.mem_iff.mpr (List.mem_flatten.mpr ⟨o, ho, hpo⟩), hk⟩

/-- the shape `Iter.schedule` / `Iter.emit` follow, regenerated from cluster_iterator.go and embedded_iterator.go on every run -/
theorem facts_tie : Facts.client_iterator_walks_remaining_owners_once = true := by decide

/-! Non-vacuity -/
/-- a previous owner with one page, the current owner with three (COUNT 1: a new key, the overwritten old key, a new
    key - the shape of F47), a replica owner with an empty page: four distinct keys, each once -/
example : Iter.iterate [[[1]], [[2], [1], [3]], [[]], [[1, 2], [3, 4]]] = [1, 2, 3, 4] := by decide
example : ∀ o ∈ ([[[1]], [[2], [1], [3]], [[]], [[1, 2], [3, 4]]] : List (List (List Nat))), o ≠ [] := by decide

example : walkTable (fun _ => true)
    [⟨1, 0, C11.recA⟩, ⟨2, 40, C11.recA⟩, ⟨3, 90, C11.recA⟩] 2 4 0 =
    [⟨1, 0, C11.recA⟩, ⟨2, 40, C11.recA⟩, ⟨3, 90, C11.recA⟩] := by decide

/-- the demo store of C11 (two tables, an overwrite across tables, a delete, a compaction step):
    the hypotheses hold, and the iteration with one entry per page yields its two present keys -/
example : KV.ScanInv (C11.run (KV.fork 256 1000) C11.demoOps).1 :=
  C12_scaninv_run C11.demoOps C11.demoOps_ok _ (fork_wf 256 1000) (KV.scanInv_fork 256 1000)
example : LaInd (fun r => r.key == [97]) := fun _ => rfl
set_option maxRecDepth 100000 in
example : (KV.walkKV (fun _ => true) 1 (fun _ => 50) 6 0 (C11.run (KV.fork 256 1000) C11.demoOps).1).map (·.key) =
    [[97], [97]] := by decide
set_option maxRecDepth 100000 in
example : ((C11.run (KV.fork 256 1000) C11.demoOps).1.rangeAll.map (·.1)) = [2, 1] := by decide

end Olric.C12
