/-
  C05 — Read, write and member-count quorums are enforced exactly.
  Statements about DMap/Model.lean (replicate / get) and a one-line model of the request guard.
-/
import OlricModel.Proofs.DMapLemmas
import OlricModel.Generated.Facts
namespace Olric.C05
open Olric Olric.DMap

/-- copies a synchronous Put stores: one per reachable backup owner plus the owner's own -/
def stored (cfg : Cfg) (r : Route) (reach : Reach) : Nat :=
  if cfg.R > 1 then (r.baks.filter reach).length + 1 else 1

/-- **C05 (write quorum).**  For every subset of unreachable backup owners: the Put is acknowledged
    iff at least WriteQuorum copies were stored, and fails with the write-quorum error — nothing else —
    otherwise.  In particular an unreachable backup does not fail a Put whose quorum is still met. -/
theorem C05_write_iff (cfg : Cfg) (hR : cfg.R > 1) (r : Route) (reach : Reach) (c : Cluster) (dm : Bytes) (k : Key) (e : Copy) :
    ((replicate cfg r reach c dm k e).2 = .ok ↔ stored cfg r reach ≥ cfg.W) ∧
    ((replicate cfg r reach c dm k e).2 ≠ .ok → (replicate cfg r reach c dm k e).2 = .writeQuorum) := by
  unfold replicate stored
  simp only [hR, if_true]
  constructor
  · constructor
    · intro h; split at h; assumption; cases h
    · intro h; simp [h]
  · intro h; split at h
    · exact absurd rfl h
    · rename_i hh; simp [hh]

/-- with a single replica there is nothing to wait for -/
theorem C05_write_single (cfg : Cfg) (hR : ¬ cfg.R > 1) (r : Route) (reach : Reach) (c : Cluster) (dm : Bytes) (k : Key) (e : Copy) :
    (replicate cfg r reach c dm k e).2 = .ok := by
  unfold replicate; simp [hR]

/-- the copies the acknowledgement counts are really there: the owner's, and every reachable backup's -/
theorem C05_write_copies (cfg : Cfg) (hR : cfg.R > 1) (r : Route) (reach : Reach) (c : Cluster) (dm : Bytes) (k : Key) (e : Copy) :
    (replicate cfg r reach c dm k e).1.copy r.owner .prim dm k = some e ∧
    (∀ b ∈ r.baks, reach b = true → (replicate cfg r reach c dm k e).1.copy b .bak dm k = some e) ∧
    (∀ b, reach b = false → (replicate cfg r reach c dm k e).1.copy b .bak dm k = c.copy b .bak dm k) := by
  refine ⟨by rw [copy_replicate]; simp, fun b hb hr => by rw [copy_replicate]; simp [hR, hb, hr], fun b hr => ?_⟩
  rw [copy_replicate]; simp [hr]

/-- answers a read obtained / copies of the key among them -/
def answers (r : Route) (reach : Reach) (c : Cluster) (dm : Bytes) (k : Key) (now : Int) : Nat :=
  (versions r reach c dm k now).length
def present (r : Route) (reach : Reach) (c : Cluster) (dm : Bytes) (k : Key) (now : Int) : Nat :=
  ((versions r reach c dm k now).filterMap (fun v => v.2.2.map (fun x => (v.1, v.2.1, x)))).length

theorem sortV_length (l : List (Nat × Kind × Copy)) : (sortV l).length = l.length := by
  have hins : ∀ x acc, (insertV x acc).length = acc.length + 1 := by
    intro x acc
    induction acc with
    | nil => rfl
    | cons y ys ih => simp only [insertV]; split <;> simp [ih]
  have : ∀ (l acc : List (Nat × Kind × Copy)), (l.foldl (fun acc x => insertV x acc) acc).length = acc.length + l.length := by
    intro l
    induction l with
    | nil => intro acc; rfl
    | cons a l ih => intro acc; simp only [List.foldl_cons, ih, hins, List.length_cons]; omega
  simpa [sortV] using this l []

/-- **C05 (read quorum).**  A value is returned only if at least ReadQuorum copies of the key were
    obtained; fewer than ReadQuorum answering members, or a key that exists with fewer than ReadQuorum
    copies obtained, is the read-quorum error; a key no answering member holds is not-found. -/
theorem C05_read (cfg : Cfg) (r : Route) (reach : Reach) (c : Cluster) (dm : Bytes) (k : Key) (now : Int) :
    (∀ w, (get cfg r reach c dm k now).2 = .val w → present r reach c dm k now ≥ cfg.RQ ∧ answers r reach c dm k now ≥ cfg.RQ) ∧
    (answers r reach c dm k now < cfg.RQ → (get cfg r reach c dm k now).2 = .readQuorum) ∧
    (answers r reach c dm k now ≥ cfg.RQ → present r reach c dm k now = 0 → (get cfg r reach c dm k now).2 = .notFound) ∧
    (answers r reach c dm k now ≥ cfg.RQ → 0 < present r reach c dm k now → present r reach c dm k now < cfg.RQ →
        (get cfg r reach c dm k now).2 = .readQuorum) := by
  unfold answers present
  simp only [DMap.get]
  generalize versions r reach c dm k now = vs
  generalize hp : vs.filterMap (fun v => v.2.2.map (fun x => (v.1, v.2.1, x))) = pres
  have hlen := sortV_length pres
  refine ⟨?_, ?_, ?_, ?_⟩
  · intro w hw
    split at hw
    · cases hw
    · rename_i h1
      cases hs : sortV pres with
      | nil => simp [hs] at hw
      | cons x xs =>
        simp only [hs] at hw
        split at hw
        · cases hw
        · split at hw
          · cases hw
          · constructor <;> omega
  · intro h; simp [h]
  · intro h1 h0
    have : ¬ vs.length < cfg.RQ := by omega
    simp only [this, if_false]
    have : sortV pres = [] := by
      cases hs : sortV pres with
      | nil => rfl
      | cons x xs => rw [hs] at hlen; simp at hlen; omega
    simp [this]
  · intro h1 h0 h2
    have : ¬ vs.length < cfg.RQ := by omega
    simp only [this, if_false]
    cases hs : sortV pres with
    | nil => rw [hs] at hlen; simp at hlen; omega
    | cons x xs => simp [h2]

/-! ### member-count quorum -/

/-- server.Handler.ServeRESP + olric.preconditionFunc / dmap.NewDMap: every request that arrives over
    the network (except the coordinator's routing push) and every NewDMap is answered with the
    cluster-quorum error, and the handler does not run, while fewer than MemberCountQuorum members are seen -/
def guarded {σ ρ : Type} (numMembers mcq : Int) (isUpdateRouting : Bool) (cq : ρ) (handler : σ → σ × ρ) (s : σ) : σ × ρ :=
  if isUpdateRouting then handler s
  else if mcq > numMembers then (s, cq)
  else handler s

theorem C05_member_quorum {σ ρ : Type} (numMembers mcq : Int) (cq : ρ) (handler : σ → σ × ρ) (s : σ)
    (h : numMembers < mcq) : guarded numMembers mcq false cq handler s = (s, cq) := by
  simp [guarded, h]

theorem C05_member_quorum_met {σ ρ : Type} (numMembers mcq : Int) (cq : ρ) (handler : σ → σ × ρ) (s : σ)
    (h : mcq ≤ numMembers) : guarded numMembers mcq false cq handler s = handler s := by
  simp [guarded]; omega

/-- **Tie to the source (regenerated on every run).**  `guarded` is the shape of
    server.Handler.ServeRESP: the handler runs only behind the precondition, except for the routing
    push; the precondition and NewDMap both start with the member-count check; a failing backup
    owner does not abort the replication loop (it is counted), backups are written before the local copy. -/
theorem facts_tie :
    Facts.serve_resp_precond_guards_handler = true ∧ Facts.serve_resp_bypass_only_update_routing = true ∧
    Facts.is_operable_checks_member_quorum = true ∧ Facts.newdmap_checks_member_quorum_first = true ∧
    Facts.sync_put_aborts_on_backup_error = false ∧ Facts.sync_put_backups_before_local = true ∧
    Facts.precondition_set_before_handlers_are_registered = true :=
  ⟨rfl, rfl, rfl, rfl, rfl, rfl, rfl⟩

/-! Non-vacuity: R = 3, W = 2, one backup unreachable — acknowledged; both unreachable — write quorum -/
example : (replicate { R := 3, W := 2 } ⟨[2], [0, 1]⟩ (fun m => m != 0) Cluster.empty [100] [107] ⟨[1], 0, 5⟩).2 = .ok := by decide
example : (replicate { R := 3, W := 2 } ⟨[2], [0, 1]⟩ (fun _ => false) Cluster.empty [100] [107] ⟨[1], 0, 5⟩).2 = .writeQuorum := by decide

end Olric.C05
