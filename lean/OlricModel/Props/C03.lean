/-
  C03 — Rebalancing after joins and leaves neither loses, duplicates nor resurrects keys.

  The hand-over of one key, as the code performs it (fragment.Move → DMAP.MOVEFRAGMENT → mergeFragments →
  Drop), in separate steps that other operations and crashes may interleave with:
      moveMerge : the receiver merges the sender's version onto its own (last write wins);
      moveDrop  : the sender drops its table — only after the receiver acknowledged.
  and the reads / deletes that run while a previous owner is still listed (DMap/Model.lean `get`, `del`).
-/
import OlricModel.Props.C06
import OlricModel.Props.C02
import OlricModel.Generated.Facts
namespace Olric.C03
open Olric Olric.DMap Olric.C04 Olric.C09

/-- the receiver's half of a move, for one key -/
def moveMerge (c : Cluster) (src dst : Nat) (kind : Kind) (dm : Bytes) (k : Key) : Cluster :=
  match c.copy src kind dm k with
  | some x => c.setCopy dst kind dm k (some (lwwC (c.copy dst kind dm k) x))
  | none => c

/-- the sender's half: the moved table is dropped -/
def moveDrop (c : Cluster) (src : Nat) (kind : Kind) (dm : Bytes) (k : Key) : Cluster :=
  c.setCopy src kind dm k none

/-- newest timestamp a member holds for the key (none = no copy) -/
def tsOf (c : Cluster) (m : Nat) (kind : Kind) (dm : Bytes) (k : Key) : Option Int := (c.copy m kind dm k).map (·.ts)

/-- **C03 (a move neither loses nor duplicates).**  For a sender that holds a version `x` and a different
    receiver holding anything (nothing, an older, a newer version): after the merge the receiver holds the
    newer of the two (the incoming one on a tie) and the sender still holds `x`; after the drop the sender
    holds nothing and the receiver what it held after the merge: exactly one of the two holds the key, and
    it is the newest version.  Nobody else is touched. -/
theorem C03_move (c : Cluster) (src dst : Nat) (hne : src ≠ dst) (kind : Kind) (dm : Bytes) (k : Key) (x : Copy)
    (hx : c.copy src kind dm k = some x) :
    let c1 := moveMerge c src dst kind dm k
    let c2 := moveDrop c1 src kind dm k
    c1.copy dst kind dm k = some (lwwC (c.copy dst kind dm k) x) ∧ c1.copy src kind dm k = some x ∧
    c2.copy dst kind dm k = some (lwwC (c.copy dst kind dm k) x) ∧ c2.copy src kind dm k = none ∧
    (∀ j kind' dm' k', ¬ ((j = src ∨ j = dst) ∧ kind' = kind ∧ dm' = dm ∧ k' = k) →
        c2.copy j kind' dm' k' = c.copy j kind' dm' k') := by
  simp only [moveMerge, moveDrop, hx]
  refine ⟨?_, ?_, ?_, ?_, ?_⟩
  · rw [copy_setCopy]; simp
  · rw [copy_setCopy]; simp [hne, hx]
  · rw [copy_setCopy, copy_setCopy]; simp [Ne.symm hne]
  · rw [copy_setCopy]; simp
  · intro j kind' dm' k' h
    rw [copy_setCopy, copy_setCopy]
    by_cases h1 : j = src ∧ kind' = kind ∧ dm' = dm ∧ k' = k
    · exact absurd ⟨Or.inl h1.1, h1.2⟩ h
    · by_cases h2 : j = dst ∧ kind' = kind ∧ dm' = dm ∧ k' = k
      · exact absurd ⟨Or.inr h2.1, h2.2⟩ h
      · simp [h1, h2]

/-- the merged version is never older than either input -/
theorem lwwC_ts (cur : Option Copy) (x : Copy) : x.ts ≤ (lwwC cur x).ts ∧ ∀ y, cur = some y → y.ts ≤ (lwwC cur x).ts := by
  cases cur with
  | none => exact ⟨by simp [lwwC], fun y hy => by cases hy⟩
  | some y =>
    simp only [lwwC]
    refine ⟨by split <;> omega, fun y' hy' => ?_⟩
    injection hy' with hy'; subst hy'
    split <;> omega

/-- **C03 (a crash at any step of a move).**  Whichever of the two members is lost, and at whichever point
    — before the merge, after the merge but before the drop, after the drop — the member that is not lost
    holds a version at least as new as the sender's, except when the sender is lost before anything was
    merged (the loss of a sole holder: covered by the backups, C02). -/
theorem C03_move_crash_points (c : Cluster) (src dst : Nat) (hne : src ≠ dst) (kind : Kind) (dm : Bytes) (k : Key) (x : Copy)
    (hx : c.copy src kind dm k = some x) :
    -- receiver lost before it acknowledged: nothing was dropped
    (c.copy src kind dm k = some x) ∧
    -- sender lost after the merge: the receiver has it
    (∃ y, (moveMerge c src dst kind dm k).copy dst kind dm k = some y ∧ x.ts ≤ y.ts) ∧
    -- receiver lost after the merge, before the acknowledgement reached the sender: the sender still has it
    ((moveMerge c src dst kind dm k).copy src kind dm k = some x) ∧
    -- after the drop: the receiver has it
    (∃ y, (moveDrop (moveMerge c src dst kind dm k) src kind dm k).copy dst kind dm k = some y ∧ x.ts ≤ y.ts) := by
  obtain ⟨h1, h2, h3, _, _⟩ := C03_move c src dst hne kind dm k x hx
  exact ⟨hx, ⟨_, h1, (lwwC_ts _ x).1⟩, h2, ⟨_, h3, (lwwC_ts _ x).1⟩⟩

/-- **C03 (reads during a hand-over).**  While previous owners are listed, a Get on the owner gathers the
    owner's copy, every previous owner's and every backup owner's, and answers with the newest of them:
    the value is found wherever it currently lives (C06_get_returns_newest, for every route). -/
theorem C03_read_during_handover (cfg : Cfg) (r : Route) (c : Cluster) (dm : Bytes) (k : Key) (now : Int) (w : Copy)
    (h : (get cfg r allReach c dm k now).2 = .val w) :
    (∀ m ∈ r.prev, ∀ y, live (c.copy m .prim dm k) now = some y → y.ts ≤ w.ts) ∧
    (∀ y, live (c.copy r.owner .prim dm k) now = some y → y.ts ≤ w.ts) ∧
    (∀ b ∈ r.baks, ∀ y, live (c.copy b .bak dm k) now = some y → y.ts ≤ w.ts) := by
  have hnew := C06.C06_get_returns_newest cfg r allReach c dm k now w h
  refine ⟨?_, ?_, ?_⟩
  · intro m hm y hy
    apply hnew (m, Kind.prim, some y)
    · simp only [versions, List.mem_cons, List.mem_append, List.mem_filterMap]
      right; left
      exact ⟨m, by rw [filter_allReach]; exact List.mem_reverse.mpr hm, by rw [hy]; rfl⟩
    · rfl
  · intro y hy
    apply hnew (r.owner, Kind.prim, some y)
    · simp only [versions, List.mem_cons]
      left; rw [hy]
    · rfl
  · intro b hb y hy
    apply hnew (b, Kind.bak, some y)
    · simp only [versions, List.mem_cons, List.mem_append, List.mem_map]
      right; right
      exact ⟨b, by rw [filter_allReach]; exact hb, by rw [hy]⟩
    · rfl

/-- **C03 (deletes during a hand-over).**  A Delete on the owner removes the key from the owner, from every
    listed previous owner and from every backup owner: wherever it lives. -/
theorem C03_delete_during_handover (cfg : Cfg) (hR : cfg.R > 1) (r : Route) (c : Cluster) (dm : Bytes) (k : Key) :
    (del cfg r c dm k).copy r.owner .prim dm k = none ∧
    (∀ m ∈ r.prev, (del cfg r c dm k).copy m .prim dm k = none) ∧
    (∀ b ∈ r.baks, (del cfg r c dm k).copy b .bak dm k = none) := by
  refine ⟨?_, ?_, ?_⟩
  · rw [copy_del]; simp
  · intro m hm; rw [copy_del]; simp [hm]
  · intro b hb; rw [copy_del]; simp [hR, hb]

/-- a deleted key cannot come back through a move: a move only carries what the sender holds -/
theorem C03_move_nothing_from_nothing (c : Cluster) (src dst : Nat) (kind : Kind) (dm : Bytes) (k : Key)
    (hx : c.copy src kind dm k = none) : moveMerge c src dst kind dm k = c := by
  simp [moveMerge, hx]

theorem foldl_frame (f : Cluster → (Nat × Kind × Option Copy) → Cluster) (vs : List (Nat × Kind × Option Copy))
    (m : Nat) (kind : Kind) (dm : Bytes) (k : Key)
    (hf : ∀ c0 v, v ∈ vs → (f c0 v).copy m kind dm k = c0.copy m kind dm k) (c0 : Cluster) :
    (vs.foldl f c0).copy m kind dm k = c0.copy m kind dm k := by
  induction vs generalizing c0 with
  | nil => rfl
  | cons v vs ih =>
    simp only [List.foldl_cons]
    rw [ih (fun c1 v' hv' => hf c1 v' (List.mem_cons_of_mem _ hv')), hf c0 v List.mem_cons_self]

/-- read repair does not plant copies on previous owners (where a Delete routed later could miss them):
    a Get — read-repair on or off — leaves every member that is neither the owner nor a backup owner
    untouched -/
theorem C03_repair_skips_previous_owners (cfg : Cfg) (r : Route) (c : Cluster) (dm : Bytes) (k : Key) (now : Int)
    (m : Nat) (hm : m ≠ r.owner) (hb : m ∉ r.baks) (kind : Kind) :
    (get cfg r allReach c dm k now).1.copy m kind dm k = c.copy m kind dm k := by
  have hvers : ∀ v ∈ versions r allReach c dm k now, v.1 = r.owner ∨ v.2.1 = Kind.prim ∨ v.1 ∈ r.baks := by
    intro v hv
    simp only [versions, List.mem_cons, List.mem_append, List.mem_filterMap, List.mem_map] at hv
    rcases hv with rfl | ⟨x, _, hx⟩ | ⟨x, hx, rfl⟩
    · exact Or.inl rfl
    · cases hl : live (c.copy x Kind.prim dm k) now with
      | none => rw [hl] at hx; cases hx
      | some y => rw [hl] at hx; simp only [Option.map_some, Option.some.injEq] at hx; rw [← hx]; exact Or.inr (Or.inl rfl)
    · right; right; exact (List.mem_filter.mp hx).1
  simp only [DMap.get]
  split
  · rfl
  · split
    · rfl
    · split
      · rfl
      · split
        · rfl
        · split
          · apply foldl_frame
            intro c0 v hv
            have hne : v.1 ≠ m ∨ (v.2.1 = Kind.prim ∧ v.1 ≠ r.owner) := by
              rcases hvers v hv with h | h | h
              · left; rw [h]; exact Ne.symm hm
              · by_cases e : v.1 = r.owner
                · left; rw [e]; exact Ne.symm hm
                · right; exact ⟨h, e⟩
              · left; intro e; exact hb (e ▸ h)
            rcases hne with h | h
            · split
              · rfl
              · split
                · split
                  · rfl
                  · rw [copy_setCopy]; simp [Ne.symm h]
                · rw [copy_setCopy]; simp [Ne.symm h]
            · rw [if_pos h]
          · rfl

/-- the shape of the hand-over the model follows, regenerated from the source on every run -/
theorem facts_tie : Facts.handover_merges_lww_then_drops = true := by decide

/-! Non-vacuity: member 0 holds version ts 5, member 1 an older one (ts 3); the move 0 → 1 leaves the newer
    version on member 1 only; a move of an older version onto a newer one keeps the newer one. -/
def cM : Cluster := (Cluster.empty.setCopy 0 .prim [100] [107] (some ⟨[9], 0, 5⟩)).setCopy 1 .prim [100] [107] (some ⟨[1], 0, 3⟩)
example : (moveDrop (moveMerge cM 0 1 .prim [100] [107]) 0 .prim [100] [107]).copy 1 .prim [100] [107] = some ⟨[9], 0, 5⟩ := by decide
example : (moveDrop (moveMerge cM 0 1 .prim [100] [107]) 0 .prim [100] [107]).copy 0 .prim [100] [107] = none := by decide
example : (moveDrop (moveMerge cM 1 0 .prim [100] [107]) 1 .prim [100] [107]).copy 0 .prim [100] [107] = some ⟨[9], 0, 5⟩ := by decide

end Olric.C03
