/-
  C04 — Every backup copy mirrors the primary after each acknowledged operation.
  Statements about DMap/Model.lean (tied to internal/dmap by the `cluster` stream, which reads every
  member's primary and backup copy after each mutation).
-/
import OlricModel.Proofs.DMapLemmas
namespace Olric.C04
open Olric Olric.DMap

/-- every backup owner holds exactly what the primary owner holds for the key (value, expiry,
    timestamp; absent iff absent) -/
def Mirror (c : Cluster) (r : Route) (dm : Bytes) (k : Key) : Prop :=
  ∀ b ∈ r.baks, c.copy b .bak dm k = c.copy r.owner .prim dm k

def allReach : Reach := fun _ => true

/-- mutating operations on one key (stable routing, every backup owner reachable) -/
inductive Op
  | put (v : Bytes) (pc : PutCfg) (now : Int)
  | expire (timeout now : Int)
  | del
  | get (now : Int)

def step (cfg : Cfg) (r : Route) (dm : Bytes) (k : Key) (c : Cluster) : Op → Cluster
  | .put v pc now => (put cfg r allReach c dm k v pc now).1
  | .expire t now => (expire cfg r allReach c dm k t now).1
  | .del => del cfg r c dm k
  | .get now => (get { cfg with readRepair := false } r allReach c dm k now).1

theorem mirror_replicate (cfg : Cfg) (hR : cfg.R > 1) (r : Route) (c : Cluster) (dm : Bytes) (k : Key) (e : Copy) :
    Mirror (replicate cfg r allReach c dm k e).1 r dm k := by
  intro b hb
  rw [copy_replicate, copy_replicate]
  simp [hR, hb, allReach]

/-- **C04 (one step).**  Whatever the state before, after a Put (any option combination), an Expire,
    a Delete or a read, acknowledged or refused, every backup copy of the key equals the primary copy
    — provided it did before (a refused conditional Put / Expire changes nothing) — and after an
    acknowledged Put or Expire they all equal the entry just written. -/
theorem C04_step (cfg : Cfg) (hR : cfg.R > 1) (r : Route) (dm : Bytes) (k : Key) (c : Cluster) (op : Op)
    (hm : Mirror c r dm k) : Mirror (step cfg r dm k c op) r dm k := by
  cases op with
  | put v pc now =>
    simp only [step, put]
    split
    · exact hm
    · split
      · exact hm
      · exact mirror_replicate cfg hR r c dm k _
  | expire t now =>
    simp only [step, expire]
    split
    · exact hm
    · exact mirror_replicate cfg hR r c dm k _
  | del =>
    intro b hb
    simp only [step, copy_del]
    simp [hR, hb]
  | get now =>
    simp only [step, DMap.get]
    split
    · exact hm
    · split
      · exact hm
      · split
        · exact hm
        · split
          · exact hm
          · exact hm

/-- **C04.**  For every sequence of mutating operations on a key, of any length and with any option
    combinations, starting from any state in which the copies agree (e.g. the empty cluster): after
    every operation every backup copy is identical to the primary copy in value, expiry and write
    timestamp, and absent exactly when the primary copy is absent. -/
theorem C04_mirror (cfg : Cfg) (hR : cfg.R > 1) (r : Route) (dm : Bytes) (k : Key) (ops : List Op) (c : Cluster)
    (hm : Mirror c r dm k) : Mirror (ops.foldl (step cfg r dm k) c) r dm k := by
  induction ops generalizing c with
  | nil => exact hm
  | cons op ops ih => exact ih _ (C04_step cfg hR r dm k c op hm)

theorem C04_mirror_from_empty (cfg : Cfg) (hR : cfg.R > 1) (r : Route) (dm : Bytes) (k : Key) (ops : List Op) :
    Mirror (ops.foldl (step cfg r dm k) Cluster.empty) r dm k :=
  C04_mirror cfg hR r dm k ops _ (fun _ _ => rfl)

/-- an acknowledged Put leaves, on the primary and on every backup, exactly the entry written -/
theorem C04_put_written (cfg : Cfg) (hR : cfg.R > 1) (r : Route) (dm : Bytes) (k : Key) (c : Cluster)
    (v : Bytes) (pc : PutCfg) (now : Int) (hok : (put cfg r allReach c dm k v pc now).2 = .ok) :
    let e : Copy := ⟨v, prepareTTL pc.ttl cfg.dmTTL now, now⟩
    (put cfg r allReach c dm k v pc now).1.copy r.owner .prim dm k = some e ∧
    ∀ b ∈ r.baks, (put cfg r allReach c dm k v pc now).1.copy b .bak dm k = some e := by
  intro e
  simp only [DMap.put] at hok ⊢
  split at hok
  · cases hok
  · split at hok
    · cases hok
    · rename_i h1 h2
      simp only [h1, h2, if_false, Bool.false_eq_true]
      refine ⟨by rw [copy_replicate]; simp [e], fun b hb => by rw [copy_replicate]; simp [hR, hb, allReach, e]⟩

/-- a read answered from any single copy gives the same result: the copies are equal -/
theorem C04_any_copy_same (c : Cluster) (r : Route) (dm : Bytes) (k : Key) (hm : Mirror c r dm k) (now : Int) :
    ∀ b ∈ r.baks, live (c.copy b .bak dm k) now = live (c.copy r.owner .prim dm k) now :=
  fun b hb => by rw [hm b hb]

/-- operations on one key never touch the copies of another key or another DMap (frame) -/
theorem C04_frame (cfg : Cfg) (r : Route) (dm : Bytes) (k : Key) (c : Cluster) (op : Op)
    (j : Nat) (kind : Kind) (dm' : Bytes) (k' : Key) (hne : ¬ (dm' = dm ∧ k' = k)) :
    (step cfg r dm k c op).copy j kind dm' k' = c.copy j kind dm' k' := by
  have hrep : ∀ e, (replicate cfg r allReach c dm k e).1.copy j kind dm' k' = c.copy j kind dm' k' := by
    intro e; rw [copy_replicate]
    have : ¬ (dm' = dm ∧ k' = k ∧ ((j = r.owner ∧ kind = Kind.prim) ∨ (cfg.R > 1 ∧ j ∈ r.baks ∧ allReach j = true ∧ kind = Kind.bak))) :=
      fun ⟨a, b, _⟩ => hne ⟨a, b⟩
    simp only [this, if_false]
  cases op with
  | put v pc now => simp only [step, put]; split; rfl; split; rfl; exact hrep _
  | expire t now => simp only [step, expire]; split; rfl; exact hrep _
  | del =>
    simp only [step, copy_del]
    have : ¬ (dm' = dm ∧ k' = k ∧ ((j = r.owner ∧ kind = Kind.prim) ∨ (j ∈ r.prev ∧ kind = Kind.prim) ∨ (cfg.R > 1 ∧ j ∈ r.baks ∧ kind = Kind.bak))) :=
      fun ⟨a, b, _⟩ => hne ⟨a, b⟩
    simp only [this, if_false]
  | get now => simp only [step, DMap.get]; split; rfl; split; rfl; split; rfl; split <;> rfl

/-! Non-vacuity -/
def r0 : Route := ⟨[2], [0, 1]⟩
def cfg0 : Cfg := { R := 3, W := 2, RQ := 1 }
example : (ops : List Op) → Mirror (ops.foldl (step cfg0 r0 [100] [107]) Cluster.empty) r0 [100] [107] :=
  fun ops => C04_mirror_from_empty cfg0 (by decide) r0 [100] [107] ops
example : ((put cfg0 r0 allReach Cluster.empty [100] [107] [1, 2] { nx := true, ttl := .px 5000000 } 1000).1.copy 0 .bak [100] [107])
    = some ⟨[1, 2], 5, 1000⟩ := by decide

end Olric.C04
