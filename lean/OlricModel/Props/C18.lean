/-
  C18 — Returned values are private snapshots.
  Statements about Store/Heap.lean (the explicit aliasing model) and Store/Model.lean.
-/
import OlricModel.Store.Heap
import OlricModel.Generated.Facts
import OlricModel.Props.C11
namespace Olric.C18
open Olric Heap

/-- **Tie to the source.**  Both read paths of the table (`Get`, and `get` used by Scan) hand
    `SetValue` a fresh `make`+`copy` buffer — extracted from table.go on every run. -/
theorem facts_tie : Facts.table_get_copies_value = true := rfl

/-- **C18 (snapshot).**  A value obtained while reads copy is unaffected by anything the store does
    to any table memory afterwards — overwrite in place, recycling and re-use of the table, freeing
    it — for every sequence of such operations. -/
theorem C18_snapshot (w : World) (tid off len : Nat) (ops : List StoreOp) :
    deref (ops.foldl StoreOp.apply w) (tableGet Facts.table_get_copies_value w tid off len) =
      deref w (tableGet Facts.table_get_copies_value w tid off len) := by
  simp [tableGet, Facts.table_get_copies_value, deref]

/-- **C18 (private).**  Modifying the returned bytes changes no table memory, hence neither the
    stored value nor what any other caller reads. -/
theorem C18_poke_private (w : World) (tid off len i : Nat) (b : UInt8) :
    (poke w (tableGet Facts.table_get_copies_value w tid off len) i b).2 = w := by
  simp [tableGet, Facts.table_get_copies_value, poke]

/-- two callers never share bytes: poking one returned value leaves the other as it was -/
theorem C18_callers_independent (w : World) (t1 o1 l1 t2 o2 l2 i : Nat) (b : UInt8) :
    let r1 := tableGet Facts.table_get_copies_value w t1 o1 l1
    let r2 := tableGet Facts.table_get_copies_value w t2 o2 l2
    deref (poke w r1 i b).2 r2 = deref w r2 := by
  simp [tableGet, Facts.table_get_copies_value, poke]

/-- The hypothesis "reads copy" is necessary: with a view the same statements are false.  A closed
    witness: one byte of table 0 is read as a view, the table is rewritten, the caller's value changed. -/
theorem C18_view_is_not_a_snapshot :
    ∃ (w : World) (ops : List StoreOp),
      deref (ops.foldl StoreOp.apply w) (tableGet false w 0 0 1) ≠ deref w (tableGet false w 0 0 1) :=
  ⟨⟨[(0, [1, 2, 3])]⟩, [.write 0 0 [9]], by decide⟩

theorem C18_view_poke_corrupts :
    ∃ (w : World), (poke w (tableGet false w 0 0 1) 0 9).2.mem 0 ≠ w.mem 0 :=
  ⟨⟨[(0, [1, 2, 3])]⟩, by decide⟩

/-- **C18 (store level).**  At record level: the record `Get` returned stays what it was whatever is
    done to the store afterwards (it is a value), and a later `Get` of the same key is decided by the
    store alone (C11), never by what a caller did to an earlier result. -/
theorem C18_get_then_anything (k : KV) (w : k.WF) (h : Nat) (now : Int) (ops : List C11.Op)
    (hok : ∀ op ∈ ops, op.ok) :
    (C11.run (k.get h now).2 ops).1.WF :=
  (C11.C11_refines ops hok _ (KV.get_spec k w h now).2.1).1

end Olric.C18
