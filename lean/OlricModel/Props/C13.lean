/-
  C13 — All members agree on a valid, balanced routing table.
  Statements about Cluster/Routing.lean: for EVERY previous owners list, member list, key-count report
  and ring answer, what one routing-table computation of the coordinator produces.
-/
import OlricModel.Cluster.Routing
import OlricModel.Generated.Facts
namespace Olric.C13
open Olric Olric.Routing

/-! ### list facts -/

theorem mem_removeFirst (x y : Mem) (l : List Mem) (h : y ∈ removeFirst x l) : y ∈ l := by
  induction l with
  | nil => cases h
  | cons a rest ih =>
    simp only [removeFirst] at h
    split at h
    · exact List.mem_cons_of_mem _ h
    · rcases List.mem_cons.mp h with rfl | h
      · exact List.mem_cons_self
      · exact List.mem_cons_of_mem _ (ih h)

theorem mem_moveToEnd (l : List Mem) (x y : Mem) (h : y ∈ moveToEnd l x) : y = x ∨ y ∈ l := by
  unfold moveToEnd at h
  split at h
  · rcases List.mem_append.mp h with h | h
    · exact Or.inr (mem_removeFirst x y l h)
    · simp at h; exact Or.inl h
  · rcases List.mem_append.mp h with h | h
    · exact Or.inr h
    · simp at h; exact Or.inl h

theorem getLast_moveToEnd (l : List Mem) (x : Mem) : (moveToEnd l x).getLast? = some x := by
  unfold moveToEnd; split <;> simp

/-- ids stay distinct when an element is removed -/
theorem nodup_removeFirst (x : Mem) (l : List Mem) (h : (l.map (·.id)).Nodup) : ((removeFirst x l).map (·.id)).Nodup := by
  induction l with
  | nil => simp [removeFirst]
  | cons a rest ih =>
    simp only [List.map_cons, List.nodup_cons] at h
    simp only [removeFirst]
    split
    · exact h.2
    · simp only [List.map_cons, List.nodup_cons]
      refine ⟨?_, ih h.2⟩
      intro hm
      apply h.1
      obtain ⟨z, hz, e⟩ := List.mem_map.mp hm
      exact List.mem_map.mpr ⟨z, mem_removeFirst x z rest hz, e⟩

/-- with distinct ids, removing by id removes every element with that id -/
theorem removeFirst_no_id (x : Mem) (l : List Mem) (h : (l.map (·.id)).Nodup) :
    ∀ y ∈ removeFirst x l, y.id ≠ x.id := by
  induction l with
  | nil => intro y hy; cases hy
  | cons a rest ih =>
    simp only [List.map_cons, List.nodup_cons] at h
    intro y hy
    simp only [removeFirst] at hy
    split at hy
    · rename_i ha
      have ha' : a.id = x.id := by simpa using ha
      intro e
      apply h.1
      rw [ha', ← e]
      exact List.mem_map.mpr ⟨y, hy, rfl⟩
    · rename_i ha
      rcases List.mem_cons.mp hy with rfl | hy
      · simpa using ha
      · exact ih h.2 y hy

theorem nodup_moveToEnd (l : List Mem) (x : Mem) (h : (l.map (·.id)).Nodup) : ((moveToEnd l x).map (·.id)).Nodup := by
  unfold moveToEnd
  split
  · rw [List.map_append, List.nodup_append]
    refine ⟨nodup_removeFirst x l h, by simp, ?_⟩
    intro a ha b hb
    simp at hb
    obtain ⟨z, hz, e⟩ := List.mem_map.mp ha
    rw [hb, ← e]
    exact removeFirst_no_id x l h z hz
  · rename_i hany
    rw [List.map_append, List.nodup_append]
    refine ⟨h, by simp, ?_⟩
    intro a ha b hb
    simp at hb
    obtain ⟨z, hz, e⟩ := List.mem_map.mp ha
    intro eab
    apply hany
    rw [List.any_eq_true]
    exact ⟨z, hz, by simp [e, eab, hb]⟩

theorem nodup_filter_ids (p : Mem → Bool) (l : List Mem) (h : (l.map (·.id)).Nodup) : ((l.filter p).map (·.id)).Nodup :=
  List.Nodup.sublist (List.Sublist.map _ List.filter_sublist) h

/-! ## primary owners -/

/-- **C13 (primary owners).**  For every previous owners list, member list, count report and ring owner:
    the computed owners list ends with the ring's owner (THE primary owner — exactly one, last);
    every other listed owner was listed before, is still that live member (same name, same id: a
    departed or re-joined member is never listed) and did not report zero keys (it still holds data, or
    could not be asked); ids stay distinct. -/
theorem C13_primary (live : List Mem) (count : Mem → Option Nat) (owners : List Mem) (ro : Mem) :
    (distributePrimary live count owners ro).getLast? = some ro ∧
    (∀ o ∈ distributePrimary live count owners ro,
        o = ro ∨ (o ∈ owners ∧ alive live o = true ∧ count o ≠ some 0)) ∧
    ((owners.map (·.id)).Nodup → ((distributePrimary live count owners ro).map (·.id)).Nodup) := by
  unfold distributePrimary
  split
  · exact ⟨rfl, fun o ho => Or.inl (by simpa using ho), fun _ => by simp⟩
  · refine ⟨getLast_moveToEnd _ _, ?_, ?_⟩
    · intro o ho
      rcases mem_moveToEnd _ _ _ ho with h | h
      · exact Or.inl h
      · right
        simp only [pruneEmpty, pruneDead, List.mem_filter] at h
        exact ⟨h.1.1, h.1.2, by simpa using h.2⟩
    · intro hnd
      exact nodup_moveToEnd _ _ (nodup_filter_ids _ _ (nodup_filter_ids _ _ hnd))

/-- the primary owner is a live member whenever the ring only contains live members -/
theorem C13_primary_all_live (live : List Mem) (count : Mem → Option Nat) (owners : List Mem) (ro : Mem)
    (hro : alive live ro = true) : ∀ o ∈ distributePrimary live count owners ro, alive live o = true := by
  intro o ho
  rcases (C13_primary live count owners ro).2.1 o ho with h | h
  · rw [h]; exact hro
  · exact h.2.1

/-! ## backup owners -/

theorem removeFirst_eq_filter (x : Mem) (l : List Mem) (h : (l.map (·.id)).Nodup) :
    removeFirst x l = l.filter (fun b => b.id != x.id) := by
  induction l with
  | nil => rfl
  | cons a r ih =>
    simp only [List.map_cons, List.nodup_cons] at h
    simp only [removeFirst, List.filter_cons]
    by_cases ha : (a.id == x.id) = true
    · have ha' : a.id = x.id := by simpa using ha
      simp only [ha, if_true, bne, Bool.not_true, Bool.false_eq_true, if_false]
      symm
      rw [List.filter_eq_self]
      intro b hb
      have : b.id ≠ x.id := by
        intro e; apply h.1; rw [ha', ← e]; exact List.mem_map.mpr ⟨b, hb, rfl⟩
      simpa [bne_iff_ne] using this
    · have hne : (a.id != x.id) = true := by simpa [bne_iff_ne] using ha
      simp only [ha, Bool.false_eq_true, if_false, hne, if_true, ih h.2]

theorem moveToEnd_append (base done : List Mem) (x : Mem) (hb : (base.map (·.id)).Nodup) (hd : ∀ d ∈ done, d.id ≠ x.id) :
    moveToEnd (base ++ done) x = base.filter (fun b => b.id != x.id) ++ (done ++ [x]) := by
  unfold moveToEnd
  by_cases hin : base.any (fun o => o.id == x.id) = true
  · have hany : (base ++ done).any (fun o => o.id == x.id) = true := by simp [List.any_append, hin]
    simp only [hany, if_true]
    have hrf : ∀ (b : List Mem), b.any (fun o => o.id == x.id) = true → removeFirst x (b ++ done) = removeFirst x b ++ done := by
      intro b
      induction b with
      | nil => intro h; simp at h
      | cons a r ihb =>
        intro h
        simp only [List.cons_append, removeFirst]
        split
        · rfl
        · rename_i ha
          have : r.any (fun o => o.id == x.id) = true := by simpa [List.any_cons, ha] using h
          rw [ihb this]; rfl
    rw [hrf base hin, removeFirst_eq_filter x base hb]; simp
  · have hdone : done.any (fun o => o.id == x.id) = false := by
      rw [List.any_eq_false]; intro d hdm; simpa using hd d hdm
    have hany : (base ++ done).any (fun o => o.id == x.id) = false := by
      simp only [List.any_append, hdone, Bool.or_false]; simpa using hin
    simp only [hany, Bool.false_eq_true, if_false]
    have : base.filter (fun b => b.id != x.id) = base := by
      rw [List.filter_eq_self]
      intro b hbm
      have hf : base.any (fun o => o.id == x.id) = false := by simpa using hin
      rw [List.any_eq_false] at hf
      simpa [bne_iff_ne] using hf b hbm
    rw [this]; simp

/-- moving the new owners to the end one after the other leaves them, in order, as the suffix; what
    remains in front are the old entries that are not new owners -/
theorem foldl_moveToEnd (news base done : List Mem) (hb : (base.map (·.id)).Nodup)
    (hnd : ((done ++ news).map (·.id)).Nodup) :
    news.foldl moveToEnd (base ++ done) =
      base.filter (fun b => !news.any (fun n => n.id == b.id)) ++ (done ++ news) := by
  induction news generalizing base done with
  | nil =>
    simp only [List.foldl_nil, List.any_nil, Bool.not_false, List.append_nil]
    rw [List.filter_eq_self.mpr (fun _ _ => rfl)]
  | cons x rest ih =>
    simp only [List.foldl_cons]
    have hx : ∀ d ∈ done, d.id ≠ x.id := by
      intro d hd e
      rw [List.map_append, List.nodup_append] at hnd
      exact hnd.2.2 d.id (List.mem_map.mpr ⟨d, hd, rfl⟩) x.id (List.mem_map.mpr ⟨x, List.mem_cons_self, rfl⟩) e
    rw [moveToEnd_append base done x hb hx]
    have hb' : ((base.filter (fun b => b.id != x.id)).map (·.id)).Nodup := nodup_filter_ids _ _ hb
    have hnd' : (((done ++ [x]) ++ rest).map (·.id)).Nodup := by simpa using hnd
    rw [ih (base.filter (fun b => b.id != x.id)) (done ++ [x]) hb' hnd', List.filter_filter]
    congr 1
    · apply List.filter_congr
      intro b _
      simp only [List.any_cons, Bool.not_or, bne, Bool.and_comm]
      congr 1
      cases h : (x.id == b.id) <;> cases h2 : (b.id == x.id) <;> simp_all
    · simp

/-- **C13 (backup owners).**  For every previous backup list (distinct ids), member list, count report
    and ring answer `cs` (the primary first, distinct ids): the computed list is
      (previous backups that are still live, still hold data, and are not among the new ones) ++ cs.tail
    — the ring's replica owners, in the ring's order, are the LAST entries (the current backup owners),
    and every further entry is a live member that still holds data (or could not be asked). -/
theorem C13_backups (live : List Mem) (count : Mem → Option Nat) (owners : List Mem) (cs : List Mem)
    (ho : (owners.map (·.id)).Nodup) (hcs : (cs.tail.map (·.id)).Nodup) (hne : owners ≠ []) :
    distributeBackups live count owners (some cs) =
      (pruneEmpty count (pruneDead live owners)).filter (fun b => !cs.tail.any (fun n => n.id == b.id)) ++ cs.tail := by
  unfold distributeBackups
  simp only [hne, if_false]
  have := foldl_moveToEnd cs.tail (pruneEmpty count (pruneDead live owners)) []
    (nodup_filter_ids _ _ (nodup_filter_ids _ _ ho)) (by simpa using hcs)
  simpa using this

theorem C13_backups_first_run (live : List Mem) (count : Mem → Option Nat) (cs : List Mem) :
    distributeBackups live count [] (some cs) = cs.tail := by
  simp [distributeBackups]

/-- every listed backup owner is a ring replica owner or a still-live previous one holding data -/
theorem C13_backups_members (live : List Mem) (count : Mem → Option Nat) (owners : List Mem) (cs : List Mem)
    (ho : (owners.map (·.id)).Nodup) (hcs : (cs.tail.map (·.id)).Nodup) :
    ∀ o ∈ distributeBackups live count owners (some cs),
      o ∈ cs.tail ∨ (o ∈ owners ∧ alive live o = true ∧ count o ≠ some 0) := by
  intro o hm
  by_cases hne : owners = []
  · subst hne; rw [C13_backups_first_run] at hm; exact Or.inl hm
  · rw [C13_backups live count owners cs ho hcs hne] at hm
    rcases List.mem_append.mp hm with h | h
    · right
      simp only [pruneEmpty, pruneDead, List.mem_filter] at h
      exact ⟨h.1.1.1, h.1.1.2, by simpa using h.1.2⟩
    · exact Or.inl h

/-- what the ring is assumed to answer (buraksezer/consistent, tied by the correspondence stream):
    the partition owner first, then distinct other members, all of them current members, as many as
    min(ReplicaCount, members) -/
structure RingOK (live : List Mem) (R : Nat) (ro : Mem) (cs : List Mem) : Prop where
  head : cs.head? = some ro
  nodup : (cs.map (·.id)).Nodup
  allLive : ∀ c ∈ cs, alive live c = true
  len : cs.length = min R live.length

/-- **C13 (current backup owners).**  They are min(ReplicaCount, members) − 1 distinct live members other
    than the primary owner; and with them every listed backup owner is a live member. -/
theorem C13_backups_valid (live : List Mem) (R : Nat) (count : Mem → Option Nat) (owners : List Mem) (ro : Mem) (cs : List Mem)
    (hr : RingOK live R ro cs) (ho : (owners.map (·.id)).Nodup) :
    cs.tail.length = min R live.length - 1 ∧ (cs.tail.map (·.id)).Nodup ∧ (∀ b ∈ cs.tail, b.id ≠ ro.id ∧ alive live b = true) ∧
    (∀ o ∈ distributeBackups live count owners (some cs), alive live o = true) ∧
    (∃ pre, distributeBackups live count owners (some cs) = pre ++ cs.tail) := by
  have htl : (cs.tail.map (·.id)).Nodup := by
    cases cs with
    | nil => simp
    | cons a r => have := hr.nodup; simp only [List.map_cons, List.nodup_cons] at this; exact this.2
  refine ⟨by rw [List.length_tail, hr.len], htl, ?_, ?_, ?_⟩
  · intro b hb
    cases cs with
    | nil => cases hb
    | cons a r =>
      have ha : a = ro := by have := hr.head; simpa using this
      have hn := hr.nodup
      simp only [List.map_cons, List.nodup_cons] at hn
      refine ⟨?_, hr.allLive b (List.mem_cons_of_mem _ hb)⟩
      intro e
      apply hn.1
      rw [ha, ← e]
      exact List.mem_map.mpr ⟨b, hb, rfl⟩
  · intro o hm
    rcases C13_backups_members live count owners cs ho htl o hm with h | h
    · exact hr.allLive o (List.mem_of_mem_tail h)
    · exact h.2.1
  · by_cases hne : owners = []
    · subst hne; exact ⟨[], by rw [C13_backups_first_run]; rfl⟩
    · exact ⟨_, C13_backups live count owners cs ho htl hne⟩

/-! ## left-over data, agreement, coordinator, load -/

/-- a member that reports left-over data is listed afterwards (in front: it is a previous owner), and
    nobody is dropped -/
theorem C13_leftover (owners : List Mem) (m : Mem) :
    (∃ o ∈ ensureOwnership owners m, o.id = m.id) ∧ (∀ o ∈ owners, o ∈ ensureOwnership owners m) ∧
    (ensureOwnership owners m).getLast? = (if owners = [] then some m else owners.getLast?) := by
  unfold ensureOwnership
  split
  · rename_i h
    rw [List.any_eq_true] at h
    obtain ⟨o, ho, e⟩ := h
    refine ⟨⟨o, ho, by simpa using e⟩, fun o ho => ho, ?_⟩
    split
    · rename_i hn; subst hn; cases ho
    · rfl
  · refine ⟨⟨m, List.mem_cons_self, rfl⟩, fun o ho => List.mem_cons_of_mem _ ho, ?_⟩
    cases owners with
    | nil => rfl
    | cons a r => simp [List.getLast?_cons_cons]

/-- **C13 (agreement).**  A push installs the coordinator's table on every member it reaches: after a
    push that reached every member, all members hold the same table. -/
def push (tables : Nat → List Row) (reached : List Nat) (t : List Row) : Nat → List Row :=
  fun m => if m ∈ reached then t else tables m

theorem C13_agreement (tables : Nat → List Row) (members : List Nat) (t : List Row) :
    ∀ m ∈ members, ∀ n ∈ members, push tables members t m = push tables members t n := by
  intro m hm n hn; simp [push, hm, hn]

theorem oldest_spec (l : List (Mem × Int)) :
    match oldest l with
    | none => l = []
    | some x => x ∈ l ∧ ∀ y ∈ l, x.2 ≤ y.2 := by
  induction l with
  | nil => simp [oldest]
  | cons a r ih =>
    simp only [oldest]
    cases h : oldest r with
    | none =>
      rw [h] at ih
      simp only at ih ⊢
      subst ih
      exact ⟨List.mem_cons_self, fun y hy => by simp at hy; rw [hy]; exact Int.le_refl _⟩
    | some y =>
      rw [h] at ih
      simp only at ih ⊢
      by_cases hlt : y.2 < a.2
      · simp only [hlt, if_true]
        refine ⟨List.mem_cons_of_mem _ ih.1, fun z hz => ?_⟩
        rcases List.mem_cons.mp hz with rfl | hz
        · omega
        · exact ih.2 z hz
      · simp only [hlt, if_false]
        refine ⟨List.mem_cons_self, fun z hz => ?_⟩
        rcases List.mem_cons.mp hz with rfl | hz
        · exact Int.le_refl _
        · have := ih.2 z hz; omega

/-- **C13 (coordinator).**  The coordinator is a current member with the smallest birthdate; when
    birthdates are distinct every member that sees the same member set — in whatever order its
    membership layer lists it — names the same coordinator. -/
theorem C13_coordinator (l1 l2 : List (Mem × Int)) (hsame : ∀ x, x ∈ l1 ↔ x ∈ l2)
    (hd : ∀ x ∈ l1, ∀ y ∈ l1, x.2 = y.2 → x = y) : coordinator l1 = coordinator l2 := by
  unfold coordinator
  have s1 := oldest_spec l1
  have s2 := oldest_spec l2
  cases h1 : oldest l1 with
  | none =>
    rw [h1] at s1; simp only at s1
    cases h2 : oldest l2 with
    | none => rfl
    | some y => rw [h2] at s2; simp only at s2; have := (hsame y).mpr s2.1; rw [s1] at this; cases this
  | some x =>
    rw [h1] at s1; simp only at s1
    cases h2 : oldest l2 with
    | none => rw [h2] at s2; simp only at s2; have := (hsame x).mp s1.1; rw [s2] at this; cases this
    | some y =>
      rw [h2] at s2; simp only at s2
      have hy1 : y ∈ l1 := (hsame y).mpr s2.1
      have hx2 : x ∈ l2 := (hsame x).mp s1.1
      have : x.2 = y.2 := by have := s1.2 y hy1; have := s2.2 x hx2; omega
      rw [hd x s1.1 y hy1 this]

/-- **C13 (load bound).**  In the ring's bounded-load assignment no member ever gets more partitions than
    the bound: a partition goes only to a member whose load is below it. -/
theorem C13_load_bound (avg : Nat) (walks : List (List Nat)) (loads loads' : Nat → Nat)
    (h0 : ∀ m, loads m ≤ avg) (h : assignAll avg walks loads = some loads') : ∀ m, loads' m ≤ avg := by
  induction walks generalizing loads with
  | nil => simp only [assignAll] at h; injection h with h; rw [← h]; exact h0
  | cons w rest ih =>
    simp only [assignAll] at h
    cases ha : assignOne w loads avg with
    | none => simp [ha] at h
    | some m =>
      simp only [ha] at h
      apply ih _ _ h
      intro x
      by_cases e : x = m
      · subst e
        simp only [if_true]
        unfold assignOne at ha
        have := List.find?_some ha
        simpa using this
      · simp only [e, if_false]; exact h0 x

/-- the bound as the library computes it is zero when there are more members than partitions: no
    partition can be assigned and the library panics (finding F34) -/
example : averageLoad 3 4 125 100 = 0 ∧ assignAll 0 [[0, 1, 2, 3]] (fun _ => 0) = none := by decide
/-- and with partitions ≥ members there always is room: members × bound ≥ partitions -/
theorem C13_room (P N : Nat) (hN : N > 0) (hPN : N ≤ P) : N * averageLoad P N 125 100 ≥ P := by
  unfold averageLoad
  have hq : P / N ≥ 1 := (Nat.one_le_div_iff hN).mpr hPN
  simp only [Nat.ne_of_gt hN, if_false]
  have h1 : (P / N * 125 + 100 - 1) / 100 ≥ P / N + 1 := by
    have : P / N * 125 + 100 - 1 ≥ (P / N + 1) * 100 := by omega
    exact (Nat.le_div_iff_mul_le (by decide)).mpr this
  have h2 : N * (P / N + 1) ≥ P := by
    have := Nat.div_add_mod P N
    have := Nat.mod_lt P hN
    rw [Nat.mul_add]; omega
  exact Nat.le_trans h2 (Nat.mul_le_mul_left N h1)

/-! ## left-over data reaches every member (fix aa5aa21) -/

theorem mem_removeFirst_of_ne (x o : Mem) (l : List Mem) (h : o ∈ l) (hne : o.id ≠ x.id) : o ∈ removeFirst x l := by
  induction l with
  | nil => cases h
  | cons a r ih =>
    simp only [removeFirst]
    split
    · rename_i e
      rcases List.mem_cons.mp h with h | h
      · subst h; exact absurd (by simpa using e) hne
      · exact h
    · rcases List.mem_cons.mp h with h | h
      · subst h; exact List.mem_cons_self
      · exact List.mem_cons_of_mem _ (ih h)

theorem moveToEnd_keeps_id (l : List Mem) (x o : Mem) (h : o ∈ l) : ∃ o' ∈ moveToEnd l x, o'.id = o.id := by
  by_cases e : o.id = x.id
  · refine ⟨x, ?_, e.symm⟩
    unfold moveToEnd; split <;> simp
  · refine ⟨o, ?_, rfl⟩
    unfold moveToEnd
    split
    · exact List.mem_append_left _ (mem_removeFirst_of_ne x o l h e)
    · exact List.mem_append_left _ h

theorem distributePrimary_keeps_holder (live : List Mem) (count : Mem → Option Nat) (owners : List Mem) (ro o : Mem)
    (ho : o ∈ owners) (hl : alive live o = true) (hc : count o ≠ some 0) :
    ∃ o' ∈ distributePrimary live count owners ro, o'.id = o.id := by
  unfold distributePrimary
  split
  · rename_i e; subst e; cases ho
  · apply moveToEnd_keeps_id
    simp only [pruneEmpty, pruneDead, List.mem_filter]
    exact ⟨⟨ho, hl⟩, by simpa using hc⟩

theorem foldl_ensure_mono (rs l : List Mem) (o : Mem) (h : o ∈ l) : o ∈ rs.foldl ensureOwnership l := by
  induction rs generalizing l with
  | nil => exact h
  | cons r rest ih => exact ih _ ((C13_leftover l r).2.1 o h)

theorem foldl_ensure_has (rs l : List Mem) (m : Mem) (h : m ∈ rs) : ∃ o ∈ rs.foldl ensureOwnership l, o.id = m.id := by
  induction rs generalizing l with
  | nil => cases h
  | cons r rest ih =>
    rcases List.mem_cons.mp h with h | h
    · subst h
      obtain ⟨o, ho, e⟩ := (C13_leftover l m).1
      exact ⟨o, foldl_ensure_mono rest _ o ho, e⟩
    · exact ih _ h

theorem foldl_ensure_mem (rs l : List Mem) (o : Mem) (h : o ∈ rs.foldl ensureOwnership l) : o ∈ l ∨ o ∈ rs := by
  induction rs generalizing l with
  | nil => exact Or.inl h
  | cons r rest ih =>
    rcases ih _ h with h | h
    · unfold ensureOwnership at h
      split at h
      · exact Or.inl h
      · rcases List.mem_cons.mp h with h | h
        · exact Or.inr (h ▸ List.mem_cons_self)
        · exact Or.inl h
    · exact Or.inr (List.mem_cons_of_mem _ h)

/-- **C13 / C03 (left-over data is listed everywhere).**  For every previous owners list, member list, ring owner and
    both rounds of key-count answers: a member that reports left-over data for the partition when it receives the
    table - it stored a key for it while the table was being computed - and that is still that live member holding
    data when the coordinator asks again, is on the owners list of the LAST push of this update: every member, not
    only the coordinator, knows where that data lives when `updateRouting` returns. -/
theorem C13_leftover_pushed (live : List Mem) (count1 count2 : Mem → Option Nat) (coordOwners : List Mem) (ro : Mem)
    (reporters : List Mem) (m : Mem) (hm : m ∈ reporters)
    (hok : ∀ o, o.id = m.id → alive live o = true ∧ count2 o ≠ some 0) :
    ∃ o ∈ updateRoutingPart live count1 count2 coordOwners ro reporters, o.id = m.id := by
  obtain ⟨o, ho, e⟩ := foldl_ensure_has reporters (distributePrimary live count1 coordOwners ro) m hm
  unfold updateRoutingPart
  simp only
  split
  · rename_i h; rw [h] at ho; exact ⟨o, ho, e⟩
  · obtain ⟨o', ho', e'⟩ := distributePrimary_keeps_holder live count2 _ ro o ho (hok o e).1 (hok o e).2
    exact ⟨o', ho', e'.trans e⟩

/-- nothing is pushed twice when no report added an owner -/
theorem C13_single_push_when_nothing_reported (live : List Mem) (count1 count2 : Mem → Option Nat) (coordOwners : List Mem) (ro : Mem) :
    updateRoutingPart live count1 count2 coordOwners ro [] = distributePrimary live count1 coordOwners ro := by
  simp [updateRoutingPart]

/-- the shapes the model follows, regenerated from the source on every run -/
theorem facts_tie : Facts.distribute_prunes_then_appends_ring_owners = true ∧
    Facts.only_oldest_member_computes_and_receivers_verify_sender = true ∧
    Facts.leftover_report_is_pushed_again = true ∧
    Facts.distribute_works_on_a_copy_of_the_owners = true ∧
    Facts.periodic_push_runs_on_every_member = true ∧
    Facts.pushed_table_is_checked_before_it_is_applied = true := by decide

/-! Non-vacuity: three live members; member (1,11) re-joined as (1,12); previous owners [(1,11), (0,10)],
    member 0 reports 5 keys; the ring picks member 2. -/
def live0 : List Mem := [⟨0, 10⟩, ⟨1, 12⟩, ⟨2, 13⟩]
example : distributePrimary live0 (fun m => if m.name = 0 then some 5 else some 0) [⟨1, 11⟩, ⟨0, 10⟩] ⟨2, 13⟩
    = [⟨0, 10⟩, ⟨2, 13⟩] := by decide
example : distributeBackups live0 (fun _ => some 3) [⟨0, 10⟩, ⟨1, 11⟩] (some [⟨2, 13⟩, ⟨0, 10⟩])
    = [⟨0, 10⟩] := by decide
example : distributeBackups live0 (fun _ => some 3) [⟨2, 13⟩, ⟨1, 12⟩] (some [⟨0, 10⟩, ⟨2, 13⟩])
    = [⟨1, 12⟩, ⟨2, 13⟩] := by decide
example : RingOK live0 2 ⟨2, 13⟩ [⟨2, 13⟩, ⟨0, 10⟩] := ⟨rfl, by decide, by decide, by decide⟩
/-! F46 (fixed aa5aa21): member 0 owned the partition, it was empty when the coordinator asked; member 1 joins and the
    ring gives it the partition; member 0 stores a key in between and reports it.  The first push does not list member
    0 (what every member but the coordinator held until the next periodic push, before the repair); the update as a
    whole does. -/
example : distributePrimary [⟨0, 10⟩, ⟨1, 12⟩] (fun _ => some 0) [⟨0, 10⟩] ⟨1, 12⟩ = [⟨1, 12⟩] := by decide
example : updateRoutingPart [⟨0, 10⟩, ⟨1, 12⟩] (fun _ => some 0) (fun m => if m.name = 0 then some 1 else some 0) [⟨0, 10⟩] ⟨1, 12⟩ [⟨0, 10⟩]
    = [⟨0, 10⟩, ⟨1, 12⟩] := by decide
example : coordinator [(⟨0, 10⟩, 5), (⟨1, 12⟩, 3), (⟨2, 13⟩, 9)] = some ⟨1, 12⟩ := by decide

end Olric.C13
