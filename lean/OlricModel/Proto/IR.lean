/-
  A small imperative language for the argument-vector handling of protocol.Parse*Command, its
  interpreter, and an abstract-interpretation checker `safe` for "no index/slice out of range, every
  option loop makes progress".  /verif/extract/parsers translates the Go functions into this
  language on every run (Generated/Parsers.lean); Proofs/IRSound.lean proves the checker sound.
  Core-only (the interpreter is linked into the driver for the `parsers` correspondence stream).
-/
namespace Olric.IR

abbrev Var := Nat          -- 0 = cmd.Args, 1.. = local re-slices (`args`)
abbrev Tok := List UInt8

inductive Cmp | lt | le | eq | ne | ge | gt
  deriving DecidableEq, Repr

def Cmp.eval : Cmp → Nat → Nat → Bool
  | .lt, a, b => a < b | .le, a, b => a ≤ b | .eq, a, b => a == b
  | .ne, a, b => a != b | .ge, a, b => a ≥ b | .gt, a, b => a > b

inductive NumKind | int | uint | float | atoi
  deriving DecidableEq, Repr

mutual
  inductive Stmt
    | ifLen (v : Var) (c : Cmp) (n : Nat) (thn els : Block)      -- if len(v) ⋈ n {thn} else {els}
    | ifTok (v : Var) (i : Nat) (lit : Tok) (thn els : Block)     -- if string(v[i]) == lit {thn} else {els}
    | index (v : Var) (i : Nat)                                   -- v[i] is evaluated
    | slice (dst v : Var) (k : Nat)                               -- dst = v[k:]
    | parse (v : Var) (i : Nat) (kind : NumKind)                  -- strconv.X(v[i]); on error: return err
    | switchTok (v : Var) (i : Nat) (cases : Cases) (dflt : Block) -- switch strings.ToUpper(v[i])
    | loop (v : Var) (body : Block)                               -- for len(v) > 0 { body }
    | rangeTail (v : Var) (k : Nat)                               -- for range v[k:] { no indexing }
    | ret (ok : Bool)
    | cont
  inductive Block
    | nil
    | cons (s : Stmt) (b : Block)
  inductive Cases
    | nil
    | cons (lit : Tok) (b : Block) (rest : Cases)
end

abbrev Env := Var → List Tok

def Env.set (e : Env) (v : Var) (x : List Tok) : Env := fun y => if y = v then x else e y

inductive Res
  | next (e : Env)
  | cont (e : Env)
  | retOk
  | retErr
  | panic
  | spin            -- out of iteration budget: the loop does not terminate within it

def upper (t : Tok) : Tok := t.map (fun c => if 97 ≤ c.toNat ∧ c.toNat ≤ 122 then UInt8.ofNat (c.toNat - 32) else c)

/-- does strconv accept this token?  A parameter: the real answers come from the harness. -/
abbrev NumOk := NumKind → Tok → Bool

/-- `for len(v) > 0 { step }` with an iteration budget -/
def iter (step : Env → Res) (v : Var) : Env → Nat → Res
  | e, 0 => if (e v).length = 0 then .next e else .spin
  | e, n + 1 =>
    if (e v).length = 0 then .next e else
    match step e with
    | .next e' => iter step v e' n
    | .cont e' => iter step v e' n
    | r => r

mutual
  def execS (ok : NumOk) : Stmt → Env → Nat → Res
    | .ifLen v c n thn els, e, f => if c.eval (e v).length n then execB ok thn e f else execB ok els e f
    | .ifTok v i lit thn els, e, f =>
      match (e v)[i]? with
      | none => .panic
      | some t => if t = lit then execB ok thn e f else execB ok els e f
    | .index v i, e, _ => if i < (e v).length then .next e else .panic
    | .slice dst v k, e, _ => if k ≤ (e v).length then .next (e.set dst ((e v).drop k)) else .panic
    | .parse v i kind, e, _ =>
      match (e v)[i]? with
      | none => .panic
      | some t => if ok kind t then .next e else .retErr
    | .switchTok v i cases dflt, e, f =>
      match (e v)[i]? with
      | none => .panic
      | some t =>
        match execC ok cases (upper t) e f with
        | some r => r
        | none => execB ok dflt e f
    | .loop v body, e, f => iter (fun e' => execB ok body e' f) v e f
    | .rangeTail v k, e, _ => if k ≤ (e v).length then .next e else .panic
    | .ret b, _, _ => if b then .retOk else .retErr
    | .cont, e, _ => .cont e
  def execB (ok : NumOk) : Block → Env → Nat → Res
    | .nil, e, _ => .next e
    | .cons s b, e, f =>
      match execS ok s e f with
      | .next e' => execB ok b e' f
      | r => r
  /-- the first case whose literal equals the (upper-cased) token; `none`: no case matched -/
  def execC (ok : NumOk) : Cases → Tok → Env → Nat → Option Res
    | .nil, _, _, _ => none
    | .cons lit b rest, t, e, f => if t = lit then some (execB ok b e f) else execC ok rest t e f
end

/-- run a parser on an argument vector (Args[0] is the command name) -/
def run (ok : NumOk) (p : Block) (args : List Tok) : Res :=
  execB ok p (fun v => if v = 0 then args else []) (args.length + 1)

/-! ## the checker -/

structure AVal where
  lo : Nat
  hi : Option Nat          -- none = unbounded
  deriving DecidableEq, Repr

def AVal.top : AVal := ⟨0, none⟩
def AVal.join (a b : AVal) : AVal :=
  ⟨min a.lo b.lo, match a.hi, b.hi with | some x, some y => some (max x y) | _, _ => none⟩
def AVal.sat (a : AVal) (n : Nat) : Prop := a.lo ≤ n ∧ (match a.hi with | some h => n ≤ h | none => True)
def AVal.empty (a : AVal) : Bool := match a.hi with | some h => decide (h < a.lo) | none => false

/-- refine by `len ⋈ n` being true -/
def AVal.refine (a : AVal) (c : Cmp) (n : Nat) : AVal :=
  match c with
  | .lt => ⟨a.lo, some (match a.hi with | some h => min h (n - 1) | none => n - 1)⟩   -- (n = 0: caller checks emptiness)
  | .le => ⟨a.lo, some (match a.hi with | some h => min h n | none => n)⟩
  | .eq => ⟨max a.lo n, some (match a.hi with | some h => min h n | none => n)⟩
  | .ne => ⟨if a.lo = n then n + 1 else a.lo, a.hi⟩       -- the lower bound itself is excluded
  | .ge => ⟨max a.lo n, a.hi⟩
  | .gt => ⟨max a.lo (n + 1), a.hi⟩

def Cmp.neg : Cmp → Cmp
  | .lt => .ge | .le => .gt | .eq => .ne | .ne => .eq | .ge => .lt | .gt => .le

/-- abstract state: bounds per variable; inside a loop over `lv`, `shr` is a lower bound on how much
    `lv` has shrunk since the head of the current iteration -/
structure AEnv where
  vals : Var → AVal
  shr : Nat

def AEnv.setVal (a : AEnv) (v : Var) (x : AVal) : AEnv := { a with vals := fun y => if y = v then x else a.vals y }

def AEnv.join (a b : AEnv) : AEnv := ⟨fun v => (a.vals v).join (b.vals v), min a.shr b.shr⟩

/-- result of checking a block: `none` = rejected; `some none` = every path returned or continued;
    `some (some a)` = falls through with state `a` -/
abbrev ARes := Option (Option AEnv)

def joinR (x y : ARes) : ARes :=
  match x, y with
  | none, _ => none
  | _, none => none
  | some none, r => r
  | r, some none => r
  | some (some a), some (some b) => some (some (a.join b))

/-- variables are numbered below this bound; the checker rejects anything else -/
def NV : Nat := 4

/-- `true` when the `lt 0` refinement would be vacuous -/
def refineBranch (a : AEnv) (v : Var) (c : Cmp) (n : Nat) : Option AEnv :=
  if c = .lt ∧ n = 0 then none
  else
    let r := (a.vals v).refine c n
    if r.empty then none else some (a.setVal v r)

mutual
  /-- `lv` = the enclosing loop's variable (none outside loops) -/
  def chkS (lv : Option Var) : Stmt → AEnv → ARes
    | .ifLen v c n thn els, a =>
      if v ≥ NV then none else
      let rt := match refineBranch a v c n with | none => some none | some a' => chkB lv thn a'
      let re := match refineBranch a v c.neg n with | none => some none | some a' => chkB lv els a'
      joinR rt re
    | .ifTok v i _ thn els, a =>
      if v ≥ NV then none else
      if (a.vals v).lo ≤ i then none else joinR (chkB lv thn a) (chkB lv els a)
    | .index v i, a => if v ≥ NV then none else if (a.vals v).lo ≤ i then none else some (some a)
    | .slice dst v k, a =>
      if v ≥ NV ∨ dst ≥ NV then none else
      if (a.vals v).lo < k then none else
      let nv : AVal := ⟨(a.vals v).lo - k, (a.vals v).hi.map (· - k)⟩
      match lv with
      | some l =>
        -- inside an option loop only the loop variable itself may be re-sliced
        if dst = l ∧ v = l then some (some { (a.setVal dst nv) with shr := a.shr + k }) else none
      | none => some (some (a.setVal dst nv))
    | .parse v i _, a => if v ≥ NV then none else if (a.vals v).lo ≤ i then none else some (some a)
    | .switchTok v i cases dflt, a =>
      if v ≥ NV then none else
      if (a.vals v).lo ≤ i then none else joinR (chkC lv cases a) (chkB lv dflt a)
    | .loop v body, a =>
      match lv with
      | some _ => none                                   -- no nested loops
      | none =>
        if v ≥ NV then none else
        -- at the head of every iteration: v is non-empty, nothing is known about its upper bound;
        -- the other variables are as before the loop (the body may not assign them: see `slice`)
        let head : AEnv := ⟨fun y => if y = v then ⟨1, none⟩ else a.vals y, 0⟩
        match chkB (some v) body head with
        | none => none
        | some none => some (some (a.setVal v ⟨0, some 0⟩))
        | some (some out) =>
          if out.shr = 0 then none else some (some (a.setVal v ⟨0, some 0⟩))
    | .rangeTail v k, a => if v ≥ NV then none else if (a.vals v).lo < k then none else some (some a)
    | .ret _, _ => some none
    | .cont, a =>
      match lv with
      | none => none
      | some _ => if a.shr = 0 then none else some none
  def chkB (lv : Option Var) : Block → AEnv → ARes
    | .nil, a => some (some a)
    | .cons s b, a =>
      match chkS lv s a with
      | none => none
      | some none => some none
      | some (some a') => chkB lv b a'
  /-- join over all case bodies (`some none` for no cases: nothing falls through from them) -/
  def chkC (lv : Option Var) : Cases → AEnv → ARes
    | .nil, _ => some none
    | .cons _ b rest, a => joinR (chkB lv b a) (chkC lv rest a)
end

/-- the initial abstract state: cmd.Args has at least the command name -/
def init : AEnv := ⟨fun v => if v = 0 then ⟨1, none⟩ else ⟨0, some 0⟩, 0⟩

def safe (p : Block) : Bool := (chkB none p init).isSome

end Olric.IR
