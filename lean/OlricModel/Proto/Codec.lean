/-
  The option codec of a forwarded Put (dmap.writePutCommand → protocol.Put.Command → ParsePutCommand →
  putCommandHandler), Expire forwarding, multi-key Delete grouping and the pipeline's index mapping.
  Durations are Go `time.Duration`s in ns; the wire fields of protocol.Put carry them (EX/EXAT as
  float seconds — assumed to round-trip, A-float — PX/PXAT as integer milliseconds).  Core-only.
-/
import OlricModel.DMap.Model
namespace Olric.Codec
open Olric Olric.DMap

/-- protocol.Put's option fields; a zero value means "absent" (that is how Put.Command and the handler read them) -/
structure PutWire where
  nx : Bool := false
  xx : Bool := false
  ex : Int := 0
  px : Int := 0        -- ns, always a multiple of 1e6 on the wire (milliseconds)
  exat : Int := 0
  pxat : Int := 0
  deriving DecidableEq, Repr

/-- dmap.writePutCommand: one expiry option (first of EX, PX, EXAT, PXAT), one of NX / XX -/
def encodePut (pc : PutCfg) : PutWire :=
  let w : PutWire := match pc.ttl with
    | .ex d => { ex := d }
    | .px d => { px := (Int.tdiv d 1000000) * 1000000 }      -- .Milliseconds() truncates
    | .exat t => { exat := t }
    | .pxat t => { pxat := (Int.tdiv t 1000000) * 1000000 }
    | .none => {}
  if pc.nx then { w with nx := true } else if pc.xx then { w with xx := true } else w

/-- dmap.putCommandHandler: NX/XX and the expiry options are decoded independently -/
def decodePut (w : PutWire) : PutCfg :=
  let ttl : TTLOpt :=
    if w.ex ≠ 0 then .ex w.ex
    else if w.px ≠ 0 then .px w.px
    else if w.exat ≠ 0 then .exat w.exat
    else if w.pxat ≠ 0 then .pxat w.pxat
    else .none
  { nx := w.nx, xx := !w.nx && w.xx, ttl := ttl }

/-- what the public API can build: at most one of NX/XX (NX wins in writePutCommand), an expiry that
    is a whole number of milliseconds and not zero -/
def ApiCfg (pc : PutCfg) : Prop :=
  ¬ (pc.nx = true ∧ pc.xx = true) ∧
  match pc.ttl with
  | .none => True
  | .ex d => d ≠ 0
  | .px d => d ≠ 0 ∧ Int.tdiv d 1000000 * 1000000 = d
  | .exat t => t ≠ 0
  | .pxat t => t ≠ 0 ∧ Int.tdiv t 1000000 * 1000000 = t

/-- entry paths of an operation -/
inductive Path | ownerEmbedded | otherEmbedded | clusterClient | rawRESP | pipeline
  deriving DecidableEq, Repr

def Path.forwards : Path → Bool
  | .ownerEmbedded => false
  | _ => true

/-- the configuration the partition owner finally executes -/
def atOwner (p : Path) (pc : PutCfg) : PutCfg := if p.forwards then decodePut (encodePut pc) else pc

/-- dmap.deleteKeys: keys grouped by owning member, the groups processed in ANY order (Go map
    iteration), each group on its owner.  Returns the keys deleted in processing order and the count. -/
def deleteKeys (ownerOf : Key → Nat) (groupOrder : List Nat) (keys : List Key) : List Key × Nat :=
  (groupOrder.flatMap (fun m => keys.filter (fun k => ownerOf k == m)), keys.length)

/-- DMapPipeline.addCommand / Exec: commands are queued per partition; the i-th future of a partition
    reads the i-th reply of that partition's pipeline -/
def pipelineSlots (partOf : Key → Nat) (keys : List Key) : List (Nat × Nat) :=
  (keys.foldl (fun (acc : List (Nat × Nat) × List (Nat × Nat)) k =>
      let p := partOf k
      let idx := (acc.2.filter (fun x => x.1 == p)).length
      (acc.1 ++ [(p, idx)], acc.2 ++ [(p, idx)])) ([], [])).1

end Olric.Codec
