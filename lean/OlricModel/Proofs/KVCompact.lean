/- Compaction, the recycle sweep, table export/import, Stats and Range. Core-only. -/
import OlricModel.Proofs.KVOps
namespace Olric
open Table
namespace KV

/-- the map a store implements, without lastAccess -/
def absV (k : KV) (h : Nat) : Option Core := (k.lookup h).map Rec.core

theorem findIn_of_mem (ts : List Table) (t : Table) (h : Nat) (s : Slot) (hp : ts.Pairwise Disj)
    (ht : t ∈ ts) (hf : t.find h = some s) : findIn ts h = some s := by
  induction ts with
  | nil => cases ht
  | cons b ts ih =>
    rw [List.pairwise_cons] at hp
    cases ht with
    | head => simp [findIn_cons, hf]
    | tail _ ht =>
      have hb : b.find h = none := by
        rcases hp.1 t ht h with x | x
        · exact x
        · rw [hf] at x; cases x
      simp only [findIn_cons, hb]
      exact ih hp.2 ht

/-- a batch of raw re-insertions of records that are already the visible versions -/
theorem foldPutRaw_spec (batch : List (Nat × Rec)) (k : KV) (w : k.WF)
    (hsz : ∀ p ∈ batch, p.2.size < k.tableSize ∧ p.2.key.length < 256)
    (hcore : ∀ p ∈ batch, (k.lookup p.1).map Rec.core = some p.2.core) :
    (batch.foldl (fun k p => (k.putRaw p.1 p.2).1) k).WF ∧
    (batch.foldl (fun k p => (k.putRaw p.1 p.2).1) k).tableSize = k.tableSize ∧
    ∀ h, (batch.foldl (fun k p => (k.putRaw p.1 p.2).1) k).absV h = k.absV h := by
  induction batch generalizing k with
  | nil => exact ⟨w, rfl, fun _ => rfl⟩
  | cons p rest ih =>
    simp only [List.foldl_cons]
    obtain ⟨w1, _, s1, hok, _, _, hokiff⟩ := putRaw_spec k w p.1 p.2 (hsz p List.mem_cons_self).2
    have hsp : p.2.size < k.tableSize := (hsz p List.mem_cons_self).1
    have hres : (k.putRaw p.1 p.2).2 = .ok := hokiff.mpr hsp
    have hl := hok hres
    have habs : ∀ h, (k.putRaw p.1 p.2).1.absV h = k.absV h := by
      intro h
      simp only [absV, hl h]
      by_cases e : h = p.1
      · subst e; simp [hcore p List.mem_cons_self]
      · simp [e]
    obtain ⟨w2, s2, h2⟩ := ih (k.putRaw p.1 p.2).1 w1
      (fun q hq => by rw [s1]; exact hsz q (List.mem_cons_of_mem _ hq))
      (fun q hq => by
        have := habs q.1
        simp only [absV] at this
        rw [this]; exact hcore q (List.mem_cons_of_mem _ hq))
    exact ⟨w2, by rw [s2, s1], fun h => by rw [h2 h, habs h]⟩

theorem reset_slots (t : Table) (now : Int) : (t.reset now).slots = [] := rfl

theorem resetDrained_spec (k : KV) (w : k.WF) (cf : Nat) (now : Int) :
    (k.resetDrained cf now).WF ∧ (k.resetDrained cf now).tableSize = k.tableSize ∧
    ∀ h, findIn (k.resetDrained cf now).newestFirst h = findIn k.newestFirst h := by
  -- a table with inuse = 0 holds no slot, so resetting it changes no lookup
  let g : Table → Table := fun t => if t.cf == cf && t.state != .recycled && t.inuse == 0 then t.reset now else t
  have hg_find : ∀ t ∈ k.old, ∀ h, (g t).find h = t.find h := by
    intro t ht h
    simp only [g]
    split
    · rename_i hc
      have hz : t.inuse = 0 := by
        simp only [Bool.and_eq_true, beq_iff_eq] at hc; exact hc.2
      have := slots_nil_of_inuse_zero t (w.acct t (by simp [newestFirst, ht])) hz
      simp [find, Table.reset, this]
    · rfl
  have hfi : ∀ (ts : List Table), (∀ t ∈ ts, t ∈ k.old) → ∀ h, findIn (ts.map g) h = findIn ts h := by
    intro ts
    induction ts with
    | nil => intros; rfl
    | cons t ts ih =>
      intro hm h
      simp only [List.map_cons, findIn_cons, hg_find t (hm t List.mem_cons_self) h,
        ih (fun x hx => hm x (List.mem_cons_of_mem _ hx)) h]
  have hold : (k.resetDrained cf now).old = k.old.map g := rfl
  have hhead : (k.resetDrained cf now).head = k.head := rfl
  refine ⟨⟨?_, ?_, ?_, ?_, ?_, ?_, ?_, ?_, ?_, ?_, ?_⟩, rfl, ?_⟩
  · intro t ht hr
    rw [hold, List.mem_map] at ht
    obtain ⟨x, hx, rfl⟩ := ht
    simp only [g] at hr ⊢
    split
    · rfl
    · rename_i hc; simp only [hc] at hr; exact w.recEmpty x hx (by simpa using hr)
  · have hu := w.unique
    unfold Unique newestFirst at hu ⊢
    rw [hold, hhead]
    cases hh : k.head with
    | none =>
      simp only [hh, Option.toList, List.nil_append] at hu ⊢
      rw [List.pairwise_map]
      refine List.Pairwise.imp_of_mem (fun {a b} ha hb d => disj_of_find_eq (hg_find a ha) (hg_find b hb) d) hu
    | some hd =>
      simp only [hh, Option.toList, List.cons_append, List.nil_append, List.pairwise_cons] at hu ⊢
      refine ⟨?_, ?_⟩
      · intro b hb
        rw [List.mem_map] at hb
        obtain ⟨x, hx, rfl⟩ := hb
        exact disj_of_find_eq (fun _ => rfl) (hg_find x hx) (hu.1 x hx)
      · rw [List.pairwise_map]
        exact List.Pairwise.imp_of_mem (fun {a b} ha hb d => disj_of_find_eq (hg_find a ha) (hg_find b hb) d) hu.2
  · intro t ht; rw [hhead] at ht; exact w.headRW t ht
  · intro t ht
    rw [hold, List.mem_map] at ht
    obtain ⟨x, hx, rfl⟩ := ht
    simp only [g]
    split
    · simp [Table.reset]
    · exact w.oldNotRW x hx
  · intro t ht
    simp only [newestFirst, hold, hhead, List.mem_append, List.mem_map] at ht
    rcases ht with ht | ⟨x, hx, rfl⟩
    · exact w.alloc t (by simp [newestFirst, ht])
    · simp only [g]
      split
      · exact w.alloc x (by simp [newestFirst, hx])
      · exact w.alloc x (by simp [newestFirst, hx])
  · intro t ht hr
    rw [hold, List.mem_map] at ht
    obtain ⟨x, hx, rfl⟩ := ht
    simp only [g] at hr ⊢
    split
    · rfl
    · rename_i hc; simp only [hc] at hr; exact w.recOff x hx (by simpa using hr)
  · intro t ht
    simp only [newestFirst, hold, hhead, List.mem_append, List.mem_map] at ht
    rcases ht with ht | ⟨x, hx, rfl⟩
    · exact w.nodup t (by simp [newestFirst, ht])
    · simp only [g]
      split
      · simp [keys, Table.reset]
      · exact w.nodup x (by simp [newestFirst, hx])
  · intro t ht
    simp only [newestFirst, hold, hhead, List.mem_append, List.mem_map] at ht
    rcases ht with ht | ⟨x, hx, rfl⟩
    · exact w.acct t (by simp [newestFirst, ht])
    · simp only [g]
      split
      · simp [Table.reset, sumSize]
      · exact w.acct x (by simp [newestFirst, hx])
  · intro t ht
    simp only [newestFirst, hold, hhead, List.mem_append, List.mem_map] at ht
    rcases ht with ht | ⟨x, hx, rfl⟩
    · exact w.fits t (by simp [newestFirst, ht])
    · simp only [g]
      split
      · intro s hs; simp [Table.reset] at hs
      · exact w.fits x (by simp [newestFirst, hx])
  · intro t ht
    simp only [newestFirst, hold, hhead, List.mem_append, List.mem_map] at ht
    rcases ht with ht | ⟨x, hx, rfl⟩
    · exact w.tot t (by simp [newestFirst, ht])
    · simp only [g]
      split
      · rfl
      · exact w.tot x (by simp [newestFirst, hx])
  · intro t ht
    simp only [newestFirst, hold, hhead, List.mem_append, List.mem_map] at ht
    rcases ht with ht | ⟨x, hx, rfl⟩
    · exact w.layout t (by simp [newestFirst, ht])
    · simp only [g]
      split
      · simp [Table.Layout, Table.reset]
      · exact w.layout x (by simp [newestFirst, hx])
  · intro h
    simp only [newestFirst, hold, hhead, findIn_append, hfi k.old (fun _ h => h) h]

/-- the sweep only ever removes recycled tables, in place -/
theorem sweep_spec (exp : Table → Bool) (ts : List Table) (n : Nat) (hre : RecEmpty ts) :
    (sweep exp ts n).1.Sublist ts ∧ ∀ h, findIn (sweep exp ts n).1 h = findIn ts h := by
  induction ts with
  | nil => exact ⟨List.Sublist.refl _, fun _ => rfl⟩
  | cons t ts ih =>
    obtain ⟨hs, hf⟩ := ih (fun x hx => hre x (List.mem_cons_of_mem _ hx))
    simp only [sweep]
    split
    · rename_i hc
      split
      · exact ⟨hs.cons_cons t, fun h => by simp only [findIn_cons, hf h]⟩
      · have hr : isRecycled t = true := by
          simp only [Bool.and_eq_true] at hc; exact hc.1
        have he := hre t List.mem_cons_self hr
        exact ⟨hs.cons t, fun h => by simp only [findIn_cons, find_eq_none_of_slots_nil t h he, hf h]⟩
    · exact ⟨hs.cons_cons t, fun h => by simp only [findIn_cons, hf h]⟩

theorem wf_of_sublist_old (k : KV) (w : k.WF) (old' : List Table) (hs : old'.Sublist k.old) :
    ({ k with old := old' } : KV).WF := by
  have hm : ∀ x ∈ old', x ∈ k.old := fun x hx => hs.subset hx
  have hnf : ∀ x ∈ ({ k with old := old' } : KV).newestFirst, x ∈ k.newestFirst := by
    intro x hx
    simp only [newestFirst, List.mem_append] at hx ⊢
    rcases hx with hx | hx
    · exact Or.inl hx
    · exact Or.inr (hm x hx)
  refine ⟨fun t ht => w.recEmpty t (hm t ht), ?_, w.headRW, fun t ht => w.oldNotRW t (hm t ht),
    fun t ht => w.alloc t (hnf t ht), fun t ht => w.recOff t (hm t ht), fun t ht => w.nodup t (hnf t ht),
    fun t ht => w.acct t (hnf t ht), fun t ht => w.fits t (hnf t ht), fun t ht => w.tot t (hnf t ht), fun t ht => w.layout t (hnf t ht)⟩
  have := w.unique
  unfold Unique newestFirst at this ⊢
  exact this.sublist ((List.Sublist.refl _).append hs)

/-- kvstore.Compaction: any single call, with any Range order, keeps the invariant and the contents. -/
theorem compaction_spec (k : KV) (w : k.WF) (now : Int) (order : List Nat) :
    (k.compaction now order).1.WF ∧ (k.compaction now order).1.tableSize = k.tableSize ∧
    ∀ h, (k.compaction now order).1.absV h = k.absV h := by
  unfold compaction
  cases hp : pickLast needsCompaction k.old with
  | some q =>
    obtain ⟨t, rest⟩ := q
    simp only
    obtain ⟨htm, _, _, _⟩ := pickLast_mem _ _ _ _ hp
    have htnf : t ∈ k.newestFirst := by simp [newestFirst, htm]
    have hb_mem : ∀ p ∈ evictBatch t order now, ∃ s ∈ t.slots, t.find p.1 = some s ∧ p.2 = { s.r with la := now } := by
      intro p hpm
      simp only [evictBatch, List.mem_map] at hpm
      obtain ⟨s, hs, rfl⟩ := hpm
      have hs' := List.mem_of_mem_take hs
      rw [List.mem_filterMap] at hs'
      obtain ⟨h0, _, hf⟩ := hs'
      have hk := find_hk t h0 s hf
      refine ⟨s, List.mem_of_find?_eq_some hf, ?_, rfl⟩
      simp only [hk ▸ hf]
    obtain ⟨w1, s1, a1⟩ := foldPutRaw_spec (evictBatch t order now) k w
      (fun p hpm => by
        obtain ⟨s, hs, _, e⟩ := hb_mem p hpm
        rw [e]; exact w.fits t htnf s hs)
      (fun p hpm => by
        obtain ⟨s, _, hf, e⟩ := hb_mem p hpm
        have := findIn_of_mem k.newestFirst t p.1 s w.unique htnf hf
        simp [lookup, this, e, Rec.core])
    obtain ⟨w2, s2, f2⟩ := resetDrained_spec _ w1 t.cf now
    exact ⟨w2, by rw [s2, s1], fun h => by simp only [absV, lookup, f2 h]; exact a1 h⟩
  | none =>
    simp only
    obtain ⟨hs, hf⟩ := sweep_spec (k.isExpiredAt now) k.old k.tables.length w.recEmpty
    refine ⟨wf_of_sublist_old k w _ hs, trivial, ?_⟩
    intro h
    simp only [absV, lookup, newestFirst, findIn_append, hf h]

/-- `done` is reported exactly when no table other than the read-write head is garbage-heavy -/
theorem compaction_done_iff (k : KV) (now : Int) (order : List Nat) :
    (k.compaction now order).2 = true ↔ pickLast needsCompaction k.old = none := by
  unfold compaction
  cases pickLast needsCompaction k.old with
  | some q => obtain ⟨t, rest⟩ := q; simp
  | none => simp

end KV
end Olric
