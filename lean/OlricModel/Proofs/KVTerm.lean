/- Termination of repeated kvstore.Compaction: a measure that every not-done call strictly decreases.
   Core-only.

   A table is *dirty* when its garbage counter is positive (a clean table is never garbage-heavy).
   weight of a dirty table of `old` = its slot count + 1; the head, when dirty, carries a one-off
   allowance (all slots of the store + 2) that pays for the single time a dirty head is demoted.
   Every record that a compaction call moves leaves a dirty table of `old` for the head; when the head
   fills up, the tables that replace it are clean (fresh, or recycled and reset).  -/
import OlricModel.Proofs.KVCompact
namespace Olric
open Table
namespace KV

def wt (t : Table) : Nat := if t.garbage > 0 then t.slots.length + 1 else 0
def phi (ts : List Table) : Nat := (ts.map wt).sum
def cnt (ts : List Table) : Nat := (ts.map (fun t => t.slots.length)).sum

/-- the termination measure -/
def mu (k : KV) : Nat :=
  phi k.old + match k.head with
    | some hd => if hd.garbage > 0 then cnt k.old + hd.slots.length + 2 else 0
    | none => 0

/-- the key lives in a dirty table of `old` -/
def InDirty (k : KV) (h : Nat) : Prop := ∃ t ∈ k.old, t.garbage > 0 ∧ ∃ s, t.find h = some s

theorem phi_cons (t : Table) (ts : List Table) : phi (t :: ts) = wt t + phi ts := by simp [phi]
theorem cnt_cons (t : Table) (ts : List Table) : cnt (t :: ts) = t.slots.length + cnt ts := by simp [cnt]

theorem wt_le (t : Table) : wt t ≤ t.slots.length + 1 := by unfold wt; split <;> omega

theorem phi_le (ts : List Table) : phi ts ≤ cnt ts + ts.length := by
  induction ts with
  | nil => simp [phi, cnt]
  | cons t ts ih => rw [phi_cons, cnt_cons, List.length_cons]; have := wt_le t; omega

/-- a recycled table of a well-formed store carries no garbage -/
theorem garbage_recycled (k : KV) (w : k.WF) (t : Table) (ht : t ∈ k.old) (hr : isRecycled t = true) : t.garbage = 0 := by
  have h1 := w.recOff t ht hr
  have h2 := w.tot t (by simp [newestFirst, ht])
  omega

theorem pickLast_phi (p : Table → Bool) (ts rest : List Table) (r : Table)
    (hp : pickLast p ts = some (r, rest)) : phi rest + wt r = phi ts ∧ cnt rest + r.slots.length = cnt ts := by
  induction ts generalizing rest r with
  | nil => simp [pickLast] at hp
  | cons t ts ih =>
    simp only [pickLast] at hp
    cases hq : pickLast p ts with
    | some q =>
      obtain ⟨r', rest'⟩ := q
      simp only [hq] at hp
      injection hp with hp
      injection hp with h1 h2
      subst h1; subst h2
      obtain ⟨a, b⟩ := ih rest' r' hq
      simp only [phi_cons, cnt_cons]; omega
    | none =>
      simp only [hq] at hp
      split at hp
      · injection hp with hp
        injection hp with h1 h2
        subst h1; subst h2
        simp only [phi_cons, cnt_cons]; omega
      · cases hp

theorem pickLast_keeps (p : Table → Bool) (ts rest : List Table) (r x : Table)
    (hp : pickLast p ts = some (r, rest)) (hx : x ∈ ts) (hnp : p x = false) : x ∈ rest := by
  induction ts generalizing rest r with
  | nil => simp [pickLast] at hp
  | cons t ts ih =>
    simp only [pickLast] at hp
    cases hq : pickLast p ts with
    | some q =>
      obtain ⟨r', rest'⟩ := q
      simp only [hq] at hp
      injection hp with hp
      injection hp with h1 h2
      subst h1; subst h2
      cases hx with
      | head => exact List.mem_cons_self
      | tail _ hx => exact List.mem_cons_of_mem _ (ih rest' r' hq hx)
    | none =>
      simp only [hq] at hp
      split at hp
      · injection hp with hp
        injection hp with h1 h2
        subst h1; subst h2
        rename_i hpt
        cases hx with
        | head => rw [hpt] at hnp; cases hnp
        | tail _ hx => exact hx
      · cases hp

/-- makeTable never raises the measure, leaves a clean head, and keeps every dirty table of `old`. -/
theorem makeTable_mu (k : KV) (w : k.WF) :
    mu k.makeTable ≤ mu k ∧ (∀ hd, k.makeTable.head = some hd → hd.garbage = 0) ∧
    (∀ t ∈ k.old, t.garbage > 0 → t ∈ k.makeTable.old) := by
  rw [makeTable_eq]
  have hphi : phi k.demoted ≤ mu k := by
    unfold demoted mu
    cases hh : k.head with
    | none => simp
    | some hd =>
      simp only [phi_cons]
      have : wt ({ hd with state := .ro } : Table) = wt hd := rfl
      rw [this]
      unfold wt; split <;> simp <;> omega
  have hdem : ∀ t ∈ k.old, t ∈ k.demoted := by
    intro t ht; unfold demoted; cases k.head <;> simp [ht]
  cases hp : pickLast isRecycled k.demoted with
  | some q =>
    obtain ⟨t, rest⟩ := q
    simp only
    obtain ⟨htm, hrec, _, _⟩ := pickLast_mem _ _ _ _ hp
    have htold : t ∈ k.old := by
      rcases mem_demoted k t htm with h | ⟨hd, _, rfl⟩
      · exact h
      · simp [isRecycled] at hrec
    have hg : t.garbage = 0 := garbage_recycled k w t htold hrec
    obtain ⟨a, _⟩ := pickLast_phi _ _ _ _ hp
    refine ⟨?_, ?_, ?_⟩
    · show phi rest + (if t.garbage > 0 then _ else 0) ≤ mu k
      rw [if_neg (by omega)]; omega
    · intro hd hh; simp at hh; subst hh; exact hg
    · intro x hx hgx
      refine pickLast_keeps _ _ _ _ x hp (hdem x hx) ?_
      cases hr : isRecycled x with
      | false => rfl
      | true => have := garbage_recycled k w x hx hr; omega
  | none =>
    simp only
    refine ⟨?_, ?_, ?_⟩
    · simp only [mu, Table.new] at hphi ⊢; simpa using hphi
    · intro hd hh; simp at hh; subst hh; rfl
    · intro x hx _; exact hdem x hx

theorem ensureHead_mu (k : KV) (w : k.WF) :
    mu k.ensureHead ≤ mu k ∧ (∀ t ∈ k.old, t.garbage > 0 → t ∈ k.ensureHead.old) := by
  unfold ensureHead
  cases hh : k.head with
  | some _ => exact ⟨Nat.le_refl _, fun t ht _ => ht⟩
  | none => simp only; obtain ⟨a, _, c⟩ := makeTable_mu k w; exact ⟨a, c⟩

theorem pairwise_disj_mem (ts : List Table) (hp : ts.Pairwise Disj) (a b : Table) (ha : a ∈ ts) (hb : b ∈ ts) :
    a = b ∨ Disj a b := by
  induction ts with
  | nil => cases ha
  | cons t ts ih =>
    rw [List.pairwise_cons] at hp
    cases ha with
    | head =>
      cases hb with
      | head => exact Or.inl rfl
      | tail _ hb => exact Or.inr (hp.1 b hb)
    | tail _ ha =>
      cases hb with
      | head => exact Or.inr (fun h => (hp.1 a ha h).symm)
      | tail _ hb => exact ih hp.2 ha hb

theorem sum_map_le {α : Type} (f g : α → Nat) (l : List α) (hle : ∀ x ∈ l, g x ≤ f x) :
    (l.map g).sum ≤ (l.map f).sum := by
  induction l with
  | nil => simp
  | cons b l ih =>
    simp only [List.map_cons, List.sum_cons]
    have := hle b List.mem_cons_self
    have := ih (fun x hx => hle x (List.mem_cons_of_mem _ hx))
    omega

theorem sum_map_lt {α : Type} (f g : α → Nat) (l : List α) (hle : ∀ x ∈ l, g x ≤ f x)
    (hlt : ∃ x ∈ l, g x + 1 ≤ f x) : (l.map g).sum + 1 ≤ (l.map f).sum := by
  induction l with
  | nil => obtain ⟨x, hx, _⟩ := hlt; cases hx
  | cons a l ih =>
    simp only [List.map_cons, List.sum_cons]
    have hle' := sum_map_le f g l (fun x hx => hle x (List.mem_cons_of_mem _ hx))
    have ha := hle a List.mem_cons_self
    obtain ⟨x, hx, hxl⟩ := hlt
    cases hx with
    | head => omega
    | tail _ hx =>
      have := ih (fun y hy => hle y (List.mem_cons_of_mem _ hy)) ⟨x, hx, hxl⟩
      omega

theorem filter_length_found (l : List Slot) (h : Nat) (s : Slot) (hm : s ∈ l) (hk : s.hk = h)
    (hn : (l.map (·.hk)).Nodup) : (l.filter (fun x => x.hk != h)).length + 1 = l.length := by
  induction l with
  | nil => cases hm
  | cons a l ih =>
    simp only [List.map_cons, List.nodup_cons] at hn
    cases hm with
    | head =>
      have : l.filter (fun x => x.hk != h) = l := by
        rw [List.filter_eq_self]
        intro x hx
        have : x.hk ≠ s.hk := fun e => hn.1 (e ▸ List.mem_map_of_mem hx)
        simp [← hk, this]
      simp [hk, this]
    | tail _ hm =>
      have hne : a.hk ≠ h := fun e => hn.1 (by rw [e, ← hk]; exact List.mem_map_of_mem hm)
      simp only [List.filter_cons, bne_iff_ne, ne_eq, hne, not_false_eq_true, if_true, List.length_cons]
      have := ih hm hn.2
      omega

theorem deleteD_of_find_none (t : Table) (h : Nat) (hf : t.find h = none) : t.deleteD h = t := by
  simp [deleteD, Table.delete, hf]

theorem deleteD_found (t : Table) (h : Nat) (s : Slot) (hf : t.find h = some s) (hn : (keys t).Nodup) :
    (t.deleteD h).garbage = t.garbage + s.r.size ∧ (t.deleteD h).slots.length + 1 = t.slots.length := by
  constructor
  · simp [deleteD, Table.delete, hf]
  · rw [deleteD_slots]
    exact filter_length_found t.slots h s (List.mem_of_find?_eq_some hf) (find_hk t h s hf) hn

/-- a successful raw insert into the head of a record whose current version lives in a dirty table
    of `old` lowers the measure by at least one. -/
theorem commit_mu (k : KV) (w : k.WF) (hd hd' : Table) (h : Nat) (s : Slot) (hh : k.head = some hd)
    (u : HeadUpd hd hd' h s) (hin : InDirty k h) : mu (k.commit hd' h) + 1 ≤ mu k := by
  obtain ⟨v, hv, hvg, sv, hvf⟩ := hin
  have hu := w.unique
  simp only [Unique, newestFirst, hh, Option.toList, List.cons_append, List.nil_append, List.pairwise_cons] at hu
  have hdnone : hd.find h = none := by
    rcases hu.1 v hv h with e | e
    · exact e
    · rw [hvf] at e; cases e
  have hothers : ∀ x ∈ k.old, x.find h = none ∨ x = v := by
    intro x hx
    rcases pairwise_disj_mem k.old hu.2 x v hx hv with e | d
    · exact Or.inr e
    · rcases d h with e | e
      · exact Or.inl e
      · rw [hvf] at e; cases e
  have hvn : (keys v).Nodup := w.nodup v (by simp [newestFirst, hv])
  obtain ⟨hvG, hvL⟩ := deleteD_found v h sv hvf hvn
  have hphi : phi (k.old.map (fun t => t.deleteD h)) + 1 ≤ phi k.old := by
    unfold phi
    rw [List.map_map]
    refine sum_map_lt wt (wt ∘ fun t => t.deleteD h) k.old ?_ ⟨v, hv, ?_⟩
    · intro x hx
      rcases hothers x hx with e | e
      · simp [Function.comp, deleteD_of_find_none x h e]
      · subst e; simp only [Function.comp, wt, hvG, hvg]
        have : 0 < x.garbage + sv.r.size := by omega
        simp [this]; omega
    · simp only [Function.comp, wt, hvG, hvg]
      have : 0 < v.garbage + sv.r.size := by omega
      simp [this]; omega
  have hcnt : cnt (k.old.map (fun t => t.deleteD h)) + 1 ≤ cnt k.old := by
    unfold cnt
    rw [List.map_map]
    refine sum_map_lt (fun t => t.slots.length) ((fun t => t.slots.length) ∘ fun t => t.deleteD h) k.old ?_ ⟨v, hv, ?_⟩
    · intro x hx
      rcases hothers x hx with e | e
      · simp [Function.comp, deleteD_of_find_none x h e]
      · subst e; simp only [Function.comp]; omega
    · simp only [Function.comp]; omega
  have hg : hd'.garbage = hd.garbage := by rw [u.garbage, deleteD_of_find_none hd h hdnone]
  have hl : hd'.slots.length ≤ hd.slots.length + 1 := by
    rw [u.slots, List.length_append]
    have := List.length_filter_le (fun x : Slot => x.hk != h) hd.slots
    simp; omega
  simp only [mu, commit, hh, hg]
  split <;> omega

theorem makeTable_unfold_wf (k : KV) (w : k.WF) : k.makeTable.WF := makeTable_wf k w

/-- `InDirty` survives makeTable / ensureHead (for every key) and a commit of another key. -/
theorem inDirty_makeTable (k : KV) (w : k.WF) (h : Nat) (hin : InDirty k h) : InDirty k.makeTable h := by
  obtain ⟨v, hv, hvg, hs⟩ := hin
  exact ⟨v, (makeTable_mu k w).2.2 v hv hvg, hvg, hs⟩

theorem inDirty_ensureHead (k : KV) (w : k.WF) (h : Nat) (hin : InDirty k h) : InDirty k.ensureHead h := by
  obtain ⟨v, hv, hvg, hs⟩ := hin
  exact ⟨v, (ensureHead_mu k w).2 v hv hvg, hvg, hs⟩

theorem deleteD_garbage_ge (t : Table) (h : Nat) : t.garbage ≤ (t.deleteD h).garbage := by
  unfold deleteD Table.delete
  cases t.find h <;> simp

theorem inDirty_commit (k : KV) (hd' : Table) (h h' : Nat) (hne : h' ≠ h) (hin : InDirty k h') :
    InDirty (k.commit hd' h) h' := by
  obtain ⟨v, hv, hvg, s, hs⟩ := hin
  refine ⟨v.deleteD h, ?_, ?_, s, ?_⟩
  · simp only [commit, List.mem_map]; exact ⟨v, hv, rfl⟩
  · have := deleteD_garbage_ge v h; omega
  · rw [find_deleteD]; simp [hne, hs]

/-- kvstore.PutRaw of a record whose current version lives in a dirty table of `old`. -/
theorem putRaw_mu (k : KV) (w : k.WF) (h : Nat) (r : Rec) (hfit : r.size < k.tableSize) (hin : InDirty k h) :
    mu (k.putRaw h r).1 + 1 ≤ mu k ∧ ∀ h', h' ≠ h → InDirty k h' → InDirty (k.putRaw h r).1 h' := by
  unfold putRaw
  have hbig : ¬ r.size ≥ k.tableSize := by omega
  simp only [hbig, if_false]
  have w1 := ensureHead_wf k w
  obtain ⟨m1, _⟩ := ensureHead_mu k w
  have s1 := ensureHead_tableSize k
  have i1 := inDirty_ensureHead k w h hin
  obtain ⟨hd, hh⟩ := Option.isSome_iff_exists.mp (ensureHead_head k)
  cases hp : hd.putRaw h r with
  | ok hd' =>
    simp only [hh, hp]
    have u := headUpd_putRaw hd hd' h r hp
    have := commit_mu _ w1 hd hd' h _ hh u i1
    refine ⟨by omega, fun h' hne hin' => inDirty_commit _ hd' h h' hne (inDirty_ensureHead k w h' hin')⟩
  | error e =>
    have hns : e = .noSpace := by
      unfold Table.putRaw at hp
      split at hp
      · injection hp with hp; exact hp.symm
      · cases hp
    subst hns
    simp only [hh, hp]
    have w2 := makeTable_wf _ w1
    obtain ⟨m2, _, _⟩ := makeTable_mu _ w1
    have i2 := inDirty_makeTable _ w1 h i1
    obtain ⟨hd2, hh2, hoff, hal⟩ := makeTable_head _ w1
    cases hp2 : hd2.putRaw h r with
    | ok hd2' =>
      simp only [hh2, hp2]
      have u := headUpd_putRaw hd2 hd2' h r hp2
      have := commit_mu _ w2 hd2 hd2' h _ hh2 u i2
      refine ⟨by omega, fun h' hne hin' =>
        inDirty_commit _ hd2' h h' hne (inDirty_makeTable _ w1 h' (inDirty_ensureHead k w h' hin'))⟩
    | error e2 =>
      exfalso
      unfold Table.putRaw at hp2
      split at hp2
      · rw [hoff, hal, s1] at *; omega
      · cases hp2

/-- the batch of one evictTable call: every record moved lowers the measure by one. -/
theorem foldPutRaw_mu (batch : List (Nat × Rec)) (k : KV) (w : k.WF)
    (hnd : (batch.map (·.1)).Nodup)
    (hfit : ∀ p ∈ batch, p.2.size < k.tableSize ∧ p.2.key.length < 256)
    (hin : ∀ p ∈ batch, InDirty k p.1) :
    mu (batch.foldl (fun k p => (k.putRaw p.1 p.2).1) k) + batch.length ≤ mu k := by
  induction batch generalizing k with
  | nil => simp
  | cons p ps ih =>
    simp only [List.foldl_cons, List.length_cons]
    simp only [List.map_cons, List.nodup_cons] at hnd
    have hp := hfit p List.mem_cons_self
    obtain ⟨wk, _, sk, _⟩ := putRaw_spec k w p.1 p.2 hp.2
    obtain ⟨m, keep⟩ := putRaw_mu k w p.1 p.2 hp.1 (hin p List.mem_cons_self)
    have := ih (k.putRaw p.1 p.2).1 wk hnd.2
      (fun q hq => by rw [sk]; exact hfit q (List.mem_cons_of_mem _ hq))
      (fun q hq => keep q.1 (fun e => hnd.1 (e ▸ List.mem_map_of_mem hq)) (hin q (List.mem_cons_of_mem _ hq)))
    omega

theorem wt_reset (t : Table) (now : Int) : wt (t.reset now) = 0 := rfl

theorem resetDrained_mu (k : KV) (cf : Nat) (now : Int) : mu (k.resetDrained cf now) ≤ mu k := by
  have h1 : phi (k.resetDrained cf now).old ≤ phi k.old := by
    simp only [resetDrained, phi]
    rw [List.map_map]
    refine sum_map_le _ _ k.old ?_
    intro x _
    simp only [Function.comp]
    split
    · rw [wt_reset]; omega
    · omega
  have h2 : cnt (k.resetDrained cf now).old ≤ cnt k.old := by
    simp only [resetDrained, cnt]
    rw [List.map_map]
    refine sum_map_le _ _ k.old ?_
    intro x _
    simp only [Function.comp]
    split
    · simp [Table.reset]
    · omega
  have h3 : (k.resetDrained cf now).head = k.head := rfl
  unfold mu
  rw [h3]
  cases k.head with
  | none => simpa using h1
  | some hd => simp only; split <;> omega

/-- a drained dirty victim is reset: the measure drops -/
theorem resetDrained_mu_lt (k : KV) (t : Table) (now : Int) (ht : t ∈ k.old) (hg : t.garbage > 0)
    (hnr : t.state ≠ .recycled) (hz : t.inuse = 0) : mu (k.resetDrained t.cf now) + 1 ≤ mu k := by
  have h1 : phi (k.resetDrained t.cf now).old + 1 ≤ phi k.old := by
    simp only [resetDrained, phi]
    rw [List.map_map]
    refine sum_map_lt wt _ k.old ?_ ⟨t, ht, ?_⟩
    · intro x _
      simp only [Function.comp]
      split
      · rw [wt_reset]; omega
      · omega
    · simp only [Function.comp]
      have : (t.cf == t.cf && t.state != .recycled && t.inuse == 0) = true := by simp [hnr, hz]
      rw [if_pos this, wt_reset]
      simp [wt, hg]
  have h2 : cnt (k.resetDrained t.cf now).old ≤ cnt k.old := by
    simp only [resetDrained, cnt]
    rw [List.map_map]
    refine sum_map_le _ _ k.old ?_
    intro x _
    simp only [Function.comp]
    split
    · simp [Table.reset]
    · omega
  have h3 : (k.resetDrained t.cf now).head = k.head := rfl
  unfold mu
  rw [h3]
  cases k.head with
  | none => simpa using h1
  | some hd => simp only; split <;> omega

theorem filterMap_find_hk (t : Table) (l : List Nat) :
    (l.filterMap t.find).map (·.hk) = l.filter (fun h => (t.find h).isSome) := by
  induction l with
  | nil => rfl
  | cons a l ih =>
    simp only [List.filterMap_cons, List.filter_cons]
    cases hf : t.find a with
    | none => simpa using ih
    | some s => simp [find_hk t a s hf, ih]

/-- Go's `Range` over the victim visits each of its keys once: the order handed to `compaction`. -/
def ValidOrder (k : KV) (order : List Nat) : Prop :=
  order.Nodup ∧ ∀ t rest, pickLast needsCompaction k.old = some (t, rest) → ∀ s ∈ t.slots, s.hk ∈ order

/-- Every call of kvstore.Compaction that does not report `done` strictly lowers the measure. -/
theorem compaction_mu (k : KV) (w : k.WF) (hts : 0 < k.tableSize) (now : Int) (order : List Nat)
    (hv : ValidOrder k order) (hnd : (k.compaction now order).2 = false) :
    mu (k.compaction now order).1 + 1 ≤ mu k := by
  unfold compaction at hnd ⊢
  cases hp : pickLast needsCompaction k.old with
  | none => simp [hp] at hnd
  | some q =>
    obtain ⟨t, rest⟩ := q
    simp only
    obtain ⟨htm, hneed, _, _⟩ := pickLast_mem _ _ _ _ hp
    have htnf : t ∈ k.newestFirst := by simp [newestFirst, htm]
    have hg : t.garbage > 0 := by
      have ha := w.alloc t htnf
      simp only [needsCompaction, Bool.or_eq_true, Bool.and_eq_true, beq_iff_eq, decide_eq_true_eq] at hneed
      omega
    have hb_mem : ∀ p ∈ evictBatch t order now, ∃ s ∈ t.slots, t.find p.1 = some s ∧ p.2 = { s.r with la := now } := by
      intro p hpm
      simp only [evictBatch, List.mem_map] at hpm
      obtain ⟨s, hs, rfl⟩ := hpm
      have hs' := List.mem_of_mem_take hs
      rw [List.mem_filterMap] at hs'
      obtain ⟨h0, _, hf⟩ := hs'
      have hk := find_hk t h0 s hf
      refine ⟨s, List.mem_of_find?_eq_some hf, ?_, rfl⟩
      simp only [hk ▸ hf]
    have hfm_nd : ((order.filterMap t.find).map (·.hk)).Nodup := by
      rw [filterMap_find_hk]; exact hv.1.filter _
    have hb_nd : ((evictBatch t order now).map (·.1)).Nodup := by
      simp only [evictBatch, List.map_map]
      have : ((fun p : Nat × Rec => p.1) ∘ fun s : Slot => (s.hk, { s.r with la := now })) = (·.hk) := rfl
      rw [this]
      exact (List.Sublist.map _ (List.take_sublist 1001 (order.filterMap t.find))).nodup hfm_nd
    have hfold := foldPutRaw_mu (evictBatch t order now) k w hb_nd
      (fun p hpm => by
        obtain ⟨s, hs, _, e⟩ := hb_mem p hpm
        rw [e]; exact w.fits t htnf s hs)
      (fun p hpm => by
        obtain ⟨s, _, hf, _⟩ := hb_mem p hpm
        exact ⟨t, htm, hg, s, hf⟩)
    by_cases hbe : evictBatch t order now = []
    · -- nothing to move: the victim is empty and gets reset
      rw [hbe]
      simp only [List.foldl_nil]
      have hsl : t.slots = [] := by
        cases hs : t.slots with
        | nil => rfl
        | cons s l =>
          exfalso
          have hs_mem : s ∈ t.slots := by rw [hs]; exact List.mem_cons_self
          have ho := hv.2 t rest hp s hs_mem
          have hn := w.nodup t htnf
          -- t.find s.hk is some
          have : (t.find s.hk).isSome := by
            unfold Table.find
            rw [List.find?_isSome]
            exact ⟨s, hs_mem, by simp⟩
          obtain ⟨s', hs'⟩ := Option.isSome_iff_exists.mp this
          have : s' ∈ order.filterMap t.find := List.mem_filterMap.mpr ⟨s.hk, ho, hs'⟩
          simp only [evictBatch, List.map_eq_nil_iff, List.take_eq_nil_iff] at hbe
          rcases hbe with e | e
          · cases e
          · rw [e] at this; cases this
      have hz : t.inuse = 0 := by rw [w.acct t htnf, hsl]; rfl
      have hnr : t.state ≠ .recycled := by
        intro e
        have := garbage_recycled k w t htm (by simp [isRecycled, e])
        omega
      exact resetDrained_mu_lt k t now htm hg hnr hz
    · have hlen : 0 < (evictBatch t order now).length := List.length_pos_iff.mpr hbe
      have := resetDrained_mu ((evictBatch t order now).foldl (fun k p => (k.putRaw p.1 p.2).1) k) t.cf now
      omega

theorem pickLast_none_all (p : Table → Bool) (ts : List Table) (hp : pickLast p ts = none) : ∀ t ∈ ts, p t = false := by
  induction ts with
  | nil => intro t ht; cases ht
  | cons a l ih =>
    simp only [pickLast] at hp
    cases hq : pickLast p l with
    | some q => obtain ⟨r, rest⟩ := q; simp [hq] at hp
    | none =>
      simp only [hq] at hp
      intro t ht
      cases ht with
      | head => by_cases h : p a = true <;> simp_all
      | tail _ ht => exact ih hq t ht

/-- when `done` is reported, no table that is left behind the head is garbage-heavy -/
theorem compaction_done_old (k : KV) (w : k.WF) (now : Int) (order : List Nat)
    (hd : (k.compaction now order).2 = true) : ∀ t ∈ (k.compaction now order).1.old, needsCompaction t = false := by
  have hn := (compaction_done_iff k now order).mp hd
  unfold compaction
  rw [hn]
  simp only
  intro t ht
  obtain ⟨hs, _⟩ := sweep_spec (k.isExpiredAt now) k.old k.tables.length w.recEmpty
  exact pickLast_none_all _ _ hn t (hs.subset ht)

/-- the Range order of the table the next call will drain: its keys, each once -/
def rangeOrder (k : KV) : List Nat :=
  match pickLast needsCompaction k.old with
  | some (t, _) => keys t
  | none => []

theorem rangeOrder_valid (k : KV) (w : k.WF) : ValidOrder k (rangeOrder k) := by
  unfold ValidOrder rangeOrder
  cases hp : pickLast needsCompaction k.old with
  | none => exact ⟨List.nodup_nil, fun _ _ h => by cases h⟩
  | some q =>
    obtain ⟨t, rest⟩ := q
    obtain ⟨htm, _, _, _⟩ := pickLast_mem _ _ _ _ hp
    refine ⟨w.nodup t (by simp [newestFirst, htm]), ?_⟩
    intro t' rest' e s hs
    injection e with e
    injection e with e1 _
    subst e1
    exact List.mem_map_of_mem hs

/-- iterate kvstore.Compaction: `ord` picks the Range order of each call, `now` its clock reading. -/
def compactLoop (ord : KV → List Nat) (now : Nat → Int) : Nat → KV → KV × Bool
  | 0, k => (k, false)
  | n + 1, k =>
    let r := k.compaction (now n) (ord k)
    if r.2 then r else compactLoop ord now n r.1

theorem compactLoop_terminates (ord : KV → List Nat) (now : Nat → Int)
    (hord : ∀ k : KV, k.WF → ValidOrder k (ord k)) (n : Nat) (k : KV) (w : k.WF) (hts : 0 < k.tableSize)
    (hn : mu k < n) :
    (compactLoop ord now n k).2 = true ∧ (compactLoop ord now n k).1.WF ∧
    (compactLoop ord now n k).1.tableSize = k.tableSize ∧
    (∀ h, (compactLoop ord now n k).1.absV h = k.absV h) ∧
    (∀ t ∈ (compactLoop ord now n k).1.old, needsCompaction t = false) := by
  induction n generalizing k with
  | zero => omega
  | succ n ih =>
    simp only [compactLoop]
    obtain ⟨w1, s1, a1⟩ := compaction_spec k w (now n) (ord k)
    cases hd : (k.compaction (now n) (ord k)).2 with
    | true => simp only [if_true]; exact ⟨hd, w1, s1, a1, compaction_done_old k w _ _ hd⟩
    | false =>
      simp only [Bool.false_eq_true, if_false]
      have := compaction_mu k w hts (now n) (ord k) (hord k w) hd
      obtain ⟨a, b, c, d, e⟩ := ih _ w1 (by omega) (by omega)
      exact ⟨a, b, by rw [c, s1], fun h => by rw [d h, a1 h], e⟩

/-- an explicit bound on the measure: twice the stored records plus the number of tables plus two -/
theorem mu_le (k : KV) : mu k ≤ 2 * (k.stats.length) + k.old.length + 2 := by
  have h1 := phi_le k.old
  have hlen : k.stats.length = cnt k.old + (match k.head with | some hd => hd.slots.length | none => 0) := by
    simp only [stats, tables, List.map_append, List.sum_append, List.map_reverse, List.sum_reverse, cnt]
    cases k.head <;> simp
  unfold mu
  cases hh : k.head with
  | none => simp only [hh] at hlen ⊢; omega
  | some hd => simp only [hh] at hlen ⊢; split <;> omega

end KV
end Olric
