import OlricModel.Cluster.Iterator
set_option linter.unusedSectionVars false
namespace Olric.Iter

variable {α : Type} [DecidableEq α]

theorem emit_step_mem (a : List α) (k x : α) :
    x ∈ (if k ∈ a then a else a ++ [k]) ↔ x ∈ a ∨ x = k := by
  split
  · rename_i h
    constructor
    · intro hx; exact Or.inl hx
    · intro hx; rcases hx with hx | hx
      · exact hx
      · rw [hx]; exact h
  · simp

theorem mem_emit (acc page : List α) (x : α) : x ∈ emit acc page ↔ x ∈ acc ∨ x ∈ page := by
  unfold emit
  induction page generalizing acc with
  | nil => simp
  | cons k rest ih =>
    rw [List.foldl_cons, ih, emit_step_mem]
    simp only [List.mem_cons]
    constructor
    · rintro ((h | h) | h)
      · exact Or.inl h
      · exact Or.inr (Or.inl h)
      · exact Or.inr (Or.inr h)
    · rintro (h | h | h)
      · exact Or.inl (Or.inl h)
      · exact Or.inl (Or.inr h)
      · exact Or.inr h

theorem emit_nodup (acc page : List α) (h : acc.Nodup) : (emit acc page).Nodup := by
  unfold emit
  induction page generalizing acc with
  | nil => simpa using h
  | cons k rest ih =>
    rw [List.foldl_cons]
    apply ih
    split
    · exact h
    · rename_i hk
      rw [List.nodup_append]
      refine ⟨h, by simp, ?_⟩
      intro a ha b hb
      simp at hb
      intro e
      rw [e, hb] at ha
      exact hk ha

theorem mem_foldl_emit (ps : List (List α)) (acc : List α) (x : α) :
    x ∈ ps.foldl emit acc ↔ x ∈ acc ∨ ∃ p ∈ ps, x ∈ p := by
  induction ps generalizing acc with
  | nil => simp
  | cons p rest ih =>
    rw [List.foldl_cons, ih, mem_emit]
    constructor
    · rintro ((h | h) | ⟨q, hq, hx⟩)
      · exact Or.inl h
      · exact Or.inr ⟨p, List.mem_cons_self, h⟩
      · exact Or.inr ⟨q, List.mem_cons_of_mem _ hq, hx⟩
    · rintro (h | ⟨q, hq, hx⟩)
      · exact Or.inl (Or.inl h)
      · rcases List.mem_cons.mp hq with e | hq
        · subst e; exact Or.inl (Or.inr hx)
        · exact Or.inr ⟨q, hq, hx⟩

theorem foldl_emit_nodup (ps : List (List α)) (acc : List α) (h : acc.Nodup) : (ps.foldl emit acc).Nodup := by
  induction ps generalizing acc with
  | nil => exact h
  | cons p rest ih => exact ih _ (emit_nodup acc p h)

/-- one round takes the first page of every owner; what is left are the other pages -/
theorem heads_tails_perm (os : List (List (List α))) (hne : ∀ o ∈ os, o ≠ []) :
    (heads os ++ (tails os).flatten).Perm os.flatten := by
  induction os with
  | nil => simp [heads, tails]
  | cons o rest ih =>
    have ho : o ≠ [] := hne o List.mem_cons_self
    have ih' := ih (fun o' h' => hne o' (List.mem_cons_of_mem _ h'))
    cases o with
    | nil => exact absurd rfl ho
    | cons p ps =>
      have hh : heads ((p :: ps) :: rest) = p :: heads rest := by simp [heads]
      have ht : (tails ((p :: ps) :: rest)).flatten = ps ++ (tails rest).flatten := by
        unfold tails
        simp only [List.map_cons, List.tail_cons, List.filter_cons]
        cases ps with
        | nil => simp
        | cons q qs => simp
      rw [hh, ht]
      simp only [List.flatten_cons, List.cons_append]
      refine List.Perm.cons p ?_
      -- heads rest ++ (ps ++ flatten (tails rest))  ~  ps ++ flatten rest
      have h1 : (heads rest ++ (ps ++ (tails rest).flatten)).Perm (ps ++ (heads rest ++ (tails rest).flatten)) := by
        rw [← List.append_assoc, ← List.append_assoc]
        exact List.Perm.append_right _ List.perm_append_comm
      exact h1.trans (List.Perm.append_left ps ih')

theorem tails_ne (os : List (List (List α))) : ∀ o ∈ tails os, o ≠ [] := by
  intro o h
  unfold tails at h
  simp only [List.mem_filter] at h
  intro e
  rw [e] at h
  simp at h

theorem total_tails (os : List (List (List α))) (hne : ∀ o ∈ os, o ≠ []) : total (tails os) + os.length = total os := by
  induction os with
  | nil => simp [total, tails]
  | cons o rest ih =>
    have ih' := ih (fun o' h' => hne o' (List.mem_cons_of_mem _ h'))
    have ho : o ≠ [] := hne o List.mem_cons_self
    cases o with
    | nil => exact absurd rfl ho
    | cons p ps =>
      unfold total tails at *
      simp only [List.map_cons, List.tail_cons, List.filter_cons, List.sum_cons, List.length_cons]
      cases ps with
      | nil => simp at *; omega
      | cons q qs => simp at *; omega

/-- the iterator fetches every page of every owner exactly once, and stops -/
theorem schedule_perm (f : Nat) (os : List (List (List α))) (hne : ∀ o ∈ os, o ≠ []) (hf : total os < f) :
    (schedule f os).Perm os.flatten := by
  induction f generalizing os with
  | zero => omega
  | succ f ih =>
    unfold schedule
    split
    · rename_i he
      have : os = [] := by simpa using he
      subst this; simp
    · rename_i he
      have hlen : 0 < os.length := by
        cases os with
        | nil => simp at he
        | cons _ _ => simp
      have ht := total_tails os hne
      have := ih (tails os) (tails_ne os) (by omega)
      exact (List.Perm.append_left (heads os) this).trans (heads_tails_perm os hne)

end Olric.Iter
