/- Helper lemmas about one table (find / delete / put / touch). Core-only. -/
import OlricModel.Store.Model
namespace Olric
namespace Table

theorem find?_filter_ne (l : List Slot) (h h' : Nat) :
    (l.filter (fun x => x.hk != h)).find? (fun s => s.hk == h') =
      if h' = h then none else l.find? (fun s => s.hk == h') := by
  induction l with
  | nil => simp
  | cons a l ih =>
    simp only [List.filter_cons, List.find?_cons]
    grind

theorem find_deleteD (t : Table) (h h' : Nat) :
    (t.deleteD h).find h' = if h' = h then none else t.find h' := by
  unfold deleteD delete
  cases hf : t.find h with
  | none =>
    simp only [Option.getD]
    by_cases hh : h' = h
    · simp [hh, hf]
    · simp [hh]
  | some s =>
    simp only [Option.getD, find]
    exact find?_filter_ne t.slots h h'

theorem find?_append_single (l : List Slot) (s : Slot) (h' : Nat) :
    (l ++ [s]).find? (fun x => x.hk == h') =
      match l.find? (fun x => x.hk == h') with
      | some y => some y
      | none => if s.hk = h' then some s else none := by
  induction l with
  | nil => simp [List.find?_cons]; grind
  | cons a l ih => simp only [List.cons_append, List.find?_cons]; grind

/-- the slot written by a successful table.Put -/
def putSlot (t : Table) (h : Nat) (r : Rec) (now : Int) : Slot := ⟨h, (t.deleteD h).off, { r with la := now }⟩
def putRawSlot (t : Table) (h : Nat) (r : Rec) : Slot := ⟨h, (t.deleteD h).off, r⟩

theorem find_put (t t' : Table) (h h' : Nat) (r : Rec) (now : Int) (hp : t.put h r now = .ok t') :
    t'.find h' = if h' = h then some (t.putSlot h r now) else t.find h' := by
  unfold put at hp
  split at hp
  · cases hp
  · split at hp
    · cases hp
    · injection hp with hp
      subst hp
      simp only [find, find?_append_single]
      have := find_deleteD t h h'
      simp only [find] at this
      rw [this]
      by_cases hh : h' = h
      · subst hh; simp [putSlot]
      · simp only [hh, if_false]
        cases t.slots.find? (fun s => s.hk == h') with
        | none => simp; intro e; exact hh e.symm
        | some y => rfl

theorem find_putRaw (t t' : Table) (h h' : Nat) (r : Rec) (hp : t.putRaw h r = .ok t') :
    t'.find h' = if h' = h then some (t.putRawSlot h r) else t.find h' := by
  unfold putRaw at hp
  split at hp
  · cases hp
  · injection hp with hp
    subst hp
    simp only [find, find?_append_single]
    have := find_deleteD t h h'
    simp only [find] at this
    rw [this]
    by_cases hh : h' = h
    · subst hh; simp [putRawSlot]
    · simp only [hh, if_false]
      cases t.slots.find? (fun s => s.hk == h') with
      | none => simp; intro e; exact hh e.symm
      | some y => rfl

theorem find?_map_upd (l : List Slot) (h h' : Nat) (f : Rec → Rec) :
    (l.map (fun s => if s.hk == h then { s with r := f s.r } else s)).find? (fun s => s.hk == h') =
      (l.find? (fun s => s.hk == h')).map (fun s => if s.hk == h then { s with r := f s.r } else s) := by
  induction l with
  | nil => simp
  | cons a l ih => simp only [List.map_cons, List.find?_cons]; grind

theorem find_touch (t : Table) (h h' : Nat) (now : Int) :
    (t.touch h now).find h' =
      (t.find h').map (fun s => if s.hk == h then { s with r := { s.r with la := now } } else s) := by
  simp only [touch, find]
  exact find?_map_upd t.slots h h' (fun r => { r with la := now })

theorem find_updateTTL (t t' : Table) (h h' : Nat) (ttl ts now : Int) (hu : t.updateTTL h ttl ts now = some t') :
    t'.find h' =
      (t.find h').map (fun s => if s.hk == h then { s with r := { s.r with ttl := ttl, ts := ts, la := now } } else s) := by
  unfold updateTTL at hu
  split at hu
  · cases hu
  · injection hu with hu
    subst hu
    simp only [find]
    exact find?_map_upd t.slots h h' (fun r => { r with ttl := ttl, ts := ts, la := now })

theorem find_hk (t : Table) (h : Nat) (s : Slot) (hf : t.find h = some s) : s.hk = h := by
  have := List.find?_some hf
  simpa using this

theorem find_new (size cf h : Nat) : (Table.new size cf).find h = none := by simp [new, find]

theorem find_eq_none_of_slots_nil (t : Table) (h : Nat) (hs : t.slots = []) : t.find h = none := by
  simp [find, hs]

end Table
end Olric

namespace Olric
namespace Table

theorem filter_ne_of_find_none (l : List Slot) (h : Nat) (hf : l.find? (fun s => s.hk == h) = none) :
    l.filter (fun x => x.hk != h) = l := by
  induction l with
  | nil => rfl
  | cons a l ih =>
    simp only [List.find?_cons] at hf
    split at hf
    · cases hf
    · rename_i hne
      simp only [List.filter_cons]
      have : (a.hk != h) = true := by simpa using hne
      simp [this, ih hf]

theorem deleteD_slots (t : Table) (h : Nat) : (t.deleteD h).slots = t.slots.filter (fun x => x.hk != h) := by
  unfold deleteD delete
  cases hf : t.find h with
  | none => simp only [Option.getD]; exact (filter_ne_of_find_none t.slots h hf).symm
  | some s => rfl

theorem deleteD_state (t : Table) (h : Nat) : (t.deleteD h).state = t.state := by
  unfold deleteD delete; cases t.find h <;> rfl
theorem deleteD_off (t : Table) (h : Nat) : (t.deleteD h).off = t.off := by
  unfold deleteD delete; cases t.find h <;> rfl
theorem deleteD_alloc (t : Table) (h : Nat) : (t.deleteD h).alloc = t.alloc := by
  unfold deleteD delete; cases t.find h <;> rfl
theorem deleteD_cf (t : Table) (h : Nat) : (t.deleteD h).cf = t.cf := by
  unfold deleteD delete; cases t.find h <;> rfl
theorem deleteD_recycledAt (t : Table) (h : Nat) : (t.deleteD h).recycledAt = t.recycledAt := by
  unfold deleteD delete; cases t.find h <;> rfl

theorem put_fields (t t' : Table) (h : Nat) (r : Rec) (now : Int) (hp : t.put h r now = .ok t') :
    t'.state = t.state ∧ t'.alloc = t.alloc ∧ t'.cf = t.cf ∧ t'.recycledAt = t.recycledAt ∧
    t'.slots = t.slots.filter (fun x => x.hk != h) ++ [t.putSlot h r now] ∧ t'.off = t.off + r.size ∧
    r.size + t.off < t.alloc ∧ r.key.length < 256 := by
  unfold put at hp
  split at hp
  · cases hp
  · split at hp
    · cases hp
    · injection hp with hp
      subst hp
      refine ⟨deleteD_state _ _, deleteD_alloc _ _, deleteD_cf _ _, deleteD_recycledAt _ _, ?_, ?_, ?_, ?_⟩
      · simp only [deleteD_slots, putSlot]
      · simp only [deleteD_off]
      · omega
      · omega

theorem putRaw_fields (t t' : Table) (h : Nat) (r : Rec) (hp : t.putRaw h r = .ok t') :
    t'.state = t.state ∧ t'.alloc = t.alloc ∧ t'.cf = t.cf ∧ t'.recycledAt = t.recycledAt ∧
    t'.slots = t.slots.filter (fun x => x.hk != h) ++ [t.putRawSlot h r] ∧ t'.off = t.off + r.size ∧
    r.size + t.off < t.alloc := by
  unfold putRaw at hp
  split at hp
  · cases hp
  · injection hp with hp
    subst hp
    refine ⟨deleteD_state _ _, deleteD_alloc _ _, deleteD_cf _ _, deleteD_recycledAt _ _, ?_, ?_, ?_⟩
    · simp only [deleteD_slots, putRawSlot]
    · simp only [deleteD_off]
    · omega

theorem nodup_filter_append (l : List Slot) (h : Nat) (s : Slot) (hs : s.hk = h)
    (hn : (l.map (·.hk)).Nodup) : ((l.filter (fun x => x.hk != h) ++ [s]).map (·.hk)).Nodup := by
  rw [List.map_append, List.nodup_append]
  refine ⟨(hn.sublist ((List.filter_sublist).map _)), by simp, ?_⟩
  intro a ha b hb
  simp only [List.map_cons, List.map_nil, List.mem_singleton] at hb
  subst hb
  simp only [List.mem_map, List.mem_filter] at ha
  obtain ⟨x, ⟨_, hx⟩, rfl⟩ := ha
  simp at hx
  rw [hs]; exact hx

end Table
end Olric

namespace Olric
namespace Table

def sumSize (l : List Slot) : Nat := (l.map (fun s => s.r.size)).sum

theorem sumSize_cons (a : Slot) (l : List Slot) : sumSize (a :: l) = a.r.size + sumSize l := by
  simp [sumSize]

theorem sumSize_append (a b : List Slot) : sumSize (a ++ b) = sumSize a + sumSize b := by
  simp [sumSize]

/-- removing the (unique) slot of `h` removes exactly its bytes -/
theorem sumSize_filter (l : List Slot) (h : Nat) (s : Slot) (hn : (l.map (·.hk)).Nodup)
    (hf : l.find? (fun x => x.hk == h) = some s) :
    sumSize (l.filter (fun x => x.hk != h)) + s.r.size = sumSize l := by
  induction l with
  | nil => cases hf
  | cons a l ih =>
    simp only [List.map_cons, List.nodup_cons] at hn
    simp only [List.find?_cons] at hf
    split at hf
    · rename_i ha
      injection hf with hf
      subst hf
      have hah : a.hk = h := by simpa using ha
      have hnone : l.find? (fun x => x.hk == h) = none := by
        rw [List.find?_eq_none]
        intro x hx hxh
        have : x.hk = h := by simpa using hxh
        exact hn.1 (by rw [hah, ← this]; exact List.mem_map_of_mem hx)
      simp only [List.filter_cons, hah, bne_self_eq_false, Bool.false_eq_true, if_false, sumSize_cons]
      rw [filter_ne_of_find_none l h hnone]; omega
    · rename_i ha
      have : (a.hk != h) = true := by simpa using ha
      simp only [List.filter_cons, this, if_true, sumSize_cons]
      have := ih hn.2 hf
      omega

theorem deleteD_acct (t : Table) (h : Nat) (hn : (t.slots.map (·.hk)).Nodup) (ha : t.inuse = sumSize t.slots) :
    (t.deleteD h).inuse = sumSize (t.deleteD h).slots := by
  rw [deleteD_slots]
  unfold deleteD delete
  cases hf : t.find h with
  | none =>
    simp only [Option.getD]
    rw [filter_ne_of_find_none t.slots h hf]; exact ha
  | some s =>
    simp only [Option.getD]
    have := sumSize_filter t.slots h s hn hf
    omega

/-- superseding or deleting a version moves exactly its bytes from inuse to garbage -/
theorem deleteD_tot (t : Table) (h : Nat) (hn : (t.slots.map (·.hk)).Nodup) (ha : t.inuse = sumSize t.slots)
    (ht : t.inuse + t.garbage = t.off) : (t.deleteD h).inuse + (t.deleteD h).garbage = (t.deleteD h).off := by
  rw [deleteD_off]
  unfold deleteD delete
  cases hf : t.find h with
  | none => simpa using ht
  | some s =>
    simp only [Option.getD]
    have := sumSize_filter t.slots h s hn hf
    omega

theorem put_garbage (t t' : Table) (h : Nat) (r : Rec) (now : Int) (hp : t.put h r now = .ok t') :
    t'.garbage = (t.deleteD h).garbage := by
  unfold put at hp
  split at hp
  · cases hp
  · split at hp
    · cases hp
    · injection hp with hp; subst hp; rfl

theorem putRaw_garbage (t t' : Table) (h : Nat) (r : Rec) (hp : t.putRaw h r = .ok t') :
    t'.garbage = (t.deleteD h).garbage := by
  unfold putRaw at hp
  split at hp
  · cases hp
  · injection hp with hp; subst hp; rfl

theorem put_inuse (t t' : Table) (h : Nat) (r : Rec) (now : Int) (hp : t.put h r now = .ok t') :
    t'.inuse = (t.deleteD h).inuse + r.size := by
  unfold put at hp
  split at hp
  · cases hp
  · split at hp
    · cases hp
    · injection hp with hp; subst hp; rfl

theorem putRaw_inuse (t t' : Table) (h : Nat) (r : Rec) (hp : t.putRaw h r = .ok t') :
    t'.inuse = (t.deleteD h).inuse + r.size := by
  unfold putRaw at hp
  split at hp
  · cases hp
  · injection hp with hp; subst hp; rfl

theorem slots_nil_of_inuse_zero (t : Table) (ha : t.inuse = sumSize t.slots) (hz : t.inuse = 0) : t.slots = [] := by
  cases hs : t.slots with
  | nil => rfl
  | cons a l =>
    rw [hs, sumSize_cons] at ha
    have : a.r.size ≥ 29 := by unfold Rec.size; omega
    omega

end Table
end Olric


namespace Olric
namespace Table

/-- records lie one after the other, without overlap, below the write offset -/
def Layout (t : Table) : Prop :=
  t.slots.Pairwise (fun a b => a.off + a.r.size ≤ b.off) ∧ ∀ s ∈ t.slots, s.off + s.r.size ≤ t.off

theorem layout_deleteD (t : Table) (h : Nat) (hl : t.Layout) : (t.deleteD h).Layout := by
  rw [Layout, deleteD_slots, deleteD_off]
  exact ⟨hl.1.sublist List.filter_sublist, fun s hs => hl.2 s (List.mem_filter.mp hs).1⟩

theorem layout_append (t t' : Table) (h : Nat) (s : Slot) (hl : t.Layout)
    (hs : t'.slots = t.slots.filter (fun x => x.hk != h) ++ [s]) (ho : s.off = t.off)
    (hoff : t'.off = t.off + s.r.size) : t'.Layout := by
  rw [Layout, hs, hoff]
  refine ⟨?_, ?_⟩
  · rw [List.pairwise_append]
    refine ⟨hl.1.sublist List.filter_sublist, by simp, ?_⟩
    intro a ha b hb
    simp only [List.mem_singleton] at hb
    subst hb
    have := hl.2 a (List.mem_filter.mp ha).1
    omega
  · intro x hx
    rw [List.mem_append] at hx
    rcases hx with hx | hx
    · have := hl.2 x (List.mem_filter.mp hx).1; omega
    · simp only [List.mem_singleton] at hx; subst hx; omega

end Table
end Olric
