import OlricModel.Base.Codec
namespace Olric

theorem fromBE_foldl (bs : Bytes) (acc : Nat) :
    bs.foldl (fun a b => a * 256 + b.toNat) acc = acc * 256 ^ bs.length + fromBE bs := by
  induction bs generalizing acc with
  | nil => simp [fromBE]
  | cons b bs ih =>
    simp only [List.foldl_cons, List.length_cons, fromBE]
    rw [ih, ih (0 * 256 + b.toNat)]
    simp only [Nat.zero_mul, Nat.zero_add, Nat.pow_succ, Nat.add_mul, Nat.mul_assoc, Nat.mul_comm 256, Nat.add_assoc]

theorem fromBE_cons (b : UInt8) (bs : Bytes) : fromBE (b :: bs) = b.toNat * 256 ^ bs.length + fromBE bs := by
  simp only [fromBE, List.foldl_cons]
  rw [fromBE_foldl]; simp [fromBE]

theorem be_length (w n : Nat) : (be w n).length = w := by
  induction w generalizing n with
  | zero => rfl
  | succ w ih => simp [be, ih]

theorem fromBE_be (w n : Nat) : fromBE (be w n) = n % 256 ^ w := by
  induction w generalizing n with
  | zero => simp [be, fromBE, Nat.mod_one]
  | succ w ih =>
    simp only [be, fromBE_cons, be_length, ih]
    have h1 : (UInt8.ofNat (n / 256 ^ w % 256)).toNat = n / 256 ^ w % 256 := by
      simp
    rw [h1, Nat.mod_mod, Nat.pow_succ, Nat.mod_mul, Nat.mul_comm, Nat.add_comm]

theorem ofU64_toU64 (i : Int) (h1 : -(2 ^ 63 : Int) ≤ i) (h2 : i < 2 ^ 63) : ofU64 (toU64 i) = i := by
  unfold ofU64 toU64
  by_cases hn : 0 ≤ i
  · have : i % (2 ^ 64 : Int) = i := Int.emod_eq_of_lt hn (by omega)
    rw [this]
    have : i.toNat < 2 ^ 63 := by omega
    simp only [this, if_true]
    omega
  · have hm : i % (2 ^ 64 : Int) = i + 2 ^ 64 := by
      have := Int.add_emod_right i (2 ^ 64)
      rw [← this]
      exact Int.emod_eq_of_lt (by omega) (by omega)
    rw [hm]
    have : ¬ ((i + 2 ^ 64).toNat < 2 ^ 63) := by omega
    simp only [this, if_false]
    omega

theorem toU64_lt (i : Int) : toU64 i < 2 ^ 64 := by
  unfold toU64
  have := Int.emod_lt_of_pos i (show (0 : Int) < 2 ^ 64 by decide)
  have := Int.emod_nonneg i (show (2 ^ 64 : Int) ≠ 0 by decide)
  omega

theorem take_append_length {α} (a b : List α) (n : Nat) (h : a.length = n) : (a ++ b).take n = a := by
  subst h; simp
theorem drop_append_length {α} (a b : List α) (n : Nat) (h : a.length = n) : (a ++ b).drop n = b := by
  subst h; simp

/-- **the layout round trip**: what is written is what is read, for every encodable record -/
theorem decode_encode (r : Rec) (h : r.Enc) : decodeRec (encodeRec r) = some r := by
  obtain ⟨hk, hv, ⟨t1, t2⟩, ⟨s1, s2⟩, ⟨l1, l2⟩⟩ := h
  unfold encodeRec decodeRec
  have hb1 : be 1 r.key.length = [UInt8.ofNat r.key.length] := by
    simp only [be, Nat.pow_zero, Nat.div_one, Nat.mod_eq_of_lt hk]
  rw [hb1]
  simp only [List.cons_append, List.append_assoc]
  have hkl : (UInt8.ofNat r.key.length).toNat = r.key.length := by
    simp; omega
  simp only [hkl]
  have hlen : ¬ ((r.key ++ (be 8 (toU64 r.ttl) ++ (be 8 (toU64 r.ts) ++ (be 8 (toU64 r.la) ++
      (be 4 r.val.length ++ r.val))))).length < r.key.length + 28) := by
    simp only [List.length_append, be_length]; omega
  simp only [List.nil_append, hlen, if_false]
  rw [take_append_length _ _ _ rfl, drop_append_length _ _ _ rfl]
  rw [take_append_length _ _ 8 (be_length 8 _)]
  have d8 : ∀ (x y : Bytes), x.length = 8 → (x ++ y).drop 8 = y := fun x y hx => drop_append_length x y 8 hx
  have d16 : (be 8 (toU64 r.ttl) ++ (be 8 (toU64 r.ts) ++ (be 8 (toU64 r.la) ++ (be 4 r.val.length ++ r.val)))).drop 16
      = be 8 (toU64 r.la) ++ (be 4 r.val.length ++ r.val) := by
    rw [← List.append_assoc]; exact drop_append_length _ _ 16 (by simp [be_length])
  have d24 : (be 8 (toU64 r.ttl) ++ (be 8 (toU64 r.ts) ++ (be 8 (toU64 r.la) ++ (be 4 r.val.length ++ r.val)))).drop 24
      = be 4 r.val.length ++ r.val := by
    rw [← List.append_assoc, ← List.append_assoc]; exact drop_append_length _ _ 24 (by simp [be_length])
  have d28 : (be 8 (toU64 r.ttl) ++ (be 8 (toU64 r.ts) ++ (be 8 (toU64 r.la) ++ (be 4 r.val.length ++ r.val)))).drop 28
      = r.val := by
    rw [← List.append_assoc, ← List.append_assoc, ← List.append_assoc]
    exact drop_append_length _ _ 28 (by simp [be_length])
  rw [d8 _ _ (be_length 8 _), d16, d24, d28]
  rw [take_append_length _ _ 8 (be_length 8 _), take_append_length _ _ 8 (be_length 8 _),
    take_append_length _ _ 4 (be_length 4 _)]
  simp only [fromBE_be]
  have e1 : toU64 r.ttl % 256 ^ 8 = toU64 r.ttl := Nat.mod_eq_of_lt (by have := toU64_lt r.ttl; omega)
  have e2 : toU64 r.ts % 256 ^ 8 = toU64 r.ts := Nat.mod_eq_of_lt (by have := toU64_lt r.ts; omega)
  have e3 : toU64 r.la % 256 ^ 8 = toU64 r.la := Nat.mod_eq_of_lt (by have := toU64_lt r.la; omega)
  have e4 : r.val.length % 256 ^ 4 = r.val.length := Nat.mod_eq_of_lt (by omega)
  rw [e1, e2, e3, e4, ofU64_toU64 _ t1 t2, ofU64_toU64 _ s1 s2, ofU64_toU64 _ l1 l2]
  simp

end Olric

namespace Olric

theorem digitVal_digitChar (d : Nat) (h : d < 10) : digitVal (digitChar d) = some d := by
  have : d = 0 ∨ d = 1 ∨ d = 2 ∨ d = 3 ∨ d = 4 ∨ d = 5 ∨ d = 6 ∨ d = 7 ∨ d = 8 ∨ d = 9 := by omega
  rcases this with rfl | rfl | rfl | rfl | rfl | rfl | rfl | rfl | rfl | rfl <;> decide

theorem parseDigits_append (a b : List Char) (acc : Nat) :
    parseDigits (a ++ b) acc = (parseDigits a acc).bind (fun x => parseDigits b x) := by
  induction a generalizing acc with
  | nil => rfl
  | cons c cs ih =>
    simp only [List.cons_append, parseDigits]
    cases digitVal c with
    | none => rfl
    | some d => exact ih _

theorem parseDigits_fmtNat (n acc : Nat) :
    parseDigits (fmtNat n) acc = some (acc * 10 ^ (fmtNat n).length + n) := by
  fun_induction fmtNat n generalizing acc with
  | case1 n h => simp [parseDigits, digitVal_digitChar n h]
  | case2 n h ih =>
    rw [parseDigits_append, ih]
    simp only [Option.bind_some, parseDigits, digitVal_digitChar (n % 10) (Nat.mod_lt _ (by omega)),
      List.length_append, List.length_cons, List.length_nil, Nat.pow_succ]
    congr 1
    have := Nat.div_add_mod n 10
    rw [Nat.add_mul, Nat.mul_assoc]
    omega

theorem parseDigits_fmtNat0 (n : Nat) : parseDigits (fmtNat n) 0 = some n := by
  rw [parseDigits_fmtNat]; simp

theorem fmtNat_ne_nil (n : Nat) : fmtNat n ≠ [] := by
  fun_induction fmtNat n <;> simp

theorem fmtNat_head_digit (n : Nat) : ∃ c cs, fmtNat n = c :: cs ∧ c ≠ '-' ∧ c ≠ '+' := by
  fun_induction fmtNat n with
  | case1 n h =>
    refine ⟨digitChar n, [], rfl, ?_, ?_⟩ <;>
    · intro e
      have := digitVal_digitChar n h
      rw [e] at this
      simp [digitVal] at this
  | case2 n h ih =>
    obtain ⟨c, cs, e, h1, h2⟩ := ih
    exact ⟨c, cs ++ [digitChar (n % 10)], by rw [e]; rfl, h1, h2⟩

/-- **unsigned decimal round trip, with the range check of the target width** -/
theorem parseUint_fmtNat (bits n : Nat) :
    parseUint bits (fmtNat n) = if n < 2 ^ bits then .ok n else .error .range := by
  unfold parseUint
  simp [fmtNat_ne_nil, parseDigits_fmtNat0]

/-- **signed decimal round trip**: a value in range of the target width is read back exactly; a value
    outside the target width is a range error, never a wrapped number -/
theorem parseIntB_fmtInt (P : Nat) (i : Int) :
    parseIntB P (fmtInt i) = if -(P : Int) ≤ i ∧ i < P then .ok i else .error .range := by
  unfold fmtInt
  by_cases hneg : i < 0
  · simp only [hneg, if_true, parseIntB, fmtNat_ne_nil, if_false, parseDigits_fmtNat0]
    have habs : (i.natAbs : Int) = -i := Int.ofNat_natAbs_of_nonpos (by omega)
    by_cases hr : i.natAbs ≤ P
    · have : -(P : Int) ≤ i ∧ i < P := by omega
      simp only [hr, if_true, this, and_self]
      congr 1; omega
    · have : ¬ (-(P : Int) ≤ i ∧ i < P) := by omega
      simp only [hr, if_false, this]
  · simp only [hneg, if_false]
    obtain ⟨c, cs, e, h1, h2⟩ := fmtNat_head_digit i.toNat
    have hp : parseDigits (c :: cs) 0 = some i.toNat := by rw [← e]; exact parseDigits_fmtNat0 _
    rw [e]
    unfold parseIntB
    split
    · rename_i heq; cases heq
    · rename_i heq; injection heq with a b; exact absurd a h1
    · rename_i heq; injection heq with a b; exact absurd a h2
    · rw [hp]
      simp only
      have hnn : (i.toNat : Int) = i := by omega
      by_cases hr : i.toNat < P
      · have : -(P : Int) ≤ i ∧ i < P := by omega
        simp only [hr, if_true, this, and_self, hnn]
      · have : ¬ (-(P : Int) ≤ i ∧ i < P) := by omega
        simp only [hr, if_false, this]

/-- **signed decimal round trip**: a value in range of the target width is read back exactly; a value
    outside the target width is a range error, never a wrapped number -/
theorem parseInt_fmtInt (bits : Nat) (i : Int) :
    parseInt bits (fmtInt i) =
      if -(2 ^ (bits - 1) : Int) ≤ i ∧ i < 2 ^ (bits - 1) then .ok i else .error .range := by
  have hP : ((2 : Int) ^ (bits - 1)) = ((2 ^ (bits - 1) : Nat) : Int) := by norm_cast
  rw [hP]
  exact parseIntB_fmtInt _ i

end Olric
