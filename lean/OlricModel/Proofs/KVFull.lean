/- "A retired table is nearly full": the invariant behind the storage bound of C20. Core-only.

   A table leaves the head position only when an insert did not fit (table.Put's guard
   `size + offset ≥ allocated`), so with every entry of the workload at most `E` bytes long every
   table behind the head either has less than `E` bytes of room left or is empty (recycled, or
   drained and about to be).  Kept by every store operation, compaction included. -/
import OlricModel.Proofs.KVTerm
import OlricModel.Proofs.KVOps
namespace Olric
open Table
namespace KV

def NearFull (E : Nat) (t : Table) : Prop := t.off + E ≥ t.alloc ∨ t.slots = []

structure Churn (E : Nat) (k : KV) : Prop where
  full : ∀ t ∈ k.old, NearFull E t
  sizes : ∀ t ∈ k.newestFirst, ∀ s ∈ t.slots, s.r.size ≤ E

theorem churn_fork (E size : Nat) (idle : Int) : Churn E (KV.fork size idle) :=
  ⟨fun t ht => by simp [fork] at ht, fun t ht s hs => by
    simp [fork, newestFirst] at ht; subst ht; simp [Table.new] at hs⟩

theorem churn_empty (E size : Nat) (idle : Int) : Churn E (KV.empty size idle) :=
  ⟨fun t ht => by simp [KV.empty] at ht, fun t ht => by simp [KV.empty, newestFirst] at ht⟩

theorem churn_mapAll (E : Nat) (k : KV) (c : Churn E k) (g : Table → Table) (sg : Stable g)
    (hsz : ∀ t, (∀ s ∈ t.slots, s.r.size ≤ E) → ∀ s ∈ (g t).slots, s.r.size ≤ E) : Churn E (k.mapAll g) := by
  constructor
  · intro t ht
    simp only [mapAll, List.mem_map] at ht
    obtain ⟨x, hx, rfl⟩ := ht
    rcases c.full x hx with h | h
    · left; rw [sg.off, sg.alloc]; exact h
    · right; exact sg.nil x h
  · intro t ht
    rw [newestFirst_mapAll, List.mem_map] at ht
    obtain ⟨x, hx, rfl⟩ := ht
    exact hsz x (c.sizes x hx)

theorem sizes_deleteD (E : Nat) (h : Nat) (t : Table) (hs : ∀ s ∈ t.slots, s.r.size ≤ E) :
    ∀ s ∈ (t.deleteD h).slots, s.r.size ≤ E := by
  intro s hm; rw [deleteD_slots] at hm; exact hs s (List.mem_filter.mp hm).1

theorem sizes_updRec (E : Nat) (h : Nat) (f : Rec → Rec) (hf : ∀ r, (f r).size = r.size) (t : Table)
    (hs : ∀ s ∈ t.slots, s.r.size ≤ E) : ∀ s ∈ (updRec h f t).slots, s.r.size ≤ E := by
  intro s hm
  simp only [updRec, List.mem_map] at hm
  obtain ⟨x, hx, rfl⟩ := hm
  split
  · simp only [hf]; exact hs x hx
  · exact hs x hx

theorem churn_commit (E : Nat) (k : KV) (c : Churn E k) (hd hd' : Table) (h : Nat) (s : Slot)
    (hh : k.head = some hd) (u : HeadUpd hd hd' h s) (hsz : s.r.size ≤ E) : Churn E (k.commit hd' h) := by
  constructor
  · intro t ht
    simp only [commit, List.mem_map] at ht
    obtain ⟨x, hx, rfl⟩ := ht
    rcases c.full x hx with e | e
    · left; rw [deleteD_off, deleteD_alloc]; exact e
    · right; rw [deleteD_slots, e]; rfl
  · intro t ht
    simp only [commit, newestFirst, Option.toList, List.cons_append, List.nil_append, List.mem_cons, List.mem_map] at ht
    rcases ht with rfl | ⟨x, hx, rfl⟩
    · intro x hx
      rw [u.slots, List.mem_append] at hx
      rcases hx with hx | hx
      · exact c.sizes hd (by simp [newestFirst, hh]) x (List.mem_filter.mp hx).1
      · simp only [List.mem_singleton] at hx; subst hx; exact hsz
    · exact sizes_deleteD E h x (c.sizes x (by simp [newestFirst, hx]))

theorem churn_makeTable (E : Nat) (k : KV) (c : Churn E k)
    (hhd : ∀ hd, k.head = some hd → NearFull E hd) : Churn E k.makeTable := by
  have hdem_full : ∀ t ∈ k.demoted, NearFull E t := by
    intro t ht
    rcases mem_demoted k t ht with h | ⟨hd, hh, rfl⟩
    · exact c.full t h
    · exact hhd hd hh
  have hdem_sizes : ∀ t ∈ k.demoted, ∀ s ∈ t.slots, s.r.size ≤ E := by
    intro t ht
    rcases mem_demoted k t ht with h | ⟨hd, hh, rfl⟩
    · exact c.sizes t (by simp [newestFirst, h])
    · exact c.sizes hd (by simp [newestFirst, hh])
  rw [makeTable_eq]
  cases hp : pickLast isRecycled k.demoted with
  | some q =>
    obtain ⟨t, rest⟩ := q
    obtain ⟨htm, _, hsub, _⟩ := pickLast_mem _ _ _ _ hp
    constructor
    · intro x hx; exact hdem_full x (hsub x hx)
    · intro x hx
      simp only [newestFirst, Option.toList, List.cons_append, List.nil_append, List.mem_cons] at hx
      rcases hx with rfl | hx
      · exact hdem_sizes t htm
      · exact hdem_sizes x (hsub x hx)
  | none =>
    constructor
    · intro x hx; exact hdem_full x hx
    · intro x hx
      simp only [newestFirst, Option.toList, List.cons_append, List.nil_append, List.mem_cons] at hx
      rcases hx with rfl | hx
      · intro s hs; simp [Table.new] at hs
      · exact hdem_sizes x hx

theorem churn_ensureHead (E : Nat) (k : KV) (c : Churn E k) : Churn E k.ensureHead := by
  unfold ensureHead
  cases hh : k.head with
  | some _ => exact c
  | none => exact churn_makeTable E k c (fun hd h => by rw [hh] at h; cases h)

/-- kvstore.Put -/
theorem churn_put (E : Nat) (k : KV) (w : k.WF) (c : Churn E k) (h : Nat) (r : Rec) (now : Int) (hr : r.size ≤ E) :
    Churn E (k.put h r now).1 := by
  unfold put
  by_cases hbig : r.size ≥ k.tableSize
  · simp only [hbig, if_true]; exact c
  · simp only [hbig, if_false]
    have c1 := churn_ensureHead E k c
    obtain ⟨hd, hh⟩ := Option.isSome_iff_exists.mp (ensureHead_head k)
    cases hp : hd.put h r now with
    | ok hd' =>
      simp only [hh, hp]
      exact churn_commit E _ c1 hd hd' h _ hh (headUpd_put hd hd' h r now hp) (by simpa [putSlot, Rec.size] using hr)
    | error e =>
      cases e with
      | keyTooLarge => simp only [hh, hp]; exact c1
      | noSpace =>
        simp only [hh, hp]
        have hfull : r.size + hd.off ≥ hd.alloc := by
          unfold Table.put at hp
          split at hp
          · cases hp
          · split at hp
            · assumption
            · cases hp
        have c2 := churn_makeTable E _ c1 (fun x hx => by
          rw [hh] at hx; injection hx with hx; subst hx; left; omega)
        obtain ⟨hd2, hh2, _, _⟩ := makeTable_head _ (ensureHead_wf k w)
        cases hp2 : hd2.put h r now with
        | ok hd2' =>
          simp only [hh2, hp2]
          exact churn_commit E _ c2 hd2 hd2' h _ hh2 (headUpd_put hd2 hd2' h r now hp2) (by simpa [putSlot, Rec.size] using hr)
        | error e2 =>
          cases e2 <;> simp only [hh2, hp2] <;> exact c2

/-- kvstore.PutRaw -/
theorem churn_putRaw (E : Nat) (k : KV) (w : k.WF) (c : Churn E k) (h : Nat) (r : Rec) (hr : r.size ≤ E) :
    Churn E (k.putRaw h r).1 := by
  unfold putRaw
  by_cases hbig : r.size ≥ k.tableSize
  · simp only [hbig, if_true]; exact c
  · simp only [hbig, if_false]
    have c1 := churn_ensureHead E k c
    obtain ⟨hd, hh⟩ := Option.isSome_iff_exists.mp (ensureHead_head k)
    cases hp : hd.putRaw h r with
    | ok hd' =>
      simp only [hh, hp]
      exact churn_commit E _ c1 hd hd' h _ hh (headUpd_putRaw hd hd' h r hp) (by simpa [putRawSlot] using hr)
    | error e =>
      have hns : e = .noSpace := by
        unfold Table.putRaw at hp
        split at hp
        · injection hp with hp; exact hp.symm
        · cases hp
      subst hns
      simp only [hh, hp]
      have hfull : r.size + hd.off ≥ hd.alloc := by
        unfold Table.putRaw at hp
        split at hp
        · assumption
        · cases hp
      have c2 := churn_makeTable E _ c1 (fun x hx => by
        rw [hh] at hx; injection hx with hx; subst hx; left; omega)
      obtain ⟨hd2, hh2, _, _⟩ := makeTable_head _ (ensureHead_wf k w)
      cases hp2 : hd2.putRaw h r with
      | ok hd2' =>
        simp only [hh2, hp2]
        exact churn_commit E _ c2 hd2 hd2' h _ hh2 (headUpd_putRaw hd2 hd2' h r hp2) (by simpa [putRawSlot] using hr)
      | error e2 => simp only [hh2, hp2]; exact c2

/-- under the uniqueness invariant delete / get / updateTTL leave the store alone or map one
    stable function over every table -/
theorem delete_eq (k : KV) (w : k.WF) (h : Nat) : k.delete h = k ∨ k.delete h = k.mapAll (fun t => t.deleteD h) := by
  have key : onFirst (fun t => t.delete h) k.newestFirst =
      if (findIn k.newestFirst h).isSome then some (k.newestFirst.map (fun t => t.deleteD h)) else none := by
    apply onFirst_eq_map _ _ h _ _ _ w.unique
    · intro t ht; simp [Table.delete, deleteD, ht]
    · intro t ht
      cases hf : t.find h with
      | none => exact absurd hf ht
      | some s => simp [deleteD, Table.delete, hf]
  unfold delete
  rw [key]
  cases hf : findIn k.newestFirst h with
  | none => left; simp
  | some s => right; simp only [Option.isSome_some, if_true, setNewestFirst_map]

theorem get_eq (k : KV) (w : k.WF) (h : Nat) (now : Int) :
    (k.get h now).2 = k ∨ (k.get h now).2 = k.mapAll (updRec h (fun r => { r with la := now })) := by
  have key : onFirst (fun t => (t.get h now).map (·.2)) k.newestFirst =
      if (findIn k.newestFirst h).isSome then some (k.newestFirst.map (updRec h (fun r => { r with la := now }))) else none := by
    apply onFirst_eq_map _ _ h _ _ _ w.unique
    · intro t ht
      exact ⟨by simp [Table.get, ht], updRec_id_of_none _ _ t ht⟩
    · intro t ht
      cases hf : t.find h with
      | none => exact absurd hf ht
      | some s => simp [Table.get, hf, touch_eq_updRec]
  unfold get
  rw [key]
  cases hf : findIn k.newestFirst h with
  | none => left; simp
  | some s => right; simp only [Option.isSome_some, if_true, setNewestFirst_map]

theorem updateTTL_eq (k : KV) (w : k.WF) (h : Nat) (ttl ts now : Int) :
    (k.updateTTL h ttl ts now).1 = k ∨
    (k.updateTTL h ttl ts now).1 = k.mapAll (updRec h (fun r => { r with ttl := ttl, ts := ts, la := now })) := by
  have key : onFirst (fun t => t.updateTTL h ttl ts now) k.newestFirst =
      if (findIn k.newestFirst h).isSome then
        some (k.newestFirst.map (updRec h (fun r => { r with ttl := ttl, ts := ts, la := now }))) else none := by
    apply onFirst_eq_map _ _ h _ _ _ w.unique
    · intro t ht
      exact ⟨by simp [Table.updateTTL, ht], updRec_id_of_none _ _ t ht⟩
    · intro t ht
      cases hf : t.find h with
      | none => exact absurd hf ht
      | some s => simp [Table.updateTTL, hf, updRec]
  unfold updateTTL
  rw [key]
  cases hf : findIn k.newestFirst h with
  | none => left; simp
  | some s => right; simp only [Option.isSome_some, if_true, setNewestFirst_map]

theorem churn_delete (E : Nat) (k : KV) (w : k.WF) (c : Churn E k) (h : Nat) : Churn E (k.delete h) := by
  rcases delete_eq k w h with e | e <;> rw [e]
  · exact c
  · exact churn_mapAll E k c _ (stable_deleteD h) (sizes_deleteD E h)

theorem churn_get (E : Nat) (k : KV) (w : k.WF) (c : Churn E k) (h : Nat) (now : Int) : Churn E (k.get h now).2 := by
  rcases get_eq k w h now with e | e <;> rw [e]
  · exact c
  · exact churn_mapAll E k c _ (stable_updRec h _ (fun _ => rfl) (fun _ => rfl)) (sizes_updRec E h _ (fun _ => rfl))

theorem churn_updateTTL (E : Nat) (k : KV) (w : k.WF) (c : Churn E k) (h : Nat) (ttl ts now : Int) :
    Churn E (k.updateTTL h ttl ts now).1 := by
  rcases updateTTL_eq k w h ttl ts now with e | e <;> rw [e]
  · exact c
  · exact churn_mapAll E k c _ (stable_updRec h _ (fun _ => rfl) (fun _ => rfl)) (sizes_updRec E h _ (fun _ => rfl))

theorem churn_foldPutRaw (E : Nat) (batch : List (Nat × Rec)) (k : KV) (w : k.WF) (c : Churn E k)
    (hkl : ∀ p ∈ batch, p.2.key.length < 256) (hsz : ∀ p ∈ batch, p.2.size ≤ E) :
    Churn E (batch.foldl (fun k p => (k.putRaw p.1 p.2).1) k) := by
  induction batch generalizing k with
  | nil => exact c
  | cons p ps ih =>
    simp only [List.foldl_cons]
    obtain ⟨wk, _⟩ := putRaw_spec k w p.1 p.2 (hkl p List.mem_cons_self)
    exact ih _ wk (churn_putRaw E k w c p.1 p.2 (hsz p List.mem_cons_self))
      (fun q hq => hkl q (List.mem_cons_of_mem _ hq)) (fun q hq => hsz q (List.mem_cons_of_mem _ hq))

theorem churn_resetDrained (E : Nat) (k : KV) (c : Churn E k) (cf : Nat) (now : Int) : Churn E (k.resetDrained cf now) := by
  constructor
  · intro t ht
    simp only [resetDrained, List.mem_map] at ht
    obtain ⟨x, hx, rfl⟩ := ht
    split
    · right; rfl
    · exact c.full x hx
  · intro t ht
    simp only [resetDrained, newestFirst, List.mem_append, List.mem_map] at ht
    rcases ht with ht | ⟨x, hx, rfl⟩
    · exact c.sizes t (by simp [newestFirst, ht])
    · split
      · intro s hs; simp [Table.reset] at hs
      · exact c.sizes x (by simp [newestFirst, hx])

theorem churn_sublist_old (E : Nat) (k : KV) (c : Churn E k) (old' : List Table) (hs : old'.Sublist k.old) :
    Churn E ({ k with old := old' } : KV) := by
  constructor
  · intro t ht; exact c.full t (hs.subset ht)
  · intro t ht
    simp only [newestFirst, List.mem_append] at ht
    rcases ht with ht | ht
    · exact c.sizes t (by simp [newestFirst, ht])
    · exact c.sizes t (by simp [newestFirst, hs.subset ht])

/-- kvstore.Compaction -/
theorem churn_compaction (E : Nat) (k : KV) (w : k.WF) (c : Churn E k) (now : Int) (order : List Nat) :
    Churn E (k.compaction now order).1 := by
  unfold compaction
  cases hp : pickLast needsCompaction k.old with
  | some q =>
    obtain ⟨t, rest⟩ := q
    simp only
    obtain ⟨htm, _, _, _⟩ := pickLast_mem _ _ _ _ hp
    have htnf : t ∈ k.newestFirst := by simp [newestFirst, htm]
    have hb_mem : ∀ p ∈ evictBatch t order now, ∃ s ∈ t.slots, p.2 = { s.r with la := now } := by
      intro p hpm
      simp only [evictBatch, List.mem_map] at hpm
      obtain ⟨s, hs, rfl⟩ := hpm
      have hs' := List.mem_of_mem_take hs
      rw [List.mem_filterMap] at hs'
      obtain ⟨h0, _, hf⟩ := hs'
      exact ⟨s, List.mem_of_find?_eq_some hf, rfl⟩
    apply churn_resetDrained
    apply churn_foldPutRaw E _ k w c
    · intro p hpm
      obtain ⟨s, hs, e⟩ := hb_mem p hpm
      rw [e]; exact (w.fits t htnf s hs).2
    · intro p hpm
      obtain ⟨s, hs, e⟩ := hb_mem p hpm
      rw [e]; exact c.sizes t htnf s hs
  | none =>
    simp only
    obtain ⟨hs, _⟩ := sweep_spec (k.isExpiredAt now) k.old k.tables.length w.recEmpty
    exact churn_sublist_old E k c _ hs

end KV
end Olric
