/- `ScanInv` (coefficients of the tables in use pairwise different and below nextCf; no table written
   beyond its allocation) is kept by every store operation. Core-only. -/
import OlricModel.Proofs.KVWalk
import OlricModel.Proofs.KVFull
namespace Olric
open Table
namespace KV

theorem cfDisj_congr {a a' b b' : Table} (ha : isRecycled a' = isRecycled a) (hac : a'.cf = a.cf)
    (hb : isRecycled b' = isRecycled b) (hbc : b'.cf = b.cf) (d : CfDisj a b) : CfDisj a' b' := by
  intro h1 h2; rw [hac, hbc]; exact d (ha ▸ h1) (hb ▸ h2)

theorem cfDisj_of_recycled_left {a b : Table} (h : isRecycled a = true) : CfDisj a b := by
  intro h1; rw [h] at h1; cases h1

theorem cfDisj_of_recycled_right {a b : Table} (h : isRecycled b = true) : CfDisj a b := by
  intro _ h2; rw [h] at h2; cases h2

theorem isRecycled_of_state {a b : Table} (h : a.state = b.state) : isRecycled a = isRecycled b := by
  simp [isRecycled, h]

theorem scanInv_fork (size : Nat) (idle : Int) : ScanInv (KV.fork size idle) := by
  refine ⟨by simp [fork, newestFirst], ?_, ?_⟩
  · intro t ht _; simp [fork, newestFirst] at ht; subst ht; simp [fork, Table.new]
  · intro t ht; simp [fork, newestFirst] at ht; subst ht; simp [Table.new]

theorem scanInv_empty (size : Nat) (idle : Int) : ScanInv (KV.empty size idle) := by
  refine ⟨by simp [KV.empty, newestFirst], ?_, ?_⟩ <;> intro t ht <;> simp [KV.empty, newestFirst] at ht

theorem scanInv_mapAll (k : KV) (si : k.ScanInv) (g : Table → Table) (sg : Stable g)
    (hcf : ∀ t, (g t).cf = t.cf) : ScanInv (k.mapAll g) := by
  have hrec : ∀ t, isRecycled (g t) = isRecycled t := fun t => isRecycled_of_state (sg.state t)
  refine ⟨?_, ?_, ?_⟩
  · rw [newestFirst_mapAll]
    exact List.Pairwise.map g (fun a b d => cfDisj_congr (hrec a) (hcf a) (hrec b) (hcf b) d) si.cfd
  · intro t ht hl
    rw [newestFirst_mapAll, List.mem_map] at ht
    obtain ⟨x, hx, rfl⟩ := ht
    rw [hcf]; rw [hrec] at hl
    exact si.cfLt x hx hl
  · intro t ht
    rw [newestFirst_mapAll, List.mem_map] at ht
    obtain ⟨x, hx, rfl⟩ := ht
    rw [sg.off, sg.alloc]; exact si.offLe x hx

theorem scanInv_commit (k : KV) (si : k.ScanInv) (hd hd' : Table) (h : Nat) (hh : k.head = some hd)
    (hst : hd'.state = hd.state) (hcf : hd'.cf = hd.cf) (hoff : hd'.off ≤ hd'.alloc) : ScanInv (k.commit hd' h) := by
  have hnf : k.newestFirst = hd :: k.old := by simp [newestFirst, hh]
  have hnf' : (k.commit hd' h).newestFirst = hd' :: k.old.map (fun t => t.deleteD h) := by simp [commit, newestFirst]
  have hcfd := si.cfd
  rw [hnf, List.pairwise_cons] at hcfd
  have hrd : ∀ t : Table, isRecycled (t.deleteD h) = isRecycled t := fun t => isRecycled_of_state (deleteD_state t h)
  refine ⟨?_, ?_, ?_⟩
  · rw [hnf', List.pairwise_cons]
    refine ⟨?_, ?_⟩
    · intro b hb
      rw [List.mem_map] at hb
      obtain ⟨x, hx, rfl⟩ := hb
      exact cfDisj_congr (isRecycled_of_state hst) hcf (hrd x) (deleteD_cf x h) (hcfd.1 x hx)
    · exact List.Pairwise.map _ (fun a b d => cfDisj_congr (hrd a) (deleteD_cf a h) (hrd b) (deleteD_cf b h) d) hcfd.2
  · intro t ht hl
    rw [hnf'] at ht
    simp only [commit]
    rcases List.mem_cons.mp ht with rfl | ht
    · rw [hcf]; rw [isRecycled_of_state hst] at hl
      exact si.cfLt hd (by rw [hnf]; exact List.mem_cons_self) hl
    · rw [List.mem_map] at ht
      obtain ⟨x, hx, rfl⟩ := ht
      rw [deleteD_cf]; rw [hrd] at hl
      exact si.cfLt x (by rw [hnf]; exact List.mem_cons_of_mem _ hx) hl
  · intro t ht
    rw [hnf'] at ht
    rcases List.mem_cons.mp ht with rfl | ht
    · exact hoff
    · rw [List.mem_map] at ht
      obtain ⟨x, hx, rfl⟩ := ht
      rw [deleteD_off, deleteD_alloc]
      exact si.offLe x (by rw [hnf]; exact List.mem_cons_of_mem _ hx)

theorem scanInv_makeTable (k : KV) (w : k.WF) (si : k.ScanInv) : ScanInv k.makeTable := by
  -- facts about the demoted list
  have hdem_cfd : k.demoted.Pairwise CfDisj := by
    unfold demoted
    cases hh : k.head with
    | none => simpa [newestFirst, hh] using si.cfd
    | some hd =>
      have := si.cfd
      simp only [newestFirst, hh, Option.toList, List.cons_append, List.nil_append, List.pairwise_cons] at this ⊢
      have hrw := w.headRW hd hh
      have hr : isRecycled ({ hd with state := .ro } : Table) = isRecycled hd := by simp only [isRecycled, hrw]; rfl
      exact ⟨fun b hb => cfDisj_congr hr rfl rfl rfl (this.1 b hb), this.2⟩
  have hdem_lt : ∀ t ∈ k.demoted, isRecycled t = false → t.cf < k.nextCf := by
    intro t ht hl
    rcases mem_demoted k t ht with h | ⟨hd, hh, rfl⟩
    · exact si.cfLt t (by simp [newestFirst, h]) hl
    · have hrw := w.headRW hd hh
      exact si.cfLt hd (by simp [newestFirst, hh]) (by simp [isRecycled, hrw])
  have hdem_off : ∀ t ∈ k.demoted, t.off ≤ t.alloc := by
    intro t ht
    rcases mem_demoted k t ht with h | ⟨hd, hh, rfl⟩
    · exact si.offLe t (by simp [newestFirst, h])
    · exact si.offLe hd (by simp [newestFirst, hh])
  rw [makeTable_eq]
  cases hp : pickLast isRecycled k.demoted with
  | some q =>
    obtain ⟨t, rest⟩ := q
    obtain ⟨htm, _, hsub, hsl⟩ := pickLast_mem _ _ _ _ hp
    simp only
    refine ⟨?_, ?_, ?_⟩
    · simp only [newestFirst, Option.toList, List.cons_append, List.nil_append, List.pairwise_cons]
      refine ⟨?_, hdem_cfd.sublist hsl⟩
      intro b hb _ hbl e
      have := hdem_lt b (hsub b hb) hbl
      simp only at e
      omega
    · intro x hx hl
      simp only [newestFirst, Option.toList, List.cons_append, List.nil_append, List.mem_cons] at hx
      rcases hx with rfl | hx
      · simp
      · have := hdem_lt x (hsub x hx) hl
        simp only; omega
    · intro x hx
      simp only [newestFirst, Option.toList, List.cons_append, List.nil_append, List.mem_cons] at hx
      rcases hx with rfl | hx
      · exact hdem_off t htm
      · exact hdem_off x (hsub x hx)
  | none =>
    simp only
    refine ⟨?_, ?_, ?_⟩
    · simp only [newestFirst, Option.toList, List.cons_append, List.nil_append, List.pairwise_cons]
      refine ⟨?_, hdem_cfd⟩
      intro b hb _ hbl e
      have := hdem_lt b hb hbl
      simp only [Table.new] at e
      omega
    · intro x hx hl
      simp only [newestFirst, Option.toList, List.cons_append, List.nil_append, List.mem_cons] at hx
      rcases hx with rfl | hx
      · simp [Table.new]
      · have := hdem_lt x hx hl
        simp only; omega
    · intro x hx
      simp only [newestFirst, Option.toList, List.cons_append, List.nil_append, List.mem_cons] at hx
      rcases hx with rfl | hx
      · simp [Table.new]
      · exact hdem_off x hx

theorem scanInv_ensureHead (k : KV) (w : k.WF) (si : k.ScanInv) : ScanInv k.ensureHead := by
  unfold ensureHead
  cases hh : k.head with
  | some _ => exact si
  | none => exact scanInv_makeTable k w si

theorem scanInv_put (k : KV) (w : k.WF) (si : k.ScanInv) (h : Nat) (r : Rec) (now : Int) : ScanInv (k.put h r now).1 := by
  unfold put
  by_cases hbig : r.size ≥ k.tableSize
  · simp only [hbig, if_true]; exact si
  · simp only [hbig, if_false]
    have w1 := ensureHead_wf k w
    have s1 := scanInv_ensureHead k w si
    obtain ⟨hd, hh⟩ := Option.isSome_iff_exists.mp (ensureHead_head k)
    cases hp : hd.put h r now with
    | ok hd' =>
      simp only [hh, hp]
      obtain ⟨a, b, c, _, _, o, g, _⟩ := put_fields hd hd' h r now hp
      exact scanInv_commit _ s1 hd hd' h hh a c (by omega)
    | error e =>
      cases e with
      | keyTooLarge => simp only [hh, hp]; exact s1
      | noSpace =>
        simp only [hh, hp]
        have s2 := scanInv_makeTable _ w1 s1
        obtain ⟨hd2, hh2, _, _⟩ := makeTable_head _ w1
        cases hp2 : hd2.put h r now with
        | ok hd2' =>
          simp only [hh2, hp2]
          obtain ⟨a, b, c, _, _, o, g, _⟩ := put_fields hd2 hd2' h r now hp2
          exact scanInv_commit _ s2 hd2 hd2' h hh2 a c (by omega)
        | error e2 => cases e2 <;> simp only [hh2, hp2] <;> exact s2

theorem scanInv_putRaw (k : KV) (w : k.WF) (si : k.ScanInv) (h : Nat) (r : Rec) : ScanInv (k.putRaw h r).1 := by
  unfold putRaw
  by_cases hbig : r.size ≥ k.tableSize
  · simp only [hbig, if_true]; exact si
  · simp only [hbig, if_false]
    have w1 := ensureHead_wf k w
    have s1 := scanInv_ensureHead k w si
    obtain ⟨hd, hh⟩ := Option.isSome_iff_exists.mp (ensureHead_head k)
    cases hp : hd.putRaw h r with
    | ok hd' =>
      simp only [hh, hp]
      obtain ⟨a, b, c, _, _, o, g⟩ := putRaw_fields hd hd' h r hp
      exact scanInv_commit _ s1 hd hd' h hh a c (by omega)
    | error e =>
      have hns : e = .noSpace := by
        unfold Table.putRaw at hp
        split at hp
        · injection hp with hp; exact hp.symm
        · cases hp
      subst hns
      simp only [hh, hp]
      have s2 := scanInv_makeTable _ w1 s1
      obtain ⟨hd2, hh2, _, _⟩ := makeTable_head _ w1
      cases hp2 : hd2.putRaw h r with
      | ok hd2' =>
        simp only [hh2, hp2]
        obtain ⟨a, b, c, _, _, o, g⟩ := putRaw_fields hd2 hd2' h r hp2
        exact scanInv_commit _ s2 hd2 hd2' h hh2 a c (by omega)
      | error e2 => simp only [hh2, hp2]; exact s2

theorem updRec_cf (h : Nat) (f : Rec → Rec) (t : Table) : (updRec h f t).cf = t.cf := rfl

theorem scanInv_delete (k : KV) (w : k.WF) (si : k.ScanInv) (h : Nat) : ScanInv (k.delete h) := by
  rcases delete_eq k w h with e | e <;> rw [e]
  · exact si
  · exact scanInv_mapAll k si _ (stable_deleteD h) (fun t => deleteD_cf t h)

theorem scanInv_get (k : KV) (w : k.WF) (si : k.ScanInv) (h : Nat) (now : Int) : ScanInv (k.get h now).2 := by
  rcases get_eq k w h now with e | e <;> rw [e]
  · exact si
  · exact scanInv_mapAll k si _ (stable_updRec h _ (fun _ => rfl) (fun _ => rfl)) (updRec_cf h _)

theorem scanInv_updateTTL (k : KV) (w : k.WF) (si : k.ScanInv) (h : Nat) (ttl ts now : Int) :
    ScanInv (k.updateTTL h ttl ts now).1 := by
  rcases updateTTL_eq k w h ttl ts now with e | e <;> rw [e]
  · exact si
  · exact scanInv_mapAll k si _ (stable_updRec h _ (fun _ => rfl) (fun _ => rfl)) (updRec_cf h _)

theorem scanInv_foldPutRaw (batch : List (Nat × Rec)) (k : KV) (w : k.WF) (si : k.ScanInv)
    (hkl : ∀ p ∈ batch, p.2.key.length < 256) :
    ScanInv (batch.foldl (fun k p => (k.putRaw p.1 p.2).1) k) := by
  induction batch generalizing k with
  | nil => exact si
  | cons p ps ih =>
    simp only [List.foldl_cons]
    obtain ⟨wk, _⟩ := putRaw_spec k w p.1 p.2 (hkl p List.mem_cons_self)
    exact ih _ wk (scanInv_putRaw k w si p.1 p.2) (fun q hq => hkl q (List.mem_cons_of_mem _ hq))

theorem scanInv_resetDrained (k : KV) (si : k.ScanInv) (cf : Nat) (now : Int) : ScanInv (k.resetDrained cf now) := by
  let g : Table → Table := fun t => if t.cf == cf && t.state != .recycled && t.inuse == 0 then t.reset now else t
  have hg : ∀ t, g t = t ∨ isRecycled (g t) = true := by
    intro t; simp only [g]; split
    · right; rfl
    · left; rfl
  have hgd : ∀ a b, CfDisj a b → CfDisj (g a) (g b) := by
    intro a b d
    rcases hg a with ea | ea
    · rcases hg b with eb | eb
      · rw [ea, eb]; exact d
      · exact cfDisj_of_recycled_right eb
    · exact cfDisj_of_recycled_left ea
  have hnf : (k.resetDrained cf now).newestFirst = k.head.toList ++ k.old.map g := rfl
  refine ⟨?_, ?_, ?_⟩
  · have := si.cfd
    rw [hnf]
    simp only [newestFirst, List.pairwise_append] at this ⊢
    refine ⟨this.1, List.Pairwise.map g hgd this.2.1, ?_⟩
    intro a ha b hb
    rw [List.mem_map] at hb
    obtain ⟨x, hx, rfl⟩ := hb
    rcases hg x with e | e
    · rw [e]; exact this.2.2 a ha x hx
    · exact cfDisj_of_recycled_right e
  · intro t ht hl
    rw [hnf, List.mem_append] at ht
    show t.cf < k.nextCf
    rcases ht with ht | ht
    · exact si.cfLt t (by simp only [newestFirst, List.mem_append]; exact Or.inl ht) hl
    · rw [List.mem_map] at ht
      obtain ⟨x, hx, rfl⟩ := ht
      rcases hg x with e | e
      · rw [e] at hl ⊢; exact si.cfLt x (by simp only [newestFirst, List.mem_append]; exact Or.inr hx) hl
      · rw [e] at hl; cases hl
  · intro t ht
    rw [hnf, List.mem_append] at ht
    rcases ht with ht | ht
    · exact si.offLe t (by simp only [newestFirst, List.mem_append]; exact Or.inl ht)
    · rw [List.mem_map] at ht
      obtain ⟨x, hx, rfl⟩ := ht
      simp only [g]
      split
      · simp [Table.reset]
      · exact si.offLe x (by simp only [newestFirst, List.mem_append]; exact Or.inr hx)

theorem scanInv_sublist_old (k : KV) (si : k.ScanInv) (old' : List Table) (hs : old'.Sublist k.old) :
    ScanInv ({ k with old := old' } : KV) := by
  have hsub : (k.head.toList ++ old').Sublist k.newestFirst := (List.Sublist.refl _).append hs
  have hmem : ∀ t ∈ k.head.toList ++ old', t ∈ k.newestFirst := fun t ht => hsub.subset ht
  exact ⟨si.cfd.sublist hsub, fun t ht hl => si.cfLt t (hmem t ht) hl, fun t ht => si.offLe t (hmem t ht)⟩

theorem scanInv_compaction (k : KV) (w : k.WF) (si : k.ScanInv) (now : Int) (order : List Nat) :
    ScanInv (k.compaction now order).1 := by
  unfold compaction
  cases hp : pickLast needsCompaction k.old with
  | some q =>
    obtain ⟨t, rest⟩ := q
    simp only
    obtain ⟨htm, _, _, _⟩ := pickLast_mem _ _ _ _ hp
    have htnf : t ∈ k.newestFirst := by simp [newestFirst, htm]
    apply scanInv_resetDrained
    apply scanInv_foldPutRaw _ k w si
    intro p hpm
    simp only [evictBatch, List.mem_map] at hpm
    obtain ⟨s, hs, rfl⟩ := hpm
    have hs' := List.mem_of_mem_take hs
    rw [List.mem_filterMap] at hs'
    obtain ⟨h0, _, hf⟩ := hs'
    exact (w.fits t htnf s (List.mem_of_find?_eq_some hf)).2
  | none =>
    simp only
    obtain ⟨hs, _⟩ := sweep_spec (k.isExpiredAt now) k.old k.tables.length w.recEmpty
    exact scanInv_sublist_old k si _ hs

end KV
end Olric
