/-
  Helper lemmas for the pipeline model (Cluster/Pipeline.lean): a pipelined run answers every future with what the
  same commands answer when issued one at a time, and leaves every partition in the same state.
-/
import OlricModel.Cluster.Pipeline
namespace Olric.Pipeline

variable {σ κ ρ : Type}

theorem batch_nil (p : Nat) : batch p ([] : List (Nat × κ)) = [] := rfl

theorem batch_append (p : Nat) (a b : List (Nat × κ)) : batch p (a ++ b) = batch p a ++ batch p b := by
  simp [batch, List.filter_append]

theorem batch_cons_same (p : Nat) (c : κ) (q : List (Nat × κ)) : batch p ((p, c) :: q) = c :: batch p q := by
  simp [batch]

theorem batch_cons_other (p x : Nat) (c : κ) (q : List (Nat × κ)) (h : x ≠ p) : batch x ((p, c) :: q) = batch x q := by
  have : ((p == x) = false) := by simpa using (fun e => h e.symm)
  simp [batch, this]

theorem partRun_append (step : σ → κ → σ × ρ) (s : σ) (a b : List κ) :
    partRun step s (a ++ b) =
      ((partRun step (partRun step s a).1 b).1, (partRun step s a).2 ++ (partRun step (partRun step s a).1 b).2) := by
  induction a generalizing s with
  | nil => simp [partRun]
  | cons c cs ih => simp [partRun, ih]

theorem partRun_length (step : σ → κ → σ × ρ) (s : σ) (a : List κ) : (partRun step s a).2.length = a.length := by
  induction a generalizing s with
  | nil => simp [partRun]
  | cons c cs ih => simp [partRun, ih]

/-- the state `Exec` leaves in every partition is the state the one-at-a-time run leaves there -/
theorem execState_eq_seq (step : σ → κ → σ × ρ) (st : Nat → σ) (q : List (Nat × κ)) (x : Nat) :
    execState step st q x = (seqRun step st q).1 x := by
  induction q generalizing st with
  | nil => simp [execState, seqRun, batch_nil, partRun]
  | cons pc cs ih =>
    obtain ⟨p, c⟩ := pc
    simp only [seqRun]
    rw [← ih]
    by_cases h : x = p
    · subst h
      simp [execState, batch_cons_same, partRun, upd]
    · simp [execState, batch_cons_other _ _ _ _ h, upd, h]

/-- queued behind `q0`, executed from `st0`: every future reads the reply its command gets when the commands are
    issued one at a time from the state that `q0` leaves -/
theorem futures_read_seq (step : σ → κ → σ × ρ) (st0 : Nat → σ) (q0 cs : List (Nat × κ)) :
    (futures q0 cs).map (futureResult step st0 (q0 ++ cs)) =
      (seqRun step (execState step st0 q0) cs).2.map some := by
  induction cs generalizing q0 with
  | nil => simp [futures, seqRun]
  | cons pc cs ih =>
    obtain ⟨p, c⟩ := pc
    have hq : q0 ++ (p, c) :: cs = (q0 ++ [(p, c)]) ++ cs := by simp
    have hst : execState step st0 (q0 ++ [(p, c)]) = upd (execState step st0 q0) p (step (execState step st0 q0 p) c).1 := by
      funext x
      by_cases h : x = p
      · subst h
        simp [execState, batch_append, batch_cons_same, batch_nil, partRun_append, partRun, upd]
      · simp [execState, batch_append, batch_cons_other _ _ _ _ h, batch_nil, upd, h]
    simp only [futures, add, List.map_cons, seqRun]
    congr 1
    · -- the head: slot (p, |batch p q0|) of the whole run
      simp only [futureResult, execResult, batch_append, batch_cons_same, partRun_append, partRun]
      rw [List.getElem?_append_right (by simp [partRun_length])]
      simp [partRun_length, execState]
    · rw [hq, ih (q0 ++ [(p, c)]), hst]


theorem futures_ge (q0 cs : List (Nat × κ)) : ∀ s ∈ futures q0 cs, (batch s.1 q0).length ≤ s.2 := by
  induction cs generalizing q0 with
  | nil => intro s hs; simp [futures] at hs
  | cons pc cs ih =>
    obtain ⟨p, c⟩ := pc
    intro s hs
    simp only [futures, add, List.mem_cons] at hs
    rcases hs with rfl | hs
    · exact Nat.le_refl _
    · have := ih (q0 ++ [(p, c)]) s hs
      rw [batch_append, List.length_append] at this
      omega

/-- no two futures of a pipeline share a slot -/
theorem futures_nodup (q0 cs : List (Nat × κ)) : (futures q0 cs).Nodup := by
  induction cs generalizing q0 with
  | nil => simp [futures]
  | cons pc cs ih =>
    obtain ⟨p, c⟩ := pc
    simp only [futures, add, List.nodup_cons]
    refine ⟨?_, ih _⟩
    intro hmem
    have := futures_ge (q0 ++ [(p, c)]) cs _ hmem
    simp [batch_append, batch_cons_same, batch_nil] at this
    omega

end Olric.Pipeline
