/- Cursor-resumed scanning of one table: every matching slot exactly once. Core-only. -/
import OlricModel.Store.Model
namespace Olric
namespace Table

/-- offsets strictly increase along the slot list (insertion order = offset order) -/
def Sorted (l : List Slot) : Prop := l.Pairwise (fun a b => a.off < b.off)

/-- what one page does to a sorted candidate list -/
theorem scanAux_spec (m : Rec → Bool) (l : List Slot) (count cur : Nat) (acc : List Slot) (hs : Sorted l)
    (hcur : ∀ s ∈ l, cur ≤ s.off) (hcnt : count = 0 → cur ≠ 0) :
    let res := scanAux m l count cur acc
    (res.1 = 0 → res.2 = acc.reverse ++ l.filter (fun s => m s.r)) ∧
    (res.1 ≠ 0 → ∃ l1 l2, l = l1 ++ l2 ∧ res.2 = acc.reverse ++ l1.filter (fun s => m s.r) ∧
        (∀ s ∈ l1, s.off < res.1) ∧ (∀ s ∈ l2, res.1 ≤ s.off) ∧ l2 ≠ [] ∧
        (l1.filter (fun s => m s.r)).length = count ∧ cur ≤ res.1) := by
  induction l generalizing count cur acc with
  | nil => simp [scanAux]
  | cons s rest ih =>
    have hs' : Sorted rest := (List.pairwise_cons.mp hs).2
    have hlt : ∀ x ∈ rest, s.off < x.off := (List.pairwise_cons.mp hs).1
    simp only [scanAux]
    by_cases hc : count = 0
    · subst hc
      simp only [if_true]
      refine ⟨?_, ?_⟩
      · intro h0
        exact absurd h0 (hcnt rfl)
      · intro _
        exact ⟨[], s :: rest, rfl, by simp, by simp, fun x hx => hcur x hx, by simp, by simp, Nat.le_refl _⟩
    · simp only [hc, if_false]
      by_cases hm : m s.r = true
      · simp only [hm, if_true]
        have := ih (count - 1) (s.off + 1) (s :: acc) hs' (fun x hx => by have := hlt x hx; omega) (fun _ => by omega)
        obtain ⟨i1, i2⟩ := this
        refine ⟨?_, ?_⟩
        · intro h0
          rw [i1 h0]; simp [List.filter_cons, hm]
        · intro hne
          obtain ⟨l1, l2, e, ey, h1, h2, h3, h4, h5⟩ := i2 hne
          refine ⟨s :: l1, l2, by rw [e]; rfl, ?_, ?_, h2, h3, ?_, ?_⟩
          · rw [ey]; simp [List.filter_cons, hm]
          · intro x hx
            cases hx with
            | head => omega
            | tail _ hx => exact h1 x hx
          · simp only [List.filter_cons, hm, if_true, List.length_cons, h4]; omega
          · have := hcur s List.mem_cons_self; omega
      · simp only [hm, Bool.false_eq_true, if_false]
        have := ih count cur acc hs' (fun x hx => by have := hlt x hx; have := hcur s List.mem_cons_self; omega) hcnt
        obtain ⟨i1, i2⟩ := this
        refine ⟨?_, ?_⟩
        · intro h0
          rw [i1 h0]; simp [List.filter_cons, hm]
        · intro hne
          obtain ⟨l1, l2, e, ey, h1, h2, h3, h4, h5⟩ := i2 hne
          refine ⟨s :: l1, l2, by rw [e]; rfl, ?_, ?_, h2, h3, ?_, h5⟩
          · rw [ey]; simp [List.filter_cons, hm]
          · intro x hx
            cases hx with
            | head =>
              -- s precedes the first yielded slot, whose offset is below the returned cursor
              have hpos : 0 < (l1.filter (fun s => m s.r)).length := by rw [h4]; omega
              obtain ⟨x, hx⟩ := List.exists_mem_of_length_pos hpos
              have hx1 : x ∈ l1 := (List.mem_filter.mp hx).1
              have hxr : x ∈ rest := by rw [e]; exact List.mem_append_left _ hx1
              have := hlt x hxr
              have := h1 x hx1
              omega
            | tail _ hx => exact h1 x hx
          · simp only [List.filter_cons, hm, Bool.false_eq_true, if_false, h4]

/-- iterate table.Scan from `cursor` until it answers 0, collecting what every page yields -/
def walkTable (m : Rec → Bool) (slots : List Slot) (count : Nat) : Nat → Nat → List Slot
  | 0, _ => []
  | fuel + 1, cursor =>
    let res := scanAux m (slots.filter (fun s => decide (s.off ≥ cursor))) count cursor []
    if res.1 = 0 then res.2 else res.2 ++ walkTable m slots count fuel res.1

theorem filter_ge_of_split (l1 l2 : List Slot) (c : Nat) (h1 : ∀ s ∈ l1, s.off < c) (h2 : ∀ s ∈ l2, c ≤ s.off) :
    (l1 ++ l2).filter (fun s => decide (s.off ≥ c)) = l2 := by
  rw [List.filter_append]
  have e1 : l1.filter (fun s => decide (s.off ≥ c)) = [] := by
    rw [List.filter_eq_nil_iff]; intro s hs; have := h1 s hs; simp; omega
  have e2 : l2.filter (fun s => decide (s.off ≥ c)) = l2 := by
    rw [List.filter_eq_self]; intro s hs; have := h2 s hs; simp; omega
  rw [e1, e2]; rfl

theorem filter_filter_ge (l : List Slot) (a b : Nat) (h : a ≤ b) :
    (l.filter (fun s => decide (s.off ≥ a))).filter (fun s => decide (s.off ≥ b)) =
      l.filter (fun s => decide (s.off ≥ b)) := by
  rw [List.filter_filter]
  apply List.filter_congr
  intro s _
  by_cases hb : s.off ≥ b <;> simp [hb]; omega

/-- **a cursor-resumed walk over one table yields every matching slot exactly once, in order**:
    for every page size ≥ 1, from any cursor, whatever the offsets are (holes left by deletes
    included), within (number of remaining slots + 1) pages. -/
theorem walkTable_complete (m : Rec → Bool) (slots : List Slot) (count : Nat) (hs : Sorted slots)
    (hc : 1 ≤ count) (fuel cursor : Nat)
    (hf : (slots.filter (fun s => decide (s.off ≥ cursor))).length < fuel) :
    walkTable m slots count fuel cursor =
      (slots.filter (fun s => decide (s.off ≥ cursor))).filter (fun s => m s.r) := by
  induction fuel generalizing cursor with
  | zero => omega
  | succ fuel ih =>
    simp only [walkTable]
    have hsc : Sorted (slots.filter (fun s => decide (s.off ≥ cursor))) := hs.sublist List.filter_sublist
    have hge : ∀ s ∈ slots.filter (fun s => decide (s.off ≥ cursor)), cursor ≤ s.off := by
      intro s hs'; have := (List.mem_filter.mp hs').2; simpa using this
    obtain ⟨i1, i2⟩ := scanAux_spec m _ count cursor [] hsc hge (fun h => by omega)
    generalize scanAux m (slots.filter (fun s => decide (s.off ≥ cursor))) count cursor [] = res at i1 i2 ⊢
    split
    · rename_i h0
      rw [i1 h0]; rfl
    · rename_i hne
      obtain ⟨l1, l2, e, ey, h1, h2, h3, h4, h5⟩ := i2 hne
      have hnext : slots.filter (fun s => decide (s.off ≥ res.1)) = l2 := by
        rw [← filter_filter_ge slots cursor _ h5, e]
        exact filter_ge_of_split l1 l2 _ h1 h2
      have hl1 : 0 < l1.length := by
        have : 0 < (l1.filter (fun s => m s.r)).length := by rw [h4]; omega
        exact Nat.lt_of_lt_of_le this (List.length_filter_le _ _)
      rw [ih _ (by rw [hnext]; rw [e, List.length_append] at hf; omega), hnext, ey, e, List.filter_append]
      rfl

end Table
end Olric
