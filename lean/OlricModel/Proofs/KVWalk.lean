/- kvstore.scanCommon iterated from cursor 0: the composition of the per-table walks over the table
   coefficients.  Core-only.

   `ScanInv`: the coefficients of the tables in use are pairwise different and below `nextCf`, and no
   table is written beyond its allocation (so `offset + coefficient * tableSize` decodes uniquely).
   `walkP`: the page loop over a store that does not change; `chainC`: the tables the walk visits
   after coefficient `c` (follow findCoefficient).  `walkP_in_table` / `walkP_zero`: what the loop
   yields, exactly. -/
import OlricModel.Proofs.KVXfer
import OlricModel.Proofs.ScanLemmas
namespace Olric
open Table
namespace KV

def CfDisj (a b : Table) : Prop := isRecycled a = false → isRecycled b = false → a.cf ≠ b.cf

theorem cfDisj_symm {a b : Table} (h : CfDisj a b) : CfDisj b a := fun hb ha e => h ha hb e.symm

structure ScanInv (k : KV) : Prop where
  cfd : k.newestFirst.Pairwise CfDisj
  cfLt : ∀ t ∈ k.newestFirst, isRecycled t = false → t.cf < k.nextCf
  offLe : ∀ t ∈ k.newestFirst, t.off ≤ t.alloc

theorem mem_tables (k : KV) (t : Table) : t ∈ k.tables ↔ t ∈ k.newestFirst := by
  simp only [tables, newestFirst, List.mem_append, List.mem_reverse]
  exact Or.comm

theorem pairwise_mem_symm {α : Type} (R : α → α → Prop) (hs : ∀ a b, R a b → R b a) (ts : List α)
    (hp : ts.Pairwise R) (a b : α) (ha : a ∈ ts) (hb : b ∈ ts) : a = b ∨ R a b := by
  induction ts with
  | nil => cases ha
  | cons t ts ih =>
    rw [List.pairwise_cons] at hp
    cases ha with
    | head =>
      cases hb with
      | head => exact Or.inl rfl
      | tail _ hb => exact Or.inr (hp.1 b hb)
    | tail _ ha =>
      cases hb with
      | head => exact Or.inr (hs _ _ (hp.1 a ha))
      | tail _ hb => exact ih hp.2 ha hb

theorem byCf_mem (k : KV) (cf : Nat) (t : Table) (hb : k.byCf cf = some t) :
    t ∈ k.newestFirst ∧ isRecycled t = false ∧ t.cf = cf := by
  unfold byCf at hb
  have h1 := List.mem_of_find?_eq_some hb
  have h2 := List.find?_some hb
  simp only [Bool.and_eq_true, Bool.not_eq_eq_eq_not, Bool.not_true, beq_iff_eq] at h2
  exact ⟨(mem_tables k t).mp h1, h2.1, h2.2⟩

theorem byCf_some (k : KV) (si : k.ScanInv) (t : Table) (ht : t ∈ k.newestFirst) (hl : isRecycled t = false) :
    k.byCf t.cf = some t := by
  have hsome : (k.byCf t.cf).isSome := by
    unfold byCf
    rw [List.find?_isSome]
    exact ⟨t, (mem_tables k t).mpr ht, by simp [hl]⟩
  obtain ⟨x, hx⟩ := Option.isSome_iff_exists.mp hsome
  obtain ⟨hxm, hxl, hxc⟩ := byCf_mem k t.cf x hx
  rcases pairwise_mem_symm CfDisj (fun _ _ => cfDisj_symm) _ si.cfd x t hxm ht with e | d
  · rw [hx, e]
  · exact absurd hxc (d hxl hl)

theorem byCf_none (k : KV) (cf : Nat) (hb : k.byCf cf = none) :
    ∀ t ∈ k.newestFirst, isRecycled t = false → t.cf ≠ cf := by
  intro t ht hl e
  unfold byCf at hb
  rw [List.find?_eq_none] at hb
  have := hb t ((mem_tables k t).mpr ht)
  simp [hl, e] at this

theorem mem_cfs (k : KV) (n : Nat) : n ∈ k.cfs ↔ ∃ t ∈ k.newestFirst, isRecycled t = false ∧ t.cf = n := by
  simp only [cfs, List.mem_map, List.mem_filter, mem_tables, Bool.not_eq_eq_eq_not, Bool.not_true]
  constructor
  · rintro ⟨t, ⟨a, b⟩, c⟩; exact ⟨t, a, b, c⟩
  · rintro ⟨t, a, b, c⟩; exact ⟨t, ⟨a, b⟩, c⟩

theorem minList_spec (l : List Nat) :
    (minList l = none ↔ l = []) ∧ ∀ n, minList l = some n → n ∈ l ∧ ∀ x ∈ l, n ≤ x := by
  induction l with
  | nil => simp [minList]
  | cons a l ih =>
    obtain ⟨i1, i2⟩ := ih
    constructor
    · simp only [minList]
      cases minList l <;> simp
    · intro n hn
      simp only [minList] at hn
      cases hm : minList l with
      | none =>
        simp only [hm] at hn
        injection hn with hn
        subst hn
        have := i1.mp hm
        subst this
        simp
      | some mn =>
        simp only [hm] at hn
        injection hn with hn
        obtain ⟨j1, j2⟩ := i2 mn hm
        by_cases hle : a ≤ mn
        · simp only [hle, if_true] at hn
          subst hn
          refine ⟨List.mem_cons_self, ?_⟩
          intro x hx
          cases hx with
          | head => exact Nat.le_refl _
          | tail _ hx => exact Nat.le_trans hle (j2 x hx)
        · simp only [hle, if_false] at hn
          subst hn
          refine ⟨List.mem_cons_of_mem _ j1, ?_⟩
          intro x hx
          cases hx with
          | head => omega
          | tail _ hx => exact j2 x hx

/-- findCoefficient: the least registered coefficient above `c`, none iff there is none -/
theorem findCoefficient_spec (k : KV) (c : Nat) :
    (k.findCoefficient c = none ↔ ∀ x ∈ k.cfs, x ≤ c) ∧
    ∀ n, k.findCoefficient c = some n → n ∈ k.cfs ∧ c < n ∧ ∀ x ∈ k.cfs, c < x → n ≤ x := by
  obtain ⟨i1, i2⟩ := minList_spec (k.cfs.filter (· > c))
  unfold findCoefficient
  constructor
  · rw [i1, List.filter_eq_nil_iff]
    constructor
    · intro h x hx; have := h x hx; simp at this; exact this
    · intro h x hx; have := h x hx; simp; exact this
  · intro n hn
    obtain ⟨j1, j2⟩ := i2 n hn
    have := List.mem_filter.mp j1
    refine ⟨this.1, by simpa using this.2, ?_⟩
    intro x hx hcx
    exact j2 x (List.mem_filter.mpr ⟨hx, by simpa using hcx⟩)

/-- number of registered coefficients above `c` -/
def above (k : KV) (c : Nat) : Nat := (k.cfs.filter (· > c)).length

theorem above_lt (k : KV) (c n : Nat) (hn : k.findCoefficient c = some n) : k.above n < k.above c := by
  obtain ⟨hm, hlt, _⟩ := (findCoefficient_spec k c).2 n hn
  unfold above
  have e : k.cfs.filter (· > n) = (k.cfs.filter (· > c)).filter (· > n) := by
    rw [List.filter_filter]
    apply List.filter_congr
    intro x _
    by_cases h : x > n <;> simp [h]; omega
  rw [e]
  apply List.length_filter_lt_length_iff_exists.mpr
  exact ⟨n, List.mem_filter.mpr ⟨hm, by simpa using hlt⟩, by simp⟩

/-- the tables a walk visits after coefficient `c`, in visiting order -/
def chain (k : KV) : Nat → Nat → List Table
  | 0, _ => []
  | f + 1, c =>
    match k.findCoefficient c with
    | none => []
    | some n => match k.byCf n with
      | some t => t :: chain k f n
      | none => []

theorem chain_fuel (k : KV) (F F' c : Nat) (h1 : k.above c ≤ F) (h2 : k.above c ≤ F') : chain k F c = chain k F' c := by
  induction F generalizing F' c with
  | zero =>
    have hz : k.above c = 0 := by omega
    cases F' with
    | zero => rfl
    | succ F' =>
      simp only [chain]
      cases hf : k.findCoefficient c with
      | none => rfl
      | some n => have := above_lt k c n hf; omega
  | succ F ih =>
    cases F' with
    | zero =>
      have hz : k.above c = 0 := by omega
      simp only [chain]
      cases hf : k.findCoefficient c with
      | none => rfl
      | some n => have := above_lt k c n hf; omega
    | succ F' =>
      simp only [chain]
      cases hf : k.findCoefficient c with
      | none => rfl
      | some n =>
        have := above_lt k c n hf
        simp only
        cases k.byCf n with
        | none => rfl
        | some t => simp only; rw [ih F' n (by omega) (by omega)]

def chainC (k : KV) (c : Nat) : List Table := chain k (k.above c) c

theorem chainC_none (k : KV) (c : Nat) (hf : k.findCoefficient c = none) : k.chainC c = [] := by
  unfold chainC
  cases h : k.above c with
  | zero => rfl
  | succ n => simp [chain, hf]

theorem chainC_some (k : KV) (c n : Nat) (t : Table) (hf : k.findCoefficient c = some n) (hb : k.byCf n = some t) :
    k.chainC c = t :: k.chainC n := by
  unfold chainC
  have hlt := above_lt k c n hf
  cases h : k.above c with
  | zero => omega
  | succ a =>
    simp only [chain, hf, hb]
    rw [chain_fuel k a (k.above n) n (by omega) (Nat.le_refl _)]

theorem findCoefficient_byCf (k : KV) (si : k.ScanInv) (c n : Nat) (hf : k.findCoefficient c = some n) :
    ∃ t, k.byCf n = some t := by
  obtain ⟨hm, _, _⟩ := (findCoefficient_spec k c).2 n hf
  obtain ⟨t, ht, hl, e⟩ := (mem_cfs k n).mp hm
  exact ⟨t, e ▸ byCf_some k si t ht hl⟩

/-- what `chainC` contains: exactly the tables in use with a coefficient above `c`, in ascending
    order of coefficient -/
theorem chainC_spec (k : KV) (si : k.ScanInv) (a : Nat) : ∀ c, k.above c ≤ a →
    (∀ x, x ∈ k.chainC c ↔ (x ∈ k.newestFirst ∧ isRecycled x = false ∧ c < x.cf)) ∧
    (k.chainC c).Pairwise (fun x y => x.cf < y.cf) := by
  induction a with
  | zero =>
    intro c hc
    have hn : k.findCoefficient c = none := by
      cases hf : k.findCoefficient c with
      | none => rfl
      | some n => have := above_lt k c n hf; omega
    rw [chainC_none k c hn]
    refine ⟨fun x => ⟨fun h => (by cases h), ?_⟩, List.Pairwise.nil⟩
    rintro ⟨hx, hl, hlt⟩
    have := (findCoefficient_spec k c).1.mp hn x.cf ((mem_cfs k x.cf).mpr ⟨x, hx, hl, rfl⟩)
    omega
  | succ a ih =>
    intro c hc
    cases hf : k.findCoefficient c with
    | none =>
      rw [chainC_none k c hf]
      refine ⟨fun x => ⟨fun h => (by cases h), ?_⟩, List.Pairwise.nil⟩
      rintro ⟨hx, hl, hlt⟩
      have := (findCoefficient_spec k c).1.mp hf x.cf ((mem_cfs k x.cf).mpr ⟨x, hx, hl, rfl⟩)
      omega
    | some n =>
      obtain ⟨t, hb⟩ := findCoefficient_byCf k si c n hf
      obtain ⟨htm, htl, htc⟩ := byCf_mem k n t hb
      obtain ⟨_, hcn, hmin⟩ := (findCoefficient_spec k c).2 n hf
      have hlt := above_lt k c n hf
      obtain ⟨i1, i2⟩ := ih n (by omega)
      rw [chainC_some k c n t hf hb]
      refine ⟨fun x => ?_, ?_⟩
      · rw [List.mem_cons, i1 x]
        constructor
        · rintro (rfl | ⟨h1, h2, h3⟩)
          · exact ⟨htm, htl, by omega⟩
          · exact ⟨h1, h2, by omega⟩
        · rintro ⟨h1, h2, h3⟩
          have hle := hmin x.cf ((mem_cfs k x.cf).mpr ⟨x, h1, h2, rfl⟩) h3
          by_cases e : x.cf = n
          · left
            have := byCf_some k si x h1 h2
            rw [e, hb] at this
            injection this with this; exact this.symm
          · right; exact ⟨h1, h2, by omega⟩
      · rw [List.pairwise_cons]
        refine ⟨fun y hy => ?_, i2⟩
        have := ((i1 y).mp hy).2.2
        omega

/-- the page loop over a store that stays as it is -/
def walkP (k : KV) (m : Rec → Bool) (count : Nat) (now : Nat → Int) : Nat → Nat → List Rec
  | 0, _ => []
  | f + 1, c =>
    let r := k.scan c count m (now f)
    if r.1 = 0 then r.2.1 else r.2.1 ++ walkP k m count now f r.1

def yieldOf (m : Rec → Bool) (t : Table) : List Rec := (t.slots.filter (fun s => m s.r)).map (·.r)

/-- the pages still needed: remaining slots of the current table + 1, plus (slots + 1) of every table after it -/
def restLen (k : KV) (c : Nat) : Nat := ((k.chainC c).map (fun x => x.slots.length + 1)).sum

theorem scan_in_table (k : KV) (cf tc count : Nat) (m : Rec → Bool) (now : Int) (t : Table)
    (hT : 0 < k.tableSize) (htc : tc < k.tableSize) (hb : k.byCf cf = some t) :
    (k.scan (tc + k.tableSize * cf) count m now).1 =
      (let res := scanAux m (t.slots.filter (fun s => decide (s.off ≥ tc))) count tc []
       if res.1 = 0 then (match k.findCoefficient cf with | none => 0 | some n => k.tableSize * n)
       else res.1 + k.tableSize * cf) ∧
    (k.scan (tc + k.tableSize * cf) count m now).2.1 =
      (scanAux m (t.slots.filter (fun s => decide (s.off ≥ tc))) count tc []).2.map (·.r) := by
  have hdiv : (tc + k.tableSize * cf) / k.tableSize = cf := by
    rw [Nat.add_mul_div_left _ _ hT, Nat.div_eq_of_lt htc, Nat.zero_add]
  have hne : k.tableSize ≠ 0 := by omega
  simp only [KV.scan, hne, if_false, hdiv, hb, Nat.add_sub_cancel, Table.scan]
  constructor
  · split
    · split <;> simp_all
    · simp_all
  · split <;> (try split) <;> simp_all

/-- a cursor that points at a coefficient without table behaves as the start of the next table -/
theorem scan_hole (k : KV) (c count : Nat) (m : Rec → Bool) (now : Int) (hT : 0 < k.tableSize)
    (hb : k.byCf (c / k.tableSize) = none) :
    (match k.findCoefficient (c / k.tableSize) with
     | none => (k.scan c count m now).1 = 0 ∧ (k.scan c count m now).2.1 = []
     | some n => (k.byCf n).isSome →
        (k.scan c count m now).1 = (k.scan (0 + k.tableSize * n) count m now).1 ∧
        (k.scan c count m now).2.1 = (k.scan (0 + k.tableSize * n) count m now).2.1) := by
  have hne : k.tableSize ≠ 0 := by omega
  cases hf : k.findCoefficient (c / k.tableSize) with
  | none => simp [KV.scan, hne, hb, hf]
  | some n =>
    simp only
    intro hs
    obtain ⟨t, ht⟩ := Option.isSome_iff_exists.mp hs
    have hdiv : k.tableSize * n / k.tableSize = n := Nat.mul_div_cancel_left n hT
    have h1 : k.scan c count m now = k.scan (0 + k.tableSize * n) count m now := by
      simp only [KV.scan, hne, if_false, hb, hf, ht, hdiv, Option.map_some, Nat.zero_add, Nat.mul_comm n k.tableSize]
    exact ⟨by rw [h1], by rw [h1]⟩

theorem sorted_of_wf (k : KV) (w : k.WF) : ∀ t ∈ k.newestFirst, Table.Sorted t.slots := by
  intro t ht
  have hl := (w.layout t ht).1
  refine hl.imp (fun {a b} hab => ?_)
  have : a.r.size ≥ 29 := by unfold Rec.size; omega
  omega

/-- **the page loop inside table `cf` from in-table cursor `tc`**: the rest of that table, then every
    later table in ascending order of coefficient — each matching entry exactly once. -/
theorem walkP_in_table (k : KV) (w : k.WF) (si : k.ScanInv) (hT : 0 < k.tableSize) (m : Rec → Bool)
    (count : Nat) (hc : 1 ≤ count) (now : Nat → Int) (fuel : Nat) :
    ∀ (cf tc : Nat) (t : Table), k.byCf cf = some t → tc < k.tableSize →
      (t.slots.filter (fun s => decide (s.off ≥ tc))).length + 1 + k.restLen cf ≤ fuel →
      walkP k m count now fuel (tc + k.tableSize * cf) =
        ((t.slots.filter (fun s => decide (s.off ≥ tc))).filter (fun s => m s.r)).map (·.r) ++
          (k.chainC cf).flatMap (yieldOf m) := by
  induction fuel with
  | zero => intro cf tc t _ _ h; omega
  | succ fuel ih =>
    intro cf tc t hb htc hfuel
    obtain ⟨htm, htl, htcf⟩ := byCf_mem k cf t hb
    obtain ⟨p1, p2⟩ := scan_in_table k cf tc count m (now fuel) t hT htc hb
    have hsc : Sorted (t.slots.filter (fun s => decide (s.off ≥ tc))) :=
      (sorted_of_wf k w t htm).sublist List.filter_sublist
    have hge : ∀ s ∈ t.slots.filter (fun s => decide (s.off ≥ tc)), tc ≤ s.off := by
      intro s hs'; have := (List.mem_filter.mp hs').2; simpa using this
    obtain ⟨i1, i2⟩ := scanAux_spec m _ count tc [] hsc hge (fun h => by omega)
    simp only [walkP]
    rw [p2]
    generalize hres : scanAux m (t.slots.filter (fun s => decide (s.off ≥ tc))) count tc [] = res at i1 i2 p1 ⊢
    simp only at p1
    by_cases h0 : res.1 = 0
    · -- this table is exhausted
      have hy := i1 h0
      simp only [List.reverse_nil, List.nil_append] at hy
      rw [if_pos h0] at p1
      cases hf : k.findCoefficient cf with
      | none =>
        rw [hf] at p1
        simp only at p1
        rw [if_pos p1, hy, chainC_none k cf hf]
        simp
      | some n =>
        rw [hf] at p1
        simp only at p1
        obtain ⟨_, hcn, _⟩ := (findCoefficient_spec k cf).2 n hf
        obtain ⟨t2, hb2⟩ := findCoefficient_byCf k si cf n hf
        have hnz : k.tableSize * n ≠ 0 := Nat.mul_ne_zero (by omega) (by omega)
        rw [if_neg (by rw [p1]; exact hnz), p1, hy, chainC_some k cf n t2 hf hb2]
        have hrl : k.restLen cf = t2.slots.length + 1 + k.restLen n := by
          simp only [restLen, chainC_some k cf n t2 hf hb2, List.map_cons, List.sum_cons]
        have hall : t2.slots.filter (fun s => decide (s.off ≥ 0)) = t2.slots := by
          rw [List.filter_eq_self]; intro s _; simp
        have := ih n 0 t2 hb2 hT (by rw [hall]; omega)
        rw [Nat.zero_add] at this
        rw [this, hall]
        simp [yieldOf]
    · -- more of this table
      obtain ⟨l1, l2, e, ey, h1, h2, h3, h4, h5⟩ := i2 h0
      simp only [List.reverse_nil, List.nil_append] at ey
      rw [if_neg h0] at p1
      have hnz : res.1 + k.tableSize * cf ≠ 0 := by omega
      rw [if_neg (by rw [p1]; exact hnz), p1, ey]
      have hnext : t.slots.filter (fun s => decide (s.off ≥ res.1)) = l2 := by
        rw [← filter_filter_ge t.slots tc _ h5, e]
        exact filter_ge_of_split l1 l2 _ h1 h2
      have hl1 : 0 < l1.length := by
        have : 0 < (l1.filter (fun s => m s.r)).length := by rw [h4]; omega
        exact Nat.lt_of_lt_of_le this (List.length_filter_le _ _)
      have hlt : res.1 < k.tableSize := by
        obtain ⟨s, hs⟩ := List.exists_mem_of_ne_nil l2 h3
        have hle := h2 s hs
        have hsm : s ∈ t.slots := by
          have : s ∈ t.slots.filter (fun s => decide (s.off ≥ tc)) := by rw [e]; exact List.mem_append_right _ hs
          exact (List.mem_filter.mp this).1
        have hlay := (w.layout t htm).2 s hsm
        have hoff := si.offLe t htm
        have hal := w.alloc t htm
        have : s.r.size ≥ 29 := by unfold Rec.size; omega
        omega
      have := ih cf res.1 t hb hlt (by
        rw [hnext]
        have : (t.slots.filter (fun s => decide (s.off ≥ tc))).length = l1.length + l2.length := by
          rw [e, List.length_append]
        omega)
      rw [this, hnext, e, List.filter_append, List.map_append, List.append_assoc]

/-- the tables a walk from cursor 0 visits -/
def startTables (k : KV) : List Table :=
  (match k.byCf 0 with | some t => [t] | none => []) ++ k.chainC 0

def totalLen (k : KV) : Nat := ((k.startTables).map (fun x => x.slots.length + 1)).sum

/-- **the page loop from cursor 0**: every table in use, in ascending order of coefficient, each
    matching entry exactly once; within (entries + tables + 1) pages. -/
theorem walkP_zero (k : KV) (w : k.WF) (si : k.ScanInv) (hT : 0 < k.tableSize) (m : Rec → Bool)
    (count : Nat) (hc : 1 ≤ count) (now : Nat → Int) (fuel : Nat) (hfuel : k.totalLen + 1 ≤ fuel) :
    walkP k m count now fuel 0 = (k.startTables).flatMap (yieldOf m) := by
  cases hb : k.byCf 0 with
  | some t =>
    have hall : t.slots.filter (fun s => decide (s.off ≥ 0)) = t.slots := by
      rw [List.filter_eq_self]; intro s _; simp
    have := walkP_in_table k w si hT m count hc now fuel 0 0 t hb hT (by
      rw [hall]
      simp only [totalLen, startTables, hb, List.map_append, List.map_cons, List.map_nil, List.sum_append,
        List.sum_cons, List.sum_nil] at hfuel
      simp only [restLen]; omega)
    simp only [Nat.mul_zero, Nat.add_zero] at this
    rw [this, hall]
    simp [startTables, hb, yieldOf]
  | none =>
    cases fuel with
    | zero => omega
    | succ fuel =>
      have hdiv : 0 / k.tableSize = 0 := Nat.zero_div _
      have hh := scan_hole k 0 count m (now fuel) hT (by rw [hdiv]; exact hb)
      rw [hdiv] at hh
      cases hf : k.findCoefficient 0 with
      | none =>
        rw [hf] at hh
        simp only at hh
        simp only [walkP, hh.1, hh.2, if_true, startTables, hb, chainC_none k 0 hf]
        rfl
      | some n =>
        rw [hf] at hh
        simp only at hh
        obtain ⟨t2, hb2⟩ := findCoefficient_byCf k si 0 n hf
        obtain ⟨e1, e2⟩ := hh (by simp [hb2])
        have hall : t2.slots.filter (fun s => decide (s.off ≥ 0)) = t2.slots := by
          rw [List.filter_eq_self]; intro s _; simp
        have hstep : walkP k m count now (fuel + 1) 0 = walkP k m count now (fuel + 1) (0 + k.tableSize * n) := by
          simp only [walkP, e1, e2]
        rw [hstep]
        have := walkP_in_table k w si hT m count hc now (fuel + 1) n 0 t2 hb2 hT (by
          rw [hall]
          simp only [totalLen, startTables, hb, chainC_some k 0 n t2 hf hb2, List.nil_append, List.map_cons,
            List.sum_cons] at hfuel
          simp only [restLen]; omega)
        rw [this, hall]
        simp [startTables, hb, chainC_some k 0 n t2 hf hb2, yieldOf]

/-- the tables visited are exactly the tables in use, each once -/
theorem startTables_spec (k : KV) (si : k.ScanInv) :
    (∀ x, x ∈ k.startTables ↔ (x ∈ k.newestFirst ∧ isRecycled x = false)) ∧
    (k.startTables).Pairwise (fun x y => x.cf < y.cf) := by
  obtain ⟨i1, i2⟩ := chainC_spec k si (k.above 0) 0 (Nat.le_refl _)
  cases hb : k.byCf 0 with
  | some t =>
    obtain ⟨htm, htl, htc⟩ := byCf_mem k 0 t hb
    simp only [startTables, hb, List.cons_append, List.nil_append]
    refine ⟨fun x => ?_, ?_⟩
    · rw [List.mem_cons, i1 x]
      constructor
      · rintro (rfl | ⟨a, b, _⟩)
        · exact ⟨htm, htl⟩
        · exact ⟨a, b⟩
      · rintro ⟨a, b⟩
        by_cases e : x.cf = 0
        · left
          have := byCf_some k si x a b
          rw [e, hb] at this
          injection this with this; exact this.symm
        · right; exact ⟨a, b, by omega⟩
    · rw [List.pairwise_cons]
      exact ⟨fun y hy => by have := ((i1 y).mp hy).2.2; omega, i2⟩
  | none =>
    simp only [startTables, hb, List.nil_append]
    refine ⟨fun x => ?_, i2⟩
    rw [i1 x]
    constructor
    · rintro ⟨a, b, _⟩; exact ⟨a, b⟩
    · rintro ⟨a, b⟩
      have := byCf_none k 0 hb x a b
      exact ⟨a, b, by omega⟩

end KV
end Olric
