/- delete / get / updateTTL / touchAll: under the uniqueness invariant "apply to the newest version"
   is "apply to every table", which makes refinement and invariant preservation uniform. Core-only. -/
import OlricModel.Proofs.KVPut
namespace Olric
open Table
namespace KV

def mapAll (k : KV) (g : Table → Table) : KV := { k with head := k.head.map g, old := k.old.map g }

theorem newestFirst_mapAll (k : KV) (g : Table → Table) : (k.mapAll g).newestFirst = k.newestFirst.map g := by
  unfold mapAll newestFirst; cases k.head <;> simp

theorem setNewestFirst_map (k : KV) (g : Table → Table) : k.setNewestFirst (k.newestFirst.map g) = k.mapAll g := by
  unfold setNewestFirst mapAll newestFirst
  cases k.head <;> simp

theorem findIn_none_of_disj (t : Table) (ts : List Table) (h : Nat) (hd : ∀ b ∈ ts, Disj t b) (ht : t.find h ≠ none) :
    findIn ts h = none := by
  induction ts with
  | nil => rfl
  | cons b ts ih =>
    have := hd b List.mem_cons_self h
    have hb : b.find h = none := by rcases this with x | x; exact absurd x ht; exact x
    simp only [findIn_cons, hb]
    exact ih (fun c hc => hd c (List.mem_cons_of_mem _ hc))

theorem map_id_of_find_none (g : Table → Table) (ts : List Table) (h : Nat)
    (hg : ∀ t, t.find h = none → g t = t) (hn : ∀ t ∈ ts, t.find h = none) : ts.map g = ts := by
  induction ts with
  | nil => rfl
  | cons b ts ih =>
    simp only [List.map_cons, hg b (hn b List.mem_cons_self), ih (fun t ht => hn t (List.mem_cons_of_mem _ ht))]

theorem all_none_of_findIn_none (ts : List Table) (h : Nat) (hf : findIn ts h = none) : ∀ t ∈ ts, t.find h = none := by
  induction ts with
  | nil => intro t ht; cases ht
  | cons b ts ih =>
    simp only [findIn_cons] at hf
    intro t ht
    cases hb : b.find h with
    | some s => simp [hb] at hf
    | none =>
      simp only [hb] at hf
      cases ht with
      | head => exact hb
      | tail _ ht => exact ih hf t ht

theorem onFirst_eq_map (f : Table → Option Table) (g : Table → Table) (h : Nat) (ts : List Table)
    (hnone : ∀ t, t.find h = none → f t = none ∧ g t = t)
    (hsome : ∀ t, t.find h ≠ none → f t = some (g t))
    (hp : ts.Pairwise Disj) :
    onFirst f ts = if (findIn ts h).isSome then some (ts.map g) else none := by
  induction ts with
  | nil => simp [onFirst, findIn]
  | cons t ts ih =>
    rw [List.pairwise_cons] at hp
    cases ht : t.find h with
    | none =>
      obtain ⟨f0, g0⟩ := hnone t ht
      simp only [onFirst, f0, findIn_cons, ht, ih hp.2, List.map_cons, g0]
      split <;> simp
    | some s =>
      have hne : t.find h ≠ none := by simp [ht]
      have hrest := findIn_none_of_disj t ts h hp.1 hne
      have hid : ts.map g = ts :=
        map_id_of_find_none g ts h (fun t ht => (hnone t ht).2) (all_none_of_findIn_none ts h hrest)
      simp [onFirst, hsome t hne, findIn_cons, ht, hid]

/-- conditions under which mapping `g` over every table keeps the store invariant -/
structure Stable (g : Table → Table) : Prop where
  state : ∀ t, (g t).state = t.state
  alloc : ∀ t, (g t).alloc = t.alloc
  off : ∀ t, (g t).off = t.off
  nil : ∀ t, t.slots = [] → (g t).slots = []
  none : ∀ t h, t.find h = none → (g t).find h = none
  nodup : ∀ t, (keys t).Nodup → (keys (g t)).Nodup
  acct : ∀ t, (keys t).Nodup → t.inuse = sumSize t.slots → (g t).inuse = sumSize (g t).slots
  fits : ∀ t n, (∀ s ∈ t.slots, s.r.size < n ∧ s.r.key.length < 256) → ∀ s ∈ (g t).slots, s.r.size < n ∧ s.r.key.length < 256
  tot : ∀ t, (keys t).Nodup → t.inuse = sumSize t.slots → t.inuse + t.garbage = t.off →
    (g t).inuse + (g t).garbage = (g t).off
  layout : ∀ t, t.Layout → (g t).Layout

theorem mapAll_wf (k : KV) (w : k.WF) (g : Table → Table) (sg : Stable g) : (k.mapAll g).WF := by
  refine ⟨?_, ?_, ?_, ?_, ?_, ?_, ?_, ?_, ?_, ?_, ?_⟩
  · intro t ht hr
    simp only [mapAll, List.mem_map] at ht
    obtain ⟨x, hx, rfl⟩ := ht
    exact sg.nil x (w.recEmpty x hx (by simpa [isRecycled, sg.state] using hr))
  · have := w.unique
    unfold Unique at this ⊢
    rw [newestFirst_mapAll, List.pairwise_map]
    exact this.imp (fun {a b} d h => by
      rcases d h with x | x
      · exact Or.inl (sg.none a h x)
      · exact Or.inr (sg.none b h x))
  · intro t ht
    simp only [mapAll, Option.map_eq_some_iff] at ht
    obtain ⟨x, hx, rfl⟩ := ht
    rw [sg.state]; exact w.headRW x hx
  · intro t ht
    simp only [mapAll, List.mem_map] at ht
    obtain ⟨x, hx, rfl⟩ := ht
    rw [sg.state]; exact w.oldNotRW x hx
  · intro t ht
    rw [newestFirst_mapAll, List.mem_map] at ht
    obtain ⟨x, hx, rfl⟩ := ht
    rw [sg.alloc]; exact w.alloc x hx
  · intro t ht hr
    simp only [mapAll, List.mem_map] at ht
    obtain ⟨x, hx, rfl⟩ := ht
    rw [sg.off]; exact w.recOff x hx (by simpa [isRecycled, sg.state] using hr)
  · intro t ht
    rw [newestFirst_mapAll, List.mem_map] at ht
    obtain ⟨x, hx, rfl⟩ := ht
    exact sg.nodup x (w.nodup x hx)
  · intro t ht
    rw [newestFirst_mapAll, List.mem_map] at ht
    obtain ⟨x, hx, rfl⟩ := ht
    exact sg.acct x (w.nodup x hx) (w.acct x hx)
  · intro t ht
    rw [newestFirst_mapAll, List.mem_map] at ht
    obtain ⟨x, hx, rfl⟩ := ht
    exact sg.fits x _ (w.fits x hx)
  · intro t ht
    rw [newestFirst_mapAll, List.mem_map] at ht
    obtain ⟨x, hx, rfl⟩ := ht
    exact sg.tot x (w.nodup x hx) (w.acct x hx) (w.tot x hx)
  · intro t ht
    rw [newestFirst_mapAll, List.mem_map] at ht
    obtain ⟨x, hx, rfl⟩ := ht
    exact sg.layout x (w.layout x hx)

theorem stable_deleteD (h : Nat) : Stable (fun t => t.deleteD h) where
  state t := deleteD_state t h
  alloc t := deleteD_alloc t h
  off t := deleteD_off t h
  nil t ht := by rw [deleteD_slots, ht]; rfl
  none t g hg := by rw [find_deleteD]; split <;> simp [hg]
  nodup t hn := by
    simp only [keys, deleteD_slots]
    exact hn.sublist ((List.filter_sublist).map _)
  acct t hn ha := deleteD_acct t h hn ha
  fits t n hfit s hs := by
    rw [deleteD_slots] at hs
    exact hfit s (List.mem_filter.mp hs).1
  tot t hn ha ht := deleteD_tot t h hn ha ht
  layout t hl := layout_deleteD t h hl

/-- in-place update of the record stored under `h` (touch, UpdateTTL) -/
def updRec (h : Nat) (f : Rec → Rec) (t : Table) : Table :=
  { t with slots := t.slots.map (fun s => if s.hk == h then { s with r := f s.r } else s) }

theorem find_updRec (h : Nat) (f : Rec → Rec) (t : Table) (h' : Nat) :
    (updRec h f t).find h' = (t.find h').map (fun s => if s.hk == h then { s with r := f s.r } else s) :=
  find?_map_upd t.slots h h' f

theorem keys_updRec (h : Nat) (f : Rec → Rec) (t : Table) : keys (updRec h f t) = keys t := by
  simp only [keys, updRec, List.map_map]
  apply List.map_congr_left
  intro s _
  simp only [Function.comp]
  split <;> rfl

theorem stable_updRec (h : Nat) (f : Rec → Rec) (hf : ∀ r, (f r).size = r.size) (hfk : ∀ r, (f r).key = r.key) : Stable (updRec h f) where
  state _ := rfl
  alloc _ := rfl
  off _ := rfl
  nil t ht := by simp [updRec, ht]
  none t g hg := by rw [find_updRec, hg]; rfl
  nodup t hn := by rw [keys_updRec]; exact hn
  acct t _ ha := by
    show t.inuse = _
    rw [ha]
    simp only [updRec, sumSize, List.map_map]
    congr 1
    apply List.map_congr_left
    intro s _
    simp only [Function.comp]
    split
    · exact (hf s.r).symm
    · rfl
  fits t n hfit s hs := by
    simp only [updRec, List.mem_map] at hs
    obtain ⟨x, hx, rfl⟩ := hs
    split
    · simp only [hf, hfk]; exact hfit x hx
    · exact hfit x hx
  tot t _ _ ht := ht
  layout t hl := by
    unfold Table.Layout updRec at *
    simp only [List.pairwise_map, List.mem_map]
    refine ⟨hl.1.imp (fun {a b} hab => ?_), ?_⟩
    · split <;> split <;> (try simp only [hf]) <;> exact hab
    · rintro s ⟨x, hx, rfl⟩
      split
      · simp only [hf]; exact hl.2 x hx
      · exact hl.2 x hx

theorem updRec_id_of_none (h : Nat) (f : Rec → Rec) (t : Table) (hn : t.find h = none) : updRec h f t = t := by
  have : ∀ s ∈ t.slots, (s.hk == h) = false := by
    intro s hs
    have := List.find?_eq_none.mp hn s hs
    simpa using this
  unfold updRec
  have e : t.slots.map (fun s => if s.hk == h then { s with r := f s.r } else s) = t.slots := by
    conv => rhs; rw [← List.map_id t.slots]
    apply List.map_congr_left
    intro s hs
    simp [this s hs]
  rw [e]

theorem touch_eq_updRec (t : Table) (h : Nat) (now : Int) : t.touch h now = updRec h (fun r => { r with la := now }) t := rfl

/-- kvstore.Delete, as a step of the map: the key is gone, nothing else moves. -/
theorem delete_spec (k : KV) (w : k.WF) (h : Nat) :
    (k.delete h).WF ∧ (k.delete h).tableSize = k.tableSize ∧
    ∀ h', (k.delete h).lookup h' = if h' = h then none else k.lookup h' := by
  have key : onFirst (fun t => t.delete h) k.newestFirst =
      if (findIn k.newestFirst h).isSome then some (k.newestFirst.map (fun t => t.deleteD h)) else none := by
    apply onFirst_eq_map _ _ h _ _ _ w.unique
    · intro t ht; simp [Table.delete, deleteD, ht]
    · intro t ht
      cases hf : t.find h with
      | none => exact absurd hf ht
      | some s => simp [deleteD, Table.delete, hf]
  unfold delete
  rw [key]
  cases hf : findIn k.newestFirst h with
  | none =>
    simp only [Option.isSome_none]
    refine ⟨w, rfl, ?_⟩
    intro h'
    by_cases e : h' = h
    · subst e; simp [lookup, hf]
    · simp [e]
  | some s =>
    simp only [Option.isSome_some, if_true, setNewestFirst_map]
    refine ⟨mapAll_wf k w _ (stable_deleteD h), rfl, ?_⟩
    intro h'
    simp only [lookup, newestFirst_mapAll, findIn_map_deleteD]
    by_cases e : h' = h <;> simp [e]

theorem findIn_map_updRec (ts : List Table) (h : Nat) (f : Rec → Rec) (h' : Nat) :
    findIn (ts.map (updRec h f)) h' =
      (findIn ts h').map (fun s => if s.hk == h then { s with r := f s.r } else s) := by
  induction ts with
  | nil => rfl
  | cons t ts ih =>
    simp only [List.map_cons, findIn_cons, find_updRec, ih]
    cases t.find h' <;> simp

theorem findIn_hk (ts : List Table) (h : Nat) (s : Slot) (hf : findIn ts h = some s) : s.hk = h := by
  induction ts with
  | nil => cases hf
  | cons t ts ih =>
    simp only [findIn_cons] at hf
    cases ht : t.find h with
    | none => simp only [ht] at hf; exact ih hf
    | some x => simp only [ht] at hf; injection hf with hf; subst hf; exact find_hk t h x ht

theorem lookup_mapAll_updRec (k : KV) (h : Nat) (f : Rec → Rec) (h' : Nat) :
    (k.mapAll (updRec h f)).lookup h' = if h' = h then (k.lookup h').map f else k.lookup h' := by
  simp only [lookup, newestFirst_mapAll, findIn_map_updRec]
  cases hf : findIn k.newestFirst h' with
  | none => simp
  | some s =>
    have := findIn_hk _ _ _ hf
    by_cases e : h' = h
    · subst e; simp [this]
    · have : ¬ (s.hk = h) := by rw [this]; exact e
      simp [e, this]

/-- kvstore.Get: returns the stored record; the only effect is the lastAccess stamp of that key. -/
theorem get_spec (k : KV) (w : k.WF) (h : Nat) (now : Int) :
    (k.get h now).1 = k.lookup h ∧ (k.get h now).2.WF ∧ (k.get h now).2.tableSize = k.tableSize ∧
    ∀ h', (k.get h now).2.lookup h' =
      if h' = h then (k.lookup h').map (fun r => { r with la := now }) else k.lookup h' := by
  have key : onFirst (fun t => (t.get h now).map (·.2)) k.newestFirst =
      if (findIn k.newestFirst h).isSome then some (k.newestFirst.map (updRec h (fun r => { r with la := now }))) else none := by
    apply onFirst_eq_map _ _ h _ _ _ w.unique
    · intro t ht
      exact ⟨by simp [Table.get, ht], updRec_id_of_none _ _ t ht⟩
    · intro t ht
      cases hf : t.find h with
      | none => exact absurd hf ht
      | some s => simp [Table.get, hf, touch_eq_updRec]
  unfold get
  rw [key]
  cases hf : findIn k.newestFirst h with
  | none =>
    simp only [Option.isSome_none]
    refine ⟨by simp [lookup, hf], w, rfl, ?_⟩
    intro h'
    by_cases e : h' = h
    · subst e; simp [lookup, hf]
    · simp [e]
  | some s =>
    simp only [Option.isSome_some, if_true, setNewestFirst_map]
    exact ⟨trivial, mapAll_wf k w _ (stable_updRec h _ (fun _ => rfl) (fun _ => rfl)), rfl, lookup_mapAll_updRec k h _⟩

/-- kvstore.UpdateTTL: not-found iff the key is absent; otherwise ttl/timestamp/lastAccess of that key only. -/
theorem updateTTL_spec (k : KV) (w : k.WF) (h : Nat) (ttl ts now : Int) :
    ((k.updateTTL h ttl ts now).2 = (k.lookup h).isSome) ∧ (k.updateTTL h ttl ts now).1.WF ∧
    (k.updateTTL h ttl ts now).1.tableSize = k.tableSize ∧
    ∀ h', (k.updateTTL h ttl ts now).1.lookup h' =
      if h' = h then (k.lookup h').map (fun r => { r with ttl := ttl, ts := ts, la := now }) else k.lookup h' := by
  have key : onFirst (fun t => t.updateTTL h ttl ts now) k.newestFirst =
      if (findIn k.newestFirst h).isSome then
        some (k.newestFirst.map (updRec h (fun r => { r with ttl := ttl, ts := ts, la := now }))) else none := by
    apply onFirst_eq_map _ _ h _ _ _ w.unique
    · intro t ht
      exact ⟨by simp [Table.updateTTL, ht], updRec_id_of_none _ _ t ht⟩
    · intro t ht
      cases hf : t.find h with
      | none => exact absurd hf ht
      | some s => simp [Table.updateTTL, hf, updRec]
  unfold updateTTL
  rw [key]
  cases hf : findIn k.newestFirst h with
  | none =>
    simp only [Option.isSome_none]
    refine ⟨by simp [lookup, hf], w, rfl, ?_⟩
    intro h'
    by_cases e : h' = h
    · subst e; simp [lookup, hf]
    · simp [e]
  | some s =>
    simp only [Option.isSome_some, if_true, setNewestFirst_map]
    exact ⟨by simp [lookup, hf], mapAll_wf k w _ (stable_updRec h _ (fun _ => rfl) (fun _ => rfl)), rfl, lookup_mapAll_updRec k h _⟩

end KV
end Olric
