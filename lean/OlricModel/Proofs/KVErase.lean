/- The page loop with the store threaded through (every page stamps lastAccess on what it yields)
   yields what the loop over the unchanged store yields, lastAccess aside. Core-only. -/
import OlricModel.Proofs.KVWalk
namespace Olric
open Table

def Rec.er (r : Rec) : Rec := { r with la := 0 }
def Slot.er (s : Slot) : Slot := { s with r := s.r.er }
def Table.er (t : Table) : Table := { t with slots := t.slots.map Slot.er }

/-- the pattern looks at the key (not at lastAccess) -/
def LaInd (m : Rec → Bool) : Prop := ∀ r : Rec, m r.er = m r

theorem Rec.core_er (r : Rec) : r.er.core = r.core := rfl

namespace Table

theorem scanAux_er (m : Rec → Bool) (hm : LaInd m) (l : List Slot) (count cur : Nat) (acc : List Slot) :
    scanAux m (l.map Slot.er) count cur (acc.map Slot.er) =
      ((scanAux m l count cur acc).1, (scanAux m l count cur acc).2.map Slot.er) := by
  induction l generalizing count cur acc with
  | nil => simp [scanAux, List.map_reverse]
  | cons s rest ih =>
    simp only [List.map_cons, scanAux]
    by_cases hc : count = 0
    · simp [hc, List.map_reverse]
    · simp only [hc, if_false]
      have hms : m (Slot.er s).r = m s.r := hm s.r
      have hso : (Slot.er s).off = s.off := rfl
      rw [hms, hso]
      by_cases h : m s.r = true
      · simp only [h, if_true]
        have := ih (count - 1) (s.off + 1) (s :: acc)
        simpa using this
      · simp only [h, Bool.false_eq_true, if_false]
        exact ih count cur acc

theorem touch_er (t : Table) (h : Nat) (now : Int) : (t.touch h now).er = t.er := by
  simp only [Table.er, touch, List.map_map]
  congr 1
  apply List.map_congr_left
  intro s _
  simp only [Function.comp]
  split <;> rfl

theorem foldl_touch_er (ys : List Slot) (t : Table) (now : Int) :
    (ys.foldl (fun t s => t.touch s.hk now) t).er = t.er := by
  induction ys generalizing t with
  | nil => rfl
  | cons y ys ih => simp only [List.foldl_cons]; rw [ih, touch_er]

theorem scan_er (t : Table) (cursor count : Nat) (m : Rec → Bool) (hm : LaInd m) (now : Int) :
    (t.er.scan cursor count m now).1 = (t.scan cursor count m now).1 ∧
    (t.er.scan cursor count m now).2.1.map Rec.er = (t.scan cursor count m now).2.1.map Rec.er ∧
    (t.scan cursor count m now).2.2.er = t.er := by
  have hf : t.er.slots.filter (fun s => decide (s.off ≥ cursor)) =
      (t.slots.filter (fun s => decide (s.off ≥ cursor))).map Slot.er := by
    simp only [Table.er, List.filter_map]
    rfl
  have := scanAux_er m hm (t.slots.filter (fun s => decide (s.off ≥ cursor))) count cursor []
  simp only [List.map_nil] at this
  simp only [Table.scan]
  rw [hf, this]
  refine ⟨rfl, ?_, foldl_touch_er _ _ _⟩
  simp only [List.map_map]
  apply List.map_congr_left
  intro s _
  rfl

end Table

namespace KV

def er (k : KV) : KV := { k with head := k.head.map Table.er, old := k.old.map Table.er }

theorem er_newestFirst (k : KV) : k.er.newestFirst = k.newestFirst.map Table.er := by
  simp only [er, newestFirst]; cases k.head <;> simp

theorem er_tables (k : KV) : k.er.tables = k.tables.map Table.er := by
  simp only [er, tables]; cases k.head <;> simp

theorem er_isRecycled (t : Table) : isRecycled t.er = isRecycled t := rfl

theorem er_cfs (k : KV) : k.er.cfs = k.cfs := by
  simp only [cfs, er_tables, List.filter_map, List.map_map]
  rfl

theorem er_findCoefficient (k : KV) (c : Nat) : k.er.findCoefficient c = k.findCoefficient c := by
  simp only [findCoefficient, er_cfs]

theorem er_byCf (k : KV) (cf : Nat) : k.er.byCf cf = (k.byCf cf).map Table.er := by
  simp only [byCf, er_tables, List.find?_map]
  rfl

theorem er_tableSize (k : KV) : k.er.tableSize = k.tableSize := rfl

/-- one page on the erased store: same cursor, same records (lastAccess aside) -/
theorem scan_er (k : KV) (c count : Nat) (m : Rec → Bool) (hm : LaInd m) (now : Int) :
    (k.er.scan c count m now).1 = (k.scan c count m now).1 ∧
    (k.er.scan c count m now).2.1.map Rec.er = (k.scan c count m now).2.1.map Rec.er := by
  by_cases hT : k.tableSize = 0
  · simp [KV.scan, er_tableSize, hT]
  · have key : ∀ (t : Table) (cf cur : Nat),
        ((let x := t.er.scan (cur - k.tableSize * cf) count m now
          if x.1 = 0 then (match k.findCoefficient cf with
            | none => (0, x.2.1, k.er.mapCf cf (fun _ => x.2.2))
            | some n => (k.tableSize * n, x.2.1, k.er.mapCf cf (fun _ => x.2.2)))
          else (x.1 + k.tableSize * cf, x.2.1, k.er.mapCf cf (fun _ => x.2.2))) : Nat × List Rec × KV).1 =
        ((let x := t.scan (cur - k.tableSize * cf) count m now
          if x.1 = 0 then (match k.findCoefficient cf with
            | none => (0, x.2.1, k.mapCf cf (fun _ => x.2.2))
            | some n => (k.tableSize * n, x.2.1, k.mapCf cf (fun _ => x.2.2)))
          else (x.1 + k.tableSize * cf, x.2.1, k.mapCf cf (fun _ => x.2.2))) : Nat × List Rec × KV).1 ∧
        ((let x := t.er.scan (cur - k.tableSize * cf) count m now
          if x.1 = 0 then (match k.findCoefficient cf with
            | none => (0, x.2.1, k.er.mapCf cf (fun _ => x.2.2))
            | some n => (k.tableSize * n, x.2.1, k.er.mapCf cf (fun _ => x.2.2)))
          else (x.1 + k.tableSize * cf, x.2.1, k.er.mapCf cf (fun _ => x.2.2))) : Nat × List Rec × KV).2.1.map Rec.er =
        ((let x := t.scan (cur - k.tableSize * cf) count m now
          if x.1 = 0 then (match k.findCoefficient cf with
            | none => (0, x.2.1, k.mapCf cf (fun _ => x.2.2))
            | some n => (k.tableSize * n, x.2.1, k.mapCf cf (fun _ => x.2.2)))
          else (x.1 + k.tableSize * cf, x.2.1, k.mapCf cf (fun _ => x.2.2))) : Nat × List Rec × KV).2.1.map Rec.er := by
      intro t cf cur
      obtain ⟨e1, e2, _⟩ := Table.scan_er t (cur - k.tableSize * cf) count m hm now
      simp only
      rw [e1]
      split
      · split <;> exact ⟨rfl, e2⟩
      · exact ⟨rfl, e2⟩
    simp only [KV.scan, er_tableSize, hT, if_false, er_byCf, er_findCoefficient]
    cases hb : k.byCf (c / k.tableSize) with
    | some t => simp only [Option.map_some]; exact key t _ _
    | none =>
      simp only [Option.map_none]
      cases hf : k.findCoefficient (c / k.tableSize) with
      | none => exact ⟨rfl, rfl⟩
      | some cf' =>
        simp only
        cases hb2 : k.byCf cf' with
        | none => exact ⟨rfl, rfl⟩
        | some t => simp only [Option.map_some]; exact key t _ _

/-- two stores that differ in lastAccess stamps only answer a page alike -/
theorem scan_congr (k1 k2 : KV) (he : k1.er = k2.er) (c count : Nat) (m : Rec → Bool) (hm : LaInd m) (now : Int) :
    (k1.scan c count m now).1 = (k2.scan c count m now).1 ∧
    (k1.scan c count m now).2.1.map Rec.er = (k2.scan c count m now).2.1.map Rec.er := by
  obtain ⟨a1, b1⟩ := scan_er k1 c count m hm now
  obtain ⟨a2, b2⟩ := scan_er k2 c count m hm now
  rw [he] at a1 b1
  exact ⟨a1.symm.trans a2, b1.symm.trans b2⟩

def CfUnique (k : KV) : Prop := k.newestFirst.Pairwise CfDisj

theorem cfUnique_er (k : KV) : CfUnique k.er ↔ CfUnique k := by
  simp only [CfUnique, er_newestFirst, List.pairwise_map]
  exact Iff.rfl

theorem cfUnique_of_er_eq (k1 k2 : KV) (he : k1.er = k2.er) (h : CfUnique k1) : CfUnique k2 := by
  rw [← cfUnique_er] at h ⊢; rw [← he]; exact h

theorem byCf_unique (k : KV) (cu : CfUnique k) (cf : Nat) (t x : Table) (hb : k.byCf cf = some t)
    (hx : x ∈ k.newestFirst) (hl : isRecycled x = false) (hc : x.cf = cf) : x = t := by
  obtain ⟨htm, htl, htc⟩ := byCf_mem k cf t hb
  rcases pairwise_mem_symm CfDisj (fun _ _ => cfDisj_symm) _ cu x t hx htm with e | d
  · exact e
  · exact absurd (hc.trans htc.symm) (d hl htl)

/-- a page leaves the store as it was, lastAccess aside -/
theorem scan_state_er (k : KV) (cu : CfUnique k) (c count : Nat) (m : Rec → Bool) (hm : LaInd m) (now : Int) :
    (k.scan c count m now).2.2.er = k.er := by
  have key : ∀ (t : Table) (cf : Nat) (t' : Table), k.byCf cf = some t → t'.er = t.er →
      (k.mapCf cf (fun _ => t')).er = k.er := by
    intro t cf t' hb he
    have hg : ∀ x ∈ k.newestFirst, (if (!isRecycled x && x.cf == cf) = true then t' else x).er = x.er := by
      intro x hx
      split
      · rename_i hc
        simp only [Bool.and_eq_true, Bool.not_eq_eq_eq_not, Bool.not_true, beq_iff_eq] at hc
        rw [byCf_unique k cu cf t x hb hx hc.1 hc.2, he]
      · rfl
    have h1 : (k.head.map (fun x => if (!isRecycled x && x.cf == cf) = true then t' else x)).map Table.er =
        k.head.map Table.er := by
      cases hh : k.head with
      | none => rfl
      | some hd => simp only [Option.map_some]; rw [hg hd (by simp [newestFirst, hh])]
    have h2 : (k.old.map (fun x => if (!isRecycled x && x.cf == cf) = true then t' else x)).map Table.er =
        k.old.map Table.er := by
      rw [List.map_map]
      apply List.map_congr_left
      intro x hx
      exact hg x (by simp [newestFirst, hx])
    simp only [mapCf, er, h1, h2]
  by_cases hT : k.tableSize = 0
  · simp [KV.scan, hT]
  · simp only [KV.scan, hT, if_false]
    cases hb : k.byCf (c / k.tableSize) with
    | some t =>
      simp only
      have he := (Table.scan_er t (c - k.tableSize * (c / k.tableSize)) count m hm now).2.2
      split
      · split <;> exact key t _ _ hb he
      · exact key t _ _ hb he
    | none =>
      simp only
      cases hf : k.findCoefficient (c / k.tableSize) with
      | none => rfl
      | some cf' =>
        simp only
        cases hb2 : k.byCf cf' with
        | none => rfl
        | some t =>
          simp only [Option.map_some]
          have he := (Table.scan_er t (cf' * k.tableSize - k.tableSize * cf') count m hm now).2.2
          split
          · split <;> exact key t _ _ hb2 he
          · exact key t _ _ hb2 he

/-- the page loop as it runs: every page hands the (stamped) store to the next -/
def walkKV (m : Rec → Bool) (count : Nat) (now : Nat → Int) : Nat → Nat → KV → List Rec
  | 0, _, _ => []
  | f + 1, c, k =>
    let r := k.scan c count m (now f)
    if r.1 = 0 then r.2.1 else r.2.1 ++ walkKV m count now f r.1 r.2.2

theorem walkP_congr (k1 k2 : KV) (he : k1.er = k2.er) (m : Rec → Bool) (hm : LaInd m) (count : Nat)
    (now : Nat → Int) (f c : Nat) :
    (walkP k1 m count now f c).map Rec.er = (walkP k2 m count now f c).map Rec.er := by
  induction f generalizing c with
  | zero => rfl
  | succ f ih =>
    obtain ⟨a, b⟩ := scan_congr k1 k2 he c count m hm (now f)
    simp only [walkP, a]
    split
    · exact b
    · rw [List.map_append, List.map_append, b, ih]

theorem walkKV_er (m : Rec → Bool) (hm : LaInd m) (count : Nat) (now : Nat → Int) (f : Nat) :
    ∀ (c : Nat) (k : KV), CfUnique k →
      (walkKV m count now f c k).map Rec.er = (walkP k m count now f c).map Rec.er := by
  induction f with
  | zero => intro _ _ _; rfl
  | succ f ih =>
    intro c k cu
    simp only [walkKV, walkP]
    split
    · rfl
    · have he := scan_state_er k cu c count m hm (now f)
      have cu' := cfUnique_of_er_eq k _ he.symm cu
      rw [List.map_append, List.map_append, ih _ _ cu',
        walkP_congr _ k he m hm count now f _]

end KV
end Olric
