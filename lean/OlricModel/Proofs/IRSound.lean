/- Soundness of the parser checker: `safe p = true` implies that no argument vector makes `p` index or
   slice out of range, and every option loop terminates. Core-only. -/
import OlricModel.Proto.IR
namespace Olric.IR

structure Sat (a : AEnv) (e : Env) (N : Nat) : Prop where
  vals : ∀ v, v < NV → (a.vals v).sat (e v).length
  bound : ∀ v, (e v).length ≤ N

def InLoop (lv : Option Var) (a : AEnv) (e : Env) (L : Nat) : Prop :=
  match lv with
  | none => True
  | some l => (e l).length + a.shr ≤ L

def Frame (lv : Option Var) (e e' : Env) : Prop :=
  match lv with
  | none => True
  | some l => ∀ y, y ≠ l → e' y = e y

def Good (lv : Option Var) (r : Option AEnv) (e : Env) (N L : Nat) : Res → Prop
  | .next e' => ∃ a', r = some a' ∧ Sat a' e' N ∧ InLoop lv a' e' L ∧ Frame lv e e'
  | .cont e' => ∃ l, lv = some l ∧ (e' l).length + 1 ≤ L ∧ (∀ v, (e' v).length ≤ N) ∧ Frame lv e e'
  | .retOk => True
  | .retErr => True
  | .panic => False
  | .spin => False

theorem frame_refl (lv : Option Var) (e : Env) : Frame lv e e := by
  cases lv <;> simp [Frame]

theorem frame_trans (lv : Option Var) (e1 e2 e3 : Env) (h1 : Frame lv e1 e2) (h2 : Frame lv e2 e3) : Frame lv e1 e3 := by
  cases lv with
  | none => trivial
  | some l => intro y hy; rw [h2 y hy, h1 y hy]

theorem sat_join_left (a b : AVal) (n : Nat) (h : a.sat n) : (a.join b).sat n := by
  unfold AVal.sat AVal.join at *
  refine ⟨Nat.le_trans (Nat.min_le_left _ _) h.1, ?_⟩
  cases ha : a.hi <;> cases hb : b.hi <;> simp_all
  omega

theorem sat_join_right (a b : AVal) (n : Nat) (h : b.sat n) : (a.join b).sat n := by
  unfold AVal.sat AVal.join at *
  refine ⟨Nat.le_trans (Nat.min_le_right _ _) h.1, ?_⟩
  cases ha : a.hi <;> cases hb : b.hi <;> simp_all
  omega

theorem good_joinL (lv : Option Var) (r1 r2 : ARes) (r : Option AEnv) (x : Option AEnv) (e : Env) (N L : Nat) (res : Res)
    (h1 : r1 = some x) (hj : joinR r1 r2 = some r) (hg : Good lv x e N L res) : Good lv r e N L res := by
  subst h1
  cases res with
  | next e' =>
    obtain ⟨a', ha, hs, hl, hf⟩ := hg
    subst ha
    cases r2 with
    | none => simp [joinR] at hj
    | some y =>
      cases y with
      | none => simp [joinR] at hj; subst hj; exact ⟨a', rfl, hs, hl, hf⟩
      | some b =>
        simp [joinR] at hj; subst hj
        refine ⟨_, rfl, ⟨fun v hv => sat_join_left _ _ _ (hs.vals v hv), hs.bound⟩, ?_, hf⟩
        cases lv with
        | none => trivial
        | some l =>
          simp only [InLoop, AEnv.join] at hl ⊢
          have := Nat.min_le_left a'.shr b.shr
          omega
  | cont e' => exact hg
  | retOk => trivial
  | retErr => trivial
  | panic => exact hg
  | spin => exact hg

theorem good_joinR (lv : Option Var) (r1 r2 : ARes) (r : Option AEnv) (x : Option AEnv) (e : Env) (N L : Nat) (res : Res)
    (h2 : r2 = some x) (hj : joinR r1 r2 = some r) (hg : Good lv x e N L res) : Good lv r e N L res := by
  subst h2
  cases res with
  | next e' =>
    obtain ⟨a', ha, hs, hl, hf⟩ := hg
    subst ha
    cases r1 with
    | none => simp [joinR] at hj
    | some y =>
      cases y with
      | none => simp [joinR] at hj; subst hj; exact ⟨a', rfl, hs, hl, hf⟩
      | some b =>
        simp [joinR] at hj; subst hj
        refine ⟨_, rfl, ⟨fun v hv => sat_join_right _ _ _ (hs.vals v hv), hs.bound⟩, ?_, hf⟩
        cases lv with
        | none => trivial
        | some l =>
          simp only [InLoop, AEnv.join] at hl ⊢
          have := Nat.min_le_right b.shr a'.shr
          omega
  | cont e' => exact hg
  | retOk => trivial
  | retErr => trivial
  | panic => exact hg
  | spin => exact hg

theorem joinR_some (r1 r2 : ARes) (r : Option AEnv) (hj : joinR r1 r2 = some r) :
    (∃ x, r1 = some x) ∧ (∃ y, r2 = some y) := by
  cases r1 <;> cases r2 <;> simp [joinR] at hj ⊢

theorem neg_eval (c : Cmp) (a b : Nat) (h : c.eval a b = false) : c.neg.eval a b = true := by
  cases c <;> simp [Cmp.eval, Cmp.neg] at h ⊢ <;> omega

theorem refine_sound (a : AVal) (c : Cmp) (n len : Nat) (hs : a.sat len) (hc : c.eval len n = true) :
    ¬ (c = .lt ∧ n = 0) ∧ (a.refine c n).sat len ∧ (a.refine c n).empty = false := by
  obtain ⟨h1, h2⟩ := hs
  cases hh : a.hi with
  | none =>
    cases c <;> simp only [Cmp.eval, decide_eq_true_eq, beq_iff_eq, bne_iff_ne, ne_eq] at hc <;>
      simp [AVal.refine, AVal.sat, AVal.empty, hh] <;> (try split) <;> omega
  | some h =>
    have h2' : len ≤ h := by simpa [hh] using h2
    cases c with
    | lt =>
      have hc' : len < n := by simpa [Cmp.eval] using hc
      simp [AVal.refine, AVal.sat, AVal.empty, hh]; omega
    | le =>
      have hc' : len ≤ n := by simpa [Cmp.eval] using hc
      simp [AVal.refine, AVal.sat, AVal.empty, hh]; omega
    | eq =>
      have hc' : len = n := by simpa [Cmp.eval] using hc
      simp [AVal.refine, AVal.sat, AVal.empty, hh]; omega
    | ne =>
      have hc' : len ≠ n := by simpa [Cmp.eval] using hc
      simp only [AVal.refine, AVal.sat, AVal.empty, hh]
      refine ⟨by simp, ⟨by split <;> omega, h2'⟩, ?_⟩
      exact decide_eq_false (by split <;> omega)
    | ge =>
      have hc' : len ≥ n := by simpa [Cmp.eval] using hc
      simp [AVal.refine, AVal.sat, AVal.empty, hh]; omega
    | gt =>
      have hc' : len > n := by simpa [Cmp.eval] using hc
      simp [AVal.refine, AVal.sat, AVal.empty, hh]; omega

theorem refineBranch_sound (a : AEnv) (e : Env) (N : Nat) (v : Var) (c : Cmp) (n : Nat) (hv : v < NV)
    (hs : Sat a e N) (hc : c.eval (e v).length n = true) :
    ∃ a', refineBranch a v c n = some a' ∧ Sat a' e N ∧ a'.shr = a.shr := by
  obtain ⟨h0, h1, h2⟩ := refine_sound (a.vals v) c n (e v).length (hs.vals v hv) hc
  unfold refineBranch
  simp only [h0, if_false, h2]
  refine ⟨_, rfl, ⟨?_, hs.bound⟩, rfl⟩
  intro y hy
  simp only [AEnv.setVal]
  by_cases e1 : y = v
  · subst e1; simpa using h1
  · simp [e1]; exact hs.vals y hy

/-- what a terminating, progressing loop body gives -/
def StepOK (v : Var) (P : Env → Prop) (e : Env) : Res → Prop
  | .next e' => P e' ∧ (e' v).length < (e v).length
  | .cont e' => P e' ∧ (e' v).length < (e v).length
  | .retOk => True
  | .retErr => True
  | .panic => False
  | .spin => False

def IterOK (v : Var) (P : Env → Prop) : Res → Prop
  | .next e' => P e' ∧ (e' v).length = 0
  | .retOk => True
  | .retErr => True
  | _ => False

theorem iter_sound (step : Env → Res) (v : Var) (P : Env → Prop)
    (hstep : ∀ e, P e → (e v).length ≠ 0 → StepOK v P e (step e)) :
    ∀ n e, P e → (e v).length ≤ n → IterOK v P (iter step v e n) := by
  intro n
  induction n with
  | zero =>
    intro e hp hl
    have : (e v).length = 0 := by omega
    simp [iter, this, IterOK, hp]
  | succ n ih =>
    intro e hp hl
    simp only [iter]
    by_cases h0 : (e v).length = 0
    · simp [h0, IterOK, hp]
    · simp only [h0, if_false]
      have hs := hstep e hp h0
      cases hr : step e with
      | next e' => rw [hr] at hs; exact ih e' hs.1 (by have := hs.2; omega)
      | cont e' => rw [hr] at hs; exact ih e' hs.1 (by have := hs.2; omega)
      | retOk => trivial
      | retErr => trivial
      | panic => rw [hr] at hs; exact hs
      | spin => rw [hr] at hs; exact hs

theorem getElem?_of_lt {α} (l : List α) (i : Nat) (h : i < l.length) : ∃ x, l[i]? = some x :=
  ⟨l[i], List.getElem?_eq_getElem h⟩

theorem sat_lo (a : AEnv) (e : Env) (N : Nat) (v : Var) (i : Nat) (hs : Sat a e N) (hv : ¬ v ≥ NV)
    (hi : ¬ (a.vals v).lo ≤ i) : i < (e v).length := by
  have hv' : v < NV := Nat.lt_of_not_ge hv
  have h := hs.vals v hv'
  unfold AVal.sat at h
  have := h.1
  omega

mutual
  theorem chkS_sound (ok : NumOk) : (s : Stmt) → ∀ (lv : Option Var) (a : AEnv) (e : Env) (f N L : Nat) (r : Option AEnv),
      chkS lv s a = some r → Sat a e N → InLoop lv a e L → N < f → Good lv r e N L (execS ok s e f)
    | .ifLen v c n thn els, lv, a, e, f, N, L, r, hc, hs, hl, hf => by
      simp only [chkS] at hc
      split at hc
      · cases hc
      · rename_i hv
        obtain ⟨⟨x, hx⟩, ⟨y, hy⟩⟩ := joinR_some _ _ _ hc
        simp only [execS]
        by_cases hcond : c.eval (e v).length n = true
        · simp only [hcond, if_true]
          obtain ⟨a', ha', hs', hshr⟩ := refineBranch_sound a e N v c n (Nat.lt_of_not_ge hv) hs hcond
          simp only [ha'] at hx hc
          have hl' : InLoop lv a' e L := by cases lv <;> simp_all [InLoop]
          exact good_joinL lv _ _ r x e N L _ hx hc (chkB_sound ok thn lv a' e f N L x hx hs' hl' hf)
        · have hcond' : c.eval (e v).length n = false := by simpa using hcond
          simp only [hcond', Bool.false_eq_true, if_false]
          obtain ⟨a', ha', hs', hshr⟩ := refineBranch_sound a e N v c.neg n (Nat.lt_of_not_ge hv) hs (neg_eval c _ _ hcond')
          simp only [ha'] at hy hc
          have hl' : InLoop lv a' e L := by cases lv <;> simp_all [InLoop]
          exact good_joinR lv _ _ r y e N L _ hy hc (chkB_sound ok els lv a' e f N L y hy hs' hl' hf)
    | .ifTok v i lit thn els, lv, a, e, f, N, L, r, hc, hs, hl, hf => by
      simp only [chkS] at hc
      split at hc
      · cases hc
      · rename_i hv
        split at hc
        · cases hc
        · rename_i hi
          obtain ⟨⟨x, hx⟩, ⟨y, hy⟩⟩ := joinR_some _ _ _ hc
          obtain ⟨t, ht⟩ := getElem?_of_lt (e v) i (sat_lo a e N v i hs hv hi)
          simp only [execS, ht]
          by_cases heq : t = lit
          · simp only [heq, if_true]
            exact good_joinL lv _ _ r x e N L _ hx hc (chkB_sound ok thn lv a e f N L x hx hs hl hf)
          · simp only [heq, if_false]
            exact good_joinR lv _ _ r y e N L _ hy hc (chkB_sound ok els lv a e f N L y hy hs hl hf)
    | .index v i, lv, a, e, f, N, L, r, hc, hs, hl, hf => by
      simp only [chkS] at hc
      split at hc
      · cases hc
      · rename_i hv
        split at hc
        · cases hc
        · rename_i hi
          injection hc with hc; subst hc
          simp only [execS, sat_lo a e N v i hs hv hi, if_true]
          exact ⟨a, rfl, hs, hl, frame_refl lv e⟩
    | .slice dst v k, lv, a, e, f, N, L, r, hc, hs, hl, hf => by
      simp only [chkS] at hc
      split at hc
      · cases hc
      · rename_i hv
        split at hc
        · cases hc
        · rename_i hk
          have hvn : v < NV ∧ dst < NV := by
            have hv2 : ¬ (v ≥ NV) ∧ ¬ (dst ≥ NV) := not_or.mp hv
            exact ⟨Nat.lt_of_not_ge hv2.1, Nat.lt_of_not_ge hv2.2⟩
          have hlen : k ≤ (e v).length := by
            have h := hs.vals v hvn.1
            unfold AVal.sat at h
            have := h.1
            omega
          simp only [execS, hlen, if_true]
          have hsat : ∀ (shr : Nat), Sat { (a.setVal dst ⟨(a.vals v).lo - k, (a.vals v).hi.map (· - k)⟩) with shr := shr }
              (e.set dst ((e v).drop k)) N := by
            intro shr
            refine ⟨?_, ?_⟩
            · intro y hy
              simp only [AEnv.setVal, Env.set]
              by_cases ey : y = dst
              · simp only [ey, if_true, List.length_drop]
                have hv' := hs.vals v hvn.1
                unfold AVal.sat at hv' ⊢
                refine ⟨by have := hv'.1; simp only; omega, ?_⟩
                cases hh : (a.vals v).hi with
                | none => simp
                | some h => simp only [hh, Option.map_some] at hv' ⊢; omega
              · simp only [ey, if_false]; exact hs.vals y hy
            · intro y
              simp only [Env.set]
              by_cases ey : y = dst
              · simp only [ey, if_true, List.length_drop]; have := hs.bound v; omega
              · simp only [ey, if_false]; exact hs.bound y
          cases lv with
          | none =>
            simp only at hc
            injection hc with hc; subst hc
            exact ⟨_, rfl, hsat a.shr, trivial, trivial⟩
          | some l =>
            simp only at hc
            split at hc
            · rename_i hdl
              obtain ⟨h1, h2⟩ := hdl
              subst h1; subst h2
              injection hc with hc; subst hc
              refine ⟨_, rfl, hsat _, ?_, ?_⟩
              · simp only [InLoop, Env.set, if_true, List.length_drop] at hl ⊢; omega
              · intro y hy; simp [Env.set, hy]
            · cases hc
    | .parse v i kind, lv, a, e, f, N, L, r, hc, hs, hl, hf => by
      simp only [chkS] at hc
      split at hc
      · cases hc
      · rename_i hv
        split at hc
        · cases hc
        · rename_i hi
          injection hc with hc; subst hc
          obtain ⟨t, ht⟩ := getElem?_of_lt (e v) i (sat_lo a e N v i hs hv hi)
          simp only [execS, ht]
          by_cases hok : ok kind t = true
          · simp only [hok, if_true]; exact ⟨a, rfl, hs, hl, frame_refl lv e⟩
          · simp only [hok, Bool.false_eq_true, if_false]; trivial
    | .switchTok v i cases dflt, lv, a, e, f, N, L, r, hc, hs, hl, hf => by
      simp only [chkS] at hc
      split at hc
      · cases hc
      · rename_i hv
        split at hc
        · cases hc
        · rename_i hi
          obtain ⟨⟨x, hx⟩, ⟨y, hy⟩⟩ := joinR_some _ _ _ hc
          obtain ⟨t, ht⟩ := getElem?_of_lt (e v) i (sat_lo a e N v i hs hv hi)
          simp only [execS, ht]
          have hcs := chkC_sound ok cases lv a e f N L x (upper t) hx hs hl hf
          cases hr : execC ok cases (upper t) e f with
          | some res =>
            simp only
            rw [hr] at hcs
            exact good_joinL lv _ _ r x e N L _ hx hc hcs
          | none =>
            simp only
            exact good_joinR lv _ _ r y e N L _ hy hc (chkB_sound ok dflt lv a e f N L y hy hs hl hf)
    | .loop v body, lv, a, e, f, N, L, r, hc, hs, hl, hf => by
      simp only [chkS] at hc
      cases lv with
      | some _ => simp at hc
      | none =>
        simp only at hc
        split at hc
        · cases hc
        · rename_i hv
          -- the loop-head invariant: nothing but v changed, all lengths stay below N
          let P : Env → Prop := fun e' => (∀ y, y ≠ v → e' y = e y) ∧ (∀ y, (e' y).length ≤ N)
          have hP : P e := ⟨fun _ _ => rfl, hs.bound⟩
          have hhead : ∀ e', P e' → (e' v).length ≠ 0 →
              Sat ⟨fun y => if y = v then ⟨1, none⟩ else a.vals y, 0⟩ e' N := by
            intro e' hp h0
            refine ⟨?_, hp.2⟩
            intro y hy
            by_cases ey : y = v
            · subst ey; simp [AVal.sat]; omega
            · simp only [ey, if_false]; rw [hp.1 y ey]; exact hs.vals y hy
          have hbody : ∀ (rb : Option AEnv), chkB (some v) body ⟨fun y => if y = v then ⟨1, none⟩ else a.vals y, 0⟩ = some rb →
              (∀ out, rb = some out → out.shr ≠ 0) →
              ∀ e', P e' → (e' v).length ≠ 0 → StepOK v P e' (execB ok body e' f) := by
            intro rb hrb hshr e' hp h0
            have hg := chkB_sound ok body (some v) _ e' f N (e' v).length rb hrb (hhead e' hp h0)
              (by simp [InLoop]) hf
            cases hres : execB ok body e' f with
            | next e'' =>
              rw [hres] at hg
              obtain ⟨a', ha', hs', hl', hfr⟩ := hg
              have := hshr a' ha'
              simp only [InLoop] at hl'
              refine ⟨⟨?_, hs'.bound⟩, by omega⟩
              intro y hy; rw [hfr y hy, hp.1 y hy]
            | cont e'' =>
              rw [hres] at hg
              obtain ⟨l, hl0, hlen, hb, hfr⟩ := hg
              injection hl0 with hl0; subst hl0
              refine ⟨⟨?_, hb⟩, by omega⟩
              intro y hy; rw [hfr y hy, hp.1 y hy]
            | retOk => trivial
            | retErr => trivial
            | panic => rw [hres] at hg; exact hg
            | spin => rw [hres] at hg; exact hg
          have hfinal : ∀ e', P e' → (e' v).length = 0 → Sat (a.setVal v ⟨0, some 0⟩) e' N := by
            intro e' hp h0
            refine ⟨?_, hp.2⟩
            intro y hy
            simp only [AEnv.setVal]
            by_cases ey : y = v
            · subst ey; simp [AVal.sat, h0]
            · simp only [ey, if_false]; rw [hp.1 y ey]; exact hs.vals y hy
          have hlenf : (e v).length ≤ f := by have := hs.bound v; omega
          simp only [execS]
          cases hb : chkB (some v) body ⟨fun y => if y = v then ⟨1, none⟩ else a.vals y, 0⟩ with
          | none => simp [hb] at hc
          | some rb =>
            cases rb with
            | none =>
              simp only [hb] at hc
              injection hc with hc; subst hc
              have hit := iter_sound (fun e' => execB ok body e' f) v P
                (hbody none hb (fun _ h => by cases h)) f e hP hlenf
              cases hres : iter (fun e' => execB ok body e' f) v e f with
              | next e'' => rw [hres] at hit; exact ⟨_, rfl, hfinal e'' hit.1 hit.2, trivial, trivial⟩
              | cont e'' => rw [hres] at hit; exact False.elim hit
              | retOk => trivial
              | retErr => trivial
              | panic => rw [hres] at hit; exact False.elim hit
              | spin => rw [hres] at hit; exact False.elim hit
            | some out =>
              simp only [hb] at hc
              split at hc
              · cases hc
              · rename_i hsh
                injection hc with hc; subst hc
                have hit := iter_sound (fun e' => execB ok body e' f) v P
                  (hbody (some out) hb (fun o h => by injection h with h; subst h; exact hsh)) f e hP hlenf
                cases hres : iter (fun e' => execB ok body e' f) v e f with
                | next e'' => rw [hres] at hit; exact ⟨_, rfl, hfinal e'' hit.1 hit.2, trivial, trivial⟩
                | cont e'' => rw [hres] at hit; exact False.elim hit
                | retOk => trivial
                | retErr => trivial
                | panic => rw [hres] at hit; exact False.elim hit
                | spin => rw [hres] at hit; exact False.elim hit
    | .rangeTail v k, lv, a, e, f, N, L, r, hc, hs, hl, hf => by
      simp only [chkS] at hc
      split at hc
      · cases hc
      · rename_i hv
        split at hc
        · cases hc
        · rename_i hk
          injection hc with hc; subst hc
          have : k ≤ (e v).length := by
            have h := hs.vals v (Nat.lt_of_not_ge hv)
            unfold AVal.sat at h
            have := h.1
            omega
          simp only [execS, this, if_true]
          exact ⟨a, rfl, hs, hl, frame_refl lv e⟩
    | .ret b, lv, a, e, f, N, L, r, hc, hs, hl, hf => by
      simp only [execS]
      cases b <;> simp [Good]
    | .cont, lv, a, e, f, N, L, r, hc, hs, hl, hf => by
      simp only [chkS] at hc
      cases lv with
      | none => simp at hc
      | some l =>
        simp only at hc
        split at hc
        · cases hc
        · rename_i hsh
          simp only [execS]
          refine ⟨l, rfl, ?_, hs.bound, frame_refl _ e⟩
          simp only [InLoop] at hl; omega
  theorem chkB_sound (ok : NumOk) : (b : Block) → ∀ (lv : Option Var) (a : AEnv) (e : Env) (f N L : Nat) (r : Option AEnv),
      chkB lv b a = some r → Sat a e N → InLoop lv a e L → N < f → Good lv r e N L (execB ok b e f)
    | .nil, lv, a, e, f, N, L, r, hc, hs, hl, hf => by
      simp only [chkB] at hc
      injection hc with hc; subst hc
      exact ⟨a, rfl, hs, hl, frame_refl lv e⟩
    | .cons s b, lv, a, e, f, N, L, r, hc, hs, hl, hf => by
      simp only [chkB] at hc
      cases h1 : chkS lv s a with
      | none => simp [h1] at hc
      | some r1 =>
        have hg := chkS_sound ok s lv a e f N L r1 h1 hs hl hf
        simp only [execB]
        cases hres : execS ok s e f with
        | next e' =>
          rw [hres] at hg
          obtain ⟨a', ha', hs', hl', hfr⟩ := hg
          subst ha'
          simp only [h1] at hc
          have hg2 := chkB_sound ok b lv a' e' f N L r hc hs' hl' hf
          simp only
          cases hres2 : execB ok b e' f with
          | next e'' =>
            rw [hres2] at hg2
            obtain ⟨a'', ha'', hs'', hl'', hfr'⟩ := hg2
            exact ⟨a'', ha'', hs'', hl'', frame_trans lv e e' e'' hfr hfr'⟩
          | cont e'' =>
            rw [hres2] at hg2
            obtain ⟨l, h0, h1', h2, h3⟩ := hg2
            exact ⟨l, h0, h1', h2, frame_trans lv e e' e'' hfr h3⟩
          | retOk => trivial
          | retErr => trivial
          | panic => rw [hres2] at hg2; exact hg2
          | spin => rw [hres2] at hg2; exact hg2
        | cont e' =>
          rw [hres] at hg
          exact hg
        | retOk => trivial
        | retErr => trivial
        | panic => rw [hres] at hg; exact hg
        | spin => rw [hres] at hg; exact hg
  theorem chkC_sound (ok : NumOk) : (cs : Cases) → ∀ (lv : Option Var) (a : AEnv) (e : Env) (f N L : Nat) (r : Option AEnv) (t : Tok),
      chkC lv cs a = some r → Sat a e N → InLoop lv a e L → N < f →
      match execC ok cs t e f with
      | some res => Good lv r e N L res
      | none => True
    | .nil, lv, a, e, f, N, L, r, t, hc, hs, hl, hf => by simp [execC]
    | .cons lit b rest, lv, a, e, f, N, L, r, t, hc, hs, hl, hf => by
      simp only [chkC] at hc
      obtain ⟨⟨x, hx⟩, ⟨y, hy⟩⟩ := joinR_some _ _ _ hc
      simp only [execC]
      by_cases heq : t = lit
      · simp only [heq, if_true]
        exact good_joinL lv _ _ r x e N L _ hx hc (chkB_sound ok b lv a e f N L x hx hs hl hf)
      · simp only [heq, if_false]
        have := chkC_sound ok rest lv a e f N L y t hy hs hl hf
        cases hr : execC ok rest t e f with
        | none => trivial
        | some res =>
          rw [hr] at this
          exact good_joinR lv _ _ r y e N L _ hy hc this
end

/-- **Soundness of the checker.**  If `safe p` then for every argument vector of every length (with
    the command name in Args[0]) and every behaviour of the number parsers, running `p` never indexes
    or slices out of range (no Go panic) and never exhausts the iteration budget `len(args)+1`
    (every option loop terminates): it returns a value or an error. -/
theorem safe_sound (p : Block) (hsafe : safe p = true) (ok : NumOk) (args : List Tok) (hargs : 1 ≤ args.length) :
    match run ok p args with
    | .retOk => True
    | .retErr => True
    | .next _ => True
    | _ => False := by
  unfold safe at hsafe
  cases hc : chkB none p init with
  | none => simp [hc] at hsafe
  | some r =>
    have hsat : Sat init (fun v => if v = 0 then args else []) args.length := by
      refine ⟨?_, ?_⟩
      · intro v _
        by_cases h0 : v = 0
        · simp [init, h0, AVal.sat]; omega
        · simp [init, h0, AVal.sat]
      · intro v; by_cases h0 : v = 0 <;> simp [h0]
    have := chkB_sound ok p none init _ (args.length + 1) args.length 0 r hc hsat trivial (Nat.lt_succ_self _)
    unfold run
    cases hr : execB ok p (fun v => if v = 0 then args else []) (args.length + 1) with
    | next e' => trivial
    | cont e' => rw [hr] at this; obtain ⟨l, h0, _⟩ := this; cases h0
    | retOk => trivial
    | retErr => trivial
    | panic => rw [hr] at this; exact this
    | spin => rw [hr] at this; exact this

end Olric.IR
