/- Helper lemmas about the multi-table store: lookup through put / delete / makeTable. Core-only. -/
import OlricModel.Proofs.TableLemmas
namespace Olric
open Table
namespace KV

/-- two tables never index the same hkey -/
def Disj (a b : Table) : Prop := ∀ h, a.find h = none ∨ b.find h = none

/-- recycled tables hold no entry -/
def RecEmpty (ts : List Table) : Prop := ∀ t ∈ ts, isRecycled t = true → t.slots = []

/-- a key has at most one live version in the store -/
def Unique (k : KV) : Prop := k.newestFirst.Pairwise Disj

theorem findIn_cons (t : Table) (ts : List Table) (h : Nat) :
    findIn (t :: ts) h = match t.find h with | some s => some s | none => findIn ts h := rfl

theorem findIn_append (as bs : List Table) (h : Nat) :
    findIn (as ++ bs) h = match findIn as h with | some s => some s | none => findIn bs h := by
  induction as with
  | nil => simp [findIn]
  | cons a as ih => simp only [List.cons_append, findIn_cons]; grind

theorem findIn_map_deleteD (ts : List Table) (h h' : Nat) :
    findIn (ts.map (fun t => t.deleteD h)) h' = if h' = h then none else findIn ts h' := by
  induction ts with
  | nil => simp [findIn]
  | cons t ts ih =>
    simp only [List.map_cons, findIn_cons, find_deleteD, ih]
    by_cases hh : h' = h <;> simp [hh]

theorem findIn_pickLast (p : Table → Bool) (ts rest : List Table) (r : Table) (h : Nat)
    (hp : pickLast p ts = some (r, rest)) (he : r.slots = []) : findIn rest h = findIn ts h := by
  induction ts generalizing rest r with
  | nil => simp [pickLast] at hp
  | cons t ts ih =>
    simp only [pickLast] at hp
    cases hq : pickLast p ts with
    | some q =>
      obtain ⟨r', rest'⟩ := q
      simp only [hq] at hp
      injection hp with hp
      injection hp with h1 h2
      subst h1; subst h2
      simp only [findIn_cons, ih rest' r' hq he]
    | none =>
      simp only [hq] at hp
      split at hp
      · injection hp with hp
        injection hp with h1 h2
        subst h1; subst h2
        simp [findIn_cons, find_eq_none_of_slots_nil _ _ he]
      · cases hp

theorem pickLast_mem (p : Table → Bool) (ts rest : List Table) (r : Table)
    (hp : pickLast p ts = some (r, rest)) : r ∈ ts ∧ p r = true ∧ (∀ x ∈ rest, x ∈ ts) ∧ rest.Sublist ts := by
  induction ts generalizing rest r with
  | nil => simp [pickLast] at hp
  | cons t ts ih =>
    simp only [pickLast] at hp
    cases hq : pickLast p ts with
    | some q =>
      obtain ⟨r', rest'⟩ := q
      simp only [hq] at hp
      injection hp with hp
      injection hp with h1 h2
      subst h1; subst h2
      obtain ⟨a, b, c, d⟩ := ih rest' r' hq
      refine ⟨List.mem_cons_of_mem _ a, b, ?_, d.cons₂ _⟩
      intro x hx
      cases hx with
      | head => exact List.mem_cons_self
      | tail _ hx => exact List.mem_cons_of_mem _ (c x hx)
    | none =>
      simp only [hq] at hp
      split at hp
      · injection hp with hp
        injection hp with h1 h2
        subst h1; subst h2
        rename_i hpt
        exact ⟨List.mem_cons_self, hpt, fun x hx => List.mem_cons_of_mem _ hx, List.sublist_cons_self _ _⟩
      · cases hp

theorem lookup_eq (k : KV) (h : Nat) : k.lookup h = (findIn (k.head.toList ++ k.old) h).map (·.r) := rfl

end KV
end Olric

namespace Olric
open Table
namespace KV

theorem find_setState (t : Table) (s : TState) (h : Nat) : ({ t with state := s } : Table).find h = t.find h := rfl
theorem find_setCfState (t : Table) (c : Nat) (s : TState) (h : Nat) :
    ({ t with cf := c, state := s } : Table).find h = t.find h := rfl

/-- `old1` of makeTable: the head, demoted to read-only, in front of the older tables. -/
def demoted (k : KV) : List Table :=
  match k.head with
  | none => k.old
  | some h => { h with state := .ro } :: k.old

theorem findIn_demoted (k : KV) (h : Nat) : findIn k.demoted h = findIn k.newestFirst h := by
  unfold demoted newestFirst
  cases k.head with
  | none => simp
  | some hd => simp [findIn_cons, find_setState]

theorem makeTable_eq (k : KV) : k.makeTable =
    match pickLast isRecycled k.demoted with
    | some (t, rest) =>
      { k with old := rest, head := some { t with cf := k.nextCf, state := .rw }, nextCf := k.nextCf + 1 }
    | none =>
      { k with old := k.demoted, head := some (Table.new k.tableSize k.nextCf), nextCf := k.nextCf + 1 } := by
  unfold makeTable demoted
  cases k.head <;> rfl

theorem recEmpty_demoted (k : KV) (hre : RecEmpty k.old) : RecEmpty k.demoted := by
  unfold demoted
  cases hh : k.head with
  | none => simpa using hre
  | some hd =>
    intro t ht hr
    cases ht with
    | head => simp [isRecycled] at hr
    | tail _ ht => exact hre t ht hr

theorem makeTable_findIn (k : KV) (hre : RecEmpty k.old) (h : Nat) :
    findIn k.makeTable.newestFirst h = findIn k.newestFirst h := by
  rw [makeTable_eq]
  cases hp : pickLast isRecycled k.demoted with
  | none =>
    simp only [newestFirst, Option.toList, List.cons_append, List.nil_append, findIn_cons, find_new]
    exact findIn_demoted k h
  | some q =>
    obtain ⟨t, rest⟩ := q
    obtain ⟨hm, hrec, _, _⟩ := pickLast_mem _ _ _ _ hp
    have he : t.slots = [] := recEmpty_demoted k hre t hm hrec
    simp only [newestFirst, Option.toList, List.cons_append, List.nil_append, findIn_cons, find_setCfState,
      find_eq_none_of_slots_nil _ _ he]
    rw [findIn_pickLast _ _ _ _ h hp he]
    exact findIn_demoted k h

theorem makeTable_lookup (k : KV) (hre : RecEmpty k.old) (h : Nat) : k.makeTable.lookup h = k.lookup h := by
  simp only [lookup, makeTable_findIn k hre h]

theorem makeTable_head_isSome (k : KV) : k.makeTable.head.isSome = true := by
  rw [makeTable_eq]
  cases pickLast isRecycled k.demoted with
  | none => rfl
  | some q => rfl

end KV
end Olric
