/- Table export (+drop) and import with the last-write-wins merge; Stats.Length and Range. Core-only. -/
import OlricModel.Proofs.KVCompact
namespace Olric
open Table
namespace KV

theorem findIn_pickLast_removed (p : Table → Bool) (ts rest : List Table) (r : Table) (h : Nat)
    (hp : pickLast p ts = some (r, rest)) (hd : ts.Pairwise Disj) :
    (∀ s, r.find h = some s → findIn ts h = some s ∧ findIn rest h = none) ∧
    (r.find h = none → findIn rest h = findIn ts h) := by
  induction ts generalizing rest r with
  | nil => simp [pickLast] at hp
  | cons t ts ih =>
    rw [List.pairwise_cons] at hd
    simp only [pickLast] at hp
    cases hq : pickLast p ts with
    | some q =>
      obtain ⟨r', rest'⟩ := q
      simp only [hq] at hp
      injection hp with hp
      injection hp with h1 h2
      subst h1; subst h2
      obtain ⟨i1, i2⟩ := ih rest' r' hq hd.2
      obtain ⟨hm, _, _, _⟩ := pickLast_mem _ _ _ _ hq
      refine ⟨?_, ?_⟩
      · intro s hs
        have ht : t.find h = none := by
          rcases hd.1 r' hm h with x | x
          · exact x
          · rw [hs] at x; cases x
        simp only [findIn_cons, ht]
        exact i1 s hs
      · intro hn
        simp only [findIn_cons, i2 hn]
    | none =>
      simp only [hq] at hp
      split at hp
      · injection hp with hp
        injection hp with h1 h2
        subst h1; subst h2
        refine ⟨?_, ?_⟩
        · intro s hs
          refine ⟨by simp [findIn_cons, hs], ?_⟩
          exact findIn_none_of_disj t ts h hd.1 (by simp [hs])
        · intro hn; simp [findIn_cons, hn]
      · cases hp

/-- Export + Drop: exactly the keys indexed by the exported table leave the store. -/
theorem exportDrop_spec (k k' : KV) (t : Table) (w : k.WF) (he : k.exportDrop = some (t, k')) :
    k'.WF ∧ k'.tableSize = k.tableSize ∧ t ∈ k.newestFirst ∧
    (∀ h s, t.find h = some s → k.lookup h = some s.r ∧ k'.lookup h = none) ∧
    (∀ h, t.find h = none → k'.lookup h = k.lookup h) := by
  unfold exportDrop at he
  cases hp : pickLast (fun t => !isRecycled t) k.old with
  | some q =>
    obtain ⟨t0, rest⟩ := q
    simp only [hp] at he
    injection he with he
    injection he with h1 h2
    subst h1; subst h2
    obtain ⟨hm, _, _, hsl⟩ := pickLast_mem _ _ _ _ hp
    have hu := w.unique
    unfold Unique newestFirst at hu
    rw [List.pairwise_append] at hu
    obtain ⟨_, hold, hcross⟩ := hu
    have hrem := fun h => findIn_pickLast_removed _ _ _ _ h hp hold
    refine ⟨wf_of_sublist_old k w rest hsl, rfl, by simp [newestFirst, hm], ?_, ?_⟩
    · intro h s hs
      have hhd : findIn k.head.toList h = none := by
        cases hh : k.head with
        | none => rfl
        | some hd =>
          have : hd.find h = none := by
            rcases hcross hd (by simp [hh]) t0 hm h with x | x
            · exact x
            · rw [hs] at x; cases x
          simp [findIn, this]
      obtain ⟨a, b⟩ := (hrem h).1 s hs
      constructor
      · simp only [lookup, newestFirst, findIn_append, hhd, a]; rfl
      · simp only [lookup, newestFirst, findIn_append, hhd, b]; rfl
    · intro h hn
      simp only [lookup, newestFirst, findIn_append, (hrem h).2 hn]
  | none =>
    simp only [hp] at he
    cases hh : k.head with
    | none => simp [hh] at he
    | some hd =>
      simp only [hh] at he
      split at he
      · cases he
      · injection he with he
        injection he with h1 h2
        subst h1; subst h2
        have hu := w.unique
        unfold Unique newestFirst at hu
        simp only [hh, Option.toList, List.cons_append, List.nil_append, List.pairwise_cons] at hu
        refine ⟨⟨w.recEmpty, ?_, (by intro t ht; cases ht), w.oldNotRW, ?_, w.recOff, ?_, ?_, ?_, ?_, ?_⟩, rfl,
          (by simp [newestFirst, hh]), ?_, ?_⟩
        · simp only [Unique, newestFirst, Option.toList, List.nil_append]; exact hu.2
        · intro t ht; exact w.alloc t (by simp only [newestFirst, Option.toList, List.nil_append] at ht; simp [newestFirst, ht])
        · intro t ht; exact w.nodup t (by simp only [newestFirst, Option.toList, List.nil_append] at ht; simp [newestFirst, ht])
        · intro t ht; exact w.acct t (by simp only [newestFirst, Option.toList, List.nil_append] at ht; simp [newestFirst, ht])
        · intro t ht; exact w.fits t (by simp only [newestFirst, Option.toList, List.nil_append] at ht; simp [newestFirst, ht])
        · intro t ht; exact w.tot t (by simp only [newestFirst, Option.toList, List.nil_append] at ht; simp [newestFirst, ht])
        · intro t ht; exact w.layout t (by simp only [newestFirst, Option.toList, List.nil_append] at ht; simp [newestFirst, ht])
        · intro h s hs
          have := findIn_none_of_disj hd k.old h hu.1 (by simp [hs])
          constructor
          · simp [lookup, newestFirst, hh, findIn_cons, hs]
          · simp [lookup, newestFirst, this]
        · intro h hn
          simp [lookup, newestFirst, hh, findIn_cons, hn]

/-- the last-write-wins winner of a stored and an incoming version (incoming wins ties) -/
def lww (cur : Option Rec) (inc : Rec) (now : Int) : Option Rec :=
  match cur with
  | none => some { inc with la := now }
  | some c => if inc.ts ≥ c.ts then some { inc with la := now } else some { c with la := now }

theorem merge_spec (k : KV) (w : k.WF) (h : Nat) (r : Rec) (now : Int)
    (hfit : r.size < k.tableSize ∧ r.key.length < 256) :
    (k.merge h r now).1.WF ∧ (k.merge h r now).1.tableSize = k.tableSize ∧ (k.merge h r now).2 = .ok ∧
    ∀ h', (k.merge h r now).1.lookup h' = if h' = h then lww (k.lookup h) r now else k.lookup h' := by
  obtain ⟨g1, gw, gs, gl⟩ := get_spec k w h now
  unfold merge
  have hput := put_spec (k.get h now).2 gw h r now
  simp only at hput
  obtain ⟨pw, pnd, ps, pok, perr, pbig, pkey⟩ := hput
  have hok : ((k.get h now).2.put h r now).2 = .ok := by
    cases hr : ((k.get h now).2.put h r now).2 with
    | ok => rfl
    | entryTooLarge => rw [gs] at pbig; have := pbig.mp hr; omega
    | keyTooLarge => have := pkey.mp hr; omega
    | diverge => exact absurd hr pnd
  cases hc : k.lookup h with
  | none =>
    have e1 : (k.get h now).1 = none := by rw [g1, hc]
    have : k.get h now = (none, (k.get h now).2) := by rw [← e1]
    rw [this]
    simp only
    refine ⟨pw, by rw [ps, gs], hok, ?_⟩
    intro h'
    rw [pok hok h', gl h']
    by_cases e : h' = h
    · subst e; simp [lww]
    · simp [e]
  | some c =>
    have e1 : (k.get h now).1 = some c := by rw [g1, hc]
    have : k.get h now = (some c, (k.get h now).2) := by rw [← e1]
    rw [this]
    simp only
    split
    · refine ⟨pw, by rw [ps, gs], hok, ?_⟩
      intro h'
      rw [pok hok h', gl h']
      rename_i hge
      by_cases e : h' = h
      · subst e; simp [lww, hge]
      · simp [e]
    · refine ⟨gw, gs, rfl, ?_⟩
      intro h'
      rw [gl h']
      rename_i hlt
      by_cases e : h' = h
      · subst e; simp [lww, hc, hlt]
      · simp [e]

/-- Import of one exported table with the merge callback: every key of the table that the Range
    order reaches ends up with the LWW winner; no other key changes. -/
theorem importTable_spec (slots : List Slot) (k : KV) (w : k.WF) (now : Int)
    (hfit : ∀ s ∈ slots, s.r.size < k.tableSize ∧ s.r.key.length < 256) :
    (slots.foldl (fun k s => (k.merge s.hk s.r now).1) k).WF ∧
    (slots.foldl (fun k s => (k.merge s.hk s.r now).1) k).tableSize = k.tableSize ∧
    ∀ h, (∀ s ∈ slots, s.hk ≠ h) → (slots.foldl (fun k s => (k.merge s.hk s.r now).1) k).lookup h = k.lookup h := by
  induction slots generalizing k with
  | nil => exact ⟨w, rfl, fun _ _ => rfl⟩
  | cons s rest ih =>
    simp only [List.foldl_cons]
    obtain ⟨w1, s1, _, l1⟩ := merge_spec k w s.hk s.r now (hfit s List.mem_cons_self)
    obtain ⟨w2, s2, l2⟩ := ih (k.merge s.hk s.r now).1 w1
      (fun x hx => by rw [s1]; exact hfit x (List.mem_cons_of_mem _ hx))
    refine ⟨w2, by rw [s2, s1], ?_⟩
    intro h hne
    rw [l2 h (fun x hx => hne x (List.mem_cons_of_mem _ hx)), l1 h]
    have : h ≠ s.hk := fun e => hne s List.mem_cons_self e.symm
    simp [this]

/-- for a key that occurs once in the import order the result is the LWW winner -/
theorem importTable_key (slots : List Slot) (k : KV) (w : k.WF) (now : Int)
    (hfit : ∀ s ∈ slots, s.r.size < k.tableSize ∧ s.r.key.length < 256)
    (hnd : (slots.map (·.hk)).Nodup) (s : Slot) (hs : s ∈ slots) :
    (slots.foldl (fun k s => (k.merge s.hk s.r now).1) k).lookup s.hk = lww (k.lookup s.hk) s.r now := by
  induction slots generalizing k with
  | nil => cases hs
  | cons a rest ih =>
    simp only [List.foldl_cons]
    simp only [List.map_cons, List.nodup_cons] at hnd
    obtain ⟨w1, s1, _, l1⟩ := merge_spec k w a.hk a.r now (hfit a List.mem_cons_self)
    have hfit' : ∀ x ∈ rest, x.r.size < (k.merge a.hk a.r now).1.tableSize ∧ x.r.key.length < 256 :=
      fun x hx => by rw [s1]; exact hfit x (List.mem_cons_of_mem _ hx)
    cases hs with
    | head =>
      obtain ⟨_, _, l2⟩ := importTable_spec rest _ w1 now hfit'
      rw [l2 s.hk (fun x hx e => hnd.1 (by rw [← e]; exact List.mem_map_of_mem hx)), l1 s.hk]
      simp
    | tail _ hs =>
      rw [ih _ w1 hfit' hnd.2 hs, l1 s.hk]
      have : s.hk ≠ a.hk := fun e => hnd.1 (by rw [← e]; exact List.mem_map_of_mem hs)
      simp [this]

theorem find_of_mem_nodup (l : List Slot) (hn : (l.map (·.hk)).Nodup) (s : Slot) (hs : s ∈ l) :
    l.find? (fun x => x.hk == s.hk) = some s := by
  induction l with
  | nil => cases hs
  | cons a l ih =>
    simp only [List.map_cons, List.nodup_cons] at hn
    simp only [List.find?_cons]
    cases hs with
    | head => simp
    | tail _ hs =>
      have : (a.hk == s.hk) = false := by
        simp only [beq_eq_false_iff_ne, ne_eq]
        exact fun e => hn.1 (by rw [e]; exact List.mem_map_of_mem hs)
      rw [this]
      exact ih hn.2 hs

/-- all (hkey, record) pairs Range visits -/
theorem rangeAll_spec (k : KV) (w : k.WF) :
    ((k.rangeAll.map (·.1)).Nodup) ∧ (∀ h r, (h, r) ∈ k.rangeAll ↔ k.lookup h = some r) := by
  have hkeys : ∀ (ts : List Table), ts.Pairwise Disj → (∀ t ∈ ts, (keys t).Nodup) →
      ((ts.flatMap (fun t => t.slots.map (fun s => (s.hk, s.r)))).map (·.1)).Nodup ∧
      ∀ h r, (h, r) ∈ ts.flatMap (fun t => t.slots.map (fun s => (s.hk, s.r))) ↔ (findIn ts h).map (·.r) = some r := by
    intro ts
    induction ts with
    | nil => intro _ _; exact ⟨by simp, by simp [findIn]⟩
    | cons t ts ih =>
      intro hp hn
      rw [List.pairwise_cons] at hp
      obtain ⟨i1, i2⟩ := ih hp.2 (fun x hx => hn x (List.mem_cons_of_mem _ hx))
      have htn := hn t List.mem_cons_self
      have hmem_find : ∀ s, s ∈ t.slots → t.find s.hk = some s :=
        fun s hs => find_of_mem_nodup t.slots htn s hs
      refine ⟨?_, ?_⟩
      · simp only [List.flatMap_cons, List.map_append, List.map_map]
        rw [List.nodup_append]
        refine ⟨by simpa [keys, Function.comp_def] using htn, i1, ?_⟩
        intro a ha b hb e
        subst e
        simp only [List.mem_map, Function.comp] at ha
        obtain ⟨s, hs, rfl⟩ := ha
        simp only [List.mem_map] at hb
        obtain ⟨⟨h2, r2⟩, hb, hb2⟩ := hb
        simp only at hb2
        subst hb2
        have hin := (i2 s.hk r2).mp hb
        have hfs := hmem_find s hs
        have := findIn_none_of_disj t ts s.hk hp.1 (by simp [hfs])
        simp [this] at hin
      · intro h r
        simp only [List.flatMap_cons, List.mem_append, findIn_cons]
        constructor
        · rintro (hm | hm)
          · simp only [List.mem_map] at hm
            obtain ⟨s, hs, e⟩ := hm
            injection e with e1 e2
            subst e1; subst e2
            simp [hmem_find s hs]
          · have hin := (i2 h r).mp hm
            cases ht : t.find h with
            | none => simpa [ht] using hin
            | some s =>
              have := findIn_none_of_disj t ts h hp.1 (by simp [ht])
              simp [this] at hin
        · intro hl
          cases ht : t.find h with
          | some s =>
            simp only [ht, Option.map_some, Option.some.injEq] at hl
            left
            simp only [List.mem_map]
            exact ⟨s, List.mem_of_find?_eq_some ht, by rw [find_hk t h s ht, hl]⟩
          | none =>
            simp only [ht] at hl
            exact Or.inr ((i2 h r).mpr hl)
  exact hkeys k.newestFirst w.unique w.nodup

theorem sum_perm_tables (k : KV) (f : Table → Nat) :
    (k.tables.map f).sum = (k.newestFirst.map f).sum := by
  unfold tables newestFirst
  rw [List.map_append, List.sum_append, List.map_append, List.sum_append, List.map_reverse, List.sum_reverse]
  omega

/-- Stats.Length counts every present key exactly once -/
theorem stats_length (k : KV) (w : k.WF) : k.stats.length = k.rangeAll.length := by
  unfold stats
  simp only
  rw [sum_perm_tables k (fun t => t.slots.length)]
  unfold rangeAll
  induction k.newestFirst with
  | nil => rfl
  | cons t ts ih =>
    simp only [List.map_cons, List.sum_cons, List.flatMap_cons, List.length_append, List.length_map] at ih ⊢
    omega

end KV
end Olric
