/- put / putRaw: refinement step, invariant preservation, no divergence. Core-only. -/
import OlricModel.Proofs.KVWF
namespace Olric
open Table
namespace KV

/-- what `commit` needs to know about the new head -/
structure HeadUpd (hd hd' : Table) (h : Nat) (s : Slot) : Prop where
  find : ∀ h', hd'.find h' = if h' = h then some s else hd.find h'
  state : hd'.state = hd.state
  alloc : hd'.alloc = hd.alloc
  slots : hd'.slots = hd.slots.filter (fun x => x.hk != h) ++ [s]
  shk : s.hk = h
  inuse : hd'.inuse = (hd.deleteD h).inuse + s.r.size
  garbage : hd'.garbage = (hd.deleteD h).garbage
  off : hd'.off = hd.off + s.r.size
  soff : s.off = hd.off

theorem headUpd_put (t t' : Table) (h : Nat) (r : Rec) (now : Int) (hp : t.put h r now = .ok t') :
    HeadUpd t t' h (t.putSlot h r now) := by
  obtain ⟨a, b, _, _, e, _⟩ := put_fields t t' h r now hp
  obtain ⟨_, _, _, _, _, o, _⟩ := put_fields t t' h r now hp
  exact ⟨fun h' => find_put t t' h h' r now hp, a, b, e, rfl, put_inuse t t' h r now hp, put_garbage t t' h r now hp, o, deleteD_off t h⟩

theorem headUpd_putRaw (t t' : Table) (h : Nat) (r : Rec) (hp : t.putRaw h r = .ok t') :
    HeadUpd t t' h (t.putRawSlot h r) := by
  obtain ⟨a, b, _, _, e, _⟩ := putRaw_fields t t' h r hp
  obtain ⟨_, _, _, _, _, o, _⟩ := putRaw_fields t t' h r hp
  exact ⟨fun h' => find_putRaw t t' h h' r hp, a, b, e, rfl, putRaw_inuse t t' h r hp, putRaw_garbage t t' h r hp, o, deleteD_off t h⟩

theorem commit_findIn (k : KV) (hd hd' : Table) (h h' : Nat) (s : Slot) (hh : k.head = some hd)
    (u : HeadUpd hd hd' h s) :
    findIn (k.commit hd' h).newestFirst h' = if h' = h then some s else findIn k.newestFirst h' := by
  simp only [commit, newestFirst, hh, Option.toList, List.cons_append, List.nil_append, findIn_cons,
    u.find, findIn_map_deleteD]
  by_cases e : h' = h <;> simp [e]

theorem commit_wf (k : KV) (w : k.WF) (hd hd' : Table) (h : Nat) (s : Slot) (hh : k.head = some hd)
    (u : HeadUpd hd hd' h s) (hfit : s.r.size < k.tableSize ∧ s.r.key.length < 256) : (k.commit hd' h).WF := by
  have hdmem : hd ∈ k.newestFirst := by simp [newestFirst, hh]
  refine ⟨?_, ?_, ?_, ?_, ?_, ?_, ?_, ?_, ?_, ?_, ?_⟩
  · intro t ht hr
    simp only [commit, List.mem_map] at ht
    obtain ⟨x, hx, rfl⟩ := ht
    have : isRecycled x = true := by simpa [isRecycled, deleteD_state] using hr
    rw [deleteD_slots, w.recEmpty x hx this]; rfl
  · have hu := w.unique
    simp only [Unique, newestFirst, hh, commit, Option.toList, List.cons_append, List.nil_append,
      List.pairwise_cons] at hu ⊢
    refine ⟨?_, ?_⟩
    · intro b hb
      simp only [List.mem_map] at hb
      obtain ⟨x, hx, rfl⟩ := hb
      intro g
      rw [u.find, find_deleteD]
      by_cases e : g = h
      · simp [e]
      · simp only [e, if_false]; exact hu.1 x hx g
    · rw [List.pairwise_map]
      exact hu.2.imp (fun {a b} d g => by
        rw [find_deleteD, find_deleteD]
        by_cases e : g = h
        · simp [e]
        · simp only [e, if_false]; exact d g)
  · intro t ht
    simp only [commit] at ht
    injection ht with ht
    subst ht
    rw [u.state]; exact w.headRW hd hh
  · intro t ht
    simp only [commit, List.mem_map] at ht
    obtain ⟨x, hx, rfl⟩ := ht
    rw [deleteD_state]; exact w.oldNotRW x hx
  · intro t ht
    simp only [commit, newestFirst, Option.toList, List.cons_append, List.nil_append, List.mem_cons, List.mem_map] at ht
    rcases ht with rfl | ⟨x, hx, rfl⟩
    · rw [u.alloc]; exact w.alloc hd hdmem
    · rw [deleteD_alloc]; exact w.alloc x (by simp [newestFirst, hx])
  · intro t ht hr
    simp only [commit, List.mem_map] at ht
    obtain ⟨x, hx, rfl⟩ := ht
    have : isRecycled x = true := by simpa [isRecycled, deleteD_state] using hr
    rw [deleteD_off]; exact w.recOff x hx this
  · intro t ht
    simp only [commit, newestFirst, Option.toList, List.cons_append, List.nil_append, List.mem_cons, List.mem_map] at ht
    rcases ht with rfl | ⟨x, hx, rfl⟩
    · simp only [keys, u.slots]
      exact nodup_filter_append hd.slots h s u.shk (w.nodup hd hdmem)
    · simp only [keys, deleteD_slots]
      exact (w.nodup x (by simp [newestFirst, hx])).sublist ((List.filter_sublist).map _)
  · intro t ht
    simp only [commit, newestFirst, Option.toList, List.cons_append, List.nil_append, List.mem_cons, List.mem_map] at ht
    rcases ht with rfl | ⟨x, hx, rfl⟩
    · rw [u.inuse, u.slots, sumSize_append, ← deleteD_slots,
        deleteD_acct hd h (w.nodup hd hdmem) (w.acct hd hdmem)]
      simp [sumSize]
    · exact deleteD_acct x h (w.nodup x (by simp [newestFirst, hx])) (w.acct x (by simp [newestFirst, hx]))
  · intro t ht
    simp only [commit, newestFirst, Option.toList, List.cons_append, List.nil_append, List.mem_cons, List.mem_map] at ht
    rcases ht with rfl | ⟨x, hx, rfl⟩
    · intro y hy
      rw [u.slots, List.mem_append] at hy
      rcases hy with hy | hy
      · exact w.fits hd hdmem y (List.mem_filter.mp hy).1
      · simp only [List.mem_singleton] at hy; subst hy; exact hfit
    · intro y hy
      rw [deleteD_slots] at hy
      exact w.fits x (by simp [newestFirst, hx]) y (List.mem_filter.mp hy).1
  · intro t ht
    simp only [commit, newestFirst, Option.toList, List.cons_append, List.nil_append, List.mem_cons, List.mem_map] at ht
    rcases ht with rfl | ⟨x, hx, rfl⟩
    · have := deleteD_tot hd h (w.nodup hd hdmem) (w.acct hd hdmem) (w.tot hd hdmem)
      rw [deleteD_off] at this
      rw [u.inuse, u.garbage, u.off]; omega
    · exact deleteD_tot x h (w.nodup x (by simp [newestFirst, hx])) (w.acct x (by simp [newestFirst, hx]))
        (w.tot x (by simp [newestFirst, hx]))
  · intro t ht
    simp only [commit, newestFirst, Option.toList, List.cons_append, List.nil_append, List.mem_cons, List.mem_map] at ht
    rcases ht with rfl | ⟨x, hx, rfl⟩
    · exact layout_append hd _ h s (w.layout hd hdmem) u.slots u.soff u.off
    · exact layout_deleteD x h (w.layout x (by simp [newestFirst, hx]))

theorem ensureHead_wf (k : KV) (w : k.WF) : k.ensureHead.WF := by
  unfold ensureHead; cases hh : k.head with
  | some _ => simpa [hh] using w
  | none => simpa [hh] using makeTable_wf k w

theorem ensureHead_findIn (k : KV) (w : k.WF) (h : Nat) : findIn k.ensureHead.newestFirst h = findIn k.newestFirst h := by
  unfold ensureHead; cases hh : k.head with
  | some _ => rfl
  | none => simp only; exact makeTable_findIn k w.recEmpty h

theorem ensureHead_tableSize (k : KV) : k.ensureHead.tableSize = k.tableSize := by
  unfold ensureHead; cases k.head with
  | some _ => rfl
  | none => exact makeTable_tableSize k

theorem ensureHead_head (k : KV) : k.ensureHead.head.isSome = true := by
  unfold ensureHead; cases hh : k.head with
  | some _ => simp [hh]
  | none => simp only; exact makeTable_head_isSome k

/-- Every outcome of `put`, with the store it leaves behind:
    * ok            → the key maps to the new record, every other key is untouched;
    * any error     → no key changes;
    * diverge       → impossible. -/
theorem put_spec (k : KV) (w : k.WF) (h : Nat) (r : Rec) (now : Int) :
    let res := k.put h r now
    res.1.WF ∧ res.2 ≠ .diverge ∧ res.1.tableSize = k.tableSize ∧
    (res.2 = .ok → ∀ h', res.1.lookup h' = if h' = h then some { r with la := now } else k.lookup h') ∧
    (res.2 ≠ .ok → ∀ h', res.1.lookup h' = k.lookup h') ∧
    (res.2 = .entryTooLarge ↔ r.size ≥ k.tableSize) ∧
    (res.2 = .keyTooLarge ↔ (r.size < k.tableSize ∧ r.key.length ≥ 256)) := by
  intro res
  have hres : res = k.put h r now := rfl
  clear_value res
  unfold put at hres
  by_cases hbig : r.size ≥ k.tableSize
  · simp only [hbig, if_true] at hres
    subst hres
    exact ⟨w, by simp, rfl, by simp, by simp, by simp [hbig], by simp; omega⟩
  · simp only [hbig, if_false] at hres
    have w1 := ensureHead_wf k w
    have f1 := ensureHead_findIn k w
    have s1 := ensureHead_tableSize k
    obtain ⟨hd, hh⟩ := Option.isSome_iff_exists.mp (ensureHead_head k)
    have halloc : hd.alloc = k.tableSize := by
      rw [← s1]; exact w1.alloc hd (by simp [newestFirst, hh])
    cases hp : hd.put h r now with
    | ok hd' =>
      simp only [hh, hp] at hres
      subst hres
      have u := headUpd_put hd hd' h r now hp
      have := put_fields hd hd' h r now hp
      refine ⟨commit_wf _ w1 hd hd' h _ hh u (by simp only [putSlot, putRawSlot, Rec.size, s1] at *; constructor <;> omega), by simp, by simp [commit, s1], ?_, by simp, by simp; omega, ?_⟩
      · intro _ h'
        simp only [lookup, commit_findIn _ hd hd' h h' _ hh u, f1]
        by_cases e : h' = h <;> simp [e, putSlot]
      · simp; omega
    | error e =>
      cases e with
      | keyTooLarge =>
        simp only [hh, hp] at hres
        subst hres
        have hk : r.key.length ≥ 256 := by
          unfold Table.put at hp
          split at hp
          · assumption
          · split at hp <;> cases hp
        refine ⟨w1, by simp, by simp [s1], by simp, ?_, by simp; omega, by simp; omega⟩
        intro _ h'; simp only [lookup, f1]
      | noSpace =>
        simp only [hh, hp] at hres
        have hklen : r.key.length < 256 := by
          unfold Table.put at hp
          split at hp
          · cases hp
          · omega
        have w2 := makeTable_wf _ w1
        have f2 := makeTable_findIn _ w1.recEmpty
        obtain ⟨hd2, hh2, hoff, hal⟩ := makeTable_head _ w1
        have s2 := makeTable_tableSize k.ensureHead
        cases hp2 : hd2.put h r now with
        | ok hd2' =>
          simp only [hh2, hp2] at hres
          subst hres
          have u := headUpd_put hd2 hd2' h r now hp2
          refine ⟨commit_wf _ w2 hd2 hd2' h _ hh2 u (by simp only [putSlot, putRawSlot, Rec.size, s1, s2] at *; constructor <;> omega), by simp, by simp [commit, s2, s1], ?_, by simp, by simp; omega, ?_⟩
          · intro _ h'
            simp only [lookup, commit_findIn _ hd2 hd2' h h' _ hh2 u, f2, f1]
            by_cases e : h' = h <;> simp [e, putSlot]
          · simp; omega
        | error e2 =>
          exfalso
          unfold Table.put at hp2
          split at hp2
          · omega
          · split at hp2
            · rw [hoff, hal, s1] at *; omega
            · cases hp2

theorem putRaw_spec (k : KV) (w : k.WF) (h : Nat) (r : Rec) (hkl : r.key.length < 256) :
    let res := k.putRaw h r
    res.1.WF ∧ res.2 ≠ .diverge ∧ res.1.tableSize = k.tableSize ∧
    (res.2 = .ok → ∀ h', res.1.lookup h' = if h' = h then some r else k.lookup h') ∧
    (res.2 ≠ .ok → ∀ h', res.1.lookup h' = k.lookup h') ∧
    (res.2 = .entryTooLarge ↔ r.size ≥ k.tableSize) ∧ (res.2 = .ok ↔ r.size < k.tableSize) := by
  intro res
  have hres : res = k.putRaw h r := rfl
  clear_value res
  unfold putRaw at hres
  by_cases hbig : r.size ≥ k.tableSize
  · simp only [hbig, if_true] at hres
    subst hres
    exact ⟨w, by simp, rfl, by simp, by simp, by simp [hbig], by simp; omega⟩
  · simp only [hbig, if_false] at hres
    have w1 := ensureHead_wf k w
    have f1 := ensureHead_findIn k w
    have s1 := ensureHead_tableSize k
    obtain ⟨hd, hh⟩ := Option.isSome_iff_exists.mp (ensureHead_head k)
    cases hp : hd.putRaw h r with
    | ok hd' =>
      simp only [hh, hp] at hres
      subst hres
      have u := headUpd_putRaw hd hd' h r hp
      refine ⟨commit_wf _ w1 hd hd' h _ hh u (by simp only [putSlot, putRawSlot, Rec.size, s1] at *; constructor <;> omega), by simp, by simp [commit, s1], ?_, by simp, by simp; omega, by simp; omega⟩
      intro _ h'
      simp only [lookup, commit_findIn _ hd hd' h h' _ hh u, f1]
      by_cases e : h' = h <;> simp [e, putRawSlot]
    | error e =>
      have hns : e = .noSpace := by
        unfold Table.putRaw at hp
        split at hp
        · injection hp with hp; exact hp.symm
        · cases hp
      subst hns
      simp only [hh, hp] at hres
      have w2 := makeTable_wf _ w1
      have f2 := makeTable_findIn _ w1.recEmpty
      obtain ⟨hd2, hh2, hoff, hal⟩ := makeTable_head _ w1
      have s2 := makeTable_tableSize k.ensureHead
      cases hp2 : hd2.putRaw h r with
      | ok hd2' =>
        simp only [hh2, hp2] at hres
        subst hres
        have u := headUpd_putRaw hd2 hd2' h r hp2
        refine ⟨commit_wf _ w2 hd2 hd2' h _ hh2 u (by simp only [putSlot, putRawSlot, Rec.size, s1, s2] at *; constructor <;> omega), by simp, by simp [commit, s2, s1], ?_, by simp, by simp; omega, by simp; omega⟩
        intro _ h'
        simp only [lookup, commit_findIn _ hd2 hd2' h h' _ hh2 u, f2, f1]
        by_cases e : h' = h <;> simp [e, putRawSlot]
      | error e2 =>
        exfalso
        unfold Table.putRaw at hp2
        split at hp2
        · rw [hoff, hal, s1] at *; omega
        · cases hp2

end KV
end Olric
