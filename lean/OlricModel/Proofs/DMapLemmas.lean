/- Lemmas about the DMap model: copies after writes, frame properties. Core-only. -/
import OlricModel.DMap.Model
namespace Olric.DMap

theorem copy_setCopy (c : Cluster) (i : Nat) (kind : Kind) (dm : Bytes) (k : Key) (v : Option Copy)
    (j : Nat) (kind' : Kind) (dm' : Bytes) (k' : Key) :
    (c.setCopy i kind dm k v).copy j kind' dm' k' =
      if j = i ∧ kind' = kind ∧ dm' = dm ∧ k' = k then v else c.copy j kind' dm' k' := by
  unfold Cluster.setCopy Cluster.copy
  by_cases hj : j = i
  · subst hj
    cases kind <;> cases kind' <;> simp [updFrags] <;> (try split) <;> simp_all
  · simp [hj]

/-- writing the same copy to the backup fragment of each member of `ms` -/
theorem copy_foldl_setBak (ms : List Nat) (c : Cluster) (dm : Bytes) (k : Key) (v : Option Copy)
    (j : Nat) (kind' : Kind) (dm' : Bytes) (k' : Key) :
    (ms.foldl (fun c b => c.setCopy b .bak dm k v) c).copy j kind' dm' k' =
      if j ∈ ms ∧ kind' = .bak ∧ dm' = dm ∧ k' = k then v else c.copy j kind' dm' k' := by
  induction ms generalizing c with
  | nil => simp
  | cons m ms ih =>
    simp only [List.foldl_cons, ih, copy_setCopy, List.mem_cons]
    by_cases h1 : j ∈ ms <;> by_cases h2 : j = m <;> by_cases h3 : kind' = Kind.bak ∧ dm' = dm ∧ k' = k <;>
      simp [h1, h2, h3] <;> simp_all

theorem copy_foldl_setPrim (ms : List Nat) (c : Cluster) (dm : Bytes) (k : Key) (v : Option Copy)
    (j : Nat) (kind' : Kind) (dm' : Bytes) (k' : Key) :
    (ms.foldl (fun c b => c.setCopy b .prim dm k v) c).copy j kind' dm' k' =
      if j ∈ ms ∧ kind' = .prim ∧ dm' = dm ∧ k' = k then v else c.copy j kind' dm' k' := by
  induction ms generalizing c with
  | nil => simp
  | cons m ms ih =>
    simp only [List.foldl_cons, ih, copy_setCopy, List.mem_cons]
    by_cases h1 : j ∈ ms <;> by_cases h2 : j = m <;> by_cases h3 : kind' = Kind.prim ∧ dm' = dm ∧ k' = k <;>
      simp [h1, h2, h3] <;> simp_all

/-- the copies after `replicate` -/
theorem copy_replicate (cfg : Cfg) (r : Route) (reach : Reach) (c : Cluster) (dm : Bytes) (k : Key) (e : Copy)
    (j : Nat) (kind' : Kind) (dm' : Bytes) (k' : Key) :
    (replicate cfg r reach c dm k e).1.copy j kind' dm' k' =
      if dm' = dm ∧ k' = k ∧ ((j = r.owner ∧ kind' = .prim) ∨ (cfg.R > 1 ∧ j ∈ r.baks ∧ reach j = true ∧ kind' = .bak))
      then some e else c.copy j kind' dm' k' := by
  have hfst : (replicate cfg r reach c dm k e).1 =
      ((if cfg.R > 1 then r.baks.filter reach else []).foldl (fun c b => c.setCopy b .bak dm k (some e)) c).setCopy
        r.owner .prim dm k (some e) := by
    unfold replicate; split <;> rfl
  rw [hfst]
  simp only [copy_setCopy, copy_foldl_setBak]
  by_cases hR : cfg.R > 1 <;> by_cases a : dm' = dm <;> by_cases b : k' = k <;> by_cases o : j = r.owner <;>
    by_cases m : j ∈ r.baks <;> by_cases rj : reach j = true <;> cases kind' <;> simp_all

theorem copy_del (cfg : Cfg) (r : Route) (c : Cluster) (dm : Bytes) (k : Key)
    (j : Nat) (kind' : Kind) (dm' : Bytes) (k' : Key) :
    (del cfg r c dm k).copy j kind' dm' k' =
      if dm' = dm ∧ k' = k ∧ ((j = r.owner ∧ kind' = .prim) ∨ (j ∈ r.prev ∧ kind' = .prim) ∨
          (cfg.R > 1 ∧ j ∈ r.baks ∧ kind' = .bak))
      then none else c.copy j kind' dm' k' := by
  unfold del
  simp only [copy_setCopy, copy_foldl_setBak, copy_foldl_setPrim]
  by_cases hR : cfg.R > 1 <;> by_cases a : dm' = dm <;> by_cases b : k' = k <;> by_cases o : j = r.owner <;>
    by_cases p : kind' = Kind.prim <;> by_cases q : j ∈ r.prev <;> by_cases m : j ∈ r.baks <;>
    cases kind' <;> simp_all

end Olric.DMap
