/- The store invariant and its preservation by every operation. Core-only. -/
import OlricModel.Proofs.KVLemmas
namespace Olric
open Table
namespace KV

def keys (t : Table) : List Nat := t.slots.map (·.hk)

structure WF (k : KV) : Prop where
  recEmpty : RecEmpty k.old
  unique : k.Unique
  headRW : ∀ t, k.head = some t → t.state = .rw
  oldNotRW : ∀ t ∈ k.old, t.state ≠ .rw
  alloc : ∀ t ∈ k.newestFirst, t.alloc = k.tableSize
  recOff : ∀ t ∈ k.old, isRecycled t = true → t.off = 0
  nodup : ∀ t ∈ k.newestFirst, (keys t).Nodup
  acct : ∀ t ∈ k.newestFirst, t.inuse = sumSize t.slots
  fits : ∀ t ∈ k.newestFirst, ∀ s ∈ t.slots, s.r.size < k.tableSize ∧ s.r.key.length < 256
  tot : ∀ t ∈ k.newestFirst, t.inuse + t.garbage = t.off
  layout : ∀ t ∈ k.newestFirst, t.Layout

theorem disj_of_find_eq {a a' b b' : Table} (ha : ∀ h, a'.find h = a.find h) (hb : ∀ h, b'.find h = b.find h)
    (d : Disj a b) : Disj a' b' := by
  intro h; rw [ha, hb]; exact d h

theorem disj_of_nil_left {a b : Table} (ha : a.slots = []) : Disj a b := fun h => Or.inl (find_eq_none_of_slots_nil a h ha)
theorem disj_of_nil_right {a b : Table} (hb : b.slots = []) : Disj a b := fun h => Or.inr (find_eq_none_of_slots_nil b h hb)

theorem pairwise_demoted (k : KV) (hu : k.Unique) : k.demoted.Pairwise Disj := by
  unfold Unique newestFirst at hu
  unfold demoted
  cases hh : k.head with
  | none => simpa [hh] using hu
  | some hd =>
    simp only [hh, Option.toList, List.cons_append, List.nil_append, List.pairwise_cons] at hu ⊢
    exact ⟨fun b hb => disj_of_find_eq (fun _ => rfl) (fun _ => rfl) (hu.1 b hb), hu.2⟩

theorem mem_demoted (k : KV) (t : Table) (ht : t ∈ k.demoted) :
    t ∈ k.old ∨ ∃ hd, k.head = some hd ∧ t = { hd with state := .ro } := by
  unfold demoted at ht
  cases hh : k.head with
  | none => simp [hh] at ht; exact Or.inl ht
  | some hd =>
    simp only [hh] at ht
    cases ht with
    | head => exact Or.inr ⟨hd, rfl, rfl⟩
    | tail _ ht => exact Or.inl ht

theorem makeTable_wf (k : KV) (w : k.WF) : k.makeTable.WF := by
  have hdem_alloc : ∀ t ∈ k.demoted, t.alloc = k.tableSize := by
    intro t ht
    rcases mem_demoted k t ht with h | ⟨hd, hh, rfl⟩
    · exact w.alloc t (by simp [newestFirst, h])
    · exact w.alloc hd (by simp [newestFirst, hh])
  have hdem_nodup : ∀ t ∈ k.demoted, (keys t).Nodup := by
    intro t ht
    rcases mem_demoted k t ht with h | ⟨hd, hh, rfl⟩
    · exact w.nodup t (by simp [newestFirst, h])
    · exact w.nodup hd (by simp [newestFirst, hh])
  have hdem_acct : ∀ t ∈ k.demoted, t.inuse = sumSize t.slots := by
    intro t ht
    rcases mem_demoted k t ht with h | ⟨hd, hh, rfl⟩
    · exact w.acct t (by simp [newestFirst, h])
    · exact w.acct hd (by simp [newestFirst, hh])
  have hdem_fits : ∀ t ∈ k.demoted, ∀ s ∈ t.slots, s.r.size < k.tableSize ∧ s.r.key.length < 256 := by
    intro t ht
    rcases mem_demoted k t ht with h | ⟨hd, hh, rfl⟩
    · exact w.fits t (by simp [newestFirst, h])
    · exact w.fits hd (by simp [newestFirst, hh])
  have hdem_tot : ∀ t ∈ k.demoted, t.inuse + t.garbage = t.off := by
    intro t ht
    rcases mem_demoted k t ht with h | ⟨hd, hh, rfl⟩
    · exact w.tot t (by simp [newestFirst, h])
    · exact w.tot hd (by simp [newestFirst, hh])
  have hdem_lay : ∀ t ∈ k.demoted, t.Layout := by
    intro t ht
    rcases mem_demoted k t ht with h | ⟨hd, hh, rfl⟩
    · exact w.layout t (by simp [newestFirst, h])
    · exact w.layout hd (by simp [newestFirst, hh])
  have hdem_nrw : ∀ t ∈ k.demoted, t.state ≠ .rw := by
    intro t ht
    rcases mem_demoted k t ht with h | ⟨hd, hh, rfl⟩
    · exact w.oldNotRW t h
    · simp
  have hdem_off : ∀ t ∈ k.demoted, isRecycled t = true → t.off = 0 := by
    intro t ht hr
    rcases mem_demoted k t ht with h | ⟨hd, hh, rfl⟩
    · exact w.recOff t h hr
    · simp [isRecycled] at hr
  have hdem_re := recEmpty_demoted k w.recEmpty
  have hdem_pw := pairwise_demoted k w.unique
  rw [makeTable_eq]
  cases hp : pickLast isRecycled k.demoted with
  | none =>
    refine ⟨hdem_re, ?_, ?_, hdem_nrw, ?_, hdem_off, ?_, ?_, ?_, ?_, ?_⟩
    · simp only [Unique, newestFirst, Option.toList, List.cons_append, List.nil_append, List.pairwise_cons]
      exact ⟨fun b _ => disj_of_nil_left rfl, hdem_pw⟩
    · intro t ht; injection ht with ht; subst ht; rfl
    · intro t ht
      simp only [newestFirst, Option.toList, List.cons_append, List.nil_append, List.mem_cons] at ht
      rcases ht with rfl | ht
      · rfl
      · exact hdem_alloc t ht
    · intro t ht
      simp only [newestFirst, Option.toList, List.cons_append, List.nil_append, List.mem_cons] at ht
      rcases ht with rfl | ht
      · simp [keys, Table.new]
      · exact hdem_nodup t ht
    · intro t ht
      simp only [newestFirst, Option.toList, List.cons_append, List.nil_append, List.mem_cons] at ht
      rcases ht with rfl | ht
      · simp [Table.new, sumSize]
      · exact hdem_acct t ht
    · intro t ht
      simp only [newestFirst, Option.toList, List.cons_append, List.nil_append, List.mem_cons] at ht
      rcases ht with rfl | ht
      · intro s hs; simp [Table.new] at hs
      · exact hdem_fits t ht
    · intro t ht
      simp only [newestFirst, Option.toList, List.cons_append, List.nil_append, List.mem_cons] at ht
      rcases ht with rfl | ht
      · rfl
      · exact hdem_tot t ht
    · intro t ht
      simp only [newestFirst, Option.toList, List.cons_append, List.nil_append, List.mem_cons] at ht
      rcases ht with rfl | ht
      · simp [Table.Layout, Table.new]
      · exact hdem_lay t ht
  | some q =>
    obtain ⟨t, rest⟩ := q
    obtain ⟨hm, hrec, hsub, hsl⟩ := pickLast_mem _ _ _ _ hp
    have he : t.slots = [] := hdem_re t hm hrec
    refine ⟨fun x hx => hdem_re x (hsub x hx), ?_, ?_, fun x hx => hdem_nrw x (hsub x hx), ?_,
      fun x hx => hdem_off x (hsub x hx), ?_, ?_, ?_, ?_, ?_⟩
    · simp only [Unique, newestFirst, Option.toList, List.cons_append, List.nil_append, List.pairwise_cons]
      exact ⟨fun b _ => disj_of_nil_left he, hdem_pw.sublist hsl⟩
    · intro x hx; injection hx with hx; subst hx; rfl
    · intro x hx
      simp only [newestFirst, Option.toList, List.cons_append, List.nil_append, List.mem_cons] at hx
      rcases hx with rfl | hx
      · exact hdem_alloc t hm
      · exact hdem_alloc x (hsub x hx)
    · intro x hx
      simp only [newestFirst, Option.toList, List.cons_append, List.nil_append, List.mem_cons] at hx
      rcases hx with rfl | hx
      · simp [keys, he]
      · exact hdem_nodup x (hsub x hx)
    · intro x hx
      simp only [newestFirst, Option.toList, List.cons_append, List.nil_append, List.mem_cons] at hx
      rcases hx with rfl | hx
      · exact hdem_acct t hm
      · exact hdem_acct x (hsub x hx)
    · intro x hx
      simp only [newestFirst, Option.toList, List.cons_append, List.nil_append, List.mem_cons] at hx
      rcases hx with rfl | hx
      · exact hdem_fits t hm
      · exact hdem_fits x (hsub x hx)
    · intro x hx
      simp only [newestFirst, Option.toList, List.cons_append, List.nil_append, List.mem_cons] at hx
      rcases hx with rfl | hx
      · exact hdem_tot t hm
      · exact hdem_tot x (hsub x hx)
    · intro x hx
      simp only [newestFirst, Option.toList, List.cons_append, List.nil_append, List.mem_cons] at hx
      rcases hx with rfl | hx
      · exact hdem_lay t hm
      · exact hdem_lay x (hsub x hx)

/-- after makeTable the head is empty-offset and as large as the configured table size -/
theorem makeTable_head (k : KV) (w : k.WF) :
    ∃ hd, k.makeTable.head = some hd ∧ hd.off = 0 ∧ hd.alloc = k.tableSize := by
  rw [makeTable_eq]
  cases hp : pickLast isRecycled k.demoted with
  | none => exact ⟨_, rfl, rfl, rfl⟩
  | some q =>
    obtain ⟨t, rest⟩ := q
    obtain ⟨hm, hrec, _, _⟩ := pickLast_mem _ _ _ _ hp
    refine ⟨_, rfl, ?_, ?_⟩
    · rcases mem_demoted k t hm with h | ⟨hd, hh, rfl⟩
      · exact w.recOff t h hrec
      · simp [isRecycled] at hrec
    · rcases mem_demoted k t hm with h | ⟨hd, hh, rfl⟩
      · exact w.alloc t (by simp [newestFirst, h])
      · exact w.alloc hd (by simp [newestFirst, hh])

theorem makeTable_tableSize (k : KV) : k.makeTable.tableSize = k.tableSize := by
  rw [makeTable_eq]; cases pickLast isRecycled k.demoted <;> rfl

theorem fork_wf (size : Nat) (idle : Int) : (KV.fork size idle).WF := by
  refine ⟨by intro t ht; simp [fork] at ht, ?_, ?_, by intro t ht; simp [fork] at ht, ?_, by intro t ht; simp [fork] at ht, ?_, ?_, ?_, ?_, ?_⟩
  · simp [Unique, newestFirst, fork]
  · intro t ht; simp [fork] at ht; subst ht; rfl
  · intro t ht; simp [newestFirst, fork] at ht; subst ht; rfl
  · intro t ht; simp [newestFirst, fork] at ht; subst ht; simp [keys, Table.new]
  · intro t ht; simp [newestFirst, fork] at ht; subst ht; simp [Table.new, sumSize]
  · intro t ht; simp [newestFirst, fork] at ht; subst ht; intro s hs; simp [Table.new] at hs
  · intro t ht; simp [newestFirst, fork] at ht; subst ht; rfl
  · intro t ht; simp [newestFirst, fork] at ht; subst ht; simp [Table.Layout, Table.new]

theorem empty_wf (size : Nat) (idle : Int) : (KV.empty size idle).WF := by
  refine ⟨by intro t ht; simp [empty] at ht, by simp [Unique, newestFirst, empty], by intro t ht; simp [empty] at ht,
    by intro t ht; simp [empty] at ht, by intro t ht; simp [newestFirst, empty] at ht,
    by intro t ht; simp [empty] at ht, by intro t ht; simp [newestFirst, empty] at ht,
    by intro t ht; simp [newestFirst, empty] at ht, by intro t ht; simp [newestFirst, empty] at ht,
    by intro t ht; simp [newestFirst, empty] at ht, by intro t ht; simp [newestFirst, empty] at ht⟩

end KV
end Olric
