/-
  The client iterator over ONE partition (cluster_iterator.go / embedded_iterator.go, as repaired by the
  "fix: the client iterator ..." commit): `scanOnOwners` asks every owner that is still on the iterator's route for
  its next page (DM.SCAN with that owner's cursor), `updateIterator` appends the keys not met before in this
  partition, an owner whose cursor came back 0 leaves the route; `fetchData` does that for the primary owners and
  then for the replica owners; `next` repeats it until the route is empty.

  An owner is represented by the pages it answers, in order; the last one comes with cursor 0 (so an owner
  answers at least one page, possibly an empty one).  What those pages contain is the subject of the store theorems
  (C12_full_walk_complete_sound): here only how the iterator combines them.
-/
namespace Olric.Iter

variable {α : Type} [DecidableEq α]

/-- updateIterator: keys already met in this partition (`partitionKeys`) are skipped -/
def emit (acc : List α) (page : List α) : List α :=
  page.foldl (fun a k => if k ∈ a then a else a ++ [k]) acc

/-- the next page of every owner still on the route -/
def heads (os : List (List (List α))) : List (List α) := os.filterMap List.head?

/-- owners whose cursor came back 0 leave the route (removeScannedOwner) -/
def tails (os : List (List (List α))) : List (List (List α)) := (os.map List.tail).filter (fun t => !t.isEmpty)

/-- pages still to be fetched -/
def total (os : List (List (List α))) : Nat := (os.map List.length).sum

/-- the pages in the order the iterator fetches them: round after round until the route is empty -/
def schedule : Nat → List (List (List α)) → List (List α)
  | 0, _ => []
  | f + 1, os => if os.isEmpty then [] else heads os ++ schedule f (tails os)

/-- the keys the iterator hands out for the partition, in order -/
def iterate (os : List (List (List α))) : List α := (schedule (total os + 1) os).foldl emit []

end Olric.Iter
