/-
  The client-side pipeline of pipeline.go (DMapPipeline): commands are queued per partition
  (`addCommand`: `dp.commands[partID] = append(cmds, cmd)`, the future keeps `(partID, len-1)`), `Exec` sends
  every partition's queue over one connection (`execOnPartition`: replies come back in queueing order,
  `dp.result[partID] = result`), a future reads `dp.result[partID][index]`.

  The queue is kept as the monotone history `q` of `(partition, command)` pairs; `dp.commands[p]` is `batch p q`.
  The servers are a parameter: `step` is what the owner of a partition does with one command on that partition's
  state (a command on a key touches that key's partition only; the lock-step cluster stream ties `step` to the
  DMap model one command at a time).  Partitions are executed concurrently by `Exec`; as every partition's run reads
  and writes its own component only, the order does not appear in the definitions below.  Core-only.
-/
namespace Olric.Pipeline

variable {σ κ ρ : Type}

/-- `dp.commands[p]` after the commands of `q` were queued -/
def batch (p : Nat) (q : List (Nat × κ)) : List κ := (q.filter (fun x => x.1 == p)).map (·.2)

/-- `addCommand`: append to the partition's queue, hand out `(partID, len(queue) - 1)` -/
def add (q : List (Nat × κ)) (p : Nat) (c : κ) : List (Nat × κ) × (Nat × Nat) :=
  (q ++ [(p, c)], (p, (batch p q).length))

/-- the slots handed to the futures when the commands `cs` are queued one after the other behind `q` -/
def futures : List (Nat × κ) → List (Nat × κ) → List (Nat × Nat)
  | _, [] => []
  | q, (p, c) :: cs => (add q p c).2 :: futures (add q p c).1 cs

/-- one partition's queue executed in order by the partition's owner: final state and the replies in order -/
def partRun (step : σ → κ → σ × ρ) : σ → List κ → σ × List ρ
  | s, [] => (s, [])
  | s, c :: cs => ((partRun step (step s c).1 cs).1, (step s c).2 :: (partRun step (step s c).1 cs).2)

def upd (st : Nat → σ) (p : Nat) (s : σ) : Nat → σ := fun x => if x = p then s else st x

/-- the same commands issued one at a time, each waiting for its reply (any non-pipelined path) -/
def seqRun (step : σ → κ → σ × ρ) : (Nat → σ) → List (Nat × κ) → (Nat → σ) × List ρ
  | st, [] => (st, [])
  | st, (p, c) :: cs =>
    ((seqRun step (upd st p (step (st p) c).1) cs).1, (step (st p) c).2 :: (seqRun step (upd st p (step (st p) c).1) cs).2)

/-- `dp.result[p]` after `Exec` -/
def execResult (step : σ → κ → σ × ρ) (st : Nat → σ) (q : List (Nat × κ)) (p : Nat) : List ρ :=
  (partRun step (st p) (batch p q)).2

/-- partition `p`'s state after `Exec` -/
def execState (step : σ → κ → σ × ρ) (st : Nat → σ) (q : List (Nat × κ)) (p : Nat) : σ :=
  (partRun step (st p) (batch p q)).1

/-- `Future.Result()` once `Exec` returned: `dp.result[partID][index]` -/
def futureResult (step : σ → κ → σ × ρ) (st : Nat → σ) (q : List (Nat × κ)) (slot : Nat × Nat) : Option ρ :=
  (execResult step st q slot.1)[slot.2]?

/-! ### life cycle (Exec once, Discard starts a new generation, Close ends the pipeline) -/

inductive FutErr | closed | notReady | executed
  deriving DecidableEq, Repr

/-- the contexts of `initContexts`: `gen` counts the Discards; a future remembers the generation it was made in -/
structure Life where
  gen : Nat := 0
  executed : Bool := false
  closed : Bool := false
  deriving DecidableEq, Repr

/-- `closedCtx.Done()` of a future made in generation `g` -/
def Life.futClosed (l : Life) (g : Nat) : Bool := g != l.gen || l.closed

/-- the two `select`s at the head of every `Future.Result()`: closed first, then not ready -/
def Life.read (l : Life) (g : Nat) : Option FutErr :=
  if l.futClosed g then some .closed else if !l.executed then some .notReady else none

/-- `Exec`: closed first, then already executed; otherwise it runs and cancels `ctx` -/
def Life.exec (l : Life) : Life × Option FutErr :=
  if l.closed then (l, some .closed) else if l.executed then (l, some .executed) else ({ l with executed := true }, none)

/-- `Discard`: refused on a closed pipeline; otherwise the old contexts are cancelled and new ones made -/
def Life.discard (l : Life) : Life × Option FutErr :=
  if l.closed then (l, some .closed) else ({ gen := l.gen + 1, executed := false, closed := false }, none)

def Life.close (l : Life) : Life := { l with closed := true }

end Olric.Pipeline
