/-
  The coordinator's routing-table computation: internal/cluster/routingtable/distribute.go
  (distributePrimaryCopies, getReplicaOwners, distributeBackups), the push to the members
  (update.go / operations.go) and the left-over data reports (left_over_data.go).

  Inputs, not computed: what the consistent-hash ring answers (the partition's owner and its closest
  members — hash positions are parameters), the member list of the membership layer, and the key
  counts the listed owners report (LengthOfPart; `none` = the request failed).
-/
namespace Olric.Routing

/-- a member: its name (address) and its id (name + birthdate: a member that re-joins under the same
    address has a new id) -/
structure Mem where
  name : Nat
  id : Nat
  deriving DecidableEq, Repr

/-- discovery.FindMemberByName over the current member list -/
def findByName (live : List Mem) (n : Nat) : Option Mem := live.find? (fun m => m.name == n)

/-- the listed owner is still that member: found by name, same id -/
def alive (live : List Mem) (o : Mem) : Bool :=
  match findByName live o.name with
  | some cur => cur.id == o.id
  | none => false

/-- "Prune dead nodes" (the loop deletes in place and steps back: a filter) -/
def pruneDead (live : List Mem) (owners : List Mem) : List Mem := owners.filter (alive live)

/-- "Prune empty nodes": an owner that reports zero keys is dropped; one that cannot be asked stays -/
def pruneEmpty (count : Mem → Option Nat) (owners : List Mem) : List Mem :=
  owners.filter (fun o => count o != some 0)

/-- remove the first element with this id -/
def removeFirst (x : Mem) : List Mem → List Mem
  | [] => []
  | o :: rest => if o.id == x.id then rest else o :: removeFirst x rest

/-- "add the new owner": it goes to the end, once -/
def moveToEnd (owners : List Mem) (x : Mem) : List Mem :=
  if owners.any (fun o => o.id == x.id) then removeFirst x owners ++ [x] else owners ++ [x]

/-- distributePrimaryCopies -/
def distributePrimary (live : List Mem) (count : Mem → Option Nat) (owners : List Mem) (ringOwner : Mem) : List Mem :=
  if owners = [] then [ringOwner]
  else moveToEnd (pruneEmpty count (pruneDead live owners)) ringOwner

/-- distributeBackups; `closest` = what getReplicaOwners returned (primary first), `none` = error -/
def distributeBackups (live : List Mem) (count : Mem → Option Nat) (owners : List Mem) (closest : Option (List Mem)) : List Mem :=
  match closest with
  | none => []
  | some cs =>
    let newOwners := cs.tail
    if owners = [] then newOwners
    else newOwners.foldl moveToEnd (pruneEmpty count (pruneDead live owners))

/-- getReplicaOwners: the largest i ≤ R for which the ring has i members -/
def replicaOwners (ringClosest : Nat → Option (List Mem)) : Nat → Option (List Mem)
  | 0 => none
  | i + 1 => match ringClosest (i + 1) with
    | some l => some l
    | none => replicaOwners ringClosest i

structure Row where
  owners : List Mem
  backups : List Mem
  deriving DecidableEq, Repr

/-- one row of fillRoutingTable -/
def fillRow (R : Nat) (live : List Mem) (pcount bcount : Mem → Option Nat) (cur : Row) (ringOwner : Mem)
    (closest : Option (List Mem)) : Row :=
  { owners := distributePrimary live pcount cur.owners ringOwner,
    backups := if R > 1 then distributeBackups live bcount cur.backups closest else [] }

/-- processLeftOverDataReports for one partition: a member that still reports data and is not listed is
    put in front -/
def ensureOwnership (owners : List Mem) (m : Mem) : List Mem :=
  if owners.any (fun o => o.id == m.id) then owners else m :: owners

/-- updateRouting for one partition's primary owners (routingtable.go, as repaired by aa5aa21): the table is
    computed (`count1` = what the listed owners answered) and pushed; the members that report left-over data for
    the partition are added to the coordinator's copy of the owners list; when that added somebody, the table is
    computed (`count2`) and pushed once more.  Result: the owners list of the LAST push - what every member holds. -/
def updateRoutingPart (live : List Mem) (count1 count2 : Mem → Option Nat) (coordOwners : List Mem) (ro : Mem)
    (reporters : List Mem) : List Mem :=
  let t1 := distributePrimary live count1 coordOwners ro
  let c1 := reporters.foldl ensureOwnership t1
  if c1 = t1 then t1 else distributePrimary live count2 c1 ro

/-- discovery.GetCoordinator: members sorted by birthdate, the first one (members = (member, birthdate)) -/
def oldest : List (Mem × Int) → Option (Mem × Int)
  | [] => none
  | x :: rest =>
    match oldest rest with
    | none => some x
    | some y => if y.2 < x.2 then some y else some x

def coordinator (l : List (Mem × Int)) : Option Mem := (oldest l).map (·.1)

/-! ### the ring's bounded-load assignment (buraksezer/consistent: distributeWithLoad) -/

/-- walk the ring from `start`: the first member whose load is below the bound takes the partition -/
def assignOne (walk : List Nat) (loads : Nat → Nat) (avg : Nat) : Option Nat :=
  walk.find? (fun m => loads m + 1 ≤ avg)

def assignAll (avg : Nat) : List (List Nat) → (Nat → Nat) → Option (Nat → Nat)
  | [], loads => some loads
  | walk :: rest, loads =>
    match assignOne walk loads avg with
    | some m => assignAll avg rest (fun x => if x = m then loads x + 1 else loads x)
    | none => none      -- the library panics: "not enough room to distribute partitions"

/-- averageLoad as the library computes it: the division is an integer division -/
def averageLoad (partitions members loadNum loadDen : Nat) : Nat :=
  if members = 0 then 0 else ((partitions / members) * loadNum + loadDen - 1) / loadDen

end Olric.Routing
