/-
  Eviction on top of DMap/Model.lean: the LRU step that precedes every write on the owner
  (dmap.setLRUEvictionStats / evictKeyWithLRU), idleness (isKeyIdleOnFragment) and the background scan
  (scanFragmentForEviction).

  What is an input, not computed: the keys hashed to the partition (`univ`: the hash is a parameter),
  which entries the random sampling picked as victims (`victims`), which keys a background scan visited
  (`visited`), how many partitions the member owns (`owned`).
-/
import OlricModel.DMap.Model
namespace Olric.DMap

structure EvCfg where
  lru : Bool := false
  maxKeys : Nat := 0
  maxInuse : Nat := 0
  lruSamples : Nat := 5
  idle : Int := 0          -- MaxIdleDuration, ns (0 = off)
  deriving Repr

/-- bytes an entry occupies in a table: metadata (29) + key + value -/
def entrySize (k : Key) (x : Copy) : Nat := 29 + k.length + x.val.length

def present (c : Cluster) (m : Nat) (dm : Bytes) (k : Key) : Bool := (c.copy m .prim dm k).isSome

/-- Stats().Length of the member's primary fragment of `dm` for the partition whose keys are `univ` -/
def fragLen (c : Cluster) (m : Nat) (dm : Bytes) (univ : List Key) : Nat := (univ.filter (present c m dm)).length

def sizeOf? (c : Cluster) (m : Nat) (dm : Bytes) (k : Key) : Nat :=
  match c.copy m .prim dm k with
  | some x => entrySize k x
  | none => 0

/-- Stats().Inuse -/
def fragInuse (c : Cluster) (m : Nat) (dm : Bytes) (univ : List Key) : Nat := (univ.map (sizeOf? c m dm)).sum

def keysFull (ecfg : EvCfg) (owned len : Nat) : Bool :=
  decide (ecfg.maxKeys > 0) && decide (len > 0) && decide (len ≥ ecfg.maxKeys / owned)

def inuseFull (ecfg : EvCfg) (owned inuse : Nat) : Bool :=
  decide (ecfg.maxInuse > 0) && decide (inuse > 0) && decide (inuse ≥ ecfg.maxInuse / owned)

/-- evictKeyWithLRU: removes one sampled entry everywhere (deleteOnCluster).  An empty fragment has
    nothing to evict.  `none`: the reported victim is not an entry of the fragment (not a possible run). -/
def evictOne (cfg : Cfg) (r : Route) (c : Cluster) (dm : Bytes) (univ : List Key) (victims : List Key) :
    Option (Cluster × List Key) :=
  if fragLen c r.owner dm univ = 0 then some (c, victims)
  else
    match victims with
    | v :: rest => if present c r.owner dm v && univ.contains v then some (del cfg r c dm v, rest) else none
    | [] => none

/-- putOnCluster with the LRU policy: conditions, then (statistics read ONCE) at most one eviction per
    limit, then the write -/
def lruPut (ecfg : EvCfg) (owned : Nat) (cfg : Cfg) (r : Route) (reach : Reach) (c : Cluster) (dm : Bytes)
    (univ : List Key) (k : Key) (v : Bytes) (pc : PutCfg) (now : Int) (victims : List Key) : Option (Cluster × Res) :=
  let cur := live (c.copy r.owner .prim dm k) now
  if pc.nx && cur.isSome then some (c, .keyFound)
  else if pc.xx && cur.isNone then some (c, .notFound)
  else
    let e : Copy := ⟨v, prepareTTL pc.ttl cfg.dmTTL now, now⟩
    if !ecfg.lru || owned = 0 then some (replicate cfg r reach c dm k e)
    else
      let len := fragLen c r.owner dm univ
      let inuse := fragInuse c r.owner dm univ
      let s1 := if keysFull ecfg owned len then evictOne cfg r c dm univ victims else some (c, victims)
      match s1 with
      | none => none
      | some (c1, vs1) =>
        let s2 := if inuseFull ecfg owned inuse then evictOne cfg r c1 dm univ vs1 else some (c1, vs1)
        match s2 with
        | none => none
        | some (c2, _) => some (replicate cfg r reach c2 dm k e)

/-! ### idleness -/

/-- last-access stamps of the primary entries (unix ns): written by every successful storage read and
    by every write on the owner -/
abbrev LA := Bytes → Key → Int

def LA.set (la : LA) (dm : Bytes) (k : Key) (t : Int) : LA := fun d x => if d = dm ∧ x = k then t else la d x

/-- isKeyIdleOnFragment -/
def idleExpired (ecfg : EvCfg) (la now : Int) : Bool :=
  ecfg.idle != 0 && expired (Int.tdiv (ecfg.idle + la) 1000000) now

/-- scanFragmentForEviction over the entries it visited: expired or idle entries are deleted everywhere.
    Returns the number of evicted entries with the cluster. -/
def evScan (ecfg : EvCfg) (cfg : Cfg) (route : Key → Route) (la : LA) (dm : Bytes) (now : Int) :
    Cluster → List Key → Cluster × Nat
  | c, [] => (c, 0)
  | c, k :: rest =>
    match c.copy (route k).owner .prim dm k with
    | some x =>
      if expired x.ttl now || idleExpired ecfg (la dm k) now then
        let (c', n) := evScan ecfg cfg route la dm now (del cfg (route k) c dm k) rest
        (c', n + 1)
      else evScan ecfg cfg route la dm now c rest
    | none => evScan ecfg cfg route la dm now c rest

end Olric.DMap
