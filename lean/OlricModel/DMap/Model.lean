/-
  Executable model of the DMap layer (internal/dmap: put.go, get.go, delete.go, expire.go,
  atomic.go, lock.go, destroy*.go) over abstract fragments.  By C11 a fragment's store is a map, so
  a fragment is an association list `key ↦ copy`; by the frame property of every operation the model
  keeps, per member, one primary and one backup fragment per DMap name.

  Time is an explicit input (`now`, unix ns); the routing (owners of the key's partition) is an
  explicit input (`Route`): both are read from the running cluster by the correspondence stream.
  Core-only (linked into the driver).
-/
import OlricModel.Store.Model
namespace Olric.DMap
open Olric

/-- what a member stores for a key: value, expiry (unix ms, 0 = none), write timestamp (unix ns) -/
structure Copy where
  val : Bytes
  ttl : Int
  ts : Int
  deriving DecidableEq, Repr, Inhabited

abbrev Key := Bytes

/-- one member's fragments: DMap name ↦ key ↦ copy.  (A fragment is a map by C11; functions make the
    frame properties — an operation on one key of one DMap touches nothing else — immediate.) -/
abbrev Frags := Bytes → Key → Option Copy

structure Node where
  prim : Frags := fun _ _ => none
  bak : Frags := fun _ _ => none

instance : Inhabited Node := ⟨{}⟩

/-- member index ↦ member state -/
abbrev Cluster := Nat → Node

def Cluster.empty : Cluster := fun _ => {}

inductive Kind | prim | bak
  deriving DecidableEq, Repr

def Cluster.copy (c : Cluster) (i : Nat) (kind : Kind) (dm : Bytes) (k : Key) : Option Copy :=
  match kind with
  | .prim => (c i).prim dm k
  | .bak => (c i).bak dm k

def updFrags (fs : Frags) (dm : Bytes) (k : Key) (v : Option Copy) : Frags :=
  fun d x => if d = dm ∧ x = k then v else fs d x

def Cluster.setCopy (c : Cluster) (i : Nat) (kind : Kind) (dm : Bytes) (k : Key) (v : Option Copy) : Cluster :=
  fun j =>
    if j = i then
      match kind with
      | .prim => { c i with prim := updFrags (c i).prim dm k v }
      | .bak => { c i with bak := updFrags (c i).bak dm k v }
    else c j

/-- the owners of the key's partition as the executing member sees them: primary owners (previous
    owners first, the current owner LAST) and backup owners; member indexes -/
structure Route where
  prims : List Nat
  baks : List Nat
  deriving Repr

def Route.owner (r : Route) : Nat := r.prims.getLastD 0
def Route.prev (r : Route) : List Nat := r.prims.dropLast

inductive TTLOpt
  | none
  | ex (ns : Int)      -- relative, as a Go Duration in ns
  | px (ns : Int)
  | exat (ns : Int)    -- absolute unix time as a Go Duration in ns
  | pxat (ns : Int)
  deriving DecidableEq, Repr

structure PutCfg where
  nx : Bool := false
  xx : Bool := false
  ttl : TTLOpt := .none
  deriving DecidableEq, Repr

structure Cfg where
  R : Nat := 1
  W : Nat := 1
  RQ : Nat := 1
  readRepair : Bool := false
  dmTTL : Int := 0          -- DMap default TTLDuration, ns
  deriving Repr

inductive Res
  | ok
  | keyFound
  | notFound
  | writeQuorum
  | readQuorum
  | val (c : Copy)
  deriving DecidableEq, Repr

/-- dmap.isKeyExpired -/
def expired (ttl now : Int) : Bool := ttl != 0 && decide (Int.tdiv now 1000000 ≥ ttl)

/-- dmap.prepareTTL: `timeout` = e.timeout (Expire's argument or the DMap default), ns -/
def prepareTTL (o : TTLOpt) (timeout now : Int) : Int :=
  match o with
  | .ex d => Int.tdiv (d + now) 1000000
  | .px d => Int.tdiv (d + now) 1000000
  | .exat t => Int.tdiv t 1000000
  | .pxat t => Int.tdiv t 1000000
  | .none => if timeout != 0 then Int.tdiv (timeout + now) 1000000 else 0

/-- a present, unexpired copy -/
def live (c : Option Copy) (now : Int) : Option Copy :=
  match c with
  | some x => if expired x.ttl now then none else some x
  | none => none

/-- which backup owners answer (false = transport error) -/
abbrev Reach := Nat → Bool

/-- quorum-based synchronous replication of `e` for key `k` (syncPutOnCluster): write to every reachable
    backup owner, then to the owner's primary fragment; acknowledged iff at least W copies were stored -/
def replicate (cfg : Cfg) (r : Route) (reach : Reach) (c : Cluster) (dm : Bytes) (k : Key) (e : Copy) : Cluster × Res :=
  let targets := if cfg.R > 1 then r.baks.filter reach else []
  let c1 := targets.foldl (fun c b => c.setCopy b .bak dm k (some e)) c
  let c2 := c1.setCopy r.owner .prim dm k (some e)
  if cfg.R > 1 then
    (c2, if targets.length + 1 ≥ cfg.W then .ok else .writeQuorum)
  else (c2, .ok)

/-- putOnCluster on the partition owner -/
def put (cfg : Cfg) (r : Route) (reach : Reach) (c : Cluster) (dm : Bytes) (k : Key) (v : Bytes) (pc : PutCfg)
    (now : Int) : Cluster × Res :=
  let cur := live (c.copy r.owner .prim dm k) now
  if pc.nx && cur.isSome then (c, .keyFound)
  else if pc.xx && cur.isNone then (c, .notFound)
  else
    let e : Copy := ⟨v, prepareTTL pc.ttl cfg.dmTTL now, now⟩
    replicate cfg r reach c dm k e

/-- Expire: only the expiry (and the write timestamp) of an existing, unexpired key change -/
def expire (cfg : Cfg) (r : Route) (reach : Reach) (c : Cluster) (dm : Bytes) (k : Key) (timeout now : Int) : Cluster × Res :=
  match live (c.copy r.owner .prim dm k) now with
  | none => (c, .notFound)
  | some cur =>
    let e : Copy := ⟨cur.val, prepareTTL .none (if timeout != 0 then timeout else cfg.dmTTL) now, now⟩
    replicate cfg r reach c dm k e

/-- the versions a read gathers: the owner's primary copy (kept even if absent), the previous owners'
    primary copies that are present and unexpired, and one answer per reachable backup owner -/
def versions (r : Route) (reach : Reach) (c : Cluster) (dm : Bytes) (k : Key) (now : Int) :
    List (Nat × Kind × Option Copy) :=
  let own := (r.owner, Kind.prim, live (c.copy r.owner .prim dm k) now)    -- an expired entry is no copy
  let prev := (r.prev.reverse.filter reach).filterMap (fun m => (live (c.copy m .prim dm k) now).map (fun x => (m, Kind.prim, some x)))
  -- a reachable backup owner always answers: with its live copy, or with "not found"
  let baks := (r.baks.filter reach).map (fun m => (m, Kind.bak, live (c.copy m .bak dm k) now))
  own :: (prev ++ baks)

/-- sort.Slice with `ts[i] >= ts[j]` on at most 12 elements is insertion sort: an element moves in
    front of its predecessor when its timestamp is ≥ -/
def insertV (x : Nat × Kind × Copy) : List (Nat × Kind × Copy) → List (Nat × Kind × Copy)
  | [] => [x]
  | y :: ys => if x.2.2.ts ≥ y.2.2.ts then x :: y :: ys else y :: insertV x ys

def sortV (l : List (Nat × Kind × Copy)) : List (Nat × Kind × Copy) :=
  l.foldl (fun acc x => insertV x acc) []

/-- getOnCluster on the partition owner -/
def get (cfg : Cfg) (r : Route) (reach : Reach) (c : Cluster) (dm : Bytes) (k : Key) (now : Int) : Cluster × Res :=
  let vs := versions r reach c dm k now
  if vs.length < cfg.RQ then (c, .readQuorum) else
  let present := vs.filterMap (fun v => v.2.2.map (fun x => (v.1, v.2.1, x)))
  match sortV present with
  | [] => (c, .notFound)
  | w :: _ =>
    if present.length < cfg.RQ then (c, .readQuorum)
    else if expired w.2.2.ttl now then (c, .notFound)
    else
      let c' :=
        if cfg.readRepair then
          vs.foldl (fun c v =>
            match v.2.2 with
            | some x => if x.ts = w.2.2.ts then c else c.setCopy v.1 (if v.1 = r.owner then .prim else .bak) dm k (some w.2.2)
            | none => c.setCopy v.1 (if v.1 = r.owner then .prim else .bak) dm k (some w.2.2)) c
        else c
      (c', .val w.2.2)

/-- deleteKey on the partition owner: previous owners' primary copies, backups, then the local copy -/
def del (cfg : Cfg) (r : Route) (c : Cluster) (dm : Bytes) (k : Key) : Cluster :=
  let c1 := r.prev.foldl (fun c m => c.setCopy m .prim dm k none) c
  let c2 := (if cfg.R > 1 then r.baks else []).foldl (fun c m => c.setCopy m .bak dm k none) c1
  c2.setCopy r.owner .prim dm k none

end Olric.DMap
