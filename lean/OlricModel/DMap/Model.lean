/-
  Executable model of the DMap layer (internal/dmap: put.go, get.go, delete.go, expire.go,
  atomic.go, lock.go, destroy*.go) over abstract fragments.  By C11 a fragment's store is a map, so
  a fragment is an association list `key ↦ copy`; by the frame property of every operation the model
  keeps, per member, one primary and one backup fragment per DMap name.

  Time is an explicit input (`now`, unix ns); the routing (owners of the key's partition) is an
  explicit input (`Route`): both are read from the running cluster by the correspondence stream.
  Core-only (linked into the driver).
-/
import OlricModel.Store.Model
namespace Olric.DMap
open Olric

/-- what a member stores for a key: value, expiry (unix ms, 0 = none), write timestamp (unix ns) -/
structure Copy where
  val : Bytes
  ttl : Int
  ts : Int
  deriving DecidableEq, Repr, Inhabited

abbrev Key := Bytes

/-- one member's fragments: DMap name ↦ key ↦ copy.  (A fragment is a map by C11; functions make the
    frame properties — an operation on one key of one DMap touches nothing else — immediate.) -/
abbrev Frags := Bytes → Key → Option Copy

structure Node where
  prim : Frags := fun _ _ => none
  bak : Frags := fun _ _ => none

instance : Inhabited Node := ⟨{}⟩

/-- member index ↦ member state -/
abbrev Cluster := Nat → Node

def Cluster.empty : Cluster := fun _ => {}

inductive Kind | prim | bak
  deriving DecidableEq, Repr

def Cluster.copy (c : Cluster) (i : Nat) (kind : Kind) (dm : Bytes) (k : Key) : Option Copy :=
  match kind with
  | .prim => (c i).prim dm k
  | .bak => (c i).bak dm k

def updFrags (fs : Frags) (dm : Bytes) (k : Key) (v : Option Copy) : Frags :=
  fun d x => if d = dm ∧ x = k then v else fs d x

@[noinline] def Cluster.setCopy (c : Cluster) (i : Nat) (kind : Kind) (dm : Bytes) (k : Key) (v : Option Copy) : Cluster :=
  fun j =>
    if j = i then
      let n := c i      -- evaluated once (the compiled model would otherwise evaluate `c i` twice per level)
      match kind with
      | .prim => { n with prim := updFrags n.prim dm k v }
      | .bak => { n with bak := updFrags n.bak dm k v }
    else c j

/-- the owners of the key's partition as the executing member sees them: primary owners (previous
    owners first, the current owner LAST) and backup owners; member indexes -/
structure Route where
  prims : List Nat
  baks : List Nat
  deriving Repr

def Route.owner (r : Route) : Nat := r.prims.getLastD 0
def Route.prev (r : Route) : List Nat := r.prims.dropLast

inductive TTLOpt
  | none
  | ex (ns : Int)      -- relative, as a Go Duration in ns
  | px (ns : Int)
  | exat (ns : Int)    -- absolute unix time as a Go Duration in ns
  | pxat (ns : Int)
  deriving DecidableEq, Repr

structure PutCfg where
  nx : Bool := false
  xx : Bool := false
  ttl : TTLOpt := .none
  deriving DecidableEq, Repr

structure Cfg where
  R : Nat := 1
  W : Nat := 1
  RQ : Nat := 1
  readRepair : Bool := false
  dmTTL : Int := 0          -- DMap default TTLDuration, ns
  deriving Repr

inductive Res
  | ok
  | keyFound
  | notFound
  | writeQuorum
  | readQuorum
  | val (c : Copy)
  deriving DecidableEq, Repr

/-- dmap.isKeyExpired -/
def expired (ttl now : Int) : Bool := ttl != 0 && decide (Int.tdiv now 1000000 ≥ ttl)

/-- dmap.prepareTTL: `timeout` = e.timeout (Expire's argument or the DMap default), ns -/
def prepareTTL (o : TTLOpt) (timeout now : Int) : Int :=
  match o with
  | .ex d => Int.tdiv (d + now) 1000000
  | .px d => Int.tdiv (d + now) 1000000
  | .exat t => Int.tdiv t 1000000
  | .pxat t => Int.tdiv t 1000000
  | .none => if timeout != 0 then Int.tdiv (timeout + now) 1000000 else 0

/-- a present, unexpired copy -/
def live (c : Option Copy) (now : Int) : Option Copy :=
  match c with
  | some x => if expired x.ttl now then none else some x
  | none => none

/-- which backup owners answer (false = transport error) -/
abbrev Reach := Nat → Bool

/-- quorum-based synchronous replication of `e` for key `k` (syncPutOnCluster): write to every reachable
    backup owner, then to the owner's primary fragment; acknowledged iff at least W copies were stored -/
def replicate (cfg : Cfg) (r : Route) (reach : Reach) (c : Cluster) (dm : Bytes) (k : Key) (e : Copy) : Cluster × Res :=
  let targets := if cfg.R > 1 then r.baks.filter reach else []
  let c1 := targets.foldl (fun c b => c.setCopy b .bak dm k (some e)) c
  let c2 := c1.setCopy r.owner .prim dm k (some e)
  if cfg.R > 1 then
    (c2, if targets.length + 1 ≥ cfg.W then .ok else .writeQuorum)
  else (c2, .ok)

/-- putOnCluster on the partition owner -/
def put (cfg : Cfg) (r : Route) (reach : Reach) (c : Cluster) (dm : Bytes) (k : Key) (v : Bytes) (pc : PutCfg)
    (now : Int) : Cluster × Res :=
  let cur := live (c.copy r.owner .prim dm k) now
  if pc.nx && cur.isSome then (c, .keyFound)
  else if pc.xx && cur.isNone then (c, .notFound)
  else
    let e : Copy := ⟨v, prepareTTL pc.ttl cfg.dmTTL now, now⟩
    replicate cfg r reach c dm k e

/-- Expire: only the expiry (and the write timestamp) of an existing, unexpired key change -/
def expire (cfg : Cfg) (r : Route) (reach : Reach) (c : Cluster) (dm : Bytes) (k : Key) (timeout now : Int) : Cluster × Res :=
  match live (c.copy r.owner .prim dm k) now with
  | none => (c, .notFound)
  | some cur =>
    let e : Copy := ⟨cur.val, prepareTTL .none (if timeout != 0 then timeout else cfg.dmTTL) now, now⟩
    replicate cfg r reach c dm k e

/-- the versions a read gathers: the owner's primary copy (kept even if absent), the previous owners'
    primary copies that are present and unexpired, and one answer per reachable backup owner -/
def versions (r : Route) (reach : Reach) (c : Cluster) (dm : Bytes) (k : Key) (now : Int) :
    List (Nat × Kind × Option Copy) :=
  let own := (r.owner, Kind.prim, live (c.copy r.owner .prim dm k) now)    -- an expired entry is no copy
  let prev := (r.prev.reverse.filter reach).filterMap (fun m => (live (c.copy m .prim dm k) now).map (fun x => (m, Kind.prim, some x)))
  -- a reachable backup owner always answers: with its live copy, or with "not found"
  let baks := (r.baks.filter reach).map (fun m => (m, Kind.bak, live (c.copy m .bak dm k) now))
  own :: (prev ++ baks)

/-- sort.Slice with `ts[i] >= ts[j]` on at most 12 elements is insertion sort: an element moves in
    front of its predecessor when its timestamp is ≥ -/
def insertV (x : Nat × Kind × Copy) : List (Nat × Kind × Copy) → List (Nat × Kind × Copy)
  | [] => [x]
  | y :: ys => if x.2.2.ts ≥ y.2.2.ts then x :: y :: ys else y :: insertV x ys

def sortV (l : List (Nat × Kind × Copy)) : List (Nat × Kind × Copy) :=
  l.foldl (fun acc x => insertV x acc) []

/-- getOnCluster on the partition owner -/
def get (cfg : Cfg) (r : Route) (reach : Reach) (c : Cluster) (dm : Bytes) (k : Key) (now : Int) : Cluster × Res :=
  let vs := versions r reach c dm k now
  if vs.length < cfg.RQ then (c, .readQuorum) else
  let present := vs.filterMap (fun v => v.2.2.map (fun x => (v.1, v.2.1, x)))
  match sortV present with
  | [] => (c, .notFound)
  | w :: _ =>
    if present.length < cfg.RQ then (c, .readQuorum)
    else if expired w.2.2.ttl now then (c, .notFound)
    else
      let c' :=
        if cfg.readRepair then
          vs.foldl (fun c v =>
            -- a previous owner (a primary copy of another member) is not repaired: the balancer merges it
            if v.2.1 = .prim ∧ v.1 ≠ r.owner then c else
            match v.2.2 with
            | some x => if x.ts = w.2.2.ts then c else c.setCopy v.1 (if v.1 = r.owner then .prim else .bak) dm k (some w.2.2)
            | none => c.setCopy v.1 (if v.1 = r.owner then .prim else .bak) dm k (some w.2.2)) c
        else c
      (c', .val w.2.2)

/-- deleteKey on the partition owner: previous owners' primary copies, backups, then the local copy -/
def del (cfg : Cfg) (r : Route) (c : Cluster) (dm : Bytes) (k : Key) : Cluster :=
  let c1 := r.prev.foldl (fun c m => c.setCopy m .prim dm k none) c
  let c2 := (if cfg.R > 1 then r.baks else []).foldl (fun c m => c.setCopy m .bak dm k none) c1
  c2.setCopy r.owner .prim dm k none

/-! ### atomic operations and locks (compositions of get / put / delete / expire) -/

/-- decimal digits of a natural number, as bytes -/
def natBytes (n : Nat) : Bytes :=
  if h : n < 10 then [UInt8.ofNat (48 + n)] else natBytes (n / 10) ++ [UInt8.ofNat (48 + n % 10)]
termination_by n
decreasing_by omega

def intBytes (i : Int) : Bytes := if i < 0 then 45 :: natBytes i.natAbs else natBytes i.toNat

def parseDigitsB : Bytes → Nat → Option Nat
  | [], acc => some acc
  | c :: cs, acc => if 48 ≤ c.toNat ∧ c.toNat ≤ 57 then parseDigitsB cs (acc * 10 + (c.toNat - 48)) else none

/-- strconv.ParseInt(value, 10, 64) as used by loadCurrentAtomicInt: anything unparsable counts as 0 -/
def parseIntB (b : Bytes) : Option Int :=
  match b with
  | [] => none
  | 45 :: ds => if ds = [] then none else (parseDigitsB ds 0).map (fun n => -(n : Int))
  | 43 :: ds => if ds = [] then none else (parseDigitsB ds 0).map (fun n => (n : Int))
  | ds => (parseDigitsB ds 0).map (fun n => (n : Int))

/-- atomicIncrDecr: read through Get, add, write back keeping the key's expiry -/
def incr (cfg : Cfg) (r : Route) (reach : Reach) (c : Cluster) (dm : Bytes) (k : Key) (delta : Int) (now : Int) :
    Cluster × Option Int :=
  let (c1, res) := get cfg r reach c dm k now
  let cur : Option (Int × Int) :=
    match res with
    | .val x => some (match parseIntB x.val with | some n => (n, x.ttl) | none => (0, 0))
    | .notFound => some (0, 0)
    | _ => none
  match cur with
  | none => (c1, none)
  | some (n, ttl) =>
    let pc : PutCfg := if ttl != 0 then { ttl := .px (ttl * 1000000 - now) } else {}
    let (c2, pres) := put cfg r reach c1 dm k (intBytes (n + delta)) pc now
    (c2, if pres = .ok then some (n + delta) else none)

/-- getPut: the old value (if any), then a plain Put -/
def getPut (cfg : Cfg) (r : Route) (reach : Reach) (c : Cluster) (dm : Bytes) (k : Key) (v : Bytes) (now : Int) :
    Cluster × Res × Option Copy :=
  let (c1, res) := get cfg r reach c dm k now
  match res with
  | .val x => let (c2, p) := put cfg r reach c1 dm k v {} now; (c2, p, some x)
  | .notFound => let (c2, p) := put cfg r reach c1 dm k v {} now; (c2, p, none)
  | e => (c1, e, none)

inductive LockRes | acquired | notAcquired | noSuchLock | ok | other
  deriving DecidableEq, Repr

/-- Lock: put-if-absent of the token, with an expiry iff a timeout was asked for.  With the clock
    standing still a held lock cannot be acquired before the deadline. -/
def lock (cfg : Cfg) (r : Route) (reach : Reach) (c : Cluster) (dm : Bytes) (k : Key) (token : Bytes)
    (timeout now : Int) : Cluster × LockRes :=
  let pc : PutCfg := { nx := true, ttl := if timeout != 0 then .px timeout else .none }
  match put cfg r reach c dm k token pc now with
  | (c', .ok) => (c', .acquired)
  | (c', .keyFound) => (c', .notAcquired)
  | (c', _) => (c', .other)

/-- unlockKey, first half: read the key (a full `get`) and compare the token; `none` = go on -/
def unlockChk (cfg : Cfg) (r : Route) (reach : Reach) (c : Cluster) (dm : Bytes) (k : Key) (token : Bytes) (now : Int) :
    Cluster × Option LockRes :=
  match get cfg r reach c dm k now with
  | (c1, .val x) => if x.val = token then (c1, none) else (c1, some .noSuchLock)
  | (c1, .notFound) => (c1, some .noSuchLock)
  | (c1, _) => (c1, some .other)

/-- unlockKey, second half (deleteLockKey): under the owner's fragment lock the stored entry is compared
    with the token once more — the lock may have expired and been taken by somebody else since the
    first half — and only then deleted.  A missing local copy (it may live only on a previous owner or
    on the backups) is deleted wherever it lives, as Delete does. -/
def unlockFin (cfg : Cfg) (r : Route) (c : Cluster) (dm : Bytes) (k : Key) (token : Bytes) (now : Int) :
    Cluster × LockRes :=
  match c.copy r.owner .prim dm k with
  | some x => if expired x.ttl now || x.val != token then (c, .noSuchLock) else (del cfg r c dm k, .ok)
  | none => (del cfg r c dm k, .ok)

/-- Unlock: both halves at one instant -/
def unlock (cfg : Cfg) (r : Route) (reach : Reach) (c : Cluster) (dm : Bytes) (k : Key) (token : Bytes) (now : Int) :
    Cluster × LockRes :=
  match unlockChk cfg r reach c dm k token now with
  | (c1, some e) => (c1, e)
  | (c1, none) => unlockFin cfg r c1 dm k token now

/-- leaseKey, first half: read the key and compare the token -/
def leaseChk (cfg : Cfg) (r : Route) (reach : Reach) (c : Cluster) (dm : Bytes) (k : Key) (token : Bytes) (now : Int) :
    Cluster × Option LockRes :=
  match get cfg r reach c dm k now with
  | (c1, .val x) =>
    if x.val = token then (if x.ttl > 0 && decide (Int.tdiv now 1000000 ≥ x.ttl) then (c1, some .noSuchLock) else (c1, none))
    else (c1, some .noSuchLock)
  | (c1, .notFound) => (c1, some .noSuchLock)
  | (c1, _) => (c1, some .other)

/-- leaseKey, second half (expireLockKey): Expire guarded by the token under the owner's fragment lock -/
def leaseFin (cfg : Cfg) (r : Route) (reach : Reach) (c : Cluster) (dm : Bytes) (k : Key) (token : Bytes)
    (timeout now : Int) : Cluster × LockRes :=
  match c.copy r.owner .prim dm k with
  | some x =>
    if expired x.ttl now || x.val != token then (c, .noSuchLock)
    else
      match expire cfg r reach c dm k timeout now with
      | (c2, .ok) => (c2, .ok)
      | (c2, .notFound) => (c2, .noSuchLock)
      | (c2, _) => (c2, .other)
  | none => (c, .noSuchLock)

/-- Lease: both halves at one instant -/
def lease (cfg : Cfg) (r : Route) (reach : Reach) (c : Cluster) (dm : Bytes) (k : Key) (token : Bytes)
    (timeout now : Int) : Cluster × LockRes :=
  match leaseChk cfg r reach c dm k token now with
  | (c1, some e) => (c1, e)
  | (c1, none) => leaseFin cfg r reach c1 dm k token timeout now

/-- Destroy: every member drops the DMap's primary and backup fragments -/
def destroy (c : Cluster) (dm : Bytes) : Cluster :=
  fun i => { prim := fun d k => if d = dm then none else (c i).prim d k,
             bak := fun d k => if d = dm then none else (c i).bak d k }

/-! ### fragment hand-over: mergeFragments / fragmentMergeFunction -/

/-- fragmentMergeFunction: the record that survives when `inc` is merged onto `cur`
    (`sortVersions [current, incoming]`: the incoming one moves in front when its timestamp is ≥) -/
def lwwC (cur : Option Copy) (inc : Copy) : Copy :=
  match cur with
  | none => inc
  | some c => if inc.ts ≥ c.ts then inc else c

/-- mergeFragments: every entry of a received table is merged onto the receiver's fragment.
    (Returns a pair, like the Go function returns an error: a definition whose result type is the
    function type `Cluster` is compiled eta-expanded and would redo the merge on every later lookup.) -/
def mergeEntries (c : Cluster) (m : Nat) (kind : Kind) (dm : Bytes) : List (Key × Copy) → Cluster × Res
  | [] => (c, .ok)
  | e :: l =>
    let w := lwwC (c.copy m kind dm e.1) e.2
    mergeEntries (c.setCopy m kind dm e.1 (some w)) m kind dm l

end Olric.DMap
