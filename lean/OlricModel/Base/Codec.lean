/-
  Byte-level codecs (core-only, linked into the driver):
   * big-endian fixed-width integers and the entry layout shared by table memory, Entry.Encode
     (replication, GetRaw) and the table pack:   klen(1) key ttl(8) ts(8) lastAccess(8) vlen(4) value
   * the decimal text codec of resp.Encode / resp.Scan for integers (strconv.AppendInt/ParseInt)
-/
import OlricModel.Store.Model
namespace Olric

/-- big-endian, exactly `w` bytes (the value is truncated mod 256^w like Go's PutUint) -/
def be : Nat → Nat → Bytes
  | 0, _ => []
  | w + 1, n => UInt8.ofNat (n / 256 ^ w % 256) :: be w (n % 256 ^ w)

def fromBE : Bytes → Nat
  | bs => bs.foldl (fun acc b => acc * 256 + b.toNat) 0

/-- uint64(int64 x) -/
def toU64 (i : Int) : Nat := (i % (2 ^ 64 : Int)).toNat
/-- int64(uint64 n) -/
def ofU64 (n : Nat) : Int := if n < 2 ^ 63 then (n : Int) else (n : Int) - 2 ^ 64

/-- Entry.Encode / the bytes table.Put writes -/
def encodeRec (r : Rec) : Bytes :=
  be 1 r.key.length ++ r.key ++ be 8 (toU64 r.ttl) ++ be 8 (toU64 r.ts) ++ be 8 (toU64 r.la) ++
    be 4 r.val.length ++ r.val

/-- Entry.Decode / table.Get.  `none` models the Go panic (slice bounds out of range) on a buffer
    that is shorter than its own length fields claim. -/
def decodeRec (b : Bytes) : Option Rec :=
  match b with
  | [] => none
  | kl :: rest =>
    let klen := kl.toNat
    if rest.length < klen + 28 then none else
    let key := rest.take klen
    let r1 := rest.drop klen
    let ttl := ofU64 (fromBE (r1.take 8))
    let ts := ofU64 (fromBE ((r1.drop 8).take 8))
    let la := ofU64 (fromBE ((r1.drop 16).take 8))
    let vlen := fromBE ((r1.drop 24).take 4)
    let r2 := r1.drop 28
    if r2.length < vlen then none else
    some { key := key, ttl := ttl, ts := ts, la := la, val := r2.take vlen }

/-- what can be encoded without truncation: key length in one byte, value length in four,
    the three stamps in int64 -/
def Rec.Enc (r : Rec) : Prop :=
  r.key.length < 256 ∧ r.val.length < 2 ^ 32 ∧
  (-(2 ^ 63 : Int) ≤ r.ttl ∧ r.ttl < 2 ^ 63) ∧ (-(2 ^ 63 : Int) ≤ r.ts ∧ r.ts < 2 ^ 63) ∧
  (-(2 ^ 63 : Int) ≤ r.la ∧ r.la < 2 ^ 63)

/-! decimal integers -/

def digitChar (d : Nat) : Char := Char.ofNat (48 + d)

def fmtNat (n : Nat) : List Char :=
  if h : n < 10 then [digitChar n] else fmtNat (n / 10) ++ [digitChar (n % 10)]
termination_by n
decreasing_by omega

/-- strconv.AppendInt(_, i, 10) -/
def fmtInt (i : Int) : List Char :=
  if i < 0 then '-' :: fmtNat i.natAbs else fmtNat i.toNat

def digitVal (c : Char) : Option Nat :=
  if 48 ≤ c.toNat ∧ c.toNat ≤ 57 then some (c.toNat - 48) else none

def parseDigits : List Char → Nat → Option Nat
  | [], acc => some acc
  | c :: cs, acc => match digitVal c with
    | none => none
    | some d => parseDigits cs (acc * 10 + d)

inductive NumErr | syntax | range
  deriving DecidableEq, Repr

/-- strconv.ParseUint(s, 10, bits) -/
def parseUint (bits : Nat) (s : List Char) : Except NumErr Nat :=
  if s = [] then .error .syntax else
  match parseDigits s 0 with
  | none => .error .syntax
  | some n => if n < 2 ^ bits then .ok n else .error .range

/-- strconv.ParseInt with the magnitude bound `P` = 2^(bits-1): optional sign, then digits; a range
    error instead of wrapping -/
def parseIntB (P : Nat) (s : List Char) : Except NumErr Int :=
  match s with
  | [] => .error .syntax
  | '-' :: ds =>
    if ds = [] then .error .syntax else
    match parseDigits ds 0 with
    | none => .error .syntax
    | some n => if n ≤ P then .ok (-(n : Int)) else .error .range
  | '+' :: ds =>
    if ds = [] then .error .syntax else
    match parseDigits ds 0 with
    | none => .error .syntax
    | some n => if n < P then .ok (n : Int) else .error .range
  | ds =>
    match parseDigits ds 0 with
    | none => .error .syntax
    | some n => if n < P then .ok (n : Int) else .error .range

/-- strconv.ParseInt(s, 10, bits) -/
def parseInt (bits : Nat) (s : List Char) : Except NumErr Int := parseIntB (2 ^ (bits - 1)) s

end Olric
