/-
  Executable model of internal/pubsub (pubsub.go, handlers.go): per member a set of subscriptions
  (connection, channel | pattern); PUBLISH delivers locally and through PUBLISH.INTERNAL on every
  other member and sums the counts.  Glob matching (tidwall/match) is a parameter.  Core-only.
-/
import OlricModel.Store.Model
namespace Olric.PubSub
open Olric

structure Sub where
  conn : Nat
  pat : Bool
  name : Bytes
  deriving DecidableEq, Repr

abbrev Glob := Bytes → Bytes → Bool      -- glob pattern channel

/-- member index ↦ its subscriptions (no duplicates: a repeated SUBSCRIBE is a no-op) -/
abbrev PS := Nat → List Sub

def PS.empty : PS := fun _ => []

def setM (ps : PS) (m : Nat) (l : List Sub) : PS := fun j => if j = m then l else ps j

/-- how many subscriptions of that kind the connection holds (the number in the (p)subscribe reply) -/
def countOf (l : List Sub) (conn : Nat) (pat : Bool) : Nat := (l.filter (fun s => s.conn == conn && s.pat == pat)).length

def subscribe (ps : PS) (m conn : Nat) (pat : Bool) (name : Bytes) : PS × Nat :=
  let s : Sub := ⟨conn, pat, name⟩
  let l := if (ps m).contains s then ps m else ps m ++ [s]
  (setM ps m l, countOf l conn pat)

def unsubscribe (ps : PS) (m conn : Nat) (pat : Bool) (name : Bytes) : PS × Nat :=
  let l := (ps m).filter (fun s => !(s == ⟨conn, pat, name⟩))
  (setM ps m l, countOf l conn pat)

def unsubscribeAll (ps : PS) (m conn : Nat) (pat : Bool) : PS :=
  setM ps m ((ps m).filter (fun s => !(s.conn == conn && s.pat == pat)))

def disconnect (ps : PS) (m conn : Nat) : PS := setM ps m ((ps m).filter (fun s => s.conn != conn))

def isMatch (g : Glob) (ch : Bytes) (s : Sub) : Bool := if s.pat then g s.name ch else s.name == ch

/-- the subscriptions of one member that receive a message published on `ch` -/
def deliveries (g : Glob) (l : List Sub) (ch : Bytes) : List Sub := l.filter (isMatch g ch)

/-- PUBLISH through any member: every member delivers to its own matching subscriptions; the reply is
    the total number of deliveries -/
def publish (g : Glob) (ps : PS) (members : List Nat) (ch : Bytes) : List (Nat × Sub) × Nat :=
  let ds := members.flatMap (fun m => (deliveries g (ps m) ch).map (fun s => (m, s)))
  (ds, ds.length)

def dedup : List Bytes → List Bytes
  | [] => []
  | x :: xs => if xs.contains x then dedup xs else x :: dedup xs

/-- PUBSUB CHANNELS [pattern]: the distinct channels with at least one subscriber -/
def channels (g : Glob) (ps : PS) (m : Nat) (pat : Option Bytes) : List Bytes :=
  dedup (((ps m).filter (fun s => !s.pat && (match pat with | none => true | some p => g p s.name))).map (·.name))

/-- PUBSUB NUMSUB ch: connections subscribed to the channel -/
def numsub (ps : PS) (m : Nat) (ch : Bytes) : Nat := ((ps m).filter (fun s => !s.pat && s.name == ch)).length

/-- PUBSUB NUMPAT: distinct patterns -/
def numpat (ps : PS) (m : Nat) : Nat := (dedup (((ps m).filter (·.pat)).map (·.name))).length

/-- a concrete matcher for the driver: `*` any run, `?` any byte, everything else literal -/
def globMatchAux : Nat → List UInt8 → List UInt8 → Bool
  | 0, _, _ => false
  | _, [], [] => true
  | _, [], _ :: _ => false
  | f + 1, 42 :: ps, s =>
    globMatchAux f ps s || (match s with | [] => false | _ :: ss => globMatchAux f (42 :: ps) ss)
  | _, _ :: _, [] => false
  | f + 1, p :: ps, c :: ss => (p == 63 || p == c) && globMatchAux f ps ss

def globMatch : Glob := fun p s => globMatchAux (2 * (p.length + s.length) + 2) p s

end Olric.PubSub
