/-
  A table that arrives over the network (internal/kvstore/table/pack.go: Pack, Decode, validate - the check added
  by fix ef8ceb4) and what the readers of the decoded table access for one indexed entry (table.go: GetRaw and the
  field accessors).  Bytes are natural numbers; only positions matter here.

  Entry layout at offset o:  KEY-LENGTH (1) | KEY (klen) | TTL (8) | TIMESTAMP (8) | LASTACCESS (8) | VALUE-LENGTH (4, big endian) | VALUE
-/
namespace Olric.Pack

structure Pack where
  offset : Nat
  allocated : Nat
  memory : List Nat
  hkeys : List (Nat × Nat)        -- (hkey, offset of its entry)
  deriving Repr

def maxPackAllocation : Nat := 2 ^ 32

/-- four bytes, big endian -/
def be32 (m : List Nat) (at_ : Nat) : Nat :=
  m.getD at_ 0 * 2 ^ 24 + m.getD (at_ + 1) 0 * 2 ^ 16 + m.getD (at_ + 2) 0 * 2 ^ 8 + m.getD (at_ + 3) 0

/-- position of the value-length field of the entry at `o` -/
def vlenAt (m : List Nat) (o : Nat) : Nat := o + 1 + m.getD o 0 + 24

/-- one past the last byte of the entry at `o` -/
def entryEnd (m : List Nat) (o : Nat) : Nat := vlenAt m o + 4 + be32 m (vlenAt m o)

/-- Pack.validate, entry part -/
def entryOk (p : Pack) (o : Nat) : Bool :=
  decide (o < p.offset) && decide (vlenAt p.memory o + 4 ≤ p.offset) && decide (entryEnd p.memory o ≤ p.offset)

/-- Pack.validate -/
def validate (p : Pack) : Bool :=
  decide (p.allocated ≤ maxPackAllocation) && decide (p.offset ≤ p.allocated) && decide (p.memory.length = p.offset) &&
    p.hkeys.all (fun e => entryOk p e.2)

/-- the positions GetRaw (and GetKey, GetTTL, GetLastAccess, the value accessors) read for the entry at `o`:
    the key-length byte, the header up to and including the value length, and the value -/
def readPositions (m : List Nat) (o : Nat) : List Nat :=
  List.range' o (entryEnd m o - o)

end Olric.Pack
