/-
  The one place where Go's aliasing matters (C18): table memory is a mutable byte array; a value
  handed to a caller is either an owned copy or a view into that array.  Core-only.
-/
import OlricModel.Store.Model
namespace Olric.Heap
open Olric

abbrev Mem := List UInt8

/-- a value in the hands of a caller -/
inductive Ref
  | owned (b : Bytes)
  | view (tid off len : Nat)
  deriving DecidableEq, Repr

/-- table id ↦ backing array -/
structure World where
  tables : List (Nat × Mem)
  deriving Repr

def World.mem (w : World) (tid : Nat) : Mem := (w.tables.lookup tid).getD []

/-- what the caller sees when it looks at the value it was given -/
def deref (w : World) : Ref → Bytes
  | .owned b => b
  | .view tid off len => ((w.mem tid).drop off).take len

/-- overwrite `bytes` at `off` (in place; the array does not grow) -/
def writeAt (m : Mem) (off : Nat) (bytes : Bytes) : Mem :=
  m.take off ++ (bytes.take (m.length - off)) ++ m.drop (off + bytes.length)

def World.set (w : World) (tid : Nat) (m : Mem) : World :=
  { tables := (tid, m) :: w.tables.filter (fun p => p.1 != tid) }

/-- everything the store may do to table memory after a read: Put/PutRaw/UpdateTTL/lastAccess stamps
    (`write`), recycling and re-use of a table (`write` at offset 0), freeing a table (`drop`) -/
inductive StoreOp
  | write (tid off : Nat) (bytes : Bytes)
  | drop (tid : Nat)

def StoreOp.apply (w : World) : StoreOp → World
  | .write tid off bytes => w.set tid (writeAt (w.mem tid) off bytes)
  | .drop tid => { tables := w.tables.filter (fun p => p.1 != tid) }

/-- table.Get / table.get: `copies` is the generated fact `Facts.table_get_copies_value` -/
def tableGet (copies : Bool) (w : World) (tid off len : Nat) : Ref :=
  if copies then .owned (deref w (.view tid off len)) else .view tid off len

/-- the caller modifies byte `i` of what it was given: returns the caller's value and the world -/
def poke (w : World) (r : Ref) (i : Nat) (b : UInt8) : Ref × World :=
  match r with
  | .owned bs => (.owned (bs.set i b), w)
  | .view tid off len =>
    if i < len then (r, w.set tid (writeAt (w.mem tid) (off + i) [b])) else (r, w)

end Olric.Heap
