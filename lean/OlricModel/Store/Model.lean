/-
  Executable model of internal/kvstore (table.go, kvstore.go, compaction.go, transport.go).

  Record level: a table is the list of its live slots in insertion (= ascending offset) order.
  The three Go structures `hkeys`, `offsetIndex` and the byte `memory` are one list here; their
  mutual consistency is an invariant of the code that the correspondence stream `kv` checks at
  every dump (the harness prints them separately from the Go side).  The byte layout of one
  record is modelled separately in Store/Layout.lean.

  Core-only (no Mathlib): this file is linked into the `olric_model` driver executable.
-/
namespace Olric

abbrev Bytes := List UInt8

structure Rec where
  key : Bytes
  ttl : Int      -- unix ms, 0 = none
  ts  : Int      -- write timestamp (unix ns)
  la  : Int      -- last access (unix ns)
  val : Bytes
  deriving DecidableEq, Repr, Inhabited

/-- bytes occupied by a record: 1 + |key| + 8 + 8 + 8 + 4 + |value| (table.MetadataLength = 29). -/
def Rec.size (r : Rec) : Nat := 29 + r.key.length + r.val.length

/-- the part of a record the map abstraction is about (lastAccess excluded). -/
structure Core where
  key : Bytes
  ttl : Int
  ts  : Int
  val : Bytes
  deriving DecidableEq, Repr

def Rec.core (r : Rec) : Core := ⟨r.key, r.ttl, r.ts, r.val⟩

inductive TState | rw | ro | recycled
  deriving DecidableEq, Repr

structure Slot where
  hk  : Nat
  off : Nat
  r : Rec
  deriving DecidableEq, Repr

structure Table where
  cf : Nat
  off : Nat
  alloc : Nat
  inuse : Nat
  garbage : Nat
  state : TState
  recycledAt : Int
  slots : List Slot
  deriving Repr

namespace Table

def new (size cf : Nat) : Table :=
  { cf := cf, off := 0, alloc := size, inuse := 0, garbage := 0, state := .rw, recycledAt := 0, slots := [] }

def find (t : Table) (h : Nat) : Option Slot := t.slots.find? (fun s => s.hk == h)

/-- table.Delete: `none` = ErrHKeyNotFound. -/
def delete (t : Table) (h : Nat) : Option Table :=
  match t.find h with
  | none => none
  | some s => some { t with slots := t.slots.filter (fun x => x.hk != h),
                            garbage := t.garbage + s.r.size,
                            inuse := t.inuse - s.r.size }

def deleteD (t : Table) (h : Nat) : Table := (t.delete h).getD t

inductive PutErr | noSpace | keyTooLarge
  deriving DecidableEq, Repr

/-- table.Put (lastAccess := now). -/
def put (t : Table) (h : Nat) (r : Rec) (now : Int) : Except PutErr Table :=
  if r.key.length ≥ 256 then .error .keyTooLarge
  else if r.size + t.off ≥ t.alloc then .error .noSpace
  else
    let t1 := t.deleteD h
    .ok { t1 with slots := t1.slots ++ [⟨h, t1.off, { r with la := now }⟩],
                  inuse := t1.inuse + r.size,
                  off := t1.off + r.size }

/-- table.PutRaw: stores the encoded entry verbatim (lastAccess as carried by the bytes). -/
def putRaw (t : Table) (h : Nat) (r : Rec) : Except PutErr Table :=
  if r.size + t.off ≥ t.alloc then .error .noSpace
  else
    let t1 := t.deleteD h
    .ok { t1 with slots := t1.slots ++ [⟨h, t1.off, r⟩],
                  inuse := t1.inuse + r.size,
                  off := t1.off + r.size }

def touch (t : Table) (h : Nat) (now : Int) : Table :=
  { t with slots := t.slots.map (fun s => if s.hk == h then { s with r := { s.r with la := now } } else s) }

/-- table.Get: returns the stored record (old lastAccess) and stamps lastAccess := now. -/
def get (t : Table) (h : Nat) (now : Int) : Option (Rec × Table) :=
  match t.find h with
  | none => none
  | some s => some (s.r, t.touch h now)

/-- table.UpdateTTL: in place ttl, timestamp, lastAccess. -/
def updateTTL (t : Table) (h : Nat) (ttl ts now : Int) : Option Table :=
  match t.find h with
  | none => none
  | some _ => some { t with slots := t.slots.map (fun s =>
      if s.hk == h then { s with r := { s.r with ttl := ttl, ts := ts, la := now } } else s) }

def reset (t : Table) (now : Int) : Table :=
  { t with slots := [], state := .recycled, inuse := 0, garbage := 0, off := 0, cf := 0, recycledAt := now }

/-- One page of table.Scan / ScanRegexMatch.  `pat = none`: plain scan.  Visits slots with
    `off ≥ cursor` in offset order, yields at most `count` (matching) records, each yielded record is
    touched (`t.get(offset)` stamps lastAccess).  Returns (next cursor, yielded slots). -/
def scanAux (m : Rec → Bool) : List Slot → Nat → Nat → List Slot → Nat × List Slot
  | [], _, _, acc => (0, acc.reverse)                       -- iterator exhausted: cursor = 0
  | s :: rest, count, cur, acc =>
    if count = 0 then (cur, acc.reverse)                    -- num < count failed, HasNext true
    else if m s.r then scanAux m rest (count - 1) (s.off + 1) (s :: acc)
    else scanAux m rest count cur acc

def scan (t : Table) (cursor : Nat) (count : Nat) (m : Rec → Bool) (now : Int) : Nat × List Rec × Table :=
  let cand := t.slots.filter (fun s => s.off ≥ cursor)
  let (c, ys) := scanAux m cand count cursor []
  let t' := ys.foldl (fun t s => t.touch s.hk now) t
  (c, ys.map (·.r), t')

end Table

structure KV where
  tableSize : Nat
  nextCf : Nat
  maxIdle : Int            -- maxIdleTableTimeout, ns
  old : List Table         -- every table but the read-write head, NEWEST FIRST (Go order reversed)
  head : Option Table      -- the read-write table (Go: last element of k.tables, if its state is RW)
  deriving Repr

namespace KV

/-- kvstore.Fork: one fresh read-write table with coefficient 0. -/
def fork (tableSize : Nat) (maxIdle : Int) : KV :=
  { tableSize := tableSize, nextCf := 1, maxIdle := maxIdle, old := [], head := some (Table.new tableSize 0) }

/-- kvstore.New: no table yet. -/
def empty (tableSize : Nat) (maxIdle : Int) : KV :=
  { tableSize := tableSize, nextCf := 0, maxIdle := maxIdle, old := [], head := none }

/-- Go order: oldest first, head last. -/
def tables (k : KV) : List Table := k.old.reverse ++ k.head.toList

/-- the last element (in list order) satisfying `p`, and the list without it. With `old` newest
    first this is the FIRST such table in Go order. -/
def pickLast (p : Table → Bool) : List Table → Option (Table × List Table)
  | [] => none
  | t :: ts =>
    match pickLast p ts with
    | some (r, rest) => some (r, t :: rest)
    | none => if p t then some (t, ts) else none

def isRecycled (t : Table) : Bool := t.state == .recycled

/-- kvstore.makeTable. -/
def makeTable (k : KV) : KV :=
  let old1 := match k.head with
    | none => k.old
    | some h => { h with state := .ro } :: k.old
  match pickLast isRecycled old1 with
  | some (t, rest) =>
    { k with old := rest, head := some { t with cf := k.nextCf, state := .rw }, nextCf := k.nextCf + 1 }
  | none =>
    { k with old := old1, head := some (Table.new k.tableSize k.nextCf), nextCf := k.nextCf + 1 }

def ensureHead (k : KV) : KV :=
  match k.head with
  | some _ => k
  | none => k.makeTable

inductive Res | ok | entryTooLarge | keyTooLarge | diverge
  deriving DecidableEq, Repr

/-- after a successful write into the head the superseded version is removed from every older table. -/
def commit (k : KV) (hd : Table) (h : Nat) : KV :=
  { k with head := some hd, old := k.old.map (fun t => t.deleteD h) }

/-- kvstore.Put.  The Go `for` loop is: try head; on ErrNotEnoughSpace makeTable and retry.  Two
    iterations are modelled; a second ErrNotEnoughSpace is the outcome `diverge` (the real loop would
    allocate tables forever).  `put_never_diverges` shows it is unreachable from well-formed stores. -/
def put (k : KV) (h : Nat) (r : Rec) (now : Int) : KV × Res :=
  if r.size ≥ k.tableSize then (k, .entryTooLarge)
  else
    let k := k.ensureHead
    match k.head with
    | none => (k, .diverge)
    | some hd =>
      match hd.put h r now with
      | .ok hd' => (k.commit hd' h, .ok)
      | .error .keyTooLarge => (k, .keyTooLarge)
      | .error .noSpace =>
        let k2 := k.makeTable
        match k2.head with
        | none => (k2, .diverge)
        | some hd2 =>
          match hd2.put h r now with
          | .ok hd2' => (k2.commit hd2' h, .ok)
          | .error .keyTooLarge => (k2, .keyTooLarge)
          | .error .noSpace => (k2, .diverge)

/-- kvstore.PutRaw. -/
def putRaw (k : KV) (h : Nat) (r : Rec) : KV × Res :=
  if r.size ≥ k.tableSize then (k, .entryTooLarge)
  else
    let k := k.ensureHead
    match k.head with
    | none => (k, .diverge)
    | some hd =>
      match hd.putRaw h r with
      | .ok hd' => (k.commit hd' h, .ok)
      | .error .keyTooLarge => (k, .keyTooLarge)
      | .error .noSpace =>
        let k2 := k.makeTable
        match k2.head with
        | none => (k2, .diverge)
        | some hd2 =>
          match hd2.putRaw h r with
          | .ok hd2' => (k2.commit hd2' h, .ok)
          | .error _ => (k2, .diverge)

/-- newest-first lookup of the slot. -/
def findIn : List Table → Nat → Option Slot
  | [], _ => none
  | t :: ts, h => match t.find h with
    | some s => some s
    | none => findIn ts h

def newestFirst (k : KV) : List Table := k.head.toList ++ k.old

def lookup (k : KV) (h : Nat) : Option Rec := (findIn k.newestFirst h).map (·.r)

/-- apply `f` to the first (newest) table on which it succeeds. -/
def onFirst (f : Table → Option Table) : List Table → Option (List Table)
  | [] => none
  | t :: ts => match f t with
    | some t' => some (t' :: ts)
    | none => (onFirst f ts).map (t :: ·)

def setNewestFirst (k : KV) (ts : List Table) : KV :=
  match k.head, ts with
  | some _, t :: rest => { k with head := some t, old := rest }
  | _, ts => { k with old := ts }

/-- kvstore.Get (stamps lastAccess of the version it returns). -/
def get (k : KV) (h : Nat) (now : Int) : Option Rec × KV :=
  match onFirst (fun t => (t.get h now).map (·.2)) k.newestFirst with
  | none => (none, k)
  | some ts => (k.lookup h, k.setNewestFirst ts)

/-- kvstore.Delete: removes the newest version only (the loop `break`s). -/
def delete (k : KV) (h : Nat) : KV :=
  match onFirst (fun t => t.delete h) k.newestFirst with
  | none => k
  | some ts => k.setNewestFirst ts

/-- kvstore.UpdateTTL: `false` = ErrKeyNotFound. -/
def updateTTL (k : KV) (h : Nat) (ttl ts now : Int) : KV × Bool :=
  match onFirst (fun t => t.updateTTL h ttl ts now) k.newestFirst with
  | none => (k, false)
  | some tabs => (k.setNewestFirst tabs, true)

def check (k : KV) (h : Nat) : Bool := (k.lookup h).isSome

structure Stats where
  allocated : Nat
  inuse : Nat
  garbage : Nat
  length : Nat
  numTables : Nat
  deriving DecidableEq, Repr

def stats (k : KV) : Stats :=
  let ts := k.tables
  { allocated := (ts.map (·.alloc)).sum, inuse := (ts.map (·.inuse)).sum,
    garbage := (ts.map (·.garbage)).sum, length := (ts.map (·.slots.length)).sum,
    numTables := ts.length }

/-- every (hkey, record) pair `Range` visits (all slots of all tables, newest table first).  Range calls
    Table.Get for each, so every visited slot is touched. -/
def rangeAll (k : KV) : List (Nat × Rec) :=
  k.newestFirst.flatMap (fun t => t.slots.map (fun s => (s.hk, s.r)))

def touchAll (k : KV) (now : Int) : KV :=
  let f := fun (t : Table) => { t with slots := t.slots.map (fun s => { s with r := { s.r with la := now } }) }
  { k with head := k.head.map f, old := k.old.map f }

/-- isCompactionOK: garbage ≥ 0.40 · allocated (maxGarbageRatio; generated fact `Facts.maxGarbageRatio`), or no live
    entry left while the table carries garbage (a table retired nearly empty never reaches the ratio). -/
def needsCompaction (t : Table) : Bool := (t.inuse == 0 && decide (t.garbage > 0)) || decide (t.garbage * 5 ≥ t.alloc * 2)

def isExpiredAt (k : KV) (now : Int) (t : Table) : Bool :=
  decide (Int.tdiv now 1000000 ≥ Int.tdiv (k.maxIdle + t.recycledAt) 1000000)

/-- the recycle sweep of kvstore.Compaction.  Go walks k.tables oldest first and removes every
    recycled table whose idle timeout expired, but stops (`break`) when only one table is left.
    `old` is newest first, so the recursion returns from the oldest end: the pair is (kept tables,
    current len(k.tables)). -/
def sweep (exp : Table → Bool) : List Table → Nat → List Table × Nat
  | [], n => ([], n)
  | t :: ts, n =>
    let (acc, m) := sweep exp ts n
    if isRecycled t && exp t then
      (if m == 1 then (t :: acc, m) else (acc, m - 1))
    else (t :: acc, m)

/-- records that one `evictTable t` call moves, in Range order `order` (a permutation of t's hkeys
    chosen by Go's map iteration): at most 1001, each touched by Range before GetRaw. -/
def evictBatch (t : Table) (order : List Nat) (now : Int) : List (Nat × Rec) :=
  ((order.filterMap t.find).take 1001).map (fun s => (s.hk, { s.r with la := now }))

def resetDrained (k : KV) (cf : Nat) (now : Int) : KV :=
  { k with old := k.old.map (fun t =>
      if t.cf == cf && t.state != .recycled && t.inuse == 0 then t.reset now else t) }

/-- kvstore.Compaction: one call.  Returns (store, done). -/
def compaction (k : KV) (now : Int) (order : List Nat) : KV × Bool :=
  -- first table in Go order that is not the read-write head and is garbage-heavy
  match pickLast needsCompaction k.old with
  | some (t, _) =>
    let k1 := (evictBatch t order now).foldl (fun k p => (k.putRaw p.1 p.2).1) k
    (k1.resetDrained t.cf now, false)
  | none =>
    -- the read-write head is never recycled, so the sweep only ever removes tables of `old`
    ({ k with old := (sweep (k.isExpiredAt now) k.old k.tables.length).1 }, true)

/-- transferIterator.Export + Drop: the first non-recycled table in Go order, and the store without it. -/
def exportDrop (k : KV) : Option (Table × KV) :=
  match pickLast (fun t => !isRecycled t) k.old with
  | some (t, rest) => some (t, { k with old := rest })
  | none =>
    match k.head with
    | some h => if isRecycled h then none else some (h, { k with head := none })
    | none => none

/-- the callback dmap.fragmentMergeFunction at store level: keep current iff strictly newer. -/
def merge (k : KV) (h : Nat) (r : Rec) (now : Int) : KV × Res :=
  match k.get h now with
  | (none, k1) => k1.put h r now
  | (some c, k1) => if r.ts ≥ c.ts then k1.put h r now else (k1, .ok)

/-- kvstore.Import of an exported table with callback `merge`, in Range order `order`. -/
def importTable (k : KV) (t : Table) (order : List Nat) (now : Int) : KV :=
  (order.filterMap t.find).foldl (fun k s => (k.merge s.hk s.r now).1) k

/-- coefficients registered in tablesByCoefficient = those of the non-recycled tables. -/
def cfs (k : KV) : List Nat := (k.tables.filter (fun t => !isRecycled t)).map (·.cf)

def byCf (k : KV) (cf : Nat) : Option Table := k.tables.find? (fun t => !isRecycled t && t.cf == cf)

def minList : List Nat → Option Nat
  | [] => none
  | x :: xs => match minList xs with
    | none => some x
    | some m => some (if x ≤ m then x else m)

/-- kvstore.findCoefficient: the smallest registered coefficient > c. -/
def findCoefficient (k : KV) (c : Nat) : Option Nat := minList (k.cfs.filter (· > c))

def mapCf (k : KV) (cf : Nat) (f : Table → Table) : KV :=
  let g := fun (t : Table) => if !isRecycled t && t.cf == cf then f t else t
  { k with head := k.head.map g, old := k.old.map g }

/-- kvstore.scanCommon: one page. Returns (next cursor, yielded records, store). -/
def scan (k : KV) (cursor count : Nat) (m : Rec → Bool) (now : Int) : Nat × List Rec × KV :=
  if k.tableSize = 0 then (0, [], k) else
  let cf0 := cursor / k.tableSize
  let sel : Option (Table × Nat × Nat) :=
    match k.byCf cf0 with
    | some t => some (t, cf0, cursor)
    | none => match k.findCoefficient cf0 with
      | none => none
      | some cf' => (k.byCf cf').map (fun t => (t, cf', cf' * k.tableSize))
  match sel with
  | none => (0, [], k)
  | some (t, cf, cur) =>
    let tc := cur - k.tableSize * cf
    let (tc', ys, t') := t.scan tc count m now
    let k' := k.mapCf cf (fun _ => t')
    if tc' = 0 then
      match k.findCoefficient cf with
      | none => (0, ys, k')
      | some n => (k.tableSize * n, ys, k')
    else (tc' + k.tableSize * cf, ys, k')

end KV
end Olric
