import OlricModel.Store.Model
