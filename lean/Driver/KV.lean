import Driver.Util
namespace Driver
open Olric

structure St where
  now : Int := 0
  stores : List (String × KV) := []
  cursors : List (String × Nat) := []
  held : List Nat := []       -- lengths of the values handed out so far (alias stream)

def St.store (s : St) (id : String) : KV := (s.stores.lookup id).getD (KV.empty 0 0)
def St.setStore (s : St) (id : String) (k : KV) : St :=
  { s with stores := (id, k) :: s.stores.filter (·.1 ≠ id) }

def fmtRec (r : Rec) : String := s!"{hx r.key} {hx r.val} {r.ttl} {r.ts} {r.la}"
def fmtRecC (r : Rec) : String := s!"{hx r.key}:{hx r.val}:{r.ttl}:{r.ts}:{r.la}"

def fmtRes : KV.Res → String
  | .ok => "ok" | .entryTooLarge => "toolarge" | .keyTooLarge => "keytoolarge" | .diverge => "hang"

def stateName : TState → String
  | .rw => "rw" | .ro => "ro" | .recycled => "rc"

def dumpTable (t : Table) : String :=
  let slots := ",".intercalate (t.slots.map (fun s => s!"{s.hk}@{s.off}:{fmtRecC s.r}"))
  s!"{t.cf}/{stateName t.state}/{t.off}/{t.alloc}/{t.inuse}/{t.garbage}/{t.recycledAt}/\{{slots}}/idx=ok"

def dumpStore (k : KV) : String :=
  let tabs := ";".intercalate (k.tables.map dumpTable)
  let cfs := sortBy (fun a b => a ≤ b) k.cfs
  s!"ts={k.tableSize} nextcf={k.nextCf} tables=[{tabs}] bycf={joinNat cfs}"

def hasPrefix (p : Bytes) (r : Rec) : Bool := p.isPrefixOf r.key

def kvStep (s : St) (op : String) (a : List String) : Option (St × String) :=
  let arg (i : Nat) : String := a.getD i ""
  let id := arg 0
  let k := s.store id
  match op with
  | "clock" => some ({ s with now := int (arg 0) }, "ok")
  | "watchdog" => some (s, "ok")
  | "kv.new" => some (s.setStore id (KV.fork (nat (arg 1)) (int (arg 2))), "ok")
  | "kv.empty" => some (s.setStore id (KV.empty (nat (arg 1)) (int (arg 2))), "ok")
  | "put" =>
    let r : Rec := { key := unhx (arg 2), val := unhx (arg 3), ttl := int (arg 4), ts := int (arg 5), la := 0 }
    let (k', res) := k.put (nat (arg 1)) r s.now
    some (s.setStore id k', fmtRes res)
  | "putraw" =>
    let r : Rec := { key := unhx (arg 2), val := unhx (arg 3), ttl := int (arg 4), ts := int (arg 5), la := int (arg 6) }
    let (k', res) := k.putRaw (nat (arg 1)) r
    some (s.setStore id k', fmtRes res)
  | "get" =>
    let (r, k') := k.get (nat (arg 1)) s.now
    some (s.setStore id k', match r with | none => "nf" | some r => fmtRec r)
  | "getraw" => some (s, match k.lookup (nat (arg 1)) with | none => "nf" | some r => fmtRec r)
  | "getttl" => some (s, match k.lookup (nat (arg 1)) with | none => "nf" | some r => toString r.ttl)
  | "getla" => some (s, match k.lookup (nat (arg 1)) with | none => "nf" | some r => toString r.la)
  | "getkey" => some (s, match k.lookup (nat (arg 1)) with | none => "nf" | some r => hx r.key)
  | "check" => some (s, toString (k.check (nat (arg 1))))
  | "del" => some (s.setStore id (k.delete (nat (arg 1))), "ok")
  | "updttl" =>
    let (k', ok) := k.updateTTL (nat (arg 1)) (int (arg 2)) (int (arg 3)) s.now
    some (s.setStore id k', if ok then "ok" else "nf")
  | "stats" =>
    let st := k.stats
    some (s, s!"{st.allocated} {st.inuse} {st.garbage} {st.length} {st.numTables}")
  | "range" =>
    let items := sortBy (fun (x y : Nat × Rec) => x.1 ≤ y.1) k.rangeAll
    let body := items.map (fun p => s!"{p.1}:{fmtRecC p.2}")
    some (s.setStore id (k.touchAll s.now), " ".intercalate (s!"n={items.length}" :: body))
  | "rangehkey" =>
    some (s, joinNat (sortBy (fun a b => a ≤ b) (k.rangeAll.map (·.1))))
  | "compact" =>
    let order := parseNatList (arg 1)
    let (k', done) := k.compaction s.now order
    some (s.setStore id k', if done then "done" else s!"more order={joinNat order}")
  | "xfer" =>
    let dst := s.store (arg 1)
    let order := parseNatList (arg 2)
    match k.exportDrop with
    | none => some (s, "eof")
    | some (t, k') =>
      let dst' := dst.importTable t order s.now
      some ((s.setStore id k').setStore (arg 1) dst', s!"ok order={joinNat order}")
  | "scan" =>
    let m : Rec → Bool := if arg 3 == "*" then (fun _ => true) else hasPrefix (unhx (arg 3))
    let cursor := if arg 1 == "@" then (s.cursors.lookup id).getD 0 else nat (arg 1)
    let (next, ys, k') := k.scan cursor (nat (arg 2)) m s.now
    let s' := { s.setStore id k' with cursors := (id, next) :: s.cursors.filter (·.1 ≠ id) }
    some (s', " ".intercalate (toString next :: ys.map (fun r => hx r.key)))
  | "dump" => some (s, dumpStore k)
  | "hold" =>
    let (r, k') := k.get (nat (arg 1)) s.now
    match r with
    | none => some (s.setStore id k', "nf")
    | some r => some ({ s.setStore id k' with held := s.held ++ [r.val.length] }, fmtRec r)
  | "holdpage" =>
    let cursor := if arg 1 == "@" then (s.cursors.lookup id).getD 0 else nat (arg 1)
    let (next, ys, k') := k.scan cursor (nat (arg 2)) (fun _ => true) s.now
    let s' := { s.setStore id k' with cursors := (id, next) :: s.cursors.filter (·.1 ≠ id),
                                       held := s.held ++ ys.map (·.val.length) }
    some (s', " ".intercalate (toString next :: ys.map (fun r => hx r.key)))
  | "heldcheck" => some (s, s!"ok {s.held.length}")    -- a handed-out value never changes (C18_snapshot)
  | "poke" =>
    match s.held[nat (arg 0)]? with
    | none => some (s, "none")
    | some 0 => some (s, "empty")
    | some _ => some (s, "poked")                        -- and the store is untouched (C18_poke_private)
  | "putbuf" =>
    let r : Rec := { key := unhx (arg 2), val := unhx (arg 3), ttl := int (arg 4), ts := int (arg 5), la := 0 }
    let (k', res) := k.put (nat (arg 1)) r s.now
    some (s.setStore id k', fmtRes res)
  | _ => none

end Driver
