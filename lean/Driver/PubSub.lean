import Driver.Util
import OlricModel.PubSub.Model
namespace Driver
open Olric Olric.PubSub

structure PSt2 where
  ps : PS := PS.empty
  nmembers : Nat := 1

def fmtDeliveries (ds : List (Nat × Sub)) (ch msg : Bytes) : String :=
  -- grouped by "member:conn", keys sorted; within a connection: channel message first, then the
  -- pattern messages in pattern order (the order of the b-tree walk)
  let keys := sortBy (fun (a b : String) => a ≤ b) ((ds.map (fun d => s!"{d.1}:{d.2.conn}")).eraseDups)
  let parts := keys.map (fun k =>
    let mine := ds.filter (fun d => s!"{d.1}:{d.2.conn}" == k)
    let chans := mine.filter (fun d => !d.2.pat)
    let pats := sortBy (fun (a b : Nat × Sub) => hx a.2.name ≤ hx b.2.name) (mine.filter (fun d => d.2.pat))
    let items := (chans ++ pats).map (fun d =>
      if d.2.pat then s!"pmessage/{hx d.2.name}/{hx ch}/{hx msg}" else s!"message/-/{hx ch}/{hx msg}")
    k ++ "=" ++ ",".intercalate items)
  if parts.isEmpty then "-" else " ".intercalate parts

def pubsubStep (s : PSt2) (op : String) (a : List String) : Option (PSt2 × String) :=
  let arg (i : Nat) : String := a.getD i ""
  match op with
  | "ps.reset" => some ({ ps := PS.empty, nmembers := nat (arg 0) }, "ok")
  | "ps.sub" =>
    let (ps', n) := subscribe s.ps (nat (arg 0)) (nat (arg 1)) false (unhx (arg 2))
    some ({ s with ps := ps' }, s!"count={n}")
  | "ps.psub" =>
    let (ps', n) := subscribe s.ps (nat (arg 0)) (nat (arg 1)) true (unhx (arg 2))
    some ({ s with ps := ps' }, s!"count={n}")
  | "ps.unsub" =>
    if a.length < 3 then some ({ s with ps := unsubscribeAll s.ps (nat (arg 0)) (nat (arg 1)) false }, "count=0")
    else let (ps', n) := unsubscribe s.ps (nat (arg 0)) (nat (arg 1)) false (unhx (arg 2)); some ({ s with ps := ps' }, s!"count={n}")
  | "ps.punsub" =>
    if a.length < 3 then some ({ s with ps := unsubscribeAll s.ps (nat (arg 0)) (nat (arg 1)) true }, "count=0")
    else let (ps', n) := unsubscribe s.ps (nat (arg 0)) (nat (arg 1)) true (unhx (arg 2)); some ({ s with ps := ps' }, s!"count={n}")
  | "ps.close" => some ({ s with ps := disconnect s.ps (nat (arg 0)) (nat (arg 1)) }, "ok")
  | "ps.pub" =>
    let ch := unhx (arg 1)
    let (ds, n) := publish globMatch s.ps (List.range s.nmembers) ch
    some (s, s!"count={n} {fmtDeliveries ds ch (unhx (arg 2))}")
  | "ps.channels" =>
    let l := channels globMatch s.ps (nat (arg 0)) (if a.length > 1 then some (unhx (arg 1)) else none)
    let hs := sortBy (fun (x y : String) => x ≤ y) (l.map hx)
    some (s, if hs.isEmpty then "-" else ",".intercalate hs)
  | "ps.numsub" =>
    let outs := (a.drop 1).map (fun c => s!"{c}:{numsub s.ps (nat (arg 0)) (unhx c)}")
    some (s, if outs.isEmpty then "-" else ",".intercalate outs)
  | "ps.numpat" => some (s, toString (numpat s.ps (nat (arg 0))))
  | _ => none

end Driver
