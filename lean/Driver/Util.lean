/- Line-protocol helpers shared by the model driver (core-only). -/
import OlricModel.Store.Model
namespace Driver
open Olric

def hexDigit (n : Nat) : Char :=
  if n < 10 then Char.ofNat (48 + n) else Char.ofNat (87 + n)

def hx (b : Bytes) : String :=
  if b.isEmpty then "-" else
  String.ofList (b.flatMap (fun x => [hexDigit (x.toNat / 16), hexDigit (x.toNat % 16)]))

def hexVal (c : Char) : Nat :=
  if '0' ≤ c ∧ c ≤ '9' then c.toNat - 48
  else if 'a' ≤ c ∧ c ≤ 'f' then c.toNat - 87
  else if 'A' ≤ c ∧ c ≤ 'F' then c.toNat - 55
  else 0

def unhxAux : List Char → Bytes
  | a :: b :: rest => UInt8.ofNat (hexVal a * 16 + hexVal b) :: unhxAux rest
  | _ => []

def unhx (s : String) : Bytes := if s == "-" then [] else unhxAux s.toList

def nat (s : String) : Nat := s.toNat?.getD 0
def int (s : String) : Int := s.toInt?.getD 0

def joinNat (xs : List Nat) : String :=
  if xs.isEmpty then "-" else ",".intercalate (xs.map toString)

def parseNatList (s : String) : List Nat :=
  if s == "-" || s == "" then [] else (s.splitOn ",").map nat

def words (s : String) : List String := (s.splitOn " ").filter (· ≠ "")

/-- insertion sort, stable, by key -/
def insertBy {α} (le : α → α → Bool) (x : α) : List α → List α
  | [] => [x]
  | y :: ys => if le y x then y :: insertBy le x ys else x :: y :: ys

def sortBy {α} (le : α → α → Bool) (xs : List α) : List α :=
  xs.foldl (fun acc x => insertBy le x acc) []

end Driver
