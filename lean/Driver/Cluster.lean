import Driver.Util
import OlricModel.DMap.Model
import OlricModel.DMap.Evict
import OlricModel.Cluster.Pipeline
import Driver.Routing
namespace Driver
open Olric Olric.DMap

structure CSt where
  n : Nat := 0
  cfg : Cfg := {}
  cl : Cluster := Cluster.empty
  routes : List ((Bytes × Key) × Route) := []
  unreachable : List Nat := []
  mcq : Nat := 1
  numMembers : List (Nat × Nat) := []     -- member ↦ member count it currently sees (if overridden)
  ntok : Nat := 0                          -- lock tokens handed out so far
  parts : List ((Bytes × Key) × Nat) := []  -- partition id of every key seen (read from the running cluster)
  ecfg : EvCfg := {}                       -- eviction settings of every DMap ...
  cdm : Bytes := []                        -- ... except this one, which has its own settings
  cecfg : EvCfg := {}
  cttl : Int := 0                          -- and its own default TTL
  la : List ((Bytes × Key) × Int) := []    -- last access of the owner's primary entries

def CSt.route (s : CSt) (dm : Bytes) (k : Key) : Route := (s.routes.lookup (dm, k)).getD ⟨[0], []⟩
def CSt.reach (s : CSt) : Reach := fun m => !(s.unreachable.contains m)
def CSt.ecfgOf (s : CSt) (dm : Bytes) : EvCfg := if s.cdm != [] && dm == s.cdm then s.cecfg else s.ecfg
def CSt.cfgOf (s : CSt) (dm : Bytes) : Cfg := if s.cdm != [] && dm == s.cdm then { s.cfg with dmTTL := s.cttl } else s.cfg
/-- the keys seen so far that hash to the partition of (dm, k) -/
def CSt.univ (s : CSt) (dm : Bytes) (k : Key) : List Key :=
  match s.parts.lookup (dm, k) with
  | some p => (s.parts.filter (fun e => e.1.1 == dm && e.2 == p)).map (·.1.2)
  | none => [k]
def CSt.touch (s : CSt) (dm : Bytes) (k : Key) (now : Int) : CSt :=
  { s with la := ((dm, k), now) :: s.la.filter (fun e => e.1 != (dm, k)) }
def CSt.laFun (s : CSt) : LA := fun d x => (s.la.lookup (d, x)).getD 0

def optNat (a : List String) (key : String) (d : Nat) : Nat :=
  match a.find? (fun x => x.startsWith (key ++ "=")) with
  | some x => ((x.drop (key.length + 1)).toString).toNat?.getD d
  | none => d

def parseIdxList (s : String) : List Nat := if s == "-" || s == "" then [] else (s.splitOn ",").map nat

/-- options as the stream writes them: NX XX  EX <ms>  PX <ms>  EXAT <ms>  PXAT <ms> -/
def parsePutCfgAux : Nat → List String → PutCfg → PutCfg
  | 0, _, pc => pc
  | _, [], pc => pc
  | f + 1, x :: rest, pc =>
    let u := x.toUpper
    if u == "NX" then parsePutCfgAux f rest { pc with nx := true }
    else if u == "XX" then parsePutCfgAux f rest { pc with xx := true }
    else
      match rest with
      | v :: r =>
        if u == "EX" then parsePutCfgAux f r { pc with ttl := .ex (int v * 1000000) }
        else if u == "PX" then parsePutCfgAux f r { pc with ttl := .px (int v * 1000000) }
        else if u == "EXAT" then parsePutCfgAux f r { pc with ttl := .exat (int v * 1000000) }
        else if u == "PXAT" then parsePutCfgAux f r { pc with ttl := .pxat (int v * 1000000) }
        else parsePutCfgAux f rest pc
      | [] => pc

def parsePutCfg (a : List String) (pc : PutCfg) : PutCfg := parsePutCfgAux (a.length + 1) a pc

def fmtCopy (c : Option Copy) : String :=
  match c with
  | none => "-"
  | some x => s!"{hx x.val}/{x.ttl}/{x.ts}"

def fmtDRes : DMap.Res → String
  | .ok => "ok" | .keyFound => "keyfound" | .notFound => "nf" | .writeQuorum => "wq" | .readQuorum => "rq"
  | .val c => hx c.val

def range (n : Nat) : List Nat := List.range n

def dataOps : List String := ["c.put", "c.get", "c.getx", "c.del", "c.expire", "c.getput", "c.incr", "c.putv", "c.decr", "c.lock", "c.lockw", "c.unlockx", "c.leasex", "c.atomx", "c.atomenv",
  "c.unlock", "c.lease", "c.destroy", "c.pipeline"]

def tokBytes (n : Nat) : Bytes := ("tok" ++ toString n).toUTF8.toList
def fmtLock : LockRes → String
  | .acquired => "acquired" | .notAcquired => "notacquired" | .noSuchLock => "nolock" | .ok => "ok" | .other => "other"

/-- C05: a member that sees fewer members than MemberCountQuorum answers cluster-quorum to everything -/
def CSt.belowQuorum (s : CSt) (entry : Nat) : Bool :=
  match s.numMembers.lookup entry with
  | some n => decide (n < s.mcq)
  | none => false

/-- a background scan of every DMap (a pair is returned: see the remark at `DMap.mergeEntries`) -/
def evictAll (s : CSt) (now : Int) : List Bytes → Cluster → Cluster × Nat
  | [], c => (c, 0)
  | dm :: rest, c =>
    let keys := (s.parts.filter (fun e => e.1.1 == dm)).map (·.1.2)
    let (c1, n1) := DMap.evScan (s.ecfgOf dm) (s.cfgOf dm) (fun k => s.route dm k) s.laFun dm now c keys
    let (c2, n2) := evictAll s now rest c1
    (c2, n1 + n2)

def clusterStep (s : CSt) (now : Int) (op : String) (a : List String) : Option (CSt × String) :=
  let arg (i : Nat) : String := a.getD i ""
  if dataOps.contains op && s.belowQuorum (nat (arg 1)) then some (s, "cq") else
  match op with
  | "c.new" =>
    let n := optNat a "n" 1
    let cfg : Cfg := { R := optNat a "r" 1, W := optNat a "w" 1, RQ := optNat a "rq" 1,
                       readRepair := optNat a "rr" 0 == 1, dmTTL := (optNat a "ttl_ms" 0 : Nat) * 1000000 }
    let ls := optNat a "lrusamples" 0
    let ecfg : EvCfg := { lru := optNat a "lru" 0 == 1, maxKeys := optNat a "maxkeys" 0, maxInuse := optNat a "maxinuse" 0,
                          lruSamples := if ls == 0 then 5 else ls, idle := (optNat a "idle_ms" 0 : Nat) * 1000000 }
    let cdm := match a.find? (fun x => x.startsWith "cdm=") with
      | some x => ((x.drop 4).toString).toUTF8.toList
      | none => []
    let cls := optNat a "clrusamples" ls
    let cecfg : EvCfg := { lru := optNat a "clru" (optNat a "lru" 0) == 1, maxKeys := optNat a "cmaxkeys" (optNat a "maxkeys" 0),
                           maxInuse := optNat a "cmaxinuse" (optNat a "maxinuse" 0),
                           lruSamples := if cls == 0 then 5 else cls, idle := (optNat a "cidle_ms" 0 : Nat) * 1000000 }
    some ({ n := n, cfg := cfg, cl := Cluster.empty, routes := [], unreachable := [], mcq := 1,
            ecfg := ecfg, cdm := cdm, cecfg := cecfg, cttl := (optNat a "cttl_ms" (optNat a "ttl_ms" 0) : Nat) * 1000000 }, s!"ok n={n}")
  | "rt.fill" =>
    some (s, s!"in={arg 0} out={routingFill s.cfg.R (arg 0)}")
  | "c.mcq" => some ({ s with mcq := nat (arg 0) }, "ok")
  | "c.unreach" => some ({ s with unreachable := nat (arg 0) :: s.unreachable }, "ok")
  | "c.nummembers" => some ({ s with numMembers := (nat (arg 0), nat (arg 1)) :: s.numMembers.filter (·.1 != nat (arg 0)) }, "ok")
  | "c.own" =>
    -- c.own <dmap> <key> <prims>/<baks>   (the route is an input: read from the running cluster)
    let dm := (arg 0).toUTF8.toList
    let k := unhx (arg 1)
    let pick := a.getD (a.length - 2) ""
    let part := a.getD (a.length - 1) ""
    let pb := pick.splitOn "/"
    let r : Route := ⟨parseIdxList (pb.getD 0 "-"), parseIdxList (pb.getD 1 "-")⟩
    some ({ s with routes := ((dm, k), r) :: s.routes.filter (fun p => p.1 != (dm, k)),
                   parts := ((dm, k), nat part) :: s.parts.filter (fun p => p.1 != (dm, k)) }, s!"route pick={pick} part={part}")
  | "c.put" =>
    let dm := (arg 2).toUTF8.toList
    let k := unhx (arg 3)
    let pc := parsePutCfg (a.drop 5) {}
    let (cl', res) := DMap.put (s.cfgOf dm) (s.route dm k) s.reach s.cl dm k (unhx (arg 4)) pc now
    let s := if res == .ok then s.touch dm k now else s
    some ({ s with cl := cl' }, fmtDRes res)
  | "c.putv" =>
    -- c.put under the LRU policy: ... <victims|-> <owned>   (what the sampling evicted and the number of partitions the
    -- owner owns are inputs read from the running cluster)
    let dm := (arg 2).toUTF8.toList
    let k := unhx (arg 3)
    let owned := nat (a.getD (a.length - 1) "0")
    let vs := a.getD (a.length - 2) "-"
    let victims := if vs == "-" then [] else (vs.splitOn ",").map unhx
    let pc := parsePutCfg ((a.drop 5).take (a.length - 7)) {}
    match DMap.lruPut (s.ecfgOf dm) owned (s.cfgOf dm) (s.route dm k) s.reach s.cl dm (s.univ dm k) k (unhx (arg 4)) pc now victims with
    | none => some (s, s!"impossible-eviction pick={vs} owned={owned}")
    | some (cl', res) =>
      let s := if res == .ok then s.touch dm k now else s
      some ({ s with cl := cl' }, s!"{fmtDRes res} pick={vs} owned={owned}")
  | "bg.evict" =>
    -- one background scan of every primary fragment; every entry is visited (the streams keep fragments below
    -- the 19 entries a scan looks at)
    let dms := (s.parts.map (·.1.1)).eraseDups
    let (cl', _) := evictAll s now dms s.cl
    some ({ s with cl := cl' }, "ok")
  | "c.get" =>
    let dm := (arg 2).toUTF8.toList
    let k := unhx (arg 3)
    let (cl', res) := DMap.get (s.cfgOf dm) (s.route dm k) s.reach s.cl dm k now
    let s := if (s.cl.copy (s.route dm k).owner .prim dm k).isSome then s.touch dm k now else s
    some ({ s with cl := cl' }, fmtDRes res)
  | "c.getx" =>
    let dm := (arg 2).toUTF8.toList
    let k := unhx (arg 3)
    let (cl', res) := DMap.get (s.cfgOf dm) (s.route dm k) s.reach s.cl dm k now
    let s := if (s.cl.copy (s.route dm k).owner .prim dm k).isSome then s.touch dm k now else s
    some ({ s with cl := cl' }, match res with
      | .val c => s!"{hx c.val} ttl={c.ttl} ts={c.ts}"
      | r => fmtDRes r)
  | "c.del" =>
    let dm := (arg 2).toUTF8.toList
    let keys := (a.drop 3).map unhx
    let cl' := keys.foldl (fun c k => DMap.del (s.cfgOf dm) (s.route dm k) c dm k) s.cl
    some ({ s with cl := cl' }, toString keys.length)
  | "c.expire" =>
    let dm := (arg 2).toUTF8.toList
    let k := unhx (arg 3)
    let (cl', res) := DMap.expire (s.cfgOf dm) (s.route dm k) s.reach s.cl dm k (int (arg 4) * 1000000) now
    some ({ s with cl := cl' }, fmtDRes res)
  | "c.getput" =>
    let dm := (arg 2).toUTF8.toList
    let k := unhx (arg 3)
    let (cl', res, old) := DMap.getPut (s.cfgOf dm) (s.route dm k) s.reach s.cl dm k (unhx (arg 4)) now
    some ({ s with cl := cl' }, match res with
      | .ok => (match old with | some x => hx x.val | none => "none")
      | r => fmtDRes r)
  | "c.incr" =>
    let dm := (arg 2).toUTF8.toList
    let k := unhx (arg 3)
    let (cl', res) := DMap.incr (s.cfgOf dm) (s.route dm k) s.reach s.cl dm k (int (arg 4)) now
    some ({ s with cl := cl' }, match res with | some n => toString n | none => "err")
  | "c.decr" =>
    let dm := (arg 2).toUTF8.toList
    let k := unhx (arg 3)
    let (cl', res) := DMap.incr (s.cfgOf dm) (s.route dm k) s.reach s.cl dm k (-(int (arg 4))) now
    some ({ s with cl := cl' }, match res with | some n => toString n | none => "err")
  | "c.lock" =>
    let dm := (arg 2).toUTF8.toList
    let k := unhx (arg 3)
    let (cl', res) := DMap.lock (s.cfgOf dm) (s.route dm k) s.reach s.cl dm k (tokBytes s.ntok) (int (arg 4) * 1000000) now
    match res with
    | .acquired => some ({ s with cl := cl', ntok := s.ntok + 1 }, s!"tok{s.ntok}")
    | r => some ({ s with cl := cl' }, fmtLock r)
  | "c.atomx" =>
    -- <path> <i> <dmap> <key> <op1> <arg1> -- <path2> <i2> <op2> <arg2>: the second operation is started inside the
    -- first one's read-modify-write window; it has to wait: the outcome is "first, then second"
    let dm := (arg 2).toUTF8.toList
    let k := unhx (arg 3)
    let r := s.route dm k
    let run := fun (c : Cluster) (o : String) (x : String) =>
      match o with
      | "incr" => let (c', res) := DMap.incr (s.cfgOf dm) r s.reach c dm k (int x) now
                  (c', match res with | some n => toString n | none => "err")
      | "decr" => let (c', res) := DMap.incr (s.cfgOf dm) r s.reach c dm k (-(int x)) now
                  (c', match res with | some n => toString n | none => "err")
      | _ => let (c', res, old) := DMap.getPut (s.cfgOf dm) r s.reach c dm k (unhx x) now
             (c', match res with | .ok => (match old with | some y => hx y.val | none => "none") | e => fmtDRes e)
    let (c1, r1) := run s.cl (arg 4) (arg 5)
    let (c2, r2) := run c1 (arg 9) (arg 10)
    some ({ s with cl := c2 }, s!"{r1} inner=blocked:{r2}")
  | "c.atomenv" =>
    -- <path> <i> <dmap> <key> <op1> <arg1> -- <adv_ms> <path2> <i2> <op2> <arg2>: the first operation took its timestamp
    -- (now), then the clock advanced and the second one ran completely, then the first one: serial, second then first,
    -- the first one writing with the older timestamp
    let dm := (arg 2).toUTF8.toList
    let k := unhx (arg 3)
    let r := s.route dm k
    let run := fun (c : Cluster) (o : String) (x : String) (t : Int) =>
      match o with
      | "incr" => let (c', res) := DMap.incr (s.cfgOf dm) r s.reach c dm k (int x) t
                  (c', match res with | some n => toString n | none => "err")
      | "decr" => let (c', res) := DMap.incr (s.cfgOf dm) r s.reach c dm k (-(int x)) t
                  (c', match res with | some n => toString n | none => "err")
      | _ => let (c', res, old) := DMap.getPut (s.cfgOf dm) r s.reach c dm k (unhx x) t
             (c', match res with | .ok => (match old with | some y => hx y.val | none => "none") | e => fmtDRes e)
    let (c1, r2) := run s.cl (arg 10) (arg 11) (now + int (arg 7) * 1000000)
    let (c2, r1) := run c1 (arg 4) (arg 5) now
    some ({ s with cl := c2 }, s!"{r1} inner=ran:{r2}")
  | "c.lockw" =>
    -- a waiting Lock: one attempt now, and (the key being held) the attempts after the clock advanced
    let dm := (arg 2).toUTF8.toList
    let k := unhx (arg 3)
    let tmo := int (arg 4) * 1000000
    let (cl1, res1) := DMap.lock (s.cfgOf dm) (s.route dm k) s.reach s.cl dm k (tokBytes s.ntok) tmo now
    match res1 with
    | .acquired => some ({ s with cl := cl1, ntok := s.ntok + 1 }, s!"tok{s.ntok}")
    | .notAcquired =>
      let (cl2, res2) := DMap.lock (s.cfgOf dm) (s.route dm k) s.reach cl1 dm k (tokBytes s.ntok) tmo (now + int (arg 6) * 1000000)
      (match res2 with
       | .acquired => some ({ s with cl := cl2, ntok := s.ntok + 1 }, s!"tok{s.ntok}")
       | r => some ({ s with cl := cl2 }, fmtLock r))
    | r => some ({ s with cl := cl1 }, fmtLock r)
  | "c.unlock" =>
    let dm := (arg 2).toUTF8.toList
    let k := unhx (arg 3)
    let tok := if arg 4 == "forged" then "forged".toUTF8.toList else (arg 4).toUTF8.toList
    let (cl', res) := DMap.unlock (s.cfgOf dm) (s.route dm k) s.reach s.cl dm k tok now
    some ({ s with cl := cl' }, fmtLock res)
  | "c.lease" =>
    let dm := (arg 2).toUTF8.toList
    let k := unhx (arg 3)
    let tok := if arg 4 == "forged" then "forged".toUTF8.toList else (arg 4).toUTF8.toList
    let (cl', res) := DMap.lease (s.cfgOf dm) (s.route dm k) s.reach s.cl dm k tok (int (arg 5) * 1000000) now
    some ({ s with cl := cl' }, fmtLock res)
  | "c.unlockx" | "c.leasex" =>
    -- <path> <i> <dmap> <key> <tok> [<ms>] -- <adv_ms> <path2> <i2> <timeout2_ms>: the second half runs after the
    -- clock advanced and a competitor tried to take the lock (one attempt)
    let dm := (arg 2).toUTF8.toList
    let k := unhx (arg 3)
    let tok := if arg 4 == "forged" then "forged".toUTF8.toList else (arg 4).toUTF8.toList
    let isLease := op == "c.leasex"
    let rest := (a.dropWhile (· != "--")).drop 1
    let r := s.route dm k
    let (c1, chk) := if isLease then DMap.leaseChk (s.cfgOf dm) r s.reach s.cl dm k tok now
                     else DMap.unlockChk (s.cfgOf dm) r s.reach s.cl dm k tok now
    match chk with
    | some e => some ({ s with cl := c1 }, s!"{fmtLock e} inner=-")
    | none =>
      let now' := now + int (rest.getD 0 "0") * 1000000
      let (c2, lres) := DMap.lock (s.cfgOf dm) r s.reach c1 dm k (tokBytes s.ntok) (int (rest.getD 3 "0") * 1000000) now'
      let (ntok', inner) := match lres with
        | .acquired => (s.ntok + 1, s!"tok{s.ntok}")
        | e => (s.ntok, fmtLock e)
      let (c3, res) := if isLease then DMap.leaseFin (s.cfgOf dm) r s.reach c2 dm k tok (int (arg 5) * 1000000) now'
                       else DMap.unlockFin (s.cfgOf dm) r c2 dm k tok now'
      some ({ s with cl := c3, ntok := ntok' }, s!"{fmtLock res} inner={inner}")
  | "c.destroy" =>
    let dm := (arg 2).toUTF8.toList
    some ({ s with cl := DMap.destroy s.cl dm }, "ok")
  | "c.pipeline" =>
    -- commands on different keys commute and commands on one key keep their order (one partition, one
    -- connection): executing the queue in order gives every future's result
    let dm := (arg 2).toUTF8.toList
    let step := fun (acc : Cluster × List String) (c : String) =>
      let f := c.splitOn ":"
      let k := unhx (f.getD 1 "")
      let r := s.route dm k
      match f.getD 0 "" with
      | "put" => let (c', res) := DMap.put (s.cfgOf dm) r s.reach acc.1 dm k (unhx (f.getD 2 "")) {} now; (c', acc.2 ++ [fmtDRes res])
      | "get" => let (c', res) := DMap.get (s.cfgOf dm) r s.reach acc.1 dm k now; (c', acc.2 ++ [fmtDRes res])
      | "getput" =>
        let (c', res, old) := DMap.getPut (s.cfgOf dm) r s.reach acc.1 dm k (unhx (f.getD 2 "")) now
        (c', acc.2 ++ [match res with | .ok => (match old with | some x => hx x.val | none => "none") | e => fmtDRes e])
      | "del" => (DMap.del (s.cfgOf dm) r acc.1 dm k, acc.2 ++ ["1"])
      | "incr" => let (c', res) := DMap.incr (s.cfgOf dm) r s.reach acc.1 dm k (int (f.getD 2 "")) now
                  (c', acc.2 ++ [match res with | some n => toString n | none => "err"])
      | "decr" => let (c', res) := DMap.incr (s.cfgOf dm) r s.reach acc.1 dm k (-(int (f.getD 2 ""))) now
                  (c', acc.2 ++ [match res with | some n => toString n | none => "err"])
      | "expire" => let (c', res) := DMap.expire (s.cfgOf dm) r s.reach acc.1 dm k (int (f.getD 2 "") * 1000000) now
                    (c', acc.2 ++ [fmtDRes res])
      | _ => (acc.1, acc.2 ++ ["bad-pipeline-cmd"])
    let (cl', outs) := (a.drop 3).foldl step (s.cl, [])
    -- the life cycle the harness walks through (Cluster/Pipeline.lean: Life)
    let fe := fun (e : Option Pipeline.FutErr) => match e with
      | none => "none" | some .closed => "closed" | some .notReady => "notReady" | some .executed => "executed"
    let has := !(a.drop 3).isEmpty
    let l0 : Pipeline.Life := {}
    let pre := if has then fe (l0.read 0) else "-"
    let l1 := l0.exec.1
    let e2 := l1.exec
    let e3 := e2.1.discard
    let old := if has then fe (e3.1.read 0) else "-"
    let e4 := e3.1.exec
    let l5 := e4.1.close
    let life := ",".intercalate [pre, fe e2.2, fe e3.2, old, fe e4.2, fe l5.exec.2, fe l5.discard.2]
    some ({ s with cl := cl' }, "|".intercalate outs ++ " life=" ++ life)
  | "wb.del" =>
    -- wb.del <i> <P|B> <dmap> <key>: a copy removed behind the system's back
    let kind := if arg 1 == "B" then Kind.bak else Kind.prim
    some ({ s with cl := s.cl.setCopy (nat (arg 0)) kind (arg 2).toUTF8.toList (unhx (arg 3)) none }, "ok")
  | "wb.merge" =>
    -- wb.merge <i> <P|B> <dmap> <key>:<val>:<ttl>:<ts> ...: tables of a fragment hand-over received by member i.
    -- `refused` (the member does not own the partition) is decided by the harness from the routing table
    let kind := if arg 1 == "B" then Kind.bak else Kind.prim
    let incs : List (Key × Copy) := (a.drop 3).filterMap (fun e =>
      match e.splitOn ":" with
      | [k, v, ttl, ts] => some (unhx k, (⟨unhx v, int ttl, int ts⟩ : Copy))
      | _ => none)
    let (cl', res) := DMap.mergeEntries s.cl (nat (arg 0)) kind (arg 2).toUTF8.toList incs
    some ({ s with cl := cl' }, fmtDRes res)
  | "wb.put" =>
    -- wb.put <i> <P|B> <dmap> <key> <val> <ttl> <ts>: a copy planted behind the system's back
    let kind := if arg 1 == "B" then Kind.bak else Kind.prim
    let c : Copy := ⟨unhx (arg 4), int (arg 5), int (arg 6)⟩
    some ({ s with cl := s.cl.setCopy (nat (arg 0)) kind (arg 2).toUTF8.toList (unhx (arg 3)) (some c) }, "ok")
  | "wb.ttl" =>
    let dm := (arg 0).toUTF8.toList
    let k := unhx (arg 1)
    let f := fun (c : Option Copy) => match c with | some x => toString x.ttl | none => "-"
    let parts := (range s.n).map (fun i =>
      s!"m{i}:P={f (s.cl.copy i .prim dm k)},B={f (s.cl.copy i .bak dm k)}")
    some (s, " ".intercalate parts)
  | "wb" =>
    let dm := (arg 0).toUTF8.toList
    let k := unhx (arg 1)
    let parts := (range s.n).map (fun i =>
      s!"m{i}:P={fmtCopy (s.cl.copy i .prim dm k)},B={fmtCopy (s.cl.copy i .bak dm k)}")
    some (s, " ".intercalate parts)
  | _ => none

end Driver
