import Driver.Util
import OlricModel.Cluster.Routing
namespace Driver
open Olric Olric.Routing

def parseMem (s : String) : Mem :=
  match s.splitOn "." with
  | [a, b] => ⟨nat a, nat b⟩
  | _ => ⟨0, 0⟩

def parseMems (s : String) : List Mem := if s == "-" || s == "" then [] else (s.splitOn ";").map parseMem

def fmtMem (m : Mem) : String := s!"{m.name}.{m.id}"
def fmtMems (l : List Mem) : String := if l.isEmpty then "-" else ";".intercalate (l.map fmtMem)

/-- `0.1=5;1.2=e` -/
def parseCounts (s : String) : List (Mem × Option Nat) :=
  if s == "-" || s == "" then [] else
  (s.splitOn ";").map (fun e =>
    match e.splitOn "=" with
    | [m, c] => (parseMem m, if c == "e" then none else some (nat c))
    | _ => (⟨0, 0⟩, none))

def countFun (l : List (Mem × Option Nat)) : Mem → Option Nat :=
  fun m => match l.find? (fun e => e.1 == m) with
    | some e => e.2
    | none => none

/-- rt.fill <in>: one computation of the coordinator's routing table from what it read -/
def routingFill (R : Nat) (inp : String) : String :=
  match inp.splitOn "~" with
  | [] => "bad-input"
  | liveS :: rows =>
    let live := parseMems ((liveS.drop 5).toString)      -- after "live:"
    let outs := rows.map (fun row =>
      match row.splitOn ":" with
      | [pname, body] =>
        (match body.splitOn "|" with
         | [ow, bk, ro, cl, pc, bc] =>
           let cur : Row := ⟨parseMems ow, parseMems bk⟩
           let closest := if cl == "x" then none else some (parseMems cl)
           let r := fillRow R live (countFun (parseCounts pc)) (countFun (parseCounts bc)) cur (parseMem ro) closest
           s!"{pname}:{fmtMems r.owners}/{fmtMems r.backups}"
         | _ => s!"{pname}:bad-row")
      | _ => "bad-row")
    "~".intercalate outs

end Driver
