import Driver.KV
import Driver.Codec
import Driver.Parsers
import Driver.Cluster
import Driver.PubSub
open Driver

structure World where
  kv : St := {}
  ps : PSt := {}
  cs : CSt := {}
  pss : PSt2 := {}

def step (w : World) (line : String) : World × String :=
  match words line with
  | [] => (w, "bad-op")
  | op :: args =>
    match kvStep w.kv op args with
    | some (kv', out) => ({ w with kv := kv' }, out)
    | none =>
      match codecStep op args with
      | some out => (w, out)
      | none =>
        match parsersStep w.ps op args with
        | some (ps', out) => ({ w with ps := ps' }, out)
        | none =>
          match clusterStep w.cs w.kv.now op args with
          | some (cs', out) =>
            -- a new cluster also resets the pub/sub model
            let w' := if op == "c.new" then { w with pss := { ps := Olric.PubSub.PS.empty, nmembers := cs'.n } } else w
            ({ w' with cs := cs' }, out)
          | none =>
            match pubsubStep w.pss op args with
            | some (p', out) => ({ w with pss := p' }, out)
            | none => (w, "bad-op")

partial def loop (hin hout : IO.FS.Stream) (w : World) : IO Unit := do
  let line ← hin.getLine
  if line.isEmpty then return ()
  let l := line.trimAscii.toString
  if l == "quit" then return ()
  let (w', out) := step w l
  hout.putStrLn out
  hout.flush
  loop hin hout w'

def main : IO Unit := do
  loop (← IO.getStdin) (← IO.getStdout) {}
