import Driver.KV
import Driver.Codec
import Driver.Parsers
import Driver.Cluster
open Driver

structure World where
  kv : St := {}
  ps : PSt := {}
  cs : CSt := {}

def step (w : World) (line : String) : World × String :=
  match words line with
  | [] => (w, "bad-op")
  | op :: args =>
    match kvStep w.kv op args with
    | some (kv', out) => ({ w with kv := kv' }, out)
    | none =>
      match codecStep op args with
      | some out => (w, out)
      | none =>
        match parsersStep w.ps op args with
        | some (ps', out) => ({ w with ps := ps' }, out)
        | none =>
          match clusterStep w.cs w.kv.now op args with
          | some (cs', out) => ({ w with cs := cs' }, out)
          | none => (w, "bad-op")

partial def loop (hin hout : IO.FS.Stream) (w : World) : IO Unit := do
  let line ← hin.getLine
  if line.isEmpty then return ()
  let l := line.trimAscii.toString
  if l == "quit" then return ()
  let (w', out) := step w l
  hout.putStrLn out
  hout.flush
  loop hin hout w'

def main : IO Unit := do
  loop (← IO.getStdin) (← IO.getStdout) {}
