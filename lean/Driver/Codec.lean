import Driver.Util
import OlricModel.Base.Codec
namespace Driver
open Olric

def bytesOfChars (cs : List Char) : Bytes := cs.map (fun c => UInt8.ofNat c.toNat)
def charsOfBytes (b : Bytes) : List Char := b.map (fun x => Char.ofNat x.toNat)

def fmtNumErr : NumErr → String
  | .syntax => "err:syntax" | .range => "err:range"

/-- ops that need no state -/
def codecStep (op : String) (a : List String) : Option String :=
  let arg (i : Nat) : String := a.getD i ""
  match op with
  | "enc.int" =>   -- enc.int <bits> <n>: Encode(int<bits>(n)) then Scan into the same width
    let n := int (arg 1)
    let txt := fmtInt n
    some (s!"{hx (bytesOfChars txt)} " ++ (match parseInt (nat (arg 0)) txt with
      | .ok v => toString v | .error e => fmtNumErr e))
  | "enc.uint" =>
    let n := nat (arg 1)
    let txt := fmtNat n
    some (s!"{hx (bytesOfChars txt)} " ++ (match parseUint (nat (arg 0)) txt with
      | .ok v => toString v | .error e => fmtNumErr e))
  | "scan.int" =>  -- scan.int <bits> <hex text>
    some (match parseInt (nat (arg 0)) (charsOfBytes (unhx (arg 1))) with
      | .ok v => toString v | .error e => fmtNumErr e)
  | "scan.uint" =>
    some (match parseUint (nat (arg 0)) (charsOfBytes (unhx (arg 1))) with
      | .ok v => toString v | .error e => fmtNumErr e)
  | "entry.enc" =>
    let r : Rec := { key := unhx (arg 0), val := unhx (arg 1), ttl := int (arg 2), ts := int (arg 3), la := int (arg 4) }
    some (hx (encodeRec r))
  | "entry.dec" =>
    some (match decodeRec (unhx (arg 0)) with
      | none => "undecodable"
      | some r => s!"{hx r.key} {hx r.val} {r.ttl} {r.ts} {r.la}")
  | "scan.bool" =>
    let b := unhx (arg 0)
    some (toString (b == [49]))
  -- assumptions A-float / A-time / marshaler: the implementation must round-trip; nothing to compute
  | "rt.float64" => some "same"
  | "rt.float32" => some "same"
  | "rt.time" => some "same"
  | "rt.bytes" => some "same"
  | "rt.string" => some "same"
  | "rt.bool" => some "same"
  | "rt.marshaler" => some "same"
  | _ => none

end Driver
