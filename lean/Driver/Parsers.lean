import Driver.Util
import OlricModel.Generated.Parsers
namespace Driver
open Olric Olric.IR

structure PSt where
  numok : List (Tok × String) := []     -- token ↦ flags "iufa" as reported by the real strconv

def PSt.ok (s : PSt) : NumOk := fun kind t =>
  match s.numok.lookup t with
  | none => false
  | some fl =>
    let i := match kind with | .int => 0 | .uint => 1 | .float => 2 | .atoi => 3
    (fl.toList.getD i '0') == '1'

def parsersStep (s : PSt) (op : String) (a : List String) : Option (PSt × String) :=
  let arg (i : Nat) : String := a.getD i ""
  match op with
  | "numok" => some ({ s with numok := (unhx (arg 0), arg 1) :: s.numok }, s!"ok pick={arg 1}")
  | "parsers" => some (s, ",".intercalate (Parsers.all.map (·.1)))
  | "parse" =>
    match Parsers.all.lookup (arg 0) with
    | none => some (s, "unknown-parser")
    | some p =>
      let args := (a.drop 1).map unhx
      some (s, match run s.ok p args with
        | .retOk => "ok" | .next _ => "ok" | .retErr => "err" | .panic => "panic" | .spin => "spin" | .cont _ => "panic")
  | "safe" =>
    match Parsers.all.lookup (arg 0) with
    | none => some (s, "unknown-parser")
    | some p => some (s, toString (safe p))
  | _ => none

end Driver
