//go:build verif

package olric

import (
	"github.com/olric-data/olric/internal/cluster/balancer"
	"github.com/olric-data/olric/internal/cluster/partitions"
	"github.com/olric-data/olric/internal/cluster/routingtable"
	"github.com/olric-data/olric/internal/dmap"
	"github.com/olric-data/olric/internal/pubsub"
	"github.com/olric-data/olric/internal/server"
)

// VerifInternals exposes the services of a member to the verification harness.
type VerifInternals struct {
	DMap     *dmap.Service
	PubSub   *pubsub.Service
	RT       *routingtable.RoutingTable
	Balancer *balancer.Balancer
	Primary  *partitions.Partitions
	Backup   *partitions.Partitions
	Server   *server.Server
}

func (db *Olric) VerifInternals() VerifInternals {
	return VerifInternals{DMap: db.dmap, PubSub: db.pubsub, RT: db.rt, Balancer: db.balancer, Primary: db.primary, Backup: db.backup, Server: db.server}
}

// VerifSetMemberCountQuorum changes MemberCountQuorum of a running member (a cluster whose members
// are started one after the other cannot boot with a quorum above one).
func (db *Olric) VerifSetMemberCountQuorum(n int32) { db.config.MemberCountQuorum = n }
