//go:build verif

package pubsub

// VerifConnCount: connections currently registered with this member's pub/sub engine.
func (s *Service) VerifConnCount() int {
	s.pubsub.mu.RLock()
	defer s.pubsub.mu.RUnlock()
	return len(s.pubsub.conns)
}
