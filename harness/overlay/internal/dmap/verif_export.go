//go:build verif

package dmap

import (
	"sort"

	"github.com/olric-data/olric/internal/cluster/partitions"
	"github.com/olric-data/olric/internal/protocol"
	"github.com/olric-data/olric/pkg/storage"
	"github.com/vmihailenco/msgpack/v5"
)

// VerifCopy reads the copy of key held by this member in its primary or backup fragment, without
// touching lastAccess and without any expiry logic.
func (s *Service) VerifCopy(name, key string, kind partitions.Kind) (found bool, value []byte, ttl, ts, lastAccess int64) {
	hkey := partitions.HKey(name, key)
	var part *partitions.Partition
	if kind == partitions.PRIMARY {
		part = s.primary.PartitionByHKey(hkey)
	} else {
		part = s.backup.PartitionByHKey(hkey)
	}
	tmp, ok := part.Map().Load(s.fragmentName(name))
	if !ok {
		return false, nil, 0, 0, 0
	}
	f := tmp.(*fragment)
	f.RLock()
	defer f.RUnlock()
	raw, err := f.storage.GetRaw(hkey)
	if err != nil {
		return false, nil, 0, 0, 0
	}
	e := f.storage.NewEntry()
	e.Decode(raw)
	return true, append([]byte{}, e.Value()...), e.TTL(), e.Timestamp(), e.LastAccess()
}

// VerifKeys lists every key stored for the DMap on this member (kind = primary or backup).
func (s *Service) VerifKeys(name string, kind partitions.Kind) []string {
	var keys []string
	for partID := uint64(0); partID < s.config.PartitionCount; partID++ {
		var part *partitions.Partition
		if kind == partitions.PRIMARY {
			part = s.primary.PartitionByID(partID)
		} else {
			part = s.backup.PartitionByID(partID)
		}
		tmp, ok := part.Map().Load(s.fragmentName(name))
		if !ok {
			continue
		}
		f := tmp.(*fragment)
		f.RLock()
		f.storage.RangeHKey(func(hkey uint64) bool {
			k, err := f.storage.GetKey(hkey)
			if err == nil {
				keys = append(keys, k)
			}
			return true
		})
		f.RUnlock()
	}
	sort.Strings(keys)
	return keys
}

// VerifFragmentNames lists the fragment names present in any partition of the given kind.
func (s *Service) VerifFragmentNames(kind partitions.Kind) []string {
	seen := map[string]bool{}
	for partID := uint64(0); partID < s.config.PartitionCount; partID++ {
		var part *partitions.Partition
		if kind == partitions.PRIMARY {
			part = s.primary.PartitionByID(partID)
		} else {
			part = s.backup.PartitionByID(partID)
		}
		part.Map().Range(func(name, _ interface{}) bool {
			seen[name.(string)] = true
			return true
		})
	}
	var out []string
	for n := range seen {
		out = append(out, n)
	}
	sort.Strings(out)
	return out
}

// VerifStats sums the storage statistics of the DMap's fragments on this member.
func (s *Service) VerifStats(name string, kind partitions.Kind) (st storage.Stats, perPart map[uint64]storage.Stats) {
	perPart = map[uint64]storage.Stats{}
	for partID := uint64(0); partID < s.config.PartitionCount; partID++ {
		var part *partitions.Partition
		if kind == partitions.PRIMARY {
			part = s.primary.PartitionByID(partID)
		} else {
			part = s.backup.PartitionByID(partID)
		}
		tmp, ok := part.Map().Load(s.fragmentName(name))
		if !ok {
			continue
		}
		fs := tmp.(*fragment).Stats()
		perPart[partID] = fs
		st.Allocated += fs.Allocated
		st.Inuse += fs.Inuse
		st.Garbage += fs.Garbage
		st.Length += fs.Length
		st.NumTables += fs.NumTables
	}
	return
}

// synchronous runs of the background workers
func (s *Service) VerifCompaction()     { s.triggerCompaction() }
func (s *Service) VerifJanitor()        { s.deleteEmptyFragments() }
func (s *Service) VerifEvictPartition(partID uint64) {
	part := s.primary.PartitionByID(partID)
	part.Map().Range(func(name, tmp interface{}) bool {
		s.scanFragmentForEviction(partID, name.(string), tmp.(*fragment))
		return true
	})
}

// VerifPutCopy plants a copy directly into a fragment (stale-copy scenarios).
func (s *Service) VerifPutCopy(name, key string, kind partitions.Kind, value []byte, ttl, ts int64) error {
	dm, err := s.getOrCreateDMap(name)
	if err != nil {
		return err
	}
	hkey := partitions.HKey(name, key)
	part := dm.getPartitionByHKey(hkey, kind)
	f, err := dm.loadOrCreateFragment(part)
	if err != nil {
		return err
	}
	f.Lock()
	defer f.Unlock()
	e := f.storage.NewEntry()
	e.SetKey(key)
	e.SetValue(value)
	e.SetTTL(ttl)
	e.SetTimestamp(ts)
	return f.storage.Put(hkey, e)
}

// VerifDeleteCopy removes a copy directly from a fragment.
func (s *Service) VerifDeleteCopy(name, key string, kind partitions.Kind) {
	hkey := partitions.HKey(name, key)
	var part *partitions.Partition
	if kind == partitions.PRIMARY {
		part = s.primary.PartitionByHKey(hkey)
	} else {
		part = s.backup.PartitionByHKey(hkey)
	}
	tmp, ok := part.Map().Load(s.fragmentName(name))
	if !ok {
		return
	}
	f := tmp.(*fragment)
	f.Lock()
	defer f.Unlock()
	_ = f.storage.Delete(hkey)
}

// VerifEntry is one record of a fragment delivered by VerifMerge.
type VerifEntry struct {
	Key     string
	Value   []byte
	TTL, TS int64
}

// VerifMerge delivers the entries to this member exactly as a fragment hand-over does: they are
// stored in a scratch fragment, every table of it is exported with the transfer iterator, wrapped in
// a fragmentPack and sent to this member's own DMAP.MOVEFRAGMENT handler over its RESP listener.
// The entries must belong to partition partID.
func (s *Service) VerifMerge(name string, kind partitions.Kind, partID uint64, entries []VerifEntry) error {
	dm, err := s.getOrCreateDMap(name)
	if err != nil {
		return err
	}
	f, err := dm.newFragment()
	if err != nil {
		return err
	}
	defer f.Close()
	for _, en := range entries {
		e := f.storage.NewEntry()
		e.SetKey(en.Key)
		e.SetValue(en.Value)
		e.SetTTL(en.TTL)
		e.SetTimestamp(en.TS)
		if err = f.storage.Put(partitions.HKey(name, en.Key), e); err != nil {
			return err
		}
	}
	it := f.storage.TransferIterator()
	for it.Next() {
		payload, index, err := it.Export()
		if err != nil {
			return err
		}
		value, err := msgpack.Marshal(&fragmentPack{PartID: partID, Kind: kind, Name: name, Payload: payload})
		if err != nil {
			return err
		}
		cmd := protocol.NewMoveFragment(value).Command(s.ctx)
		rc := s.client.Get(s.rt.This().String())
		if err = rc.Process(s.ctx, cmd); err != nil {
			return err
		}
		if err = cmd.Err(); err != nil {
			return err
		}
		if err = it.Drop(index); err != nil {
			return err
		}
	}
	return nil
}
