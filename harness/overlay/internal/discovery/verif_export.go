//go:build verif

package discovery

// VerifAbruptShutdown stops the membership layer WITHOUT broadcasting a leave message: the other
// members have to detect the loss by probing, as after a crash.
func (d *Discovery) VerifAbruptShutdown() error {
	select {
	case <-d.ctx.Done():
		return nil
	default:
	}
	d.cancel()
	d.wg.Wait()
	if d.memberlist != nil {
		return d.memberlist.Shutdown()
	}
	return nil
}
