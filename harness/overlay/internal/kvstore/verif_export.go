//go:build verif

package kvstore

import (
	"sort"

	"github.com/olric-data/olric/internal/kvstore/table"
)

type VerifStore struct {
	TableSize, Coefficient uint64
	Tables                 []table.VerifTable // Go order
	ByCf                   []uint64           // keys of tablesByCoefficient, ascending
	ByCfOK                 bool               // every key maps to a table of k.tables carrying that coefficient
}

func (k *KVStore) VerifDump() VerifStore {
	vs := VerifStore{TableSize: k.tableSize, Coefficient: k.coefficient, ByCfOK: true}
	for _, t := range k.tables {
		vs.Tables = append(vs.Tables, t.VerifDump())
	}
	for cf, t := range k.tablesByCoefficient {
		vs.ByCf = append(vs.ByCf, cf)
		found := false
		for _, x := range k.tables {
			if x == t {
				found = true
			}
		}
		if !found || t.Coefficient() != cf {
			vs.ByCfOK = false
		}
	}
	sort.Slice(vs.ByCf, func(i, j int) bool { return vs.ByCf[i] < vs.ByCf[j] })
	return vs
}

// VerifLocate: index of the table (Go order) and offset of every version of hkey, newest first.
func (k *KVStore) VerifLocate(hkey uint64) (tableIdx int, offset uint64, ok bool) {
	for i := len(k.tables) - 1; i >= 0; i-- {
		if o, found := k.tables[i].VerifLocate(hkey); found {
			return i, o, true
		}
	}
	return 0, 0, false
}

func (k *KVStore) VerifTables() []*table.Table { return k.tables }
