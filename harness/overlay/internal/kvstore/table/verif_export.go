//go:build verif

package table

import (
	"encoding/binary"
	"sort"
)

// VerifSlot is one live record of a table as seen through the hkeys index.
type VerifSlot struct {
	HKey, Offset           uint64
	Key, Value             []byte
	TTL, Timestamp, Access int64
	Bad                    bool // the index points outside memory / the record is truncated
}

type VerifTable struct {
	Coefficient, Offset, Allocated, Inuse, Garbage uint64
	State                                          State
	RecycledAt                                     int64
	Slots                                          []VerifSlot // sorted by offset
	OffsetIndex                                    []uint64    // the roaring bitmap, ascending
}

func (t *Table) verifDecode(hkey, offset uint64) VerifSlot {
	s := VerifSlot{HKey: hkey, Offset: offset}
	mem := t.memory
	o := offset
	if o >= uint64(len(mem)) {
		s.Bad = true
		return s
	}
	klen := uint64(mem[o])
	o++
	if o+klen+28 > uint64(len(mem)) {
		s.Bad = true
		return s
	}
	s.Key = append([]byte{}, mem[o:o+klen]...)
	o += klen
	s.TTL = int64(binary.BigEndian.Uint64(mem[o : o+8]))
	o += 8
	s.Timestamp = int64(binary.BigEndian.Uint64(mem[o : o+8]))
	o += 8
	s.Access = int64(binary.BigEndian.Uint64(mem[o : o+8]))
	o += 8
	vlen := uint64(binary.BigEndian.Uint32(mem[o : o+4]))
	o += 4
	if o+vlen > uint64(len(mem)) {
		s.Bad = true
		return s
	}
	s.Value = append([]byte{}, mem[o:o+vlen]...)
	return s
}

// VerifDump reads the table without touching lastAccess stamps.
func (t *Table) VerifDump() VerifTable {
	vt := VerifTable{
		Coefficient: t.coefficient, Offset: t.offset, Allocated: t.allocated, Inuse: t.inuse,
		Garbage: t.garbage, State: t.state, RecycledAt: t.recycledAt,
	}
	for hkey, off := range t.hkeys {
		vt.Slots = append(vt.Slots, t.verifDecode(hkey, off))
	}
	sort.Slice(vt.Slots, func(i, j int) bool {
		if vt.Slots[i].Offset != vt.Slots[j].Offset {
			return vt.Slots[i].Offset < vt.Slots[j].Offset
		}
		return vt.Slots[i].HKey < vt.Slots[j].HKey
	})
	it := t.offsetIndex.Iterator()
	for it.HasNext() {
		vt.OffsetIndex = append(vt.OffsetIndex, it.Next())
	}
	return vt
}

// VerifLocate returns the offset of hkey in this table.
func (t *Table) VerifLocate(hkey uint64) (uint64, bool) {
	o, ok := t.hkeys[hkey]
	return o, ok
}

// VerifMemory exposes the backing array (alias tests).
func (t *Table) VerifMemory() []byte { return t.memory }
