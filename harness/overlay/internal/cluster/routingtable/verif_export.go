//go:build verif

package routingtable

import (
	"sort"

	"github.com/olric-data/olric/internal/discovery"
	"github.com/olric-data/olric/internal/protocol"
)

// VerifRoute is one row of the table the coordinator computed last.
type VerifRoute struct {
	Owners  []discovery.Member
	Backups []discovery.Member
}

// VerifTable returns the table computed by the last fillRoutingTable on this member (coordinator only).
func (r *RoutingTable) VerifTable() map[uint64]VerifRoute {
	r.RLock()
	defer r.RUnlock()
	out := map[uint64]VerifRoute{}
	for id, rt := range r.table {
		out[id] = VerifRoute{Owners: append([]discovery.Member{}, rt.Owners...), Backups: append([]discovery.Member{}, rt.Backups...)}
	}
	return out
}

// VerifRing returns what the consistent-hash ring answers for the partition: its owner and the
// replica owners getReplicaOwners would pick (primary first); nil if the ring has no member.
func (r *RoutingTable) VerifRing(partID uint64) (owner discovery.Member, closest []discovery.Member, ok bool) {
	defer func() {
		if recover() != nil {
			ok = false
		}
	}()
	o := r.consistent.GetPartitionOwner(int(partID))
	if o == nil {
		return discovery.Member{}, nil, false
	}
	owner = o.(discovery.Member)
	cs, err := r.getReplicaOwners(partID)
	if err == nil {
		for _, c := range cs {
			closest = append(closest, c.(discovery.Member))
		}
	}
	return owner, closest, true
}

// VerifLoads: partitions per member on the ring, and the ring's load bound.
func (r *RoutingTable) VerifLoads() (map[string]float64, float64) {
	return r.consistent.LoadDistribution(), r.consistent.AverageLoad()
}

// VerifDiscoveryMembers: the member list of the membership layer, oldest first.
func (r *RoutingTable) VerifDiscoveryMembers() []discovery.Member { return r.discovery.GetMembers() }

// VerifRingMembers: the members the routing table knows (fed by cluster events), sorted by name.
func (r *RoutingTable) VerifRingMembers() []discovery.Member {
	var out []discovery.Member
	r.Members().RLock()
	r.Members().Range(func(id uint64, m discovery.Member) bool {
		out = append(out, m)
		return true
	})
	r.Members().RUnlock()
	sort.Slice(out, func(i, j int) bool { return out[i].Name < out[j].Name })
	return out
}

// VerifIsCoordinator: does this member consider itself the coordinator?
func (r *RoutingTable) VerifIsCoordinator() bool { return r.discovery.IsCoordinator() }

// VerifCoordinator: the member this member considers the coordinator.
func (r *RoutingTable) VerifCoordinator() discovery.Member { return r.discovery.GetCoordinator() }

// VerifFillInput is everything one row of fillRoutingTable reads.
type VerifFillInput struct {
	Owners, Backups []discovery.Member
	RingOwner       discovery.Member
	Closest         []discovery.Member // nil: getReplicaOwners failed
	PCount, BCount  map[uint64]int64   // member id -> LengthOfPart answer, -1: the request failed
}

func (r *RoutingTable) verifCount(partID uint64, m discovery.Member, replica bool) int64 {
	c := protocol.NewLengthOfPart(partID)
	if replica {
		c = c.SetReplica()
	}
	cmd := c.Command(r.ctx)
	rc := r.client.Get(m.String())
	if err := rc.Process(r.ctx, cmd); err != nil {
		return -1
	}
	n, err := cmd.Result()
	if err != nil {
		return -1
	}
	return n
}

// VerifFill runs one fillRoutingTable under the routing lock and returns what it read and what it
// computed (nothing is pushed).  live = the membership layer's member list at that moment.
func (r *RoutingTable) VerifFill() (live []discovery.Member, in map[uint64]VerifFillInput, out map[uint64]VerifRoute) {
	r.Lock()
	defer r.Unlock()
	live = r.discovery.GetMembers()
	in = map[uint64]VerifFillInput{}
	for p := uint64(0); p < r.config.PartitionCount; p++ {
		fi := VerifFillInput{PCount: map[uint64]int64{}, BCount: map[uint64]int64{}}
		fi.Owners = append(fi.Owners, r.primary.PartitionByID(p).Owners()...)
		fi.Backups = append(fi.Backups, r.backup.PartitionByID(p).Owners()...)
		fi.RingOwner = r.consistent.GetPartitionOwner(int(p)).(discovery.Member)
		if cs, err := r.getReplicaOwners(p); err == nil {
			fi.Closest = []discovery.Member{}
			for _, c := range cs {
				fi.Closest = append(fi.Closest, c.(discovery.Member))
			}
		}
		isLive := func(o discovery.Member) bool {
			for _, l := range live {
				if l.Name == o.Name && l.ID == o.ID {
					return true
				}
			}
			return false
		}
		// the fill asks only the owners that survive "prune dead nodes"
		for _, o := range fi.Owners {
			fi.PCount[o.ID] = -1
			if isLive(o) {
				fi.PCount[o.ID] = r.verifCount(p, o, false)
			}
		}
		for _, o := range fi.Backups {
			fi.BCount[o.ID] = -1
			if isLive(o) {
				fi.BCount[o.ID] = r.verifCount(p, o, true)
			}
		}
		in[p] = fi
	}
	r.fillRoutingTable()
	out = map[uint64]VerifRoute{}
	for id, rt := range r.table {
		out[id] = VerifRoute{Owners: append([]discovery.Member{}, rt.Owners...), Backups: append([]discovery.Member{}, rt.Backups...)}
	}
	return
}
