//go:build verif

package server

import (
	"sort"
	"time"
)

// VerifCloseServer closes the RESP listener and every open connection while the member stays in the
// member list: to the other members it is an unreachable owner.  Returns once the serve loop has
// ended, i.e. after every accepted connection has been closed.
func (s *Server) VerifCloseServer() error {
	if s.server == nil {
		return nil
	}
	err := s.server.Close()
	select {
	case <-s.stopped:
	case <-time.After(3 * time.Second):
	}
	return err
}

// VerifCommands lists every command registered on this server's mux.
func (s *Server) VerifCommands() []string {
	var out []string
	for name := range s.mux.handlers {
		out = append(out, name)
	}
	sort.Strings(out)
	return out
}
