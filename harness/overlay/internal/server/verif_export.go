//go:build verif

package server

import "time"

// VerifCloseServer closes the RESP listener and every open connection while the member stays in the
// member list: to the other members it is an unreachable owner.  Returns once the serve loop has
// ended, i.e. after every accepted connection has been closed.
func (s *Server) VerifCloseServer() error {
	if s.server == nil {
		return nil
	}
	err := s.server.Close()
	select {
	case <-s.stopped:
	case <-time.After(3 * time.Second):
	}
	return err
}
