//go:build verif

// Package verifhook exists only in builds made by /verif (injected with `go build -overlay`,
// never committed to the repository).  It provides the virtual clock that replaces time.Now()
// in the files rewritten by /verif/extract/clockrewrite, and yield/fail points for replays.
package verifhook

import (
	"sync"
	"sync/atomic"
	"time"
)

var virtualNs atomic.Int64 // 0 = use the real clock

// Now returns the harness-controlled instant if one is set, the real time otherwise.
func Now() time.Time {
	ns := virtualNs.Load()
	if ns == 0 {
		return time.Now()
	}
	return time.Unix(0, ns)
}

// SetClock sets the virtual clock (unix ns); 0 switches back to the real clock.
func SetClock(ns int64) { virtualNs.Store(ns) }

// Clock returns the current virtual instant in unix ns (0 if unset).
func Clock() int64 { return virtualNs.Load() }

var (
	mu     sync.Mutex
	points = map[string]func(){}
)

// SetPoint installs (or removes, with nil) a callback executed by At(name).
func SetPoint(name string, f func()) {
	mu.Lock()
	defer mu.Unlock()
	if f == nil {
		delete(points, name)
		return
	}
	points[name] = f
}

// At runs the callback installed for the named point, if any.
func At(name string) {
	mu.Lock()
	f := points[name]
	mu.Unlock()
	if f != nil {
		f()
	}
}

var skipped sync.Map

// SetSkip makes the gated function `name` return immediately (true) or run normally (false).
func SetSkip(name string, on bool) { skipped.Store(name, on) }

// Skip is called by the gate inserted at the top of background-worker functions.
func Skip(name string) bool {
	v, ok := skipped.Load(name)
	return ok && v.(bool)
}
