//go:build verif

package main

import (
	"fmt"
	"math/rand"
	"strings"
	"sync"
	"time"

	"github.com/olric-data/olric/internal/verifhook"
)

func init() {
	// c.inter <point> <outer op line> -- <inner op line>
	// The inner operation is started when the outer one reaches the named yield point.  If it completes there
	// within 300 ms it "ran" inside the outer operation; otherwise it is "blocked" (it waits for a lock the outer
	// one holds) and is collected after the outer one returned.
	// Reply: "<outer reply> inner=<ran|blocked>:<inner reply>"  or  "... inner=-" when the point was not reached.
	register("c.inter", func(a []string) string {
		point := a[0]
		sep := -1
		for i, x := range a {
			if x == "--" {
				sep = i
			}
		}
		outer, inner := a[1:sep], a[sep+1:]
		ho, ok1 := handlers[outer[0]]
		hi, ok2 := handlers[inner[0]]
		if !ok1 || !ok2 {
			return "bad-op"
		}
		innerCh := make(chan string, 1)
		state := "-"
		verifhook.SetPoint(point, func() {
			verifhook.SetPoint(point, nil)
			go func() { innerCh <- hi(inner[1:]) }()
			select {
			case r := <-innerCh:
				state = "ran:" + strings.ReplaceAll(r, " ", "_")
			case <-time.After(300 * time.Millisecond):
				state = "blocked"
			}
		})
		r := ho(outer[1:])
		verifhook.SetPoint(point, nil)
		if state == "blocked" {
			state = "blocked:" + strings.ReplaceAll(<-innerCh, " ", "_")
		}
		return strings.ReplaceAll(r, " ", "_") + " inner=" + state
	})
	// c.conc <dmap> <keyhex> <clients> <ops per client> <seed>: real concurrency on one key.  Every client uses its own
	// member and path; operations: put (unique values), putnx, putxx, get, del.
	// Reply: "hist=<client>:<op>:<arg>:<inv ns>:<resp ns>:<result>;..."   (times relative to the start)
	register("c.conc", func(a []string) string {
		name, key := a[0], a[1]
		n, per := atoi(a[2]), atoi(a[3])
		seed := int64(atoi(a[4]))
		var mu sync.Mutex
		var hist []string
		var wg sync.WaitGroup
		t0 := time.Now()
		alive := []int{}
		for i, m := range cl.members {
			if m.alive {
				alive = append(alive, i)
			}
		}
		for c := 0; c < n; c++ {
			rng := rand.New(rand.NewSource(seed*1000 + int64(c)))
			mi := alive[rng.Intn(len(alive))]
			path := []string{"emb", "cli", "raw"}[rng.Intn(3)]
			// resolve client handles before the race starts (the handle caches are not synchronised)
			if path != "raw" {
				if _, err := cl.dmap(cl.members[mi], path, name); err != nil {
					return errClass(err)
				}
			} else {
				cl.rawc(cl.members[mi])
			}
			wg.Add(1)
			go func(c int, rng *rand.Rand, mi int, path string) {
				defer wg.Done()
				for i := 0; i < per; i++ {
					var op, arg, res string
					x := rng.Intn(100)
					val := hx([]byte(fmt.Sprintf("c%d.%d", c, i)))
					args := []string{path, fmt.Sprint(mi), name, key}
					inv := time.Since(t0).Nanoseconds()
					switch {
					case x < 30:
						op, arg = "put", val
						res = handlers["c.put"](append(args, val))
					case x < 40:
						op, arg = "putnx", val
						res = handlers["c.put"](append(args, val, "NX"))
					case x < 50:
						op, arg = "putxx", val
						res = handlers["c.put"](append(args, val, "XX"))
					case x < 85:
						op, arg = "get", "-"
						res = handlers["c.get"](args)
					default:
						op, arg = "del", "-"
						res = handlers["c.del"](args)
					}
					resp := time.Since(t0).Nanoseconds()
					mu.Lock()
					hist = append(hist, fmt.Sprintf("%d:%s:%s:%d:%d:%s", c, op, arg, inv, resp, strings.ReplaceAll(res, " ", "_")))
					mu.Unlock()
				}
			}(c, rng, mi, path)
		}
		wg.Wait()
		return "hist=" + strings.Join(hist, ";")
	})
}
