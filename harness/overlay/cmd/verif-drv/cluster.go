//go:build verif

package main

import (
	"bufio"
	"context"
	"encoding/hex"
	"errors"
	"fmt"
	"io"
	"log"
	"net"
	"os"
	"sort"
	"strconv"
	"strings"
	"sync"
	"sync/atomic"
	"time"

	"github.com/hashicorp/memberlist"
	"github.com/olric-data/olric"
	"github.com/olric-data/olric/config"
	"github.com/olric-data/olric/internal/cluster/partitions"
	"github.com/olric-data/olric/internal/discovery"
	"github.com/olric-data/olric/internal/dmap"
	"github.com/olric-data/olric/internal/testutil"
	"github.com/olric-data/olric/internal/verifhook"
	"github.com/redis/go-redis/v9"
)

type member struct {
	db     *olric.Olric
	addr   string
	emb    *olric.EmbeddedClient
	cli    *olric.ClusterClient
	raw    *redis.Client
	alive  bool
	dmaps  map[string]olric.DMap // embedded DMap handles
	cdmaps map[string]olric.DMap // cluster-client DMap handles
}

type clusterT struct {
	mu      sync.Mutex
	members []*member
	opts    map[string]string
}

var cl *clusterT

func optInt(o map[string]string, k string, d int) int {
	if v, ok := o[k]; ok {
		n, err := strconv.Atoi(v)
		if err == nil {
			return n
		}
	}
	return d
}

func (c *clusterT) newConfig(fixedPort int) *config.Config {
	o := c.opts
	cfg := config.New("local")
	cfg.PartitionCount = uint64(optInt(o, "parts", 7))
	cfg.ReplicaCount = optInt(o, "r", 1)
	cfg.WriteQuorum = optInt(o, "w", 1)
	cfg.ReadQuorum = optInt(o, "rq", 1)
	cfg.MemberCountQuorum = 1 // raised later with c.mcq: members are started one by one
	cfg.ReadRepair = optInt(o, "rr", 0) == 1
	if lf := optInt(o, "lf100", 0); lf > 0 {
		cfg.LoadFactor = float64(lf) / 100
	}
	cfg.ReplicationMode = config.SyncReplicationMode
	if o["repl"] == "async" {
		cfg.ReplicationMode = config.AsyncReplicationMode
	}
	cfg.LogOutput = io.Discard
	cfg.Logger = log.New(io.Discard, "", 0)
	cfg.LogVerbosity = 1
	mc := memberlist.DefaultLocalConfig()
	mc.BindAddr = "127.0.0.1"
	mc.BindPort = 0
	cfg.MemberlistConfig = mc
	port := fixedPort
	if port == 0 {
		var err error
		port, err = testutil.GetFreePort()
		if err != nil {
			panic(err)
		}
	}
	cfg.BindAddr = "127.0.0.1"
	cfg.BindPort = port
	cfg.LeaveTimeout = 300 * time.Millisecond
	// background activity is driven explicitly by the harness (c.sync, bg.*)
	cfg.RoutingTablePushInterval = time.Hour
	if v := optInt(c.opts, "push_ms", 0); v > 0 {
		// the periodic routing push left to itself (real time)
		cfg.RoutingTablePushInterval = time.Duration(v) * time.Millisecond
	}
	cfg.TriggerBalancerInterval = time.Hour
	cfg.DMaps = &config.DMaps{
		CheckEmptyFragmentsInterval: time.Hour,
		TriggerCompactionInterval:   time.Hour,
		NumEvictionWorkers:          1,
		MaxIdleDuration:             time.Duration(optInt(o, "idle_ms", 0)) * time.Millisecond,
		TTLDuration:                 time.Duration(optInt(o, "ttl_ms", 0)) * time.Millisecond,
		MaxKeys:                     optInt(o, "maxkeys", 0),
		MaxInuse:                    optInt(o, "maxinuse", 0),
		LRUSamples:                  optInt(o, "lrusamples", 0),
	}
	if optInt(o, "lru", 0) == 1 {
		cfg.DMaps.EvictionPolicy = config.LRUEviction
	}
	eng := config.NewEngine()
	eng.Config = map[string]interface{}{"tableSize": uint64(optInt(o, "tsize", 1<<20))}
	if ti := optInt(o, "tidle_ms", 0); ti > 0 {
		// how long a recycled (emptied) table is kept before its memory is given back
		eng.Config["maxIdleTableTimeout"] = time.Duration(ti) * time.Millisecond
	}
	cfg.DMaps.Engine = eng
	if name, ok := o["cdm"]; ok {
		// a DMap with its own configuration: each setting as above unless a c<setting> option is given
		pick := func(k string, d int) int {
			if _, ok := o[k]; ok {
				return optInt(o, k, 0)
			}
			return d
		}
		custom := config.DMap{
			Engine:          eng,
			MaxIdleDuration: time.Duration(pick("cidle_ms", 0)) * time.Millisecond,
			TTLDuration:     time.Duration(pick("cttl_ms", optInt(o, "ttl_ms", 0))) * time.Millisecond,
			MaxKeys:         pick("cmaxkeys", optInt(o, "maxkeys", 0)),
			MaxInuse:        pick("cmaxinuse", optInt(o, "maxinuse", 0)),
			LRUSamples:      pick("clrusamples", optInt(o, "lrusamples", 0)),
		}
		if pick("clru", optInt(o, "lru", 0)) == 1 {
			custom.EvictionPolicy = config.LRUEviction
		}
		if optInt(o, "cnoeng", 0) == 1 {
			custom.Engine = nil // a custom section that tunes TTL / eviction only: the storage engine is the global one
		}
		cfg.DMaps.Custom = map[string]config.DMap{name: custom}
	}
	return cfg
}

func (c *clusterT) addMember() (*member, error) {
	m, err := c.startMember(0)
	if err != nil {
		return nil, err
	}
	c.members = append(c.members, m)
	return m, nil
}

// startMember starts an olric member that joins the live members; port 0 = any free port
func (c *clusterT) startMember(port int) (*member, error) {
	cfg := c.newConfig(port)
	for _, m := range c.members {
		if m.alive {
			iv := m.db.VerifInternals()
			cfg.Peers = append(cfg.Peers, iv.RT.Discovery().LocalNode().Address())
		}
	}
	if err := cfg.Sanitize(); err != nil {
		return nil, err
	}
	if err := cfg.Validate(); err != nil {
		return nil, err
	}
	ctx, cancel := context.WithCancel(context.Background())
	cfg.Started = func() { cancel() }
	db, err := olric.New(cfg)
	if err != nil {
		return nil, err
	}
	go func() {
		if err := db.Start(); err != nil {
			fmt.Fprintf(logw, "olric.Start: %v\n", err)
		}
	}()
	select {
	case <-time.After(10 * time.Second):
		return nil, errors.New("member did not start")
	case <-ctx.Done():
	}
	addr := net.JoinHostPort(cfg.BindAddr, strconv.Itoa(cfg.BindPort))
	m := &member{db: db, addr: addr, alive: true, dmaps: map[string]olric.DMap{}, cdmaps: map[string]olric.DMap{}}
	m.emb = db.NewEmbeddedClient()
	return m, nil
}

var logw io.Writer = os.Stderr

func (c *clusterT) sync() {
	// routing table: computed and pushed by the coordinator; then one balancer pass everywhere
	for round := 0; round < 3; round++ {
		for _, m := range c.members {
			if m.alive && m.db.VerifInternals().RT.Discovery().IsCoordinator() {
				m.db.VerifInternals().RT.UpdateEagerly()
			}
		}
		for _, m := range c.members {
			if m.alive {
				m.db.VerifInternals().Balancer.BalanceEagerly()
			}
		}
	}
}

func (c *clusterT) client(m *member) *olric.ClusterClient {
	if m.cli == nil {
		cc, err := olric.NewClusterClient([]string{m.addr})
		if err != nil {
			panic(err)
		}
		m.cli = cc
	}
	return m.cli
}

func (c *clusterT) rawc(m *member) *redis.Client {
	if m.raw == nil {
		m.raw = redis.NewClient(&redis.Options{Addr: m.addr, MaxRetries: -1, DialTimeout: 2 * time.Second, ReadTimeout: 20 * time.Second})
	}
	return m.raw
}

func (c *clusterT) dmap(m *member, path, name string) (olric.DMap, error) {
	if path == "cli" || path == "pipe" {
		if d, ok := m.cdmaps[name]; ok {
			return d, nil
		}
		d, err := c.client(m).NewDMap(name)
		if err == nil {
			m.cdmaps[name] = d
		}
		return d, err
	}
	if d, ok := m.dmaps[name]; ok {
		return d, nil
	}
	d, err := m.emb.NewDMap(name)
	if err == nil {
		m.dmaps[name] = d
	}
	return d, err
}

// errClass maps an API / RESP error to a small enum
func errClass(err error) string {
	if err == nil {
		return "ok"
	}
	s := err.Error()
	switch {
	case errors.Is(err, olric.ErrKeyNotFound) || strings.Contains(s, "key not found") || strings.HasPrefix(s, "KEYNOTFOUND"):
		return "nf"
	case errors.Is(err, olric.ErrKeyFound) || strings.Contains(s, "key found") || strings.HasPrefix(s, "KEYFOUND"):
		return "keyfound"
	case errors.Is(err, olric.ErrWriteQuorum) || strings.Contains(s, "write quorum"):
		return "wq"
	case errors.Is(err, olric.ErrReadQuorum) || strings.Contains(s, "read quorum"):
		return "rq"
	case errors.Is(err, olric.ErrClusterQuorum) || strings.Contains(s, "cluster quorum") || strings.Contains(s, "CLUSTERQUORUM") || strings.Contains(s, "enough peers to create quorum"):
		return "cq"
	case errors.Is(err, olric.ErrNoSuchLock) || strings.Contains(s, "no such lock"):
		return "nolock"
	case errors.Is(err, olric.ErrLockNotAcquired) || strings.Contains(s, "lock not acquired"):
		return "notacquired"
	case errors.Is(err, olric.ErrKeyTooLarge) || strings.Contains(s, "key too large"):
		return "keytoolarge"
	case errors.Is(err, olric.ErrEntryTooLarge) || strings.Contains(s, "entry too large"):
		return "toolarge"
	case errors.Is(err, redis.Nil):
		return "nil"
	case strings.Contains(s, "connection refused") || strings.Contains(s, "i/o timeout") || strings.Contains(s, "EOF") || strings.Contains(s, "closed"):
		return "neterr"
	case strings.Contains(s, "syntax error") || strings.Contains(s, "wrong number") || strings.Contains(s, "invalid argument") || strings.Contains(s, "INVALIDARGUMENT"):
		return "syntax"
	}
	return "other:" + strings.ReplaceAll(s, " ", "_")
}

type putOpts struct {
	nx, xx               bool
	ex, px, exat, pxat   int64 // ms (ex/px: duration, exat/pxat: absolute unix ms); 0 = absent
	hasEX, hasPX         bool
	hasEXAT, hasPXAT     bool
}

func parsePutOpts(a []string) putOpts {
	var o putOpts
	for i := 0; i < len(a); i++ {
		switch strings.ToUpper(a[i]) {
		case "NX":
			o.nx = true
		case "XX":
			o.xx = true
		case "EX":
			o.hasEX = true
			o.ex = i64(a[i+1])
			i++
		case "PX":
			o.hasPX = true
			o.px = i64(a[i+1])
			i++
		case "EXAT":
			o.hasEXAT = true
			o.exat = i64(a[i+1])
			i++
		case "PXAT":
			o.hasPXAT = true
			o.pxat = i64(a[i+1])
			i++
		}
	}
	return o
}

func (o putOpts) api() []olric.PutOption {
	var out []olric.PutOption
	if o.hasEX {
		out = append(out, olric.EX(time.Duration(o.ex)*time.Millisecond))
	}
	if o.hasPX {
		out = append(out, olric.PX(time.Duration(o.px)*time.Millisecond))
	}
	if o.hasEXAT {
		out = append(out, olric.EXAT(time.Duration(o.exat)*time.Millisecond))
	}
	if o.hasPXAT {
		out = append(out, olric.PXAT(time.Duration(o.pxat)*time.Millisecond))
	}
	if o.nx {
		out = append(out, olric.NX())
	}
	if o.xx {
		out = append(out, olric.XX())
	}
	return out
}

// raw RESP arguments as a user of redis-cli would type them (seconds for EX/EXAT, ms for PX/PXAT)
func (o putOpts) resp() []interface{} {
	var out []interface{}
	if o.hasEX {
		out = append(out, "EX", strconv.FormatFloat(float64(o.ex)/1000, 'f', -1, 64))
	}
	if o.hasPX {
		out = append(out, "PX", o.px)
	}
	if o.hasEXAT {
		out = append(out, "EXAT", strconv.FormatFloat(float64(o.exat)/1000, 'f', -1, 64))
	}
	if o.hasPXAT {
		out = append(out, "PXAT", o.pxat)
	}
	if o.nx {
		out = append(out, "NX")
	}
	if o.xx {
		out = append(out, "XX")
	}
	return out
}

var ctxBg = context.Background()

func opCtx() (context.Context, context.CancelFunc) {
	return context.WithTimeout(ctxBg, 15*time.Second)
}

func fmtGet(val []byte, ttl int64) string {
	return hx(val) + " ttl=" + strconv.FormatInt(ttl, 10)
}

func init() {
	shutdownHooks = append(shutdownHooks, func() {
		if cl == nil {
			return
		}
		for _, m := range cl.members {
			if m.alive {
				ctx, cancel := context.WithTimeout(ctxBg, 2*time.Second)
				_ = m.db.Shutdown(ctx)
				cancel()
			}
		}
	})
	// c.new n=3 r=2 w=2 rq=1 parts=7 tsize=1024 rr=0 ...
	register("c.new", func(a []string) string {
		if cl != nil {
			for _, m := range cl.members {
				if m.alive {
					ctx, cancel := context.WithTimeout(ctxBg, 3*time.Second)
					_ = m.db.Shutdown(ctx)
					cancel()
				}
			}
		}
		o := map[string]string{}
		for _, kv := range a {
			p := strings.SplitN(kv, "=", 2)
			if len(p) == 2 {
				o[p[0]] = p[1]
			}
		}
		cl = &clusterT{opts: o}
		verifhook.SetSkip("evictKeys", optInt(o, "evictor", 0) == 0)
		n := optInt(o, "n", 1)
		for i := 0; i < n; i++ {
			if _, err := cl.addMember(); err != nil {
				return "err:" + err.Error()
			}
			cl.sync()
		}
		return "ok n=" + strconv.Itoa(len(cl.members))
	})
	register("c.add", func(a []string) string {
		// c.add [nosync] [tsize=<n>]: the new member may be configured with its own table size
		saved, had := cl.opts["tsize"]
		for _, x := range a {
			if strings.HasPrefix(x, "tsize=") {
				cl.opts["tsize"] = x[6:]
			}
		}
		_, err := cl.addMember()
		if had {
			cl.opts["tsize"] = saved
		} else {
			delete(cl.opts, "tsize")
		}
		if err != nil {
			return "err:" + err.Error()
		}
		if len(a) == 0 || a[0] != "nosync" {
			cl.sync()
		}
		return "ok " + strconv.Itoa(len(cl.members)-1)
	})
	register("c.sync", func(a []string) string { cl.sync(); return "ok" })
	// c.wait <ms>: real time passes (background loops that the harness left running)
	register("c.wait", func(a []string) string { time.Sleep(time.Duration(atoi(a[0])) * time.Millisecond); return "ok" })
	// c.stopconv <i>: a member leaves gracefully and the membership converges (the coordinator's routing update triggered by
	// the leave event has been computed and pushed); no balancer pass
	register("c.stopconv", func(a []string) string {
		handlers["c.stop"](a) // (a member whose listener was closed before - c.unreach - may report that while shutting down)
		return handlers["c.converge"](nil)
	})
	// c.addconv: a member joins and the membership converges (the coordinator's own routing update, triggered by the join
	// event, has been computed and pushed); no balancer pass
	register("c.addconv", func(a []string) string {
		r := handlers["c.add"]([]string{"nosync"})
		if !strings.HasPrefix(r, "ok") {
			return r
		}
		if c := handlers["c.converge"](nil); c == "not-converged" {
			return c
		}
		return r
	})
	register("c.update", func(a []string) string {
		for _, m := range cl.members {
			if m.alive && m.db.VerifInternals().RT.Discovery().IsCoordinator() {
				m.db.VerifInternals().RT.UpdateEagerly()
			}
		}
		return "ok"
	})
	register("c.balance", func(a []string) string {
		m := cl.members[atoi(a[0])]
		m.db.VerifInternals().Balancer.BalanceEagerly()
		return "ok"
	})
	register("c.unreach", func(a []string) string {
		m := cl.members[atoi(a[0])]
		err := m.db.VerifInternals().Server.VerifCloseServer()
		// pooled connections held by the other members are gone too; they redial and are refused
		return errClass(err)
	})
	register("c.mcq", func(a []string) string {
		for _, m := range cl.members {
			if m.alive {
				m.db.VerifSetMemberCountQuorum(int32(atoi(a[0])))
			}
		}
		cl.opts["mcq"] = a[0]
		return "ok"
	})
	register("c.nummembers", func(a []string) string {
		m := cl.members[atoi(a[0])]
		m.db.VerifInternals().RT.SetNumMembersEagerly(int32(atoi(a[1])))
		m.dmaps = map[string]olric.DMap{}
		return "ok"
	})
	register("c.stop", func(a []string) string {
		m := cl.members[atoi(a[0])]
		if !m.alive {
			return "ok"
		}
		ctx, cancel := context.WithTimeout(ctxBg, 5*time.Second)
		defer cancel()
		err := m.db.Shutdown(ctx)
		m.alive = false
		if m.cli != nil {
			_ = m.cli.Close(ctx)
		}
		return errClass(err)
	})
	// c.own <dmap> <key>: partition, primary owners (last = current), backup owners, as member indexes,
	// as seen by member <i> (default 0 = first alive)
	register("c.own", func(a []string) string {
		var view *member
		for _, m := range cl.members {
			if m.alive {
				view = m
				break
			}
		}
		if len(a) >= 3 {
			view = cl.members[atoi(a[2])]
		}
		iv := view.db.VerifInternals()
		hkey := partitions.HKey(a[0], string(unhx(a[1])))
		partID := iv.Primary.PartitionIDByHKey(hkey)
		idx := func(name string) string {
			for i, m := range cl.members {
				if m.addr == name {
					return strconv.Itoa(i)
				}
			}
			return "?" + name
		}
		var ps, bs []string
		for _, o := range iv.Primary.PartitionOwnersByHKey(hkey) {
			ps = append(ps, idx(o.String()))
		}
		for _, o := range iv.Backup.PartitionOwnersByHKey(hkey) {
			bs = append(bs, idx(o.String()))
		}
		j := func(x []string) string {
			if len(x) == 0 {
				return "-"
			}
			return strings.Join(x, ",")
		}
		return fmt.Sprintf("route pick=%s/%s part=%d", j(ps), j(bs), partID)
	})
	// wb.owners <dmap> <keyhex> <i,i,...|->: on every live member, list the given members as PREVIOUS primary owners
	// (oldest first) of the key's partition, in front of the current owner ("-": the current owner alone).
	register("wb.owners", func(a []string) string {
		hkey := partitions.HKey(a[0], string(unhx(a[1])))
		var prev []discovery.Member
		if a[2] != "-" {
			for _, x := range strings.Split(a[2], ",") {
				prev = append(prev, cl.members[atoi(x)].db.VerifInternals().RT.This())
			}
		}
		for _, m := range cl.members {
			if !m.alive {
				continue
			}
			part := m.db.VerifInternals().Primary.PartitionByHKey(hkey)
			cur := part.Owner()
			part.SetOwners(append(append([]discovery.Member{}, prev...), cur))
		}
		return "ok"
	})
	// wb <dmap> <keyhex>: every member's primary and backup copy
	// wb.wait <dmap> <keyhex>: with asynchronous replication the backup writes arrive a moment after Put returned: wait (at most
	// three seconds) until every backup copy has the primary copy's timestamp, then list the copies as `wb` does
	register("wb.wait", func(a []string) string {
		key := string(unhx(a[1]))
		deadline := time.Now().Add(3 * time.Second)
		for time.Now().Before(deadline) {
			var pts int64 = -1
			same := true
			for _, m := range cl.members {
				if !m.alive {
					continue
				}
				if ok, _, _, ts, _ := m.db.VerifInternals().DMap.VerifCopy(a[0], key, partitions.PRIMARY); ok {
					pts = ts
				}
			}
			n := 0
			for _, m := range cl.members {
				if !m.alive {
					continue
				}
				if ok, _, _, ts, _ := m.db.VerifInternals().DMap.VerifCopy(a[0], key, partitions.BACKUP); ok {
					n++
					if ts != pts {
						same = false
					}
				}
			}
			if same && n >= optInt(cl.opts, "r", 1)-1 {
				break
			}
			time.Sleep(10 * time.Millisecond)
		}
		return handlers["wb"](a)
	})
	register("wb", func(a []string) string {
		key := string(unhx(a[1]))
		var out []string
		for i, m := range cl.members {
			if !m.alive {
				out = append(out, fmt.Sprintf("m%d:down", i))
				continue
			}
			s := m.db.VerifInternals().DMap
			f := func(kind partitions.Kind) string {
				ok, v, ttl, ts, _ := s.VerifCopy(a[0], key, kind)
				if !ok {
					return "-"
				}
				return fmt.Sprintf("%s/%d/%d", hx(v), ttl, ts)
			}
			out = append(out, fmt.Sprintf("m%d:P=%s,B=%s", i, f(partitions.PRIMARY), f(partitions.BACKUP)))
		}
		return strings.Join(out, " ")
	})
	// wb.ttl <dmap> <keyhex>: presence and expiry of every copy (lock entries: the token bytes are random)
	register("wb.ttl", func(a []string) string {
		key := string(unhx(a[1]))
		var out []string
		for i, m := range cl.members {
			if !m.alive {
				out = append(out, fmt.Sprintf("m%d:down", i))
				continue
			}
			s := m.db.VerifInternals().DMap
			f := func(kind partitions.Kind) string {
				ok, _, ttl, _, _ := s.VerifCopy(a[0], key, kind)
				if !ok {
					return "-"
				}
				return strconv.FormatInt(ttl, 10)
			}
			out = append(out, fmt.Sprintf("m%d:P=%s,B=%s", i, f(partitions.PRIMARY), f(partitions.BACKUP)))
		}
		return strings.Join(out, " ")
	})
	register("wb.keys", func(a []string) string {
		var out []string
		for i, m := range cl.members {
			if !m.alive {
				continue
			}
			s := m.db.VerifInternals().DMap
			hk := func(ks []string) string {
				x := make([]string, len(ks))
				for j, k := range ks {
					x[j] = hx([]byte(k))
				}
				if len(x) == 0 {
					return "-"
				}
				return strings.Join(x, ",")
			}
			out = append(out, fmt.Sprintf("m%d:P=%s;B=%s", i, hk(s.VerifKeys(a[0], partitions.PRIMARY)), hk(s.VerifKeys(a[0], partitions.BACKUP))))
		}
		return strings.Join(out, " ")
	})
	register("wb.baks", func(a []string) string { return handlers["wb.keys"](a) }) // same listing; the oracle looks at the backup copies only
	register("wb.frags", func(a []string) string {
		var out []string
		for i, m := range cl.members {
			if !m.alive {
				continue
			}
			s := m.db.VerifInternals().DMap
			out = append(out, fmt.Sprintf("m%d:P=%s;B=%s", i, strings.Join(s.VerifFragmentNames(partitions.PRIMARY), ","), strings.Join(s.VerifFragmentNames(partitions.BACKUP), ",")))
		}
		return strings.Join(out, " ")
	})
	register("wb.put", func(a []string) string {
		// wb.put <i> <P|B> <dmap> <keyhex> <valhex> <ttl> <ts>
		m := cl.members[atoi(a[0])]
		kind := partitions.PRIMARY
		if a[1] == "B" {
			kind = partitions.BACKUP
		}
		return errClass(m.db.VerifInternals().DMap.VerifPutCopy(a[2], string(unhx(a[3])), kind, unhx(a[4]), i64(a[5]), i64(a[6])))
	})
	wbMerge := func(a []string) string {
		// wb.merge <i> <P|B> <dmap> <keyhex>:<valhex>:<ttl>:<ts> ...   one hand-over per partition
		m := cl.members[atoi(a[0])]
		kind := partitions.PRIMARY
		if a[1] == "B" {
			kind = partitions.BACKUP
		}
		parts := uint64(optInt(cl.opts, "parts", 7))
		groups := map[uint64][]dmap.VerifEntry{}
		var order []uint64
		for _, e := range a[3:] {
			f := strings.Split(e, ":")
			key := string(unhx(f[0]))
			pid := partitions.HKey(a[2], key) % parts
			if _, ok := groups[pid]; !ok {
				order = append(order, pid)
			}
			groups[pid] = append(groups[pid], dmap.VerifEntry{Key: key, Value: unhx(f[1]), TTL: i64(f[2]), TS: i64(f[3])})
		}
		for _, pid := range order {
			if err := m.db.VerifInternals().DMap.VerifMerge(a[2], kind, pid, groups[pid]); err != nil {
				return errClass(err)
			}
		}
		return "ok"
	}
	register("wb.merge", wbMerge)
	register("wb.mergex", wbMerge) // same delivery, to a member that does not own the partition
	register("wb.del", func(a []string) string {
		m := cl.members[atoi(a[0])]
		kind := partitions.PRIMARY
		if a[1] == "B" {
			kind = partitions.BACKUP
		}
		m.db.VerifInternals().DMap.VerifDeleteCopy(a[2], string(unhx(a[3])), kind)
		return "ok"
	})
	register("bg.compact", func(a []string) string {
		for _, m := range cl.members {
			if m.alive {
				m.db.VerifInternals().DMap.VerifCompaction()
			}
		}
		return "ok"
	})
	register("bg.janitor", func(a []string) string {
		for _, m := range cl.members {
			if m.alive {
				m.db.VerifInternals().DMap.VerifJanitor()
			}
		}
		return "ok"
	})
	register("bg.evict", func(a []string) string {
		for _, m := range cl.members {
			if m.alive {
				iv := m.db.VerifInternals()
				for p := uint64(0); p < uint64(optInt(cl.opts, "parts", 7)); p++ {
					iv.DMap.VerifEvictPartition(p)
				}
			}
		}
		return "ok"
	})

	// ---- data operations: <op> <path> <member> <dmap> <keyhex> ...
	// c.putv: c.put that also reports what the LRU policy evicted to make room, and the number of partitions
	// the key's owner owns:  "<result> pick=<victim keys|-> owned=<n>"
	register("c.putv", func(a []string) string {
		name, key := a[2], string(unhx(a[3]))
		before := map[string]bool{}
		ev0 := dmap.EvictedTotal.Read()
		for _, m := range cl.members {
			if m.alive {
				for _, k := range m.db.VerifInternals().DMap.VerifKeys(name, partitions.PRIMARY) {
					before[k] = true
				}
			}
		}
		r := handlers["c.put"](a)
		n := int(dmap.EvictedTotal.Read() - ev0)
		after := map[string]bool{}
		owned := uint64(0)
		hkey := partitions.HKey(name, key)
		for _, m := range cl.members {
			if m.alive {
				iv := m.db.VerifInternals()
				for _, k := range iv.DMap.VerifKeys(name, partitions.PRIMARY) {
					after[k] = true
				}
				if iv.Primary.PartitionByHKey(hkey).Owner().CompareByName(iv.RT.This()) {
					owned = iv.RT.OwnedPartitionCount()
				}
			}
		}
		var victims []string
		for k := range before {
			if !after[k] && k != key {
				victims = append(victims, hx([]byte(k)))
			}
		}
		sort.Strings(victims)
		for len(victims) < n {
			victims = append(victims, hx([]byte(key))) // the key itself was evicted and written again
		}
		v := "-"
		if len(victims) > 0 {
			v = strings.Join(victims, ",")
		}
		return fmt.Sprintf("%s pick=%s owned=%d", r, v, owned)
	})
	// wb.slab <dmap>: per member and kind, per partition: allocated:inuse:garbage:tables:length of the fragment's store
	register("wb.slab", func(a []string) string {
		var out []string
		for i, m := range cl.members {
			if !m.alive {
				continue
			}
			iv := m.db.VerifInternals()
			side := func(kind partitions.Kind) string {
				_, per := iv.DMap.VerifStats(a[0], kind)
				var ids []int
				for p := range per {
					ids = append(ids, int(p))
				}
				sort.Ints(ids)
				var ps []string
				for _, p := range ids {
					st := per[uint64(p)]
					ps = append(ps, fmt.Sprintf("%d:%d:%d:%d:%d:%d", p, st.Allocated, st.Inuse, st.Garbage, st.NumTables, st.Length))
				}
				if len(ps) == 0 {
					return "-"
				}
				return strings.Join(ps, ",")
			}
			out = append(out, fmt.Sprintf("m%d:P=%s;B=%s", i, side(partitions.PRIMARY), side(partitions.BACKUP)))
		}
		return strings.Join(out, " ")
	})
	// wb.stats <dmap>: per member the number of owned partitions and, per primary fragment, length and bytes in use
	register("wb.stats", func(a []string) string {
		var out []string
		for i, m := range cl.members {
			if !m.alive {
				continue
			}
			iv := m.db.VerifInternals()
			_, per := iv.DMap.VerifStats(a[0], partitions.PRIMARY)
			var ids []int
			for p := range per {
				ids = append(ids, int(p))
			}
			sort.Ints(ids)
			var ps []string
			for _, p := range ids {
				ps = append(ps, fmt.Sprintf("%d:%d:%d", p, per[uint64(p)].Length, per[uint64(p)].Inuse))
			}
			x := "-"
			if len(ps) > 0 {
				x = strings.Join(ps, ",")
			}
			out = append(out, fmt.Sprintf("m%d:owned=%d;%s", i, iv.RT.OwnedPartitionCount(), x))
		}
		return strings.Join(out, " ")
	})
	register("c.put", clusterOp(func(m *member, path, name string, a []string) string {
		key, val := string(unhx(a[0])), unhx(a[1])
		o := parsePutOpts(a[2:])
		ctx, cancel := opCtx()
		defer cancel()
		if path == "raw" {
			args := append([]interface{}{"DM.PUT", name, key, val}, o.resp()...)
			return errClass(cl.rawc(m).Do(ctx, args...).Err())
		}
		d, err := cl.dmap(m, path, name)
		if err != nil {
			return errClass(err)
		}
		if path == "pipe" {
			p, err := d.Pipeline()
			if err != nil {
				return errClass(err)
			}
			fut, err := p.Put(ctx, key, val, o.api()...)
			if err != nil {
				return errClass(err)
			}
			scribble(val) // the caller's buffer is the caller's again as soon as Put has returned (C18)
			if err := p.Exec(ctx); err != nil {
				return errClass(err)
			}
			return errClass(fut.Result())
		}
		err = d.Put(ctx, key, val, o.api()...)
		scribble(val)
		return errClass(err)
	}))
	// hxPoke: the hex text of bytes handed back by a client call, after which the caller writes all over them:
	// returned values are private snapshots (C18)
	hxPoke := func(b []byte) string {
		t := hx(b)
		scribble(b)
		return t
	}
	doGet := func(m *member, path, name string, a []string) string {
		key := string(unhx(a[0]))
		ctx, cancel := opCtx()
		defer cancel()
		if path == "raw" {
			b, err := cl.rawc(m).Do(ctx, "DM.GET", name, key).Text()
			if err != nil {
				return errClass(err)
			}
			return hx([]byte(b))
		}
		d, err := cl.dmap(m, path, name)
		if err != nil {
			return errClass(err)
		}
		if path == "pipe" {
			p, err := d.Pipeline()
			if err != nil {
				return errClass(err)
			}
			fut := p.Get(ctx, key)
			if err := p.Exec(ctx); err != nil {
				return errClass(err)
			}
			gr, err := fut.Result()
			if err != nil {
				return errClass(err)
			}
			b, err := gr.Byte()
			if err != nil {
				return errClass(err)
			}
			return hxPoke(b)
		}
		gr, err := d.Get(ctx, key)
		if err != nil {
			return errClass(err)
		}
		b, err := gr.Byte()
		if err != nil {
			return errClass(err)
		}
		return hxPoke(b)
	}
	register("c.get", clusterOp(doGet))
	register("c.getf", clusterOp(doGet)) // a key the model does not mirror (float counters)
	// getx: value with ttl and timestamp (embedded / cluster client only)
	register("c.getx", clusterOp(func(m *member, path, name string, a []string) string {
		key := string(unhx(a[0]))
		ctx, cancel := opCtx()
		defer cancel()
		d, err := cl.dmap(m, path, name)
		if err != nil {
			return errClass(err)
		}
		gr, err := d.Get(ctx, key)
		if err != nil {
			return errClass(err)
		}
		b, _ := gr.Byte()
		return fmt.Sprintf("%s ttl=%d ts=%d", hx(b), gr.TTL(), gr.Timestamp())
	}))
	register("c.del", clusterOp(func(m *member, path, name string, a []string) string {
		var keys []string
		for _, k := range a {
			keys = append(keys, string(unhx(k)))
		}
		ctx, cancel := opCtx()
		defer cancel()
		if path == "raw" {
			args := []interface{}{"DM.DEL", name}
			for _, k := range keys {
				args = append(args, k)
			}
			n, err := cl.rawc(m).Do(ctx, args...).Int()
			if err != nil {
				return errClass(err)
			}
			return strconv.Itoa(n)
		}
		d, err := cl.dmap(m, path, name)
		if err != nil {
			return errClass(err)
		}
		if path == "pipe" {
			p, err := d.Pipeline()
			if err != nil {
				return errClass(err)
			}
			var futs []*olric.FutureDelete
			for _, k := range keys {
				futs = append(futs, p.Delete(ctx, k))
			}
			if err := p.Exec(ctx); err != nil {
				return errClass(err)
			}
			total := 0
			for _, f := range futs {
				n, err := f.Result()
				if err != nil {
					return errClass(err)
				}
				total += n
			}
			return strconv.Itoa(total)
		}
		n, err := d.Delete(ctx, keys...)
		if err != nil {
			return errClass(err)
		}
		return strconv.Itoa(n)
	}))
	register("c.expire", clusterOp(func(m *member, path, name string, a []string) string {
		key := string(unhx(a[0]))
		ms := i64(a[1])
		ctx, cancel := opCtx()
		defer cancel()
		if path == "raw" {
			return errClass(cl.rawc(m).Do(ctx, "DM.PEXPIRE", name, key, ms).Err())
		}
		if path == "rawsec" {
			return errClass(cl.rawc(m).Do(ctx, "DM.EXPIRE", name, key, strconv.FormatFloat(float64(ms)/1000, 'f', -1, 64)).Err())
		}
		d, err := cl.dmap(m, path, name)
		if err != nil {
			return errClass(err)
		}
		if path == "pipe" {
			p, err := d.Pipeline()
			if err != nil {
				return errClass(err)
			}
			fut, err := p.Expire(ctx, key, time.Duration(ms)*time.Millisecond)
			if err != nil {
				return errClass(err)
			}
			if err := p.Exec(ctx); err != nil {
				return errClass(err)
			}
			return errClass(fut.Result())
		}
		return errClass(d.Expire(ctx, key, time.Duration(ms)*time.Millisecond))
	}))
	doGetPut := func(m *member, path, name string, a []string) string {
		key, val := string(unhx(a[0])), unhx(a[1])
		ctx, cancel := opCtx()
		defer cancel()
		if path == "raw" {
			b, err := cl.rawc(m).Do(ctx, "DM.GETPUT", name, key, val).Text()
			if errors.Is(err, redis.Nil) {
				return "none"
			}
			if err != nil {
				return errClass(err)
			}
			return hx([]byte(b))
		}
		d, err := cl.dmap(m, path, name)
		if err != nil {
			return errClass(err)
		}
		gr, err := d.GetPut(ctx, key, val)
		if err != nil {
			return errClass(err)
		}
		if gr == nil {
			return "none"
		}
		b, err := gr.Byte()
		if errors.Is(err, olric.ErrNilResponse) {
			// the embedded client wraps "no previous value" in a response whose accessors fail
			// with ErrNilResponse; the cluster client returns a nil response: both mean "none"
			return "none"
		}
		if err != nil {
			return errClass(err)
		}
		return hxPoke(b)
	}
	register("c.getput", clusterOp(doGetPut))
	doIncDec := func(opname string) func(m *member, path, name string, a []string) string {
		return func(m *member, path, name string, a []string) string {
			key := string(unhx(a[0]))
			delta := atoi(a[1])
			ctx, cancel := opCtx()
			defer cancel()
			if path == "raw" {
				cmdn := "DM.INCR"
				if opname == "decr" {
					cmdn = "DM.DECR"
				}
				n, err := cl.rawc(m).Do(ctx, cmdn, name, key, delta).Int()
				if err != nil {
					return errClass(err)
				}
				return strconv.Itoa(n)
			}
			d, err := cl.dmap(m, path, name)
			if err != nil {
				return errClass(err)
			}
			var n int
			if opname == "incr" {
				n, err = d.Incr(ctx, key, delta)
			} else {
				n, err = d.Decr(ctx, key, delta)
			}
			if err != nil {
				return errClass(err)
			}
			return strconv.Itoa(n)
		}
	}
	register("c.incr", clusterOp(doIncDec("incr")))
	register("c.decr", clusterOp(doIncDec("decr")))
	// incrf <path> <i> <dmap> <keyhex> <delta>: IncrByFloat (deltas are dyadic rationals: float arithmetic on them is exact)
	doIncrF := func(m *member, path, name string, a []string) string {
		key := string(unhx(a[0]))
		delta, _ := strconv.ParseFloat(a[1], 64)
		ctx, cancel := opCtx()
		defer cancel()
		var v float64
		var err error
		if path == "raw" {
			v, err = cl.rawc(m).Do(ctx, "DM.INCRBYFLOAT", name, key, a[1]).Float64()
		} else {
			d, derr := cl.dmap(m, path, name)
			if derr != nil {
				return errClass(derr)
			}
			v, err = d.IncrByFloat(ctx, key, delta)
		}
		if err != nil {
			return errClass(err)
		}
		return strconv.FormatFloat(v, 'f', -1, 64)
	}
	register("c.incrf", clusterOp(doIncrF))
	atomOp := func(op string) func(m *member, path, name string, a []string) string {
		switch op {
		case "getput":
			return doGetPut
		case "incrf":
			return doIncrF
		}
		return doIncDec(op)
	}
	// c.atomx <path> <i> <dmap> <keyhex> <op1> <arg1> -- <path2> <i2> <op2> <arg2>   (op = incr | decr | getput)
	// The second operation is started at the yield point between the read and the write of the first one
	// (verifhook.At("atomic.read")).  If it cannot complete there within 300 ms it is "blocked" (it waits for the
	// first one, as it must); its result is collected after the first one returned.
	// Reply: "<result1> inner=<ran:result2 | blocked:result2 | ->"
	atomx := clusterOp(func(m *member, path, name string, a []string) string {
		key, op1, arg1, rest := a[0], a[1], a[2], a[4:]
		innerCh := make(chan string, 1)
		state := "-"
		verifhook.SetPoint("atomic.read", func() {
			verifhook.SetPoint("atomic.read", nil)
			m2 := cl.members[atoi(rest[1])]
			go func() { innerCh <- atomOp(rest[2])(m2, rest[0], name, []string{key, rest[3]}) }()
			select {
			case r := <-innerCh:
				state = "ran:" + r
			case <-time.After(300 * time.Millisecond):
				state = "blocked"
			}
		})
		r := atomOp(op1)(m, path, name, []string{key, arg1})
		verifhook.SetPoint("atomic.read", nil)
		if state == "blocked" {
			state = "blocked:" + <-innerCh
		}
		return r + " inner=" + state
	})
	// c.atomenv <path> <i> <dmap> <keyhex> <op1> <arg1> -- <adv_ms> <path2> <i2> <op2> <arg2>
	// The first operation has taken its timestamp and is about to take the per-key lock (verifhook.At("atomic.env"));
	// there the clock advances by adv_ms and the second operation runs to completion; then the first one goes on.
	// The two are serial - second, then first - but the first one carries the OLDER timestamp.
	// Reply: "<result1> inner=<ran:result2 | ->"
	register("c.atomenv", clusterOp(func(m *member, path, name string, a []string) string {
		key, op1, arg1, rest := a[0], a[1], a[2], a[4:]
		state := "-"
		verifhook.SetPoint("atomic.env", func() {
			verifhook.SetPoint("atomic.env", nil)
			verifhook.SetClock(verifhook.Clock() + i64(rest[0])*1000000)
			m2 := cl.members[atoi(rest[2])]
			state = "ran:" + atomOp(rest[3])(m2, rest[1], name, []string{key, rest[4]})
		})
		r := atomOp(op1)(m, path, name, []string{key, arg1})
		verifhook.SetPoint("atomic.env", nil)
		return r + " inner=" + state
	}))
	register("c.atomx", atomx)
	register("c.atomxf", atomx) // the same with IncrByFloat operations (not mirrored by the model)
	// c.atomrace <dmap> <keyhex> <clients> <iters> <incr|getput>: real concurrency through all members and client kinds
	register("c.atomrace", func(a []string) string {
		key := string(unhx(a[1]))
		n, iters := atoi(a[2]), atoi(a[3])
		var mu sync.Mutex
		var wg sync.WaitGroup
		rets := map[string]int{}
		errs := 0
		firstErr := ""
		for c := 0; c < n; c++ {
			m := cl.members[c%len(cl.members)]
			path := []string{"emb", "cli"}[(c/len(cl.members))%2]
			d, err := cl.dmap(m, path, a[0])
			if err != nil {
				return errClass(err)
			}
			wg.Add(1)
			go func(c int) {
				defer wg.Done()
				for i := 0; i < iters; i++ {
					ctx, cancel := context.WithTimeout(ctxBg, 20*time.Second)
					var r string
					var err error
					if a[4] == "incr" {
						var v int
						v, err = d.Incr(ctx, key, 1)
						r = strconv.Itoa(v)
					} else {
						var gr *olric.GetResponse
						gr, err = d.GetPut(ctx, key, fmt.Sprintf("%d:%d", c, i))
						r = "none"
						if err == nil && gr != nil {
							if s, e := gr.String(); e == nil {
								r = s
							}
						}
					}
					cancel()
					mu.Lock()
					if err != nil {
						errs++
						if firstErr == "" {
							firstErr = errClass(err)
						}
					} else {
						rets[r]++
					}
					mu.Unlock()
				}
			}(c)
		}
		wg.Wait()
		total := n * iters
		dup, missing := 0, 0
		for _, k := range rets {
			if k > 1 {
				dup += k - 1
			}
		}
		d0, err := cl.dmap(cl.members[0], "emb", a[0])
		if err != nil {
			return errClass(err)
		}
		ctx, cancel := opCtx()
		defer cancel()
		final := "none"
		if gr, err := d0.Get(ctx, key); err == nil {
			final, _ = gr.String()
		}
		if a[4] == "incr" {
			for v := 1; v <= total; v++ {
				if rets[strconv.Itoa(v)] == 0 {
					missing++
				}
			}
		} else {
			// chain: every written value is returned exactly once as an old value, except the final one
			for c := 0; c < n; c++ {
				for i := 0; i < iters; i++ {
					v := fmt.Sprintf("%d:%d", c, i)
					if rets[v] == 0 && v != final {
						missing++
					}
				}
			}
			if rets["none"] != 1 {
				missing++
			}
		}
		return fmt.Sprintf("total=%d errors=%d dup=%d missing=%d final=%s err=%s", total, errs, dup, missing, hx([]byte(final)), firstErr)
	})
	// lock <path> <i> <dmap> <keyhex> <timeout_ms> <deadline_ms> -> token hex | notacquired
	var doLock func(m *member, path, name string, a []string) string
	// a Lock that fails with lock-not-acquired must have waited for its whole deadline (real time)
	doLockTimed := func(m *member, path, name string, a []string) string {
		t0 := time.Now()
		r := doLock(m, path, name, a)
		if r == "notacquired" && time.Since(t0) < time.Duration(i64(a[2]))*time.Millisecond {
			return "notacquired-early"
		}
		return r
	}
	doLock = func(m *member, path, name string, a []string) string {
		key := string(unhx(a[0]))
		timeout := time.Duration(i64(a[1])) * time.Millisecond
		deadline := time.Duration(i64(a[2])) * time.Millisecond
		ctx, cancel := opCtx()
		defer cancel()
		if path == "raw" {
			args := []interface{}{"DM.LOCK", name, key, strconv.FormatFloat(deadline.Seconds(), 'f', -1, 64)}
			if timeout != 0 {
				args = append(args, "PX", timeout.Milliseconds())
			}
			s, err := cl.rawc(m).Do(ctx, args...).Text()
			if err != nil {
				return errClass(err)
			}
			lockTokens = append(lockTokens, lockTok{raw: s})
			return "tok" + strconv.Itoa(len(lockTokens)-1)
		}
		d, err := cl.dmap(m, path, name)
		if err != nil {
			return errClass(err)
		}
		var lc olric.LockContext
		if timeout != 0 {
			lc, err = d.LockWithTimeout(ctx, key, timeout, deadline)
		} else {
			lc, err = d.Lock(ctx, key, deadline)
		}
		if err != nil {
			return errClass(err)
		}
		lockTokens = append(lockTokens, lockTok{lc: lc})
		return "tok" + strconv.Itoa(len(lockTokens)-1)
	}
	register("c.lock", clusterOp(doLockTimed))
	// c.lockw <path> <i> <dmap> <keyhex> <timeout_ms> <deadline_ms> <adv_ms>: a waiting Lock; 40 ms (real time)
	// after it started the virtual clock advances by adv_ms
	register("c.lockw", clusterOp(func(m *member, path, name string, a []string) string {
		done := make(chan struct{})
		go func() {
			defer close(done)
			time.Sleep(40 * time.Millisecond)
			verifhook.SetClock(verifhook.Clock() + i64(a[3])*1000000)
		}()
		r := doLockTimed(m, path, name, a)
		<-done
		return r
	}))
	// c.lockrace <dmap> <keyhex> <clients> <iters>: real concurrency. Every client (spread over the members,
	// embedded and cluster clients alternating) takes the lock without timeout, checks that it is alone in the
	// critical section, and releases it.
	register("c.lockrace", func(a []string) string {
		key := string(unhx(a[1]))
		n, iters := atoi(a[2]), atoi(a[3])
		var inside, maxInside, acquired, failed int64
		var mu sync.Mutex
		var wg sync.WaitGroup
		var firstErr string
		for c := 0; c < n; c++ {
			m := cl.members[c%len(cl.members)]
			path := []string{"emb", "cli"}[(c/len(cl.members))%2]
			d, err := cl.dmap(m, path, a[0])
			if err != nil {
				return errClass(err)
			}
			wg.Add(1)
			go func() {
				defer wg.Done()
				for i := 0; i < iters; i++ {
					ctx, cancel := context.WithTimeout(ctxBg, 20*time.Second)
					lc, err := d.Lock(ctx, key, 10*time.Second)
					if err != nil {
						mu.Lock()
						failed++
						if firstErr == "" {
							firstErr = errClass(err)
						}
						mu.Unlock()
						cancel()
						continue
					}
					mu.Lock()
					inside++
					acquired++
					if inside > maxInside {
						maxInside = inside
					}
					mu.Unlock()
					time.Sleep(200 * time.Microsecond)
					mu.Lock()
					inside--
					mu.Unlock()
					if err = lc.Unlock(ctx); err != nil {
						mu.Lock()
						failed++
						if firstErr == "" {
							firstErr = "unlock:" + errClass(err)
						}
						mu.Unlock()
					}
					cancel()
				}
			}()
		}
		wg.Wait()
		return fmt.Sprintf("acquired=%d failed=%d maxinside=%d err=%s", acquired, failed, maxInside, firstErr)
	})
	// unlock <path> <i> <dmap> <keyhex> <tokN|forged>
	doUnlock := func(m *member, path, name string, a []string) string {
		key := string(unhx(a[0]))
		ctx, cancel := opCtx()
		defer cancel()
		if a[1] == "forged" || atoi(strings.TrimPrefix(a[1], "tok")) >= len(lockTokens) {
			return errClass(cl.rawc(m).Do(ctx, "DM.UNLOCK", name, key, hex.EncodeToString([]byte("forgedforgedforg"))).Err())
		}
		t := lockTokens[atoi(strings.TrimPrefix(a[1], "tok"))]
		if t.lc != nil {
			return errClass(t.lc.Unlock(ctx))
		}
		return errClass(cl.rawc(m).Do(ctx, "DM.UNLOCK", name, key, t.raw).Err())
	}
	register("c.unlock", clusterOp(doUnlock))
	doLease := func(m *member, path, name string, a []string) string {
		key := string(unhx(a[0]))
		ms := i64(a[2])
		ctx, cancel := opCtx()
		defer cancel()
		if a[1] == "forged" || atoi(strings.TrimPrefix(a[1], "tok")) >= len(lockTokens) {
			return errClass(cl.rawc(m).Do(ctx, "DM.PLOCKLEASE", name, key, hex.EncodeToString([]byte("forgedforgedforg")), ms).Err())
		}
		t := lockTokens[atoi(strings.TrimPrefix(a[1], "tok"))]
		if t.lc != nil {
			return errClass(t.lc.Lease(ctx, time.Duration(ms)*time.Millisecond))
		}
		return errClass(cl.rawc(m).Do(ctx, "DM.PLOCKLEASE", name, key, t.raw, ms).Err())
	}
	register("c.lease", clusterOp(doLease))
	// c.unlockx / c.leasex <path> <i> <dmap> <keyhex> <tok> [<ms>] -- <adv_ms> <path2> <i2> <timeout2_ms>
	// Unlock / Lease with a competitor scheduled at the point between the token comparison and the
	// delete / expiry update (verifhook.At("unlock.checked" / "lease.checked")): there the clock
	// advances by adv_ms and a second client tries to take the lock (deadline 0: one attempt).
	// Reply: "<result> inner=<tokN|notacquired|...|->"   ("-": the point was not reached)
	interleaved := func(point string, op func(m *member, path, name string, a []string) string) handler {
		return clusterOp(func(m *member, path, name string, a []string) string {
			sep := 0
			for i, x := range a {
				if x == "--" {
					sep = i
				}
			}
			own, rest := a[:sep], a[sep+1:]
			inner := "-"
			verifhook.SetPoint(point, func() {
				verifhook.SetPoint(point, nil)
				verifhook.SetClock(verifhook.Clock() + i64(rest[0])*1000000)
				m2 := cl.members[atoi(rest[2])]
				inner = doLock(m2, rest[1], name, []string{own[0], rest[3], "0"})
			})
			r := op(m, path, name, own)
			verifhook.SetPoint(point, nil)
			return r + " inner=" + inner
		})
	}
	register("c.unlockx", interleaved("unlock.checked", doUnlock))
	register("c.leasex", interleaved("lease.checked", doLease))
	register("c.destroy", clusterOp(func(m *member, path, name string, a []string) string {
		ctx, cancel := opCtx()
		defer cancel()
		if path == "raw" {
			return errClass(cl.rawc(m).Do(ctx, "DM.DESTROY", name).Err())
		}
		d, err := cl.dmap(m, path, name)
		if err != nil {
			return errClass(err)
		}
		err = d.Destroy(ctx)
		// c.destroy ... fresh: the application drops its handles and asks for new ones afterwards;
		// otherwise the long-lived handles stay in use (the DMap remains usable through them)
		if len(a) > 0 && a[0] == "fresh" {
			delete(m.dmaps, name)
			delete(m.cdmaps, name)
		}
		return errClass(err)
	}))
	// scanall <path> <i> <dmap> [match regex] -> sorted keys yielded by the client iterator
	register("c.scanall", clusterOp(func(m *member, path, name string, a []string) string {
		ctx, cancel := opCtx()
		defer cancel()
		d, err := cl.dmap(m, path, name)
		if err != nil {
			return errClass(err)
		}
		var opts []olric.ScanOption
		if len(a) >= 1 && a[0] != "*" {
			opts = append(opts, olric.Match(string(unhx(a[0]))))
		}
		if len(a) >= 2 {
			opts = append(opts, olric.Count(atoi(a[1])))
		}
		// scan requests served by the members (all of them: they live in this process) during the iteration
		var reqs int64
		verifhook.SetPoint("scan.request", func() { atomic.AddInt64(&reqs, 1) })
		defer verifhook.SetPoint("scan.request", nil)
		it, err := d.Scan(ctx, opts...)
		if err != nil {
			return errClass(err)
		}
		defer it.Close()
		// slow=<i>: the consumer takes its time (1.1 s, real time: longer than the iterator's routing-table refresh
		// interval) with the i-th key
		slowAt := -1
		if len(a) >= 3 && strings.HasPrefix(a[2], "slow=") {
			slowAt = atoi(a[2][5:])
		}
		var keys []string
		for n := 0; it.Next() && n < 100000; n++ {
			keys = append(keys, hx([]byte(it.Key())))
			if n+1 == slowAt {
				time.Sleep(1100 * time.Millisecond)
			}
		}
		sort.Strings(keys)
		return "n=" + strconv.Itoa(len(keys)) + ";reqs=" + strconv.FormatInt(atomic.LoadInt64(&reqs), 10) + " " + strings.Join(keys, " ")
	}))
	// c.rawscan <dmap> <match hex|*> <count> [rc]: raw DM.SCAN cursors, partition by partition, each sent to the partition's
	// primary owner (with "rc": to its first backup owner, replica copy), from cursor 0 until the cursor comes back 0.
	// Reply: "n=<keys yielded, duplicates included> <sorted hex keys...>"  or  "loop:<partition>" if a walk does not end.
	register("c.rawscan", func(a []string) string {
		var view *member
		for _, m := range cl.members {
			if m.alive {
				view = m
				break
			}
		}
		iv := view.db.VerifInternals()
		parts := uint64(optInt(cl.opts, "parts", 7))
		byAddr := func(addr string) *member {
			for _, m := range cl.members {
				if m.addr == addr && m.alive {
					return m
				}
			}
			return nil
		}
		rc := len(a) >= 4 && a[3] == "rc"
		var keys []string
		for p := uint64(0); p < parts; p++ {
			var target *member
			if rc {
				owners := iv.Backup.PartitionByID(p).Owners()
				if len(owners) == 0 {
					continue
				}
				target = byAddr(owners[len(owners)-1].String())
			} else {
				target = byAddr(iv.Primary.PartitionByID(p).Owner().String())
			}
			if target == nil {
				return "no-owner"
			}
			cursor := uint64(0)
			for round := 0; ; round++ {
				if round > 5000 {
					return "loop:" + strconv.FormatUint(p, 10)
				}
				args := []interface{}{"DM.SCAN", strconv.FormatUint(p, 10), a[0], strconv.FormatUint(cursor, 10), "COUNT", a[2]}
				if a[1] != "*" {
					args = append(args, "MATCH", string(unhx(a[1])))
				}
				if rc {
					args = append(args, "RC")
				}
				ctx, cancel := opCtx()
				res, err := cl.rawc(target).Do(ctx, args...).Slice()
				cancel()
				if err != nil {
					return errClass(err)
				}
				if len(res) != 2 {
					return "other:bad-scan-reply"
				}
				next, perr := strconv.ParseUint(fmt.Sprint(res[0]), 10, 64)
				if perr != nil {
					return "other:bad-cursor"
				}
				if ks, ok := res[1].([]interface{}); ok {
					for _, k := range ks {
						keys = append(keys, hx([]byte(fmt.Sprint(k))))
					}
				}
				if next == 0 {
					break
				}
				cursor = next
			}
		}
		sort.Strings(keys)
		return "n=" + strconv.Itoa(len(keys)) + " " + strings.Join(keys, " ")
	})
	// c.pipeline <cli|emb> <i> <dmap> put:<k>:<v> get:<k> getput:<k>:<v> del:<k> incr:<k>:<n> decr:<k>:<n> expire:<k>:<ms> ...
	// every command is queued first, then one Exec, then every future is read: results joined by '|'
	register("c.pipeline", clusterOp(func(m *member, path, name string, a []string) string {
		ctx, cancel := opCtx()
		defer cancel()
		d, err := cl.dmap(m, map[string]string{"cli": "cli", "emb": "emb"}[path], name)
		if err != nil {
			return errClass(err)
		}
		p, err := d.Pipeline()
		if err != nil {
			return errClass(err)
		}
		type fut func() string
		var futs []fut
		for _, c := range a {
			f := strings.Split(c, ":")
			key := string(unhx(f[1]))
			switch f[0] {
			case "put":
				v := unhx(f[2])
				fp, err := p.Put(ctx, key, v)
				if err != nil {
					return errClass(err)
				}
				scribble(v) // buffers passed to a queued Put / GetPut are reused before Exec (C18)
				futs = append(futs, func() string { return errClass(fp.Result()) })
			case "get":
				fg := p.Get(ctx, key)
				futs = append(futs, func() string {
					gr, err := fg.Result()
					if err != nil {
						return errClass(err)
					}
					b, err := gr.Byte()
					if err != nil {
						return errClass(err)
					}
					return hx(b)
				})
			case "getput":
				v := unhx(f[2])
				fg, err := p.GetPut(ctx, key, v)
				if err != nil {
					return errClass(err)
				}
				scribble(v)
				futs = append(futs, func() string {
					gr, err := fg.Result()
					if err != nil {
						return errClass(err)
					}
					if gr == nil {
						return "none"
					}
					b, err := gr.Byte()
					if errors.Is(err, olric.ErrNilResponse) {
						return "none"
					}
					if err != nil {
						return errClass(err)
					}
					return hx(b)
				})
			case "del":
				fd := p.Delete(ctx, key)
				futs = append(futs, func() string {
					n, err := fd.Result()
					if err != nil {
						return errClass(err)
					}
					return strconv.Itoa(n)
				})
			case "incr", "decr":
				delta := atoi(f[2])
				if f[0] == "incr" {
					fi, err := p.Incr(ctx, key, delta)
					if err != nil {
						return errClass(err)
					}
					futs = append(futs, func() string {
						n, err := fi.Result()
						if err != nil {
							return errClass(err)
						}
						return strconv.Itoa(n)
					})
				} else {
					fi, err := p.Decr(ctx, key, delta)
					if err != nil {
						return errClass(err)
					}
					futs = append(futs, func() string {
						n, err := fi.Result()
						if err != nil {
							return errClass(err)
						}
						return strconv.Itoa(n)
					})
				}
			case "expire":
				fe, err := p.Expire(ctx, key, time.Duration(i64(f[2]))*time.Millisecond)
				if err != nil {
					return errClass(err)
				}
				futs = append(futs, func() string { return errClass(fe.Result()) })
			default:
				return "bad-pipeline-cmd"
			}
		}
		// life cycle (C15, Cluster/Pipeline.lean: Life): a future before Exec, a second Exec, Discard, a future of the
		// discarded generation, Exec of the re-usable empty pipeline, Close, Exec and Discard of the closed pipeline
		lifeClass := func(err error) string {
			switch {
			case err == nil:
				return "none"
			case errors.Is(err, olric.ErrNotReady):
				return "notReady"
			case errors.Is(err, olric.ErrPipelineClosed):
				return "closed"
			case errors.Is(err, olric.ErrPipelineExecuted):
				return "executed"
			}
			return errClass(err)
		}
		futErr := func(f fut) string {
			switch r := f(); r {
			case "other:not_ready_yet":
				return "notReady"
			case "other:pipeline_is_closed", "neterr":
				return "closed"
			default:
				return "answered:" + r
			}
		}
		var life []string
		if len(futs) > 0 {
			life = append(life, futErr(futs[0]))
		} else {
			life = append(life, "-")
		}
		if err := p.Exec(ctx); err != nil {
			return "exec:" + errClass(err)
		}
		out := make([]string, len(futs))
		for i, f := range futs {
			out[i] = f()
		}
		life = append(life, lifeClass(p.Exec(ctx)), lifeClass(p.Discard()))
		if len(futs) > 0 {
			life = append(life, futErr(futs[len(futs)-1]))
		} else {
			life = append(life, "-")
		}
		life = append(life, lifeClass(p.Exec(ctx)))
		p.Close()
		life = append(life, lifeClass(p.Exec(ctx)), lifeClass(p.Discard()))
		return strings.Join(out, "|") + " life=" + strings.Join(life, ",")
	}))
	register("c.commands", func(a []string) string {
		return strings.Join(cl.members[atoi(a[0])].db.VerifInternals().Server.VerifCommands(), ",")
	})
	// c.rawerr <i> <arg hex>... : any RESP command on a fresh connection; the class of its reply (ok, cq, nf, syntax, ...)
	register("c.rawerr", func(a []string) string {
		m := cl.members[atoi(a[0])]
		var args []interface{}
		for _, x := range a[1:] {
			args = append(args, unhx(x))
		}
		ctx, cancel := context.WithTimeout(ctxBg, 5*time.Second)
		defer cancel()
		rc := redis.NewClient(&redis.Options{Addr: m.addr, MaxRetries: -1, DialTimeout: 2 * time.Second, ReadTimeout: 4 * time.Second})
		defer rc.Close()
		_, err := rc.Do(ctx, args...).Result()
		return errClass(err)
	})
	// rawcmd <i> <arg hex>... : any RESP command; reply class
	register("c.rawseq", rawSeq)
	register("c.rawhold", rawHold)
	register("c.rawframe", rawFrame)
	register("c.rawdrop", rawDrop)
	register("c.rawquit", rawQuit)
	// c.rawint <m> <hex tok>...: a command whose reply is an integer
	register("c.rawint", func(a []string) string {
		m := cl.members[atoi(a[0])]
		var args []interface{}
		for _, x := range a[1:] {
			args = append(args, unhx(x))
		}
		ctx, cancel := opCtx()
		defer cancel()
		n, err := cl.rawc(m).Do(ctx, args...).Int64()
		if err != nil {
			return "E:" + errClass(err)
		}
		return strconv.FormatInt(n, 10)
	})
	register("c.rawcmd", func(a []string) string {
		m := cl.members[atoi(a[0])]
		var args []interface{}
		for _, x := range a[1:] {
			args = append(args, unhx(x))
		}
		ctx, cancel := context.WithTimeout(ctxBg, 5*time.Second)
		defer cancel()
		// a fresh connection per command: a handler that wedges its connection must not block the next one
		rc := redis.NewClient(&redis.Options{Addr: m.addr, MaxRetries: -1, DialTimeout: 2 * time.Second, ReadTimeout: 4 * time.Second})
		defer rc.Close()
		res, err := rc.Do(ctx, args...).Result()
		if err != nil {
			if _, isReply := err.(redis.Error); isReply || errors.Is(err, redis.Nil) {
				return "E" // the member answered with an error reply
			}
			c := errClass(err)
			if c == "neterr" || true {
				// no reply: did the member survive?  PING on another connection
				if perr := cl.rawc(m).Ping(ctx).Err(); perr != nil {
					return "noreply member-unresponsive:" + errClass(perr)
				}
				return "noreply"
			}
			return "E"
		}
		_ = res
		return "R"
	})
}

// rawSeq: several commands over ONE connection (subscriber mode and whatever else a connection remembers), the
// replies read and thrown away; then: does the member still answer on that connection's sibling?
func rawSeq(a []string) string {
	m := cl.members[atoi(a[0])]
	conn, err := net.DialTimeout("tcp", m.addr, 2*time.Second)
	if err != nil {
		return "neterr"
	}
	defer conn.Close()
	var cmdv [][]byte
	flush := func() {
		if len(cmdv) == 0 {
			return
		}
		var b []byte
		b = append(b, fmt.Sprintf("*%d\r\n", len(cmdv))...)
		for _, t := range cmdv {
			b = append(b, fmt.Sprintf("$%d\r\n", len(t))...)
			b = append(b, t...)
			b = append(b, '\r', '\n')
		}
		cmdv = nil
		conn.SetWriteDeadline(time.Now().Add(time.Second))
		conn.Write(b)
		buf := make([]byte, 4096)
		conn.SetReadDeadline(time.Now().Add(60 * time.Millisecond))
		conn.Read(buf)
	}
	for _, x := range a[1:] {
		if x == "|" {
			flush()
			continue
		}
		cmdv = append(cmdv, unhx(x))
	}
	flush()
	ctx, cancel := context.WithTimeout(ctxBg, 5*time.Second)
	defer cancel()
	if perr := cl.rawc(m).Ping(ctx).Err(); perr != nil {
		return "member-unresponsive:" + errClass(perr)
	}
	return "ok"
}

// readReply reads one RESP reply and returns a short canonical form of it ("" + error when the stream ends or is malformed)
func readReply(rd *bufio.Reader) (string, error) {
	line, err := rd.ReadString('\n')
	if err != nil {
		return "", err
	}
	line = strings.TrimRight(line, "\r\n")
	if line == "" {
		return "", fmt.Errorf("empty line")
	}
	printable := func(s string) string {
		b := []byte(s)
		for i, c := range b {
			if c < 0x21 || c > 0x7e {
				b[i] = '?'
			}
		}
		return string(b)
	}
	switch line[0] {
	case '+', ':':
		return printable(line), nil
	case '-':
		return "-" + printable(strings.SplitN(line[1:], " ", 2)[0]), nil
	case '$':
		n := atoi(line[1:])
		if n < 0 {
			return "$nil", nil
		}
		buf := make([]byte, n+2)
		if _, err := io.ReadFull(rd, buf); err != nil {
			return "", err
		}
		return "$" + hx(buf[:n]), nil
	case '*':
		n := atoi(line[1:])
		if n < 0 {
			return "*nil", nil
		}
		out := []string{}
		for i := 0; i < n; i++ {
			e, err := readReply(rd)
			if err != nil {
				return "", err
			}
			out = append(out, e)
		}
		return "*[" + strings.Join(out, ",") + "]", nil
	}
	return "", fmt.Errorf("not RESP: %q", line)
}

// rawFrame: <m> <hex tok>...: the command and a PING written together on one fresh connection.  Exactly two replies must
// come back, the second one PONG: a handler that answers twice (or not at all) shifts every later reply on the connection.
// Reply: "first=<reply> second=<reply> extra=<bytes that followed>"
func rawFrame(a []string) string {
	m := cl.members[atoi(a[0])]
	conn, err := net.DialTimeout("tcp", m.addr, 2*time.Second)
	if err != nil {
		return "neterr"
	}
	defer conn.Close()
	var b []byte
	b = append(b, fmt.Sprintf("*%d\r\n", len(a)-1)...)
	for _, x := range a[1:] {
		t := unhx(x)
		b = append(b, fmt.Sprintf("$%d\r\n", len(t))...)
		b = append(b, t...)
		b = append(b, '\r', '\n')
	}
	b = append(b, "*1\r\n$4\r\nPING\r\n"...)
	conn.SetWriteDeadline(time.Now().Add(2 * time.Second))
	if _, err := conn.Write(b); err != nil {
		return "neterr"
	}
	rd := bufio.NewReader(conn)
	conn.SetReadDeadline(time.Now().Add(4 * time.Second))
	first, err := readReply(rd)
	if err != nil {
		return "first=none:" + errClass(err)
	}
	second, err := readReply(rd)
	if err != nil {
		return "first=" + first + " second=none"
	}
	conn.SetReadDeadline(time.Now().Add(15 * time.Millisecond))
	extra, _ := io.ReadAll(io.LimitReader(rd, 64))
	if len(first) > 80 {
		first = first[:80]
	}
	return "first=" + first + " second=" + second + " extra=" + strconv.Itoa(len(extra))
}

// raw connections that stay open between operations (a subscriber that talks RESP by hand: command names in any case)
type heldConn struct {
	conn net.Conn
	rd   *bufio.Reader
}

var heldConns = map[string]*heldConn{}

// rawHold <name> <m> <hex tok>... [| ...]: commands written by hand on a connection that stays open.  Returns after the
// member has processed all of them: a PING is sent behind them and replies are read up to its answer.
func rawHold(a []string) string {
	name := a[0]
	hc := heldConns[name]
	if hc == nil {
		m := cl.members[atoi(a[1])]
		c, err := net.DialTimeout("tcp", m.addr, 2*time.Second)
		if err != nil {
			return "neterr"
		}
		hc = &heldConn{conn: c, rd: bufio.NewReader(c)}
		heldConns[name] = hc
	}
	var b []byte
	var cmdv [][]byte
	flush := func() {
		if len(cmdv) == 0 {
			return
		}
		b = append(b, fmt.Sprintf("*%d\r\n", len(cmdv))...)
		for _, t := range cmdv {
			b = append(b, fmt.Sprintf("$%d\r\n", len(t))...)
			b = append(b, t...)
			b = append(b, '\r', '\n')
		}
		cmdv = nil
	}
	for _, x := range a[2:] {
		if x == "|" {
			flush()
			continue
		}
		cmdv = append(cmdv, unhx(x))
	}
	flush()
	b = append(b, "*2\r\n$4\r\nPING\r\n$8\r\nverif-hc\r\n"...)
	hc.conn.SetWriteDeadline(time.Now().Add(2 * time.Second))
	if _, err := hc.conn.Write(b); err != nil {
		return "neterr"
	}
	hc.conn.SetReadDeadline(time.Now().Add(5 * time.Second))
	for i := 0; i < 10000; i++ {
		r, err := readReply(hc.rd)
		if err != nil {
			return "noconfirm:" + errClass(err)
		}
		if strings.Contains(r, hx([]byte("verif-hc"))) || strings.Contains(r, "verif-hc") {
			return "ok"
		}
	}
	return "noconfirm"
}

func rawDrop(a []string) string {
	if c := heldConns[a[0]]; c != nil {
		c.conn.Close()
		delete(heldConns, a[0])
		time.Sleep(300 * time.Millisecond)
	}
	return "ok"
}

// c.rawquit <name> <m>: the hand-written subscriber connection <name> (to member m) says QUIT: the member answers, hangs
// up and forgets the connection's subscriptions (bounded settle wait, as after ps.close)
func rawQuit(a []string) string {
	hc := heldConns[a[0]]
	if hc == nil {
		return "ok"
	}
	svc := cl.members[atoi(a[1])].db.VerifInternals().PubSub
	before := svc.VerifConnCount()
	hc.conn.SetWriteDeadline(time.Now().Add(2 * time.Second))
	if _, err := hc.conn.Write([]byte("*1\r\n$4\r\nQUIT\r\n")); err != nil {
		return "neterr"
	}
	hc.conn.SetReadDeadline(time.Now().Add(3 * time.Second))
	hungUp := false
	for i := 0; i < 10000; i++ {
		if _, err := readReply(hc.rd); err != nil {
			hungUp = !strings.Contains(err.Error(), "timeout")
			break
		}
	}
	hc.conn.Close()
	delete(heldConns, a[0])
	if !hungUp {
		return "no-hangup"
	}
	for i := 0; i < 200 && svc.VerifConnCount() >= before && before > 0; i++ {
		time.Sleep(5 * time.Millisecond)
	}
	return "ok"
}

type lockTok struct {
	lc  olric.LockContext
	raw string
}

var lockTokens []lockTok

// clusterOp: <path> <member> <dmap> args...
func clusterOp(f func(m *member, path, name string, a []string) string) handler {
	return func(a []string) string {
		if cl == nil {
			return "no-cluster"
		}
		path := a[0]
		m := cl.members[atoi(a[1])]
		if !m.alive {
			return "down"
		}
		return f(m, path, a[2], a[3:])
	}
}
