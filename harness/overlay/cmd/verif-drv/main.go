//go:build verif

// verif-drv: line-protocol driver over the real olric code.  Injected into the module with
// `go build -overlay` by /verif/bin/check; never part of the repository.
//
// One request per line on stdin, exactly one reply line on stdout.  A panic inside the code under
// test is reported as `panic: ...`; an operation that does not return within the watchdog limit is
// reported as `hang` and the process exits (the goroutine cannot be recovered).
package main

import (
	"bufio"
	"fmt"
	"os"
	"runtime"
	"runtime/debug"
	"strings"
	"time"
)

type handler func(args []string) string

var handlers = map[string]handler{}

func register(name string, h handler) {
	if _, dup := handlers[name]; dup {
		panic("duplicate op " + name)
	}
	handlers[name] = h
}

var watchdog = 20 * time.Second

func call(h handler, args []string) (reply string) {
	done := make(chan string, 1)
	go func() {
		defer func() {
			if r := recover(); r != nil {
				st := strings.ReplaceAll(string(debug.Stack()), "\n", " | ")
				if len(st) > 1500 {
					st = st[:1500]
				}
				done <- fmt.Sprintf("panic: %v @@ %s", r, st)
			}
		}()
		done <- h(args)
	}()
	// an operation that allocates without end (a retry loop that makes a new table each round) is cut off long before the
	// machine runs out of memory: it is reported like an operation that never returns
	mem := time.NewTicker(50 * time.Millisecond)
	defer mem.Stop()
	limit := time.After(watchdog)
	for {
		select {
		case r := <-done:
			return r
		case <-limit:
			return "hang"
		case <-mem.C:
			var ms runtime.MemStats
			runtime.ReadMemStats(&ms)
			if ms.Sys > 6<<30 {
				return "hang"
			}
		}
	}
}

func main() {
	in := bufio.NewReaderSize(os.Stdin, 1<<22)
	out := bufio.NewWriterSize(os.Stdout, 1<<20)
	defer out.Flush()
	for {
		line, err := in.ReadString('\n')
		line = strings.TrimRight(line, "\r\n")
		if line != "" {
			f := strings.Fields(line)
			var reply string
			if f[0] == "quit" {
				out.Flush()
				shutdownAll()
				return
			}
			if f[0] == "watchdog" && len(f) == 2 {
				d, perr := time.ParseDuration(f[1])
				if perr == nil {
					watchdog = d
				}
				reply = "ok"
			} else if h, ok := handlers[f[0]]; ok {
				reply = call(h, f[1:])
			} else {
				reply = "bad-op"
			}
			reply = strings.ReplaceAll(reply, "\n", " | ")
			fmt.Fprintln(out, reply)
			out.Flush()
			if reply == "hang" {
				os.Exit(3)
			}
		}
		if err != nil {
			shutdownAll()
			return
		}
	}
}

var shutdownHooks []func()

func shutdownAll() {
	for _, f := range shutdownHooks {
		f()
	}
}
