//go:build verif

package main

import (
	"bytes"
	"encoding/hex"
	"errors"
	"fmt"
	"math"
	"strconv"
	"time"

	"github.com/olric-data/olric/internal/kvstore/entry"
	"github.com/olric-data/olric/internal/resp"
)

func encodeValue(v interface{}) ([]byte, error) {
	var buf bytes.Buffer
	err := resp.New(&buf).Encode(v)
	return append([]byte{}, buf.Bytes()...), err
}

func numErr(err error) string {
	if errors.Is(err, strconv.ErrRange) {
		return "err:range"
	}
	if errors.Is(err, strconv.ErrSyntax) {
		return "err:syntax"
	}
	return "err:" + err.Error()
}

func scanInt(bits int, b []byte) string {
	switch bits {
	case 8:
		var v int8
		if err := resp.Scan(b, &v); err != nil {
			return numErr(err)
		}
		return strconv.FormatInt(int64(v), 10)
	case 16:
		var v int16
		if err := resp.Scan(b, &v); err != nil {
			return numErr(err)
		}
		return strconv.FormatInt(int64(v), 10)
	case 32:
		var v int32
		if err := resp.Scan(b, &v); err != nil {
			return numErr(err)
		}
		return strconv.FormatInt(int64(v), 10)
	default:
		var v int64
		if err := resp.Scan(b, &v); err != nil {
			return numErr(err)
		}
		return strconv.FormatInt(v, 10)
	}
}

func scanUint(bits int, b []byte) string {
	switch bits {
	case 8:
		var v uint8
		if err := resp.Scan(b, &v); err != nil {
			return numErr(err)
		}
		return strconv.FormatUint(uint64(v), 10)
	case 16:
		var v uint16
		if err := resp.Scan(b, &v); err != nil {
			return numErr(err)
		}
		return strconv.FormatUint(uint64(v), 10)
	case 32:
		var v uint32
		if err := resp.Scan(b, &v); err != nil {
			return numErr(err)
		}
		return strconv.FormatUint(uint64(v), 10)
	default:
		var v uint64
		if err := resp.Scan(b, &v); err != nil {
			return numErr(err)
		}
		return strconv.FormatUint(v, 10)
	}
}

type blob struct{ b []byte }

func (x blob) MarshalBinary() ([]byte, error) { return x.b, nil }
func (x *blob) UnmarshalBinary(b []byte) error {
	x.b = append([]byte{}, b...)
	return nil
}

func same(ok bool) string {
	if ok {
		return "same"
	}
	return "differs"
}

func init() {
	register("enc.int", func(a []string) string {
		bits := atoi(a[0])
		n := i64(a[1])
		var v interface{}
		switch bits {
		case 8:
			v = int8(n)
		case 16:
			v = int16(n)
		case 32:
			v = int32(n)
		default:
			v = n
		}
		b, err := encodeValue(v)
		if err != nil {
			return "err:" + err.Error()
		}
		return hx(b) + " " + scanInt(bits, b)
	})
	register("enc.uint", func(a []string) string {
		bits := atoi(a[0])
		n := u64(a[1])
		var v interface{}
		switch bits {
		case 8:
			v = uint8(n)
		case 16:
			v = uint16(n)
		case 32:
			v = uint32(n)
		default:
			v = n
		}
		b, err := encodeValue(v)
		if err != nil {
			return "err:" + err.Error()
		}
		return hx(b) + " " + scanUint(bits, b)
	})
	register("scan.int", func(a []string) string { return scanInt(atoi(a[0]), unhx(a[1])) })
	register("scan.uint", func(a []string) string { return scanUint(atoi(a[0]), unhx(a[1])) })
	register("scan.bool", func(a []string) string {
		var v bool
		if err := resp.Scan(unhx(a[0]), &v); err != nil {
			return "err:" + err.Error()
		}
		return strconv.FormatBool(v)
	})
	register("entry.enc", func(a []string) string {
		e := entry.New()
		e.SetKey(string(unhx(a[0])))
		e.SetValue(unhx(a[1]))
		e.SetTTL(i64(a[2]))
		e.SetTimestamp(i64(a[3]))
		e.SetLastAccess(i64(a[4]))
		return hx(e.Encode())
	})
	register("entry.dec", func(a []string) (out string) {
		defer func() {
			if r := recover(); r != nil {
				out = "undecodable"
			}
		}()
		e := entry.New()
		e.Decode(unhx(a[0]))
		return fmtEntry(e)
	})
	register("rt.float64", func(a []string) string {
		bitsv, _ := strconv.ParseUint(a[0], 16, 64)
		f := math.Float64frombits(bitsv)
		b, err := encodeValue(f)
		if err != nil {
			return "err:" + err.Error()
		}
		var g float64
		if err := resp.Scan(b, &g); err != nil {
			return "err:" + err.Error()
		}
		if math.IsNaN(f) {
			return same(math.IsNaN(g))
		}
		return same(math.Float64bits(g) == bitsv)
	})
	register("rt.float32", func(a []string) string {
		bitsv, _ := strconv.ParseUint(a[0], 16, 32)
		f := math.Float32frombits(uint32(bitsv))
		b, err := encodeValue(f)
		if err != nil {
			return "err:" + err.Error()
		}
		var g float32
		if err := resp.Scan(b, &g); err != nil {
			return "err:" + err.Error()
		}
		if f != f {
			return same(g != g)
		}
		return same(math.Float32bits(g) == uint32(bitsv))
	})
	register("rt.time", func(a []string) string {
		// rt.time <unix sec> <nsec> <zone offset seconds>
		t := time.Unix(i64(a[0]), i64(a[1])).In(time.FixedZone("z", atoi(a[2])))
		b, err := encodeValue(t)
		if err != nil {
			return "err:" + err.Error()
		}
		var g time.Time
		if err := resp.Scan(b, &g); err != nil {
			return "err:" + err.Error()
		}
		_, o1 := t.Zone()
		_, o2 := g.Zone()
		return same(g.Equal(t) && o1 == o2)
	})
	register("rt.bytes", func(a []string) string {
		in := unhx(a[0])
		b, err := encodeValue(in)
		if err != nil {
			return "err:" + err.Error()
		}
		var g []byte
		if err := resp.Scan(b, &g); err != nil {
			return "err:" + err.Error()
		}
		return same(bytes.Equal(g, in))
	})
	register("rt.string", func(a []string) string {
		in := string(unhx(a[0]))
		b, err := encodeValue(in)
		if err != nil {
			return "err:" + err.Error()
		}
		var g string
		if err := resp.Scan(b, &g); err != nil {
			return "err:" + err.Error()
		}
		return same(g == in)
	})
	register("rt.bool", func(a []string) string {
		in := a[0] == "true"
		b, err := encodeValue(in)
		if err != nil {
			return "err:" + err.Error()
		}
		var g bool
		if err := resp.Scan(b, &g); err != nil {
			return "err:" + err.Error()
		}
		return same(g == in)
	})
	register("rt.marshaler", func(a []string) string {
		in := blob{unhx(a[0])}
		b, err := encodeValue(in)
		if err != nil {
			return "err:" + err.Error()
		}
		var g blob
		if err := resp.Scan(b, &g); err != nil {
			return "err:" + err.Error()
		}
		return same(bytes.Equal(g.b, in.b))
	})
	_ = hex.EncodeToString
	_ = fmt.Sprint
}
