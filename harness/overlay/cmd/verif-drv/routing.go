//go:build verif

package main

import (
	"context"
	"fmt"
	"sort"
	"strconv"
	"strings"
	"time"

	"github.com/olric-data/olric"
	"github.com/olric-data/olric/internal/discovery"
	"github.com/vmihailenco/msgpack/v5"
	"github.com/redis/go-redis/v9"
	"github.com/olric-data/olric/internal/kvstore/table"
	"github.com/olric-data/olric/internal/kvstore/entry"
	"github.com/olric-data/olric/internal/cluster/partitions"
)

// member ids (64-bit hashes of name + birthdate) are renamed to small numbers in order of appearance
var idNums = map[uint64]int{}

func idNum(id uint64) int {
	if n, ok := idNums[id]; ok {
		return n
	}
	idNums[id] = len(idNums) + 1
	return idNums[id]
}

func memIdx(name string) int {
	for i, m := range cl.members {
		if m.addr == name {
			return i
		}
	}
	return -1
}

func fmtMem(m discovery.Member) string { return fmt.Sprintf("%d.%d", memIdx(m.Name), idNum(m.ID)) }

func fmtMems(ms []discovery.Member) string {
	if len(ms) == 0 {
		return "-"
	}
	x := make([]string, len(ms))
	for i, m := range ms {
		x[i] = fmtMem(m)
	}
	return strings.Join(x, ";")
}

func coordinatorMember() *member {
	var c *member
	n := 0
	for _, m := range cl.members {
		if m.alive && m.db.VerifInternals().RT.VerifIsCoordinator() {
			c = m
			n++
		}
	}
	if n != 1 {
		return nil
	}
	return c
}

func init() {
	// rt.fill: one routing-table computation on the coordinator, under the routing lock:
	//   in=<everything it read>  out=<the table it computed>
	register("rt.fill", func(a []string) string {
		c := coordinatorMember()
		if c == nil {
			return "nocoord"
		}
		live, in, out := c.db.VerifInternals().RT.VerifFill()
		var ids []int
		for p := range in {
			ids = append(ids, int(p))
		}
		sort.Ints(ids)
		sort.Slice(live, func(i, j int) bool { return live[i].Name < live[j].Name })
		var ib, ob []string
		ib = append(ib, "live:"+fmtMems(live))
		cnt := func(ms []discovery.Member, c map[uint64]int64) string {
			if len(ms) == 0 {
				return "-"
			}
			x := make([]string, len(ms))
			for i, m := range ms {
				v := "e"
				if c[m.ID] >= 0 {
					v = strconv.FormatInt(c[m.ID], 10)
				}
				x[i] = fmtMem(m) + "=" + v
			}
			return strings.Join(x, ";")
		}
		for _, p := range ids {
			fi := in[uint64(p)]
			closest := "x"
			if fi.Closest != nil {
				closest = fmtMems(fi.Closest)
			}
			ib = append(ib, fmt.Sprintf("P%d:%s|%s|%s|%s|%s|%s", p, fmtMems(fi.Owners), fmtMems(fi.Backups), fmtMem(fi.RingOwner), closest,
				cnt(fi.Owners, fi.PCount), cnt(fi.Backups, fi.BCount)))
			ob = append(ob, fmt.Sprintf("P%d:%s/%s", p, fmtMems(out[uint64(p)].Owners), fmtMems(out[uint64(p)].Backups)))
		}
		return "in=" + strings.Join(ib, "~") + " out=" + strings.Join(ob, "~")
	})
	// rt.dump: what every live member holds: its coordinator, its member lists, its owners / backups per partition;
	// on the coordinator also the ring loads and the ring's bound
	register("rt.dump", func(a []string) string {
		var out []string
		parts := optInt(cl.opts, "parts", 7)
		for i, m := range cl.members {
			if !m.alive {
				continue
			}
			iv := m.db.VerifInternals()
			var rows []string
			for p := 0; p < parts; p++ {
				rows = append(rows, fmtMems(iv.Primary.PartitionByID(uint64(p)).Owners())+"/"+fmtMems(iv.Backup.PartitionByID(uint64(p)).Owners()))
			}
			disc := iv.RT.VerifDiscoveryMembers()
			sort.Slice(disc, func(i, j int) bool { return disc[i].Name < disc[j].Name })
			s := fmt.Sprintf("m%d:coord=%s,disc=%s,ring=%s,table=%s", i, fmtMem(iv.RT.VerifCoordinator()), fmtMems(disc), fmtMems(iv.RT.VerifRingMembers()), strings.Join(rows, "~"))
			// keys this member holds per partition (primary copies)
			var pl []string
			for p := 0; p < parts; p++ {
				pl = append(pl, strconv.Itoa(iv.Primary.PartitionByID(uint64(p)).Length()))
			}
			s += ",plen=" + strings.Join(pl, ";")
			if iv.RT.VerifIsCoordinator() {
				loads, avg := iv.RT.VerifLoads()
				var ls []string
				for name, l := range loads {
					ls = append(ls, fmt.Sprintf("%d=%d", memIdx(name), int(l)))
				}
				sort.Strings(ls)
				s += fmt.Sprintf(",loads=%s,avg=%d", strings.Join(ls, ";"), int(avg))
			}
			out = append(out, s)
		}
		return strings.Join(out, " ")
	})
	// rt.client <i>: the routing table a cluster client obtains from member i (member indexes, no ids)
	register("rt.client", func(a []string) string {
		m := cl.members[atoi(a[0])]
		ctx, cancel := opCtx()
		defer cancel()
		// a client that connects now: a long-lived one keeps connections to members that left until its next refresh
		cc, err := olric.NewClusterClient([]string{m.addr})
		if err != nil {
			return errClass(err)
		}
		defer cc.Close(ctx)
		rt, err := cc.RoutingTable(ctx)
		if err != nil {
			return errClass(err)
		}
		var ids []int
		for p := range rt {
			ids = append(ids, int(p))
		}
		sort.Ints(ids)
		j := func(xs []string) string {
			if len(xs) == 0 {
				return "-"
			}
			y := make([]string, len(xs))
			for i, x := range xs {
				y[i] = strconv.Itoa(memIdx(x))
			}
			return strings.Join(y, ";")
		}
		var rows []string
		for _, p := range ids {
			rows = append(rows, j(rt[uint64(p)].PrimaryOwners)+"/"+j(rt[uint64(p)].ReplicaOwners))
		}
		return strings.Join(rows, "~")
	})
	// c.converge: wait until every live member's membership layer and routing service list exactly the live members
	register("c.converge", func(a []string) string {
		deadline := time.Now().Add(60 * time.Second)
		stable := 0
		var agreedAt time.Time
		tablesSettled := func() bool {
			live := map[string]bool{}
			for _, m := range cl.members {
				if m.alive {
					live[m.addr] = true
				}
			}
			first := ""
			for _, m := range cl.members {
				if !m.alive {
					continue
				}
				iv := m.db.VerifInternals()
				parts := uint64(optInt(cl.opts, "parts", 7))
				var sb strings.Builder
				for p := uint64(0); p < parts; p++ {
					owners := iv.Primary.PartitionByID(p).Owners()
					if len(owners) == 0 {
						return false
					}
					for _, o := range owners {
						if !live[o.String()] {
							return false
						}
					}
					for _, b := range iv.Backup.PartitionByID(p).Owners() {
						if !live[b.String()] {
							return false
						}
					}
					fmt.Fprintf(&sb, "%d:%s;", p, owners[len(owners)-1].String())
				}
				if first == "" {
					first = sb.String()
				} else if first != sb.String() {
					return false
				}
			}
			return true
		}
		for {
			want := 0
			for _, m := range cl.members {
				if m.alive {
					want++
				}
			}
			ok := true
			for _, m := range cl.members {
				if !m.alive {
					continue
				}
				rt := m.db.VerifInternals().RT
				if len(rt.VerifDiscoveryMembers()) != want || len(rt.VerifRingMembers()) != want {
					ok = false
				}
			}
			if ok {
				// ... and every survivor's routing table lists live members only, the same on every survivor (the
				// event-driven recomputation and its push have been processed), three polls in a row
				// (a grace period, not a condition: a table that never gets there is what the oracles are for)
				if agreedAt.IsZero() {
					agreedAt = time.Now()
				}
				if tablesSettled() {
					stable++
				} else {
					stable = 0
				}
				if stable >= 3 || time.Since(agreedAt) > 4*time.Second {
					time.Sleep(150 * time.Millisecond)
					// a routing update that is still running (it pushes a second time when a member reported left-over
					// data) holds the routing lock of its coordinator until it is through
					for _, m := range cl.members {
						if m.alive {
							rt := m.db.VerifInternals().RT
							rt.Lock()
							rt.Unlock()
						}
					}
					return "ok " + strconv.Itoa(want)
				}
			} else {
				stable = 0
				agreedAt = time.Time{}
			}
			if time.Now().After(deadline) {
				return "not-converged"
			}
			time.Sleep(50 * time.Millisecond)
		}
	})
	// c.rejoin <i>: a stopped member comes back under the same address (new birthdate, new id)
	register("c.rejoin", func(a []string) string {
		i := atoi(a[0])
		old := cl.members[i]
		if old.alive {
			return "alive"
		}
		port := atoi(old.addr[strings.LastIndex(old.addr, ":")+1:])
		m, err := cl.startMember(port)
		if err != nil {
			return "err:" + err.Error()
		}
		cl.members[i] = m
		return "ok"
	})
	// c.kill <i>: abrupt stop: the RESP listener and every connection are closed and the membership layer stops
	// without a leave message; the other members find out by probing
	register("c.kill", func(a []string) string {
		m := cl.members[atoi(a[0])]
		if !m.alive {
			return "ok"
		}
		iv := m.db.VerifInternals()
		_ = iv.Server.VerifCloseServer()
		_ = iv.RT.Discovery().VerifAbruptShutdown()
		m.alive = false
		return "ok"
	})
	// c.settle: routing updates and balancer passes until two consecutive rounds change neither the routing table
	// nor the placement of any entry (three such rounds in a row, at most 80 rounds): "once the cluster has stabilised"
	register("c.settle", func(a []string) string {
		snapshot := func() string {
			var sb strings.Builder
			for i, m := range cl.members {
				if !m.alive {
					continue
				}
				iv := m.db.VerifInternals()
				parts := optInt(cl.opts, "parts", 7)
				for p := 0; p < parts; p++ {
					fmt.Fprintf(&sb, "%d:%d:%d:%d:%s:%s;", i, p, iv.Primary.PartitionByID(uint64(p)).Length(), iv.Backup.PartitionByID(uint64(p)).Length(),
						fmtMems(iv.Primary.PartitionByID(uint64(p)).Owners()), fmtMems(iv.Backup.PartitionByID(uint64(p)).Owners()))
				}
			}
			return sb.String()
		}
		prev, same := "", 0
		for round := 1; round <= 80; round++ {
			for _, m := range cl.members {
				if m.alive && m.db.VerifInternals().RT.VerifIsCoordinator() {
					m.db.VerifInternals().RT.UpdateEagerly()
				}
			}
			for _, m := range cl.members {
				if m.alive {
					// the empty-fragment janitor is part of the background activity: a balancer pass stops at the
					// first empty fragment it meets in a partition
					m.db.VerifInternals().DMap.VerifJanitor()
					m.db.VerifInternals().Balancer.BalanceEagerly()
				}
			}
			cur := snapshot()
			if cur == prev {
				same++
				if same >= 3 {
					return "ok rounds=" + strconv.Itoa(round)
				}
			} else {
				same = 0
			}
			prev = cur
		}
		return "unsettled"
	})
	// c.balanceall: one synchronous balancer pass on every live member
	register("c.balanceall", func(a []string) string {
		for _, m := range cl.members {
			if m.alive {
				m.db.VerifInternals().Balancer.BalanceEagerly()
			}
		}
		return "ok"
	})
	// c.badrouting <m> <variant>: a routing-table push that is well formed on the wire (msgpack map with PartitionCount entries,
	// the real coordinator's id) but whose CONTENT is not a routing table: a partition id out of range ("oob"), an entry that
	// is nil ("nilroute"), both lists empty ("empty").  Sent over a raw connection - any client can.  Reply: the reply class
	// and whether the member still answers.
	register("c.badrouting", func(a []string) string {
		m := cl.members[atoi(a[0])]
		type wireRoute struct {
			Owners  []discovery.Member
			Backups []discovery.Member
		}
		iv := m.db.VerifInternals()
		parts := uint64(optInt(cl.opts, "parts", 7))
		table := map[uint64]*wireRoute{}
		for p := uint64(0); p < parts; p++ {
			table[p] = &wireRoute{Owners: iv.Primary.PartitionByID(p).Owners(), Backups: iv.Backup.PartitionByID(p).Owners()}
		}
		switch a[1] {
		case "oob":
			table[parts+5] = table[parts-1]
			delete(table, parts-1)
		case "nilroute":
			table[parts-1] = nil
		case "empty":
			table[parts-1] = &wireRoute{}
		}
		payload, err := msgpack.Marshal(table)
		if err != nil {
			return "err:" + err.Error()
		}
		ctx, cancel := opCtx()
		defer cancel()
		rc := redis.NewClient(&redis.Options{Addr: m.addr, MaxRetries: -1, DialTimeout: 2 * time.Second, ReadTimeout: 4 * time.Second})
		defer rc.Close()
		res := "R"
		if err := rc.Do(ctx, "internal.node.updaterouting", payload, strconv.FormatUint(iv.RT.VerifCoordinator().ID, 10)).Err(); err != nil {
			if _, isReply := err.(redis.Error); isReply {
				res = "E"
			} else {
				res = "noreply"
			}
		}
		if perr := cl.rawc(m).Ping(ctx).Err(); perr != nil {
			return res + " member-unresponsive:" + errClass(perr)
		}
		return res + " alive"
	})
	// c.badfragment <m> <variant>: a fragment hand-over (INTERNAL.NODE.MOVEFRAGMENT) for a partition the member owns, whose
	// table is a real encoded table with one field falsified: "offset" (write offset beyond the allocation), "hkey" (an index
	// entry pointing outside the table), "vlen" (a value length that runs past the end), "short" (less memory than the offset
	// says).  Reply: reply class and whether the member still answers.
	register("c.badfragment", func(a []string) string {
		m := cl.members[atoi(a[0])]
		iv := m.db.VerifInternals()
		parts := uint64(optInt(cl.opts, "parts", 7))
		partID, found := uint64(0), false
		for p := uint64(0); p < parts && !found; p++ {
			if iv.Primary.PartitionByID(p).Owner().String() == m.addr {
				partID, found = p, true
			}
		}
		if !found {
			return "no-partition"
		}
		t := table.New(512)
		e := entry.New()
		e.SetKey("crafted")
		e.SetValue([]byte("value-of-the-crafted-entry"))
		e.SetTimestamp(1)
		if err := t.Put(12345, e); err != nil {
			return "err:" + err.Error()
		}
		data, err := table.Encode(t)
		if err != nil {
			return "err:" + err.Error()
		}
		var pk table.Pack
		if err := msgpack.Unmarshal(data, &pk); err != nil {
			return "err:" + err.Error()
		}
		switch a[1] {
		case "offset":
			pk.Offset = pk.Allocated + 100
		case "hkey":
			pk.HKeys[12345] = pk.Allocated + 50
		case "vlen":
			// key length byte, key, ttl, timestamp, last access: the value length follows
			at := 1 + len("crafted") + 24
			pk.Memory[at], pk.Memory[at+1] = 0x7f, 0xff
		case "short":
			pk.Memory = pk.Memory[:len(pk.Memory)/2]
		}
		tdata, err := msgpack.Marshal(pk)
		if err != nil {
			return "err:" + err.Error()
		}
		type wirePack struct {
			PartID  uint64
			Kind    partitions.Kind
			Name    string
			Payload []byte
		}
		payload, err := msgpack.Marshal(wirePack{PartID: partID, Kind: partitions.PRIMARY, Name: "h", Payload: tdata})
		if err != nil {
			return "err:" + err.Error()
		}
		ctx, cancel := opCtx()
		defer cancel()
		rc := redis.NewClient(&redis.Options{Addr: m.addr, MaxRetries: -1, DialTimeout: 2 * time.Second, ReadTimeout: 4 * time.Second})
		defer rc.Close()
		res := "R"
		if err := rc.Do(ctx, "internal.node.movefragment", payload).Err(); err != nil {
			if _, isReply := err.(redis.Error); isReply {
				res = "E"
			} else {
				res = "noreply"
			}
		}
		if perr := cl.rawc(m).Ping(ctx).Err(); perr != nil {
			return res + " member-unresponsive:" + errClass(perr)
		}
		return res + " alive"
	})
	// r.put: c.put that the model does not mirror (streams whose model is the routing table only)
	register("r.put", func(a []string) string { return handlers["c.put"](a) })
	_ = context.Background
}
