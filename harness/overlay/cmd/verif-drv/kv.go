//go:build verif

package main

import (
	"errors"
	"fmt"
	"io"
	"sort"
	"strconv"
	"strings"
	"time"

	"github.com/olric-data/olric/internal/kvstore"
	"github.com/olric-data/olric/internal/kvstore/entry"
	"github.com/olric-data/olric/internal/kvstore/table"
	"github.com/olric-data/olric/internal/verifhook"
	"github.com/olric-data/olric/pkg/storage"
)

var stores = map[string]*kvstore.KVStore{}
var lastCursor = map[string]uint64{}

func kvErr(err error) string {
	switch {
	case err == nil:
		return "ok"
	case errors.Is(err, storage.ErrEntryTooLarge):
		return "toolarge"
	case errors.Is(err, storage.ErrKeyTooLarge):
		return "keytoolarge"
	case errors.Is(err, storage.ErrKeyNotFound):
		return "nf"
	}
	return "err:" + strings.ReplaceAll(err.Error(), " ", "_")
}

func fmtEntry(e storage.Entry) string {
	return fmt.Sprintf("%s %s %d %d %d", hx([]byte(e.Key())), hx(e.Value()), e.TTL(), e.Timestamp(), e.LastAccess())
}

func fmtSlot(s table.VerifSlot) string {
	if s.Bad {
		return fmt.Sprintf("%d@%d:BAD", s.HKey, s.Offset)
	}
	return fmt.Sprintf("%d@%d:%s:%s:%d:%d:%d", s.HKey, s.Offset, hx(s.Key), hx(s.Value), s.TTL, s.Timestamp, s.Access)
}

func stateName(s table.State) string {
	switch s {
	case table.ReadWriteState:
		return "rw"
	case table.ReadOnlyState:
		return "ro"
	case table.RecycledState:
		return "rc"
	}
	return "?" + strconv.Itoa(int(s))
}

func dumpStore(k *kvstore.KVStore) string {
	vs := k.VerifDump()
	var sb strings.Builder
	fmt.Fprintf(&sb, "ts=%d nextcf=%d tables=[", vs.TableSize, vs.Coefficient)
	for i, t := range vs.Tables {
		if i > 0 {
			sb.WriteString(";")
		}
		fmt.Fprintf(&sb, "%d/%s/%d/%d/%d/%d/%d/{", t.Coefficient, stateName(t.State), t.Offset, t.Allocated, t.Inuse, t.Garbage, t.RecycledAt)
		offs := make([]uint64, 0, len(t.Slots))
		for j, s := range t.Slots {
			if j > 0 {
				sb.WriteString(",")
			}
			sb.WriteString(fmtSlot(s))
			offs = append(offs, s.Offset)
		}
		sb.WriteString("}")
		// offsetIndex must be exactly the ascending offsets of the hkeys index
		same := len(offs) == len(t.OffsetIndex)
		if same {
			for j := range offs {
				if offs[j] != t.OffsetIndex[j] {
					same = false
				}
			}
		}
		if same {
			sb.WriteString("/idx=ok")
		} else {
			sb.WriteString("/idx=" + joinU64(t.OffsetIndex))
		}
	}
	sb.WriteString("] bycf=" + joinU64(vs.ByCf))
	if !vs.ByCfOK {
		sb.WriteString("!dangling")
	}
	return sb.String()
}

type loc struct {
	t   *table.Table
	off uint64
}

func snapshotLoc(k *kvstore.KVStore) map[uint64]loc {
	m := map[uint64]loc{}
	for _, t := range k.VerifTables() {
		for _, s := range t.VerifDump().Slots {
			if _, dup := m[s.HKey]; !dup {
				m[s.HKey] = loc{t, s.Offset}
			}
		}
	}
	return m
}

func newEntry(key, val []byte, ttl, ts int64) storage.Entry {
	e := entry.New()
	e.SetKey(string(key))
	e.SetValue(val)
	e.SetTTL(ttl)
	e.SetTimestamp(ts)
	return e
}

func init() {
	register("clock", func(a []string) string {
		verifhook.SetClock(i64(a[0]))
		return "ok"
	})
	register("kv.new", func(a []string) string {
		// kv.new <id> <tableSize> <maxIdleNs> : a store as every DMap fragment gets it (Fork)
		c := storage.NewConfig(nil)
		c.Add("tableSize", u64(a[1]))
		c.Add("maxIdleTableTimeout", time.Duration(i64(a[2])))
		parent, err := kvstore.New(c)
		if err != nil {
			return kvErr(err)
		}
		child, err := parent.Fork(nil)
		if err != nil {
			return kvErr(err)
		}
		stores[a[0]] = child.(*kvstore.KVStore)
		return "ok"
	})
	register("kv.empty", func(a []string) string {
		c := storage.NewConfig(nil)
		c.Add("tableSize", u64(a[1]))
		c.Add("maxIdleTableTimeout", time.Duration(i64(a[2])))
		k, err := kvstore.New(c)
		if err != nil {
			return kvErr(err)
		}
		stores[a[0]] = k
		return "ok"
	})
	register("put", func(a []string) string {
		k := stores[a[0]]
		return kvErr(k.Put(u64(a[1]), newEntry(unhx(a[2]), unhx(a[3]), i64(a[4]), i64(a[5]))))
	})
	register("putraw", func(a []string) string {
		k := stores[a[0]]
		e := newEntry(unhx(a[2]), unhx(a[3]), i64(a[4]), i64(a[5]))
		e.SetLastAccess(i64(a[6]))
		return kvErr(k.PutRaw(u64(a[1]), e.Encode()))
	})
	register("get", func(a []string) string {
		e, err := stores[a[0]].Get(u64(a[1]))
		if err != nil {
			return kvErr(err)
		}
		return fmtEntry(e)
	})
	register("getraw", func(a []string) string {
		raw, err := stores[a[0]].GetRaw(u64(a[1]))
		if err != nil {
			return kvErr(err)
		}
		e := entry.New()
		e.Decode(raw)
		return fmtEntry(e)
	})
	register("getttl", func(a []string) string {
		v, err := stores[a[0]].GetTTL(u64(a[1]))
		if err != nil {
			return kvErr(err)
		}
		return strconv.FormatInt(v, 10)
	})
	register("getla", func(a []string) string {
		v, err := stores[a[0]].GetLastAccess(u64(a[1]))
		if err != nil {
			return kvErr(err)
		}
		return strconv.FormatInt(v, 10)
	})
	register("getkey", func(a []string) string {
		v, err := stores[a[0]].GetKey(u64(a[1]))
		if err != nil {
			return kvErr(err)
		}
		return hx([]byte(v))
	})
	register("check", func(a []string) string {
		return strconv.FormatBool(stores[a[0]].Check(u64(a[1])))
	})
	register("del", func(a []string) string {
		return kvErr(stores[a[0]].Delete(u64(a[1])))
	})
	register("updttl", func(a []string) string {
		e := entry.New()
		e.SetTTL(i64(a[2]))
		e.SetTimestamp(i64(a[3]))
		return kvErr(stores[a[0]].UpdateTTL(u64(a[1]), e))
	})
	register("stats", func(a []string) string {
		s := stores[a[0]].Stats()
		return fmt.Sprintf("%d %d %d %d %d", s.Allocated, s.Inuse, s.Garbage, s.Length, s.NumTables)
	})
	register("range", func(a []string) string {
		type item struct {
			hk uint64
			s  string
		}
		var items []item
		stores[a[0]].Range(func(hkey uint64, e storage.Entry) bool {
			items = append(items, item{hkey, fmt.Sprintf("%d:%s", hkey, strings.ReplaceAll(fmtEntry(e), " ", ":"))})
			return true
		})
		sort.SliceStable(items, func(i, j int) bool { return items[i].hk < items[j].hk })
		ss := []string{"n=" + strconv.Itoa(len(items))}
		for _, it := range items {
			ss = append(ss, it.s)
		}
		return strings.Join(ss, " ")
	})
	// rangestop <sid> <n>: Range that stops after n entries (what the LRU sampling does)
	register("rangestop", func(a []string) string {
		n, seen := atoi(a[1]), 0
		stores[a[0]].Range(func(hkey uint64, e storage.Entry) bool {
			seen++
			return seen < n
		})
		return "ok"
	})
	register("rangehkey", func(a []string) string {
		var hs []uint64
		stores[a[0]].RangeHKey(func(hkey uint64) bool {
			hs = append(hs, hkey)
			return true
		})
		sort.Slice(hs, func(i, j int) bool { return hs[i] < hs[j] })
		return joinU64(hs)
	})
	register("compact", func(a []string) string {
		k := stores[a[0]]
		before := snapshotLoc(k)
		done, err := k.Compaction()
		if err != nil {
			return kvErr(err)
		}
		if done {
			return "done"
		}
		// recover the Range order from where the moved entries landed
		tabs := k.VerifTables()
		idx := map[*table.Table]int{}
		for i, t := range tabs {
			idx[t] = i
		}
		type mv struct {
			hk  uint64
			ti  int
			off uint64
		}
		var moved []mv
		for hk, l := range snapshotLoc(k) {
			if b, ok := before[hk]; ok && (b.t != l.t || b.off != l.off) {
				moved = append(moved, mv{hk, idx[l.t], l.off})
			}
		}
		sort.Slice(moved, func(i, j int) bool {
			if moved[i].ti != moved[j].ti {
				return moved[i].ti < moved[j].ti
			}
			return moved[i].off < moved[j].off
		})
		order := make([]uint64, len(moved))
		for i, m := range moved {
			order[i] = m.hk
		}
		return "more order=" + joinU64(order)
	})
	register("xfer", func(a []string) string {
		src, dst := stores[a[0]], stores[a[1]]
		it := src.TransferIterator()
		if !it.Next() {
			return "eof"
		}
		data, index, err := it.Export()
		if err == io.EOF {
			return "eof"
		}
		if err != nil {
			return kvErr(err)
		}
		var order []uint64
		err = dst.Import(data, func(hkey uint64, e storage.Entry) error {
			order = append(order, hkey)
			cur, gerr := dst.Get(hkey)
			if errors.Is(gerr, storage.ErrKeyNotFound) {
				return dst.Put(hkey, e)
			}
			if gerr != nil {
				return gerr
			}
			if e.Timestamp() >= cur.Timestamp() {
				return dst.Put(hkey, e)
			}
			return nil
		})
		if err != nil {
			return kvErr(err)
		}
		if err := it.Drop(index); err != nil {
			return kvErr(err)
		}
		return "ok order=" + joinU64(order)
	})
	register("scan", func(a []string) string {
		// scan <id> <cursor> <count> <prefixhex|*>
		k := stores[a[0]]
		var keys []string
		cursor := lastCursor[a[0]]
		if a[1] != "@" {
			cursor = u64(a[1])
		}
		f := func(e storage.Entry) bool {
			keys = append(keys, hx([]byte(e.Key())))
			return true
		}
		var next uint64
		var err error
		if a[3] == "*" {
			next, err = k.Scan(cursor, atoi(a[2]), f)
		} else {
			// the model's matcher is "key has this prefix"; as a regular expression: ^\Q..\E
			expr := "^" + regexpQuote(unhx(a[3]))
			next, err = k.ScanRegexMatch(cursor, expr, atoi(a[2]), f)
		}
		if err != nil {
			return kvErr(err)
		}
		lastCursor[a[0]] = next
		return strings.TrimSpace(strconv.FormatUint(next, 10) + " " + strings.Join(keys, " "))
	})
	register("dump", func(a []string) string { return dumpStore(stores[a[0]]) })

	// ---- alias stream (C18): keep what the store handed out, look at it again later
	register("hold", func(a []string) string {
		e, err := stores[a[0]].Get(u64(a[1]))
		if err != nil {
			return kvErr(err)
		}
		keep(e.Value())
		keepKey(e.Key())
		return fmtEntry(e)
	})
	register("holdpage", func(a []string) string {
		k := stores[a[0]]
		cursor := lastCursor[a[0]]
		if a[1] != "@" {
			cursor = u64(a[1])
		}
		var keys []string
		next, err := k.Scan(cursor, atoi(a[2]), func(e storage.Entry) bool {
			keys = append(keys, hx([]byte(e.Key())))
			keep(e.Value())
			keepKey(e.Key())
			return true
		})
		if err != nil {
			return kvErr(err)
		}
		lastCursor[a[0]] = next
		return strings.TrimSpace(strconv.FormatUint(next, 10) + " " + strings.Join(keys, " "))
	})
	register("heldcheck", func(a []string) string {
		for i, h := range held {
			if !bytesEqual(h.live, h.saved) {
				return fmt.Sprintf("changed %d was=%s now=%s", i, hx(h.saved), hx(h.live))
			}
		}
		for i, h := range heldKeys {
			if h.live != h.saved {
				return fmt.Sprintf("changed key %d was=%s now=%s", i, hx([]byte(h.saved)), hx([]byte(h.live)))
			}
		}
		return "ok " + strconv.Itoa(len(held))
	})
	register("poke", func(a []string) string {
		i := atoi(a[0])
		if i >= len(held) {
			return "none"
		}
		if spare := held[i].live[len(held[i].live):cap(held[i].live)]; len(spare) > 0 {
			scribble(spare) // what an append within capacity would overwrite
		}
		if len(held[i].live) == 0 {
			return "empty"
		}
		for j := range held[i].live {
			held[i].live[j] ^= 0xff
		}
		held[i].saved = append([]byte{}, held[i].live...)
		return "poked"
	})
	register("putbuf", func(a []string) string {
		// Put, then reuse (scribble over) the buffers that were passed in
		k := stores[a[0]]
		key, val := unhx(a[2]), unhx(a[3])
		e := newEntry(key, val, i64(a[4]), i64(a[5]))
		err := k.Put(u64(a[1]), e)
		for j := range val {
			val[j] = 0xEE
		}
		for j := range key {
			key[j] = 0xEE
		}
		return kvErr(err)
	})
}

type heldValue struct {
	live  []byte // the very slice the store handed out
	saved []byte // its content at that moment
}

var held []heldValue

func keep(v []byte) { held = append(held, heldValue{v, append([]byte{}, v...)}) }

// a key handed out by the store (a Go string: immutable for the caller, unless it shares its bytes with the table)
type heldKey struct {
	live  string // the very string the store handed out
	saved string // a copy of its bytes at that moment
}

var heldKeys []heldKey

func keepKey(k string) { heldKeys = append(heldKeys, heldKey{k, string(append([]byte{}, k...))}) }

func bytesEqual(a, b []byte) bool {
	if len(a) != len(b) {
		return false
	}
	for i := range a {
		if a[i] != b[i] {
			return false
		}
	}
	return true
}

func regexpQuote(b []byte) string {
	var sb strings.Builder
	for _, c := range b {
		fmt.Fprintf(&sb, "\\x%02x", c)
	}
	return sb.String()
}
