//go:build verif

package main

import (
	"fmt"
	"sort"
	"strconv"
	"strings"
	"time"

	"github.com/tidwall/redcon"
)

func b01(b bool) string {
	if b {
		return "1"
	}
	return "0"
}

func init() {
	// numok <hextok> : which of strconv's parsers accept this token (int, uint, float, atoi)
	register("numok", func(a []string) string {
		s := string(unhx(a[0]))
		_, e1 := strconv.ParseInt(s, 10, 64)
		_, e2 := strconv.ParseUint(s, 10, 64)
		_, e3 := strconv.ParseFloat(s, 64)
		_, e4 := strconv.Atoi(s)
		return "ok pick=" + b01(e1 == nil) + b01(e2 == nil) + b01(e3 == nil) + b01(e4 == nil)
	})
	register("parsers", func(a []string) string {
		var names []string
		for n := range parserRegistry {
			names = append(names, n)
		}
		sort.Strings(names)
		return strings.Join(names, ",")
	})
	// parse <Name> <hexarg>... : outcome class of the real parser on this argument vector
	register("parse", func(a []string) string {
		f, ok := parserRegistry[a[0]]
		if !ok {
			return "unknown-parser"
		}
		var cmd redcon.Command
		for _, x := range a[1:] {
			cmd.Args = append(cmd.Args, unhx(x))
		}
		done := make(chan string, 1)
		go func() {
			defer func() {
				if r := recover(); r != nil {
					done <- "crash:" + strings.ReplaceAll(fmt.Sprint(r), " ", "_")
				}
			}()
			if err := f(cmd); err != nil {
				done <- "err"
			} else {
				done <- "ok"
			}
		}()
		select {
		case r := <-done:
			if strings.HasPrefix(r, "crash:") {
				return "panic " + r
			}
			return r
		case <-time.After(1500 * time.Millisecond):
			return "spin"
		}
	})
}
