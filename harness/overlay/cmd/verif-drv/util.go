//go:build verif

package main

import (
	"encoding/hex"
	"strconv"
	"strings"
)

func hx(b []byte) string {
	if len(b) == 0 {
		return "-"
	}
	return hex.EncodeToString(b)
}

func unhx(s string) []byte {
	if s == "-" {
		return []byte{}
	}
	b, err := hex.DecodeString(s)
	if err != nil {
		panic("bad hex: " + s)
	}
	return b
}

func u64(s string) uint64 {
	v, err := strconv.ParseUint(s, 10, 64)
	if err != nil {
		panic("bad uint: " + s)
	}
	return v
}

func i64(s string) int64 {
	v, err := strconv.ParseInt(s, 10, 64)
	if err != nil {
		panic("bad int: " + s)
	}
	return v
}

func atoi(s string) int { return int(i64(s)) }

func joinU64(xs []uint64) string {
	if len(xs) == 0 {
		return "-"
	}
	ss := make([]string, len(xs))
	for i, x := range xs {
		ss[i] = strconv.FormatUint(x, 10)
	}
	return strings.Join(ss, ",")
}

// scribble overwrites a buffer the harness handed to the code under test: a value that was kept by
// reference instead of being copied shows up as 0x58 bytes in what is stored or sent later.
func scribble(b []byte) {
	// the spare capacity is the caller's as well (an append within capacity writes there): for a slice that is a
	// window into somebody else's memory - even an empty one - this is where the damage shows
	b = b[:cap(b)]
	for i := range b {
		b[i] = 0x58
	}
}
