//go:build verif

package main

import (
	"context"
	"fmt"
	"sort"
	"strconv"
	"strings"
	"time"

	"github.com/redis/go-redis/v9"
)

type psConn struct {
	rc    *redis.Client
	ps    *redis.PubSub
	inbox chan interface{}
	m     int
}

var psConns = map[string]*psConn{}

func psKey(m, c string) string { return m + ":" + c }

func getPS(m, c string) *psConn {
	k := psKey(m, c)
	if pc, ok := psConns[k]; ok {
		return pc
	}
	mem := cl.members[atoi(m)]
	rc := redis.NewClient(&redis.Options{Addr: mem.addr, MaxRetries: -1})
	ps := rc.Subscribe(ctxBg)
	pc := &psConn{rc: rc, ps: ps, inbox: make(chan interface{}, 4096), m: atoi(m)}
	psConns[k] = pc
	return pc
}

func (pc *psConn) start() {
	go func() {
		for {
			msg, err := pc.ps.Receive(ctxBg)
			if err != nil {
				return
			}
			pc.inbox <- msg
		}
	}()
}

// waitSub waits for a (p)(un)subscribe confirmation of the given kind; messages that arrive meanwhile are kept
func (pc *psConn) waitSub(kind string, pending *[]interface{}) (*redis.Subscription, bool) {
	deadline := time.After(2 * time.Second)
	for {
		select {
		case x := <-pc.inbox:
			if s, ok := x.(*redis.Subscription); ok && s.Kind == kind {
				return s, true
			}
			*pending = append(*pending, x)
		case <-deadline:
			return nil, false
		}
	}
}

var psPending = map[string][]interface{}{}
var psStarted = map[string]bool{}

func init() {
	sub := func(kind string) handler {
		return func(a []string) string {
			pc := getPS(a[0], a[1])
			k := psKey(a[0], a[1])
			name := string(unhx(a[2]))
			var err error
			if kind == "subscribe" {
				err = pc.ps.Subscribe(ctxBg, name)
			} else {
				err = pc.ps.PSubscribe(ctxBg, name)
			}
			if err != nil {
				return errClass(err)
			}
			if !psStarted[k] {
				psStarted[k] = true
				pc.start()
			}
			pend := psPending[k]
			s, ok := pc.waitSub(kind, &pend)
			psPending[k] = pend
			if !ok {
				return "no-confirmation"
			}
			return "count=" + strconv.Itoa(s.Count)
		}
	}
	register("ps.sub", sub("subscribe"))
	register("ps.psub", sub("psubscribe"))
	unsub := func(kind string) handler {
		return func(a []string) string {
			k := psKey(a[0], a[1])
			pc, ok := psConns[k]
			if !ok || !psStarted[k] {
				return "not-subscribed"
			}
			var err error
			all := len(a) < 3
			if kind == "unsubscribe" {
				if all {
					err = pc.ps.Unsubscribe(ctxBg)
				} else {
					err = pc.ps.Unsubscribe(ctxBg, string(unhx(a[2])))
				}
			} else {
				if all {
					err = pc.ps.PUnsubscribe(ctxBg)
				} else {
					err = pc.ps.PUnsubscribe(ctxBg, string(unhx(a[2])))
				}
			}
			if err != nil {
				return errClass(err)
			}
			pend := psPending[k]
			last := -1
			for {
				s, ok := pc.waitSub(kind, &pend)
				if !ok {
					psPending[k] = pend
					return "no-confirmation"
				}
				last = s.Count
				if !all || s.Count == 0 {
					break
				}
			}
			psPending[k] = pend
			return "count=" + strconv.Itoa(last)
		}
	}
	register("ps.unsub", unsub("unsubscribe"))
	register("ps.punsub", unsub("punsubscribe"))
	register("ps.close", func(a []string) string {
		k := psKey(a[0], a[1])
		pc, ok := psConns[k]
		if !ok {
			return "ok"
		}
		svc := cl.members[pc.m].db.VerifInternals().PubSub
		before := svc.VerifConnCount()
		_ = pc.ps.Close()
		_ = pc.rc.Close()
		delete(psConns, k)
		delete(psPending, k)
		started := psStarted[k]
		delete(psStarted, k)
		if started {
			for i := 0; i < 200 && svc.VerifConnCount() >= before && before > 0; i++ {
				time.Sleep(5 * time.Millisecond)
			}
		}
		return "ok"
	})
	// ps.pub <m> <chhex> <msghex>: PUBLISH through member m, then collect what every connection received
	register("ps.pub", func(a []string) string {
		mem := cl.members[atoi(a[0])]
		ctx, cancel := context.WithTimeout(ctxBg, 5*time.Second)
		defer cancel()
		n, err := cl.rawc(mem).Do(ctx, "PUBLISH", string(unhx(a[1])), string(unhx(a[2]))).Int()
		if err != nil {
			return errClass(err)
		}
		got := map[string][]string{}
		total := 0
		take := func(k string, x interface{}) {
			if msg, ok := x.(*redis.Message); ok {
				kind := "message"
				if msg.Pattern != "" {
					kind = "pmessage"
				}
				got[k] = append(got[k], fmt.Sprintf("%s/%s/%s/%s", kind, hx([]byte(msg.Pattern)), hx([]byte(msg.Channel)), hx([]byte(msg.Payload))))
				total++
			}
		}
		for k, pend := range psPending {
			for _, x := range pend {
				take(k, x)
			}
			psPending[k] = nil
		}
		deadline := time.Now().Add(500 * time.Millisecond)
		for time.Now().Before(deadline) {
			progressed := false
			for k, pc := range psConns {
				for {
					select {
					case x := <-pc.inbox:
						take(k, x)
						progressed = true
						continue
					default:
					}
					break
				}
			}
			if total >= n {
				break
			}
			if !progressed {
				time.Sleep(2 * time.Millisecond)
			}
		}
		// a short grace period for deliveries nobody asked for
		time.Sleep(15 * time.Millisecond)
		for k, pc := range psConns {
			for {
				select {
				case x := <-pc.inbox:
					take(k, x)
					continue
				default:
				}
				break
			}
		}
		var keys []string
		for k := range got {
			keys = append(keys, k)
		}
		sort.Strings(keys)
		var parts []string
		for _, k := range keys {
			parts = append(parts, k+"="+strings.Join(got[k], ","))
		}
		if len(parts) == 0 {
			parts = []string{"-"}
		}
		return fmt.Sprintf("count=%d %s", n, strings.Join(parts, " "))
	})
	register("ps.channels", func(a []string) string {
		mem := cl.members[atoi(a[0])]
		args := []interface{}{"pubsub", "channels"}
		if len(a) > 1 {
			args = append(args, string(unhx(a[1])))
		}
		res, err := cl.rawc(mem).Do(ctxBg, args...).StringSlice()
		if err != nil {
			return errClass(err)
		}
		hs := make([]string, len(res))
		for i, r := range res {
			hs[i] = hx([]byte(r))
		}
		sort.Strings(hs)
		if len(hs) == 0 {
			return "-"
		}
		return strings.Join(hs, ",")
	})
	register("ps.numsub", func(a []string) string {
		mem := cl.members[atoi(a[0])]
		args := []interface{}{"pubsub", "numsub"}
		for _, c := range a[1:] {
			args = append(args, string(unhx(c)))
		}
		res, err := cl.rawc(mem).Do(ctxBg, args...).Slice()
		if err != nil {
			return errClass(err)
		}
		var out []string
		for i := 0; i+1 < len(res); i += 2 {
			out = append(out, fmt.Sprintf("%s:%v", hx([]byte(fmt.Sprint(res[i]))), res[i+1]))
		}
		if len(out) == 0 {
			return "-"
		}
		return strings.Join(out, ",")
	})
	register("ps.numpat", func(a []string) string {
		mem := cl.members[atoi(a[0])]
		n, err := cl.rawc(mem).Do(ctxBg, "pubsub", "numpat").Int()
		if err != nil {
			return errClass(err)
		}
		return strconv.Itoa(n)
	})
}
