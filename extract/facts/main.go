// facts: reads the Go sources of /repo (go/ast only) and writes OlricModel/Generated/Facts.lean:
// constants and structural facts the Lean model depends on.  Every rule is syntactic and small; a
// fact is never the property itself, it pins down which behaviour the hand-written model encodes.
//
// usage: facts <repo> <out.lean>
package main

import (
	"fmt"
	"go/ast"
	"go/parser"
	"go/token"
	"os"
	"path/filepath"
	"sort"
	"strconv"
	"strings"
)

var fset = token.NewFileSet()
var repo string

func parse(rel string) *ast.File {
	f, err := parser.ParseFile(fset, filepath.Join(repo, rel), nil, parser.ParseComments)
	if err != nil {
		fmt.Fprintln(os.Stderr, "parse:", err)
		return nil
	}
	return f
}

// funcDecl finds `func (recv) name` (recvType "" = plain function).
func funcDecl(f *ast.File, recvType, name string) *ast.FuncDecl {
	if f == nil {
		return nil
	}
	for _, d := range f.Decls {
		fd, ok := d.(*ast.FuncDecl)
		if !ok || fd.Name.Name != name {
			continue
		}
		if recvType == "" {
			if fd.Recv == nil {
				return fd
			}
			continue
		}
		if fd.Recv == nil || len(fd.Recv.List) == 0 {
			continue
		}
		t := fd.Recv.List[0].Type
		if st, ok := t.(*ast.StarExpr); ok {
			t = st.X
		}
		if id, ok := t.(*ast.Ident); ok && id.Name == recvType {
			return fd
		}
	}
	return nil
}

func src(n ast.Node) string {
	if n == nil {
		return ""
	}
	b, _ := os.ReadFile(fset.Position(n.Pos()).Filename)
	return string(b[fset.Position(n.Pos()).Offset:fset.Position(n.End()).Offset])
}

func constValue(f *ast.File, name string) string {
	if f == nil {
		return ""
	}
	for _, d := range f.Decls {
		gd, ok := d.(*ast.GenDecl)
		if !ok || gd.Tok != token.CONST {
			continue
		}
		for _, s := range gd.Specs {
			vs := s.(*ast.ValueSpec)
			for i, n := range vs.Names {
				if n.Name == name && i < len(vs.Values) {
					return src(vs.Values[i])
				}
			}
		}
	}
	return ""
}

// callsTo lists, in source order, the names of functions/methods called in a body.
func callsTo(fd *ast.FuncDecl) []string {
	var out []string
	if fd == nil || fd.Body == nil {
		return out
	}
	ast.Inspect(fd.Body, func(n ast.Node) bool {
		if c, ok := n.(*ast.CallExpr); ok {
			switch fn := c.Fun.(type) {
			case *ast.Ident:
				out = append(out, fn.Name)
			case *ast.SelectorExpr:
				out = append(out, fn.Sel.Name)
			}
		}
		return true
	})
	return out
}

func index(xs []string, x string) int {
	for i, y := range xs {
		if y == x {
			return i
		}
	}
	return -1
}

type fact struct{ name, typ, val, doc string }

var facts []fact

func add(name, typ, val, doc string) { facts = append(facts, fact{name, typ, val, doc}) }
func addBool(name string, v bool, doc string) {
	add(name, "Bool", strconv.FormatBool(v), doc)
}
func addNat(name string, v string, doc string) {
	if _, err := strconv.ParseUint(v, 10, 64); err != nil {
		v = "0 /- unparsed: " + strings.ReplaceAll(v, "-/", "") + " -/"
	}
	add(name, "Nat", v, doc)
}

// setValueArgKind: how the argument of e.SetValue(...) in fd is produced: "copy" if it is an
// identifier assigned from make(...) and filled by copy(ident, ...); "view" if it is a slice
// expression of t.memory; "mixed" if both occur; "unknown" otherwise.
func setValueArgKind(fd *ast.FuncDecl) string {
	if fd == nil {
		return "missing"
	}
	made := map[string]bool{}
	copied := map[string]bool{}
	ast.Inspect(fd.Body, func(n ast.Node) bool {
		switch x := n.(type) {
		case *ast.AssignStmt:
			if len(x.Lhs) == 1 && len(x.Rhs) == 1 {
				if id, ok := x.Lhs[0].(*ast.Ident); ok {
					if c, ok := x.Rhs[0].(*ast.CallExpr); ok {
						if fn, ok := c.Fun.(*ast.Ident); ok && fn.Name == "make" {
							made[id.Name] = true
						}
					}
				}
			}
		case *ast.CallExpr:
			if fn, ok := x.Fun.(*ast.Ident); ok && fn.Name == "copy" && len(x.Args) == 2 {
				if id, ok := x.Args[0].(*ast.Ident); ok {
					copied[id.Name] = true
				}
			}
		}
		return true
	})
	kinds := map[string]bool{}
	ast.Inspect(fd.Body, func(n ast.Node) bool {
		c, ok := n.(*ast.CallExpr)
		if !ok {
			return true
		}
		sel, ok := c.Fun.(*ast.SelectorExpr)
		if !ok || sel.Sel.Name != "SetValue" || len(c.Args) != 1 {
			return true
		}
		switch a := c.Args[0].(type) {
		case *ast.Ident:
			if made[a.Name] && copied[a.Name] {
				kinds["copy"] = true
			} else {
				kinds["unknown"] = true
			}
		case *ast.SliceExpr:
			kinds["view"] = true
		default:
			kinds["unknown"] = true
		}
		return true
	})
	if len(kinds) == 0 {
		return "missing"
	}
	if len(kinds) > 1 {
		return "mixed"
	}
	for k := range kinds {
		return k
	}
	return "unknown"
}

func main() {
	if len(os.Args) < 3 {
		fmt.Fprintln(os.Stderr, "usage: facts <repo> <out.lean>")
		os.Exit(2)
	}
	repo = os.Args[1]
	tableGo := parse("internal/kvstore/table/table.go")
	kvGo := parse("internal/kvstore/kvstore.go")
	compGo := parse("internal/kvstore/compaction.go")

	// ---- constants
	addNat("maxKeyLength", constValue(tableGo, "MaxKeyLength"), "table.MaxKeyLength")
	addNat("metadataLength", constValue(tableGo, "MetadataLength"), "table.MetadataLength")
	ratio := constValue(kvGo, "maxGarbageRatio")
	num, den := "0", "1"
	if r, err := strconv.ParseFloat(ratio, 64); err == nil {
		num = strconv.Itoa(int(r*100 + 0.5))
		den = "100"
	}
	addNat("maxGarbageRatioNum", num, "kvstore.maxGarbageRatio = "+ratio+" as num/den")
	addNat("maxGarbageRatioDen", den, "")

	// ---- structural facts: storage engine
	k1 := setValueArgKind(funcDecl(tableGo, "Table", "Get"))
	k2 := setValueArgKind(funcDecl(tableGo, "Table", "get"))
	addBool("table_get_copies_value", k1 == "copy" && k2 == "copy",
		"Table.Get ("+k1+") and Table.get ("+k2+"): the value handed to SetValue is a fresh make+copy")
	pr := callsTo(funcDecl(tableGo, "Table", "PutRaw"))
	addBool("table_putraw_deletes_existing", index(pr, "Delete") >= 0, "Table.PutRaw calls t.Delete before re-indexing the hkey")
	pp := callsTo(funcDecl(tableGo, "Table", "Put"))
	addBool("table_put_deletes_existing", index(pp, "Delete") >= 0, "Table.Put calls t.Delete before re-indexing the hkey")
	comp := funcDecl(compGo, "KVStore", "Compaction")
	isOK := funcDecl(compGo, "KVStore", "isCompactionOK")
	deadTables := false
	if isOK != nil && len(isOK.Body.List) >= 3 {
		// s := t.Stats(); if s.Inuse == 0 && s.Garbage > 0 { return true }; return float64(s.Garbage) >= float64(s.Allocated)*maxGarbageRatio
		if ifs, ok := isOK.Body.List[1].(*ast.IfStmt); ok {
			cond := strings.Join(strings.Fields(src(ifs.Cond)), " ")
			body := ""
			if len(ifs.Body.List) == 1 {
				body = strings.Join(strings.Fields(src(ifs.Body.List[0])), " ")
			}
			last := strings.Join(strings.Fields(src(isOK.Body.List[len(isOK.Body.List)-1])), " ")
			deadTables = cond == "s.Inuse == 0 && s.Garbage > 0" && body == "return true" && ifs.Else == nil &&
				last == "return float64(s.Garbage) >= float64(s.Allocated)*maxGarbageRatio"
		}
	}
	addBool("compaction_takes_tables_without_live_entries", deadTables,
		"isCompactionOK answers true for a table with Inuse == 0 and Garbage > 0, and otherwise compares Garbage with Allocated*maxGarbageRatio")
	addBool("compaction_skips_readwrite", strings.Contains(src(comp), "ReadWriteState"), "Compaction mentions table.ReadWriteState (skips the head table)")
	// a table that arrives over the network is checked before it is built
	packGo := parse("internal/kvstore/table/pack.go")
	packOK := false
	for _, d := range packGo.Decls {
		fd, ok := d.(*ast.FuncDecl)
		if !ok || fd.Name.Name != "Decode" {
			continue
		}
		pv := funcDecl(packGo, "Pack", "validate")
		packOK = pv != nil && orderedIn(src(fd), "msgpack.Unmarshal(data, p)", "p.validate()", "return nil, err", "New(p.Allocated)") &&
			orderedIn(src(pv), "p.Offset > p.Allocated", "uint64(len(p.Memory)) != p.Offset", "return ErrMalformedPack", "for _, offset := range p.HKeys", "offset >= p.Offset",
				"end+4 > p.Offset", "binary.BigEndian.Uint32(p.Memory[end:end+4])", "end > p.Offset", "return nil")
	}
	addBool("table_pack_is_checked_before_a_table_is_built", packOK, "table.Decode validates sizes and every indexed entry of a received pack before it allocates and fills a table")
	sweepDeletes := false
	if comp != nil {
		ast.Inspect(comp.Body, func(n ast.Node) bool {
			if c, ok := n.(*ast.CallExpr); ok {
				if fn, ok := c.Fun.(*ast.Ident); ok && fn.Name == "delete" && strings.Contains(src(c), "tablesByCoefficient") {
					sweepDeletes = true
				}
			}
			return true
		})
	}
	addBool("sweep_unregisters_by_coefficient", sweepDeletes, "the recycle sweep deletes from tablesByCoefficient (by the reset coefficient)")

	// ---- structural facts: which configuration applies to a DMap (C09 default TTL, C10 limits)
	dcfgGo := parse("internal/dmap/config.go")
	loadFn := funcDecl(dcfgGo, "dmapConfig", "load")
	cfgOK := false
	if loadFn != nil {
		t := strings.Join(strings.Fields(src(loadFn)), " ")
		need := []string{
			"c.maxIdleDuration = dc.MaxIdleDuration", "c.ttlDuration = dc.TTLDuration", "c.maxKeys = dc.MaxKeys",
			"c.maxInuse = dc.MaxInuse", "c.lruSamples = dc.LRUSamples", "c.evictionPolicy = dc.EvictionPolicy", "c.engine = dc.Engine",
			"cs, ok := dc.Custom[name]",
			"c.maxIdleDuration = cs.MaxIdleDuration", "c.ttlDuration = cs.TTLDuration", "c.evictionPolicy = cs.EvictionPolicy",
			"c.maxKeys = cs.MaxKeys", "c.maxInuse = cs.MaxInuse", "c.lruSamples = cs.LRUSamples",
			"if c.engine == nil { c.engine = cs.Engine }",
			"if c.evictionPolicy == config.LRUEviction {",
			"if c.lruSamples == 0 { c.lruSamples = config.DefaultLRUSamples }",
		}
		cfgOK = true
		for _, n := range need {
			if !strings.Contains(t, n) {
				cfgOK = false
			}
		}
	}
	addBool("dmap_config_custom_section_overrides_global", cfgOK,
		"dmapConfig.load starts from the global DMaps settings, takes every setting of the DMap's custom section when there is one (the engine only when the global one is missing), and fills in the default LRU sample count according to the DMap's own policy")

	// ---- structural facts: the compaction worker (C20, cluster level)
	dcompGo := parse("internal/dmap/compaction.go")
	doComp := funcDecl(dcompGo, "Service", "doCompaction")
	callComp := funcDecl(dcompGo, "Service", "callCompactionOnFragment")
	workerOK := false
	if doComp != nil && callComp != nil {
		body := strings.Join(strings.Fields(src(doComp)), " ")
		both := strings.Contains(body, "s.primary.PartitionByID(partID)") && strings.Contains(body, "s.backup.PartitionByID(partID)") &&
			strings.Count(body, "compaction(") >= 2 && strings.Contains(body, "return s.callCompactionOnFragment(f)")
		// callCompactionOnFragment: an unconditional for loop around f.Compaction() that leaves with true on done / error
		loop := false
		for _, st := range callComp.Body.List {
			if fs, ok := st.(*ast.ForStmt); ok && fs.Cond == nil {
				t := strings.Join(strings.Fields(src(fs.Body)), " ")
				loop = strings.Contains(t, "done, err := f.Compaction()") && strings.Contains(t, "if done { return true }") &&
					!strings.Contains(t, "break")
			}
		}
		workerOK = both && loop
	}
	fragGoC := parse("internal/dmap/fragment.go")
	fragComp := funcDecl(fragGoC, "fragment", "Compaction")
	closedDone := false
	if fragComp != nil {
		ast.Inspect(fragComp.Body, func(n ast.Node) bool {
			if cc, ok := n.(*ast.CommClause); ok && cc.Comm != nil && strings.Contains(src(cc.Comm), "f.ctx.Done()") {
				for _, st := range cc.Body {
					if rs, ok := st.(*ast.ReturnStmt); ok {
						closedDone = strings.Join(strings.Fields(src(rs)), " ") == "return true, nil"
					}
				}
			}
			return true
		})
	}
	addBool("closed_fragment_compaction_answers_done", closedDone,
		"fragment.Compaction answers (true, nil) for a closed fragment: the worker's call-until-done loop ends")
	addBool("compaction_worker_runs_primary_and_backup_until_done", workerOK,
		"doCompaction runs callCompactionOnFragment on every dmap fragment of the primary and of the backup partition; that function calls f.Compaction() until it answers done")

	// ---- structural facts: the client pipeline (C15)
	pipeGo := parse("pipeline.go")
	pipeOK := false
	if pipeGo != nil {
		norm := func(n ast.Node) string { return strings.Join(strings.Fields(src(n)), " ") }
		addC := funcDecl(pipeGo, "DMapPipeline", "addCommand")
		execP := funcDecl(pipeGo, "DMapPipeline", "execOnPartition")
		okAdd := addC != nil && strings.Contains(norm(addC.Body), "dp.commands[partID] = append(cmds, cmd)") &&
			strings.Contains(norm(addC.Body), "return partID, len(dp.commands[partID]) - 1") &&
			strings.Contains(norm(addC.Body), "partID := hkey % dp.dm.clusterClient.partitionCount")
		okExec := execP != nil && orderedIn(norm(execP.Body), "commands := dp.commands[partID]",
			"for _, cmd := range commands { pipe.Do(ctx, cmd.Args()...) }", "result, _ := pipe.Exec(ctx)", "dp.result[partID] = result")
		futs, reads := 0, 0
		for _, d := range pipeGo.Decls {
			fd, ok := d.(*ast.FuncDecl)
			if !ok || fd.Name.Name != "Result" || fd.Recv == nil {
				continue
			}
			futs++
			b := norm(fd.Body)
			// closed first, then "not ready", and the reply read is the one at (partID, index)
			if orderedIn(b, "case <-f.closedCtx.Done(): return", "case <-f.ctx.Done(): cmd := f.dp.result[f.partID][f.index]", "default: return") &&
				strings.Count(b, "f.dp.result[") == 1 {
				reads++
			}
		}
		pipeOK = okAdd && okExec && futs >= 8 && futs == reads
	}
	addBool("pipeline_future_reads_its_partition_slot", pipeOK,
		"DMapPipeline.addCommand appends to the queue of the key's partition and hands out (partition, len-1); execOnPartition sends that queue in order and stores the replies as result[partition]; every Future.Result checks closed, then not-ready, and reads result[partID][index]")

	// ---- structural facts: request guard (C05)
	handlerGo := parse("internal/server/handler.go")
	serve := funcDecl(handlerGo, "Handler", "ServeRESP")
	guardLast := false
	var bypass []string
	if serve != nil && len(serve.Body.List) > 0 {
		stmts := serve.Body.List
		if ifs, ok := stmts[len(stmts)-1].(*ast.IfStmt); ok {
			guardLast = strings.HasPrefix(src(ifs.Cond), "h.precond(") && strings.Contains(src(ifs.Body), "h.handler(")
		}
		for _, st := range stmts[:len(stmts)-1] {
			if ifs, ok := st.(*ast.IfStmt); ok && strings.Contains(src(ifs.Body), "h.handler(") {
				bypass = append(bypass, strings.Join(strings.Fields(src(ifs.Cond)), " "))
			}
		}
	}
	sort.Strings(bypass)
	addBool("serve_resp_precond_guards_handler", guardLast, "Handler.ServeRESP ends with `if h.precond(conn, cmd) { h.handler(conn, cmd) }`")
	addBool("serve_resp_bypass_only_update_routing",
		strings.Join(bypass, " | ") == "command == protocol.Internal.UpdateRouting | h.precond == nil | len(cmd.Args) == 0",
		"the handler runs unguarded only for: "+strings.Join(bypass, " | "))
	olricGo := parse("olric.go")
	// the precondition is copied into every handler when the handler is registered (ServeMuxWrapper.HandleFunc): it has to be
	// set on the server before the command handlers are registered
	newFn := funcDecl(olricGo, "", "New")
	precondFirst := false
	if newFn != nil {
		t := strings.Join(strings.Fields(src(newFn)), " ")
		i1 := strings.Index(t, "srv.SetPreConditionFunc(db.preconditionFunc)")
		i2 := strings.Index(t, "db.registerCommandHandlers()")
		precondFirst = i1 >= 0 && i2 >= 0 && i1 < i2
	}
	addBool("precondition_set_before_handlers_are_registered", precondFirst,
		"olric.New calls srv.SetPreConditionFunc(db.preconditionFunc) before db.registerCommandHandlers()")
	addBool("is_operable_checks_member_quorum", index(callsTo(funcDecl(olricGo, "Olric", "isOperable")), "CheckMemberCountQuorum") >= 0,
		"olric.isOperable (the precondition of every handler) calls rt.CheckMemberCountQuorum")
	dmapGo := parse("internal/dmap/dmap.go")
	nd := funcDecl(dmapGo, "Service", "NewDMap")
	ndFirst := false
	if nd != nil && len(nd.Body.List) > 0 {
		ndFirst = strings.Contains(src(nd.Body.List[0]), "CheckMemberCountQuorum") && strings.Contains(src(nd.Body.List[0]), "return nil, err")
	}
	addBool("newdmap_checks_member_quorum_first", ndFirst, "Service.NewDMap starts by returning the error of rt.CheckMemberCountQuorum")
	putGo := parse("internal/dmap/put.go")
	sp := funcDecl(putGo, "DMap", "syncPutOnCluster")
	abort := false
	if sp != nil {
		ast.Inspect(sp.Body, func(n ast.Node) bool {
			if fs, ok := n.(*ast.RangeStmt); ok {
				ast.Inspect(fs.Body, func(m ast.Node) bool {
					if _, isret := m.(*ast.ReturnStmt); isret {
						abort = true
					}
					return true
				})
			}
			return true
		})
	}
	addBool("sync_put_aborts_on_backup_error", abort, "the backup loop of syncPutOnCluster contains a return (a failing backup aborts the Put)")
	spCalls := callsTo(sp)
	addBool("sync_put_backups_before_local", index(spCalls, "Process") >= 0 && index(spCalls, "Process") < index(spCalls, "putEntryOnFragment"),
		"syncPutOnCluster writes the backups before the local copy")

	// ---- structural facts: client paths (C15)
	phGo := parse("internal/dmap/put_handlers.go")
	ph := funcDecl(phGo, "Service", "putCommandHandler")
	nsw := 0
	if ph != nil {
		ast.Inspect(ph.Body, func(n ast.Node) bool {
			if sw, ok := n.(*ast.SwitchStmt); ok && sw.Tag == nil {
				nsw++
			}
			return true
		})
	}
	addBool("put_handler_options_independent", nsw >= 2, "putCommandHandler decodes NX/XX and the expiry option in separate switch statements")
	dput := funcDecl(putGo, "DMap", "put")
	addBool("expire_forwarded_as_pexpire", strings.Contains(src(dput), "NewPExpire"), "DMap.put forwards OnlyUpdateTTL requests as DM.PEXPIRE")
	delGo := parse("internal/dmap/delete.go")
	dk := funcDecl(delGo, "DMap", "deleteKeys")
	early := false
	if dk != nil {
		ast.Inspect(dk.Body, func(n ast.Node) bool {
			if rs, ok := n.(*ast.RangeStmt); ok && strings.Contains(src(rs.X), "members") {
				ast.Inspect(rs.Body, func(m ast.Node) bool {
					if ret, isret := m.(*ast.ReturnStmt); isret {
						// a return of a nil error inside the loop ends the iteration early
						if len(ret.Results) == 2 && strings.Contains(src(ret.Results[1]), "cmd.Err()") {
							early = true
						}
					}
					return true
				})
			}
			return true
		})
	}
	addBool("del_forward_returns_early", early, "deleteKeys returns from inside the per-member loop with the forwarded command's status")

	// ---- structural facts: atomic operations (C07) and locks (C08)
	atomGo := parse("internal/dmap/atomic.go")
	onOwner := true
	for _, fn := range []string{"atomicIncrDecr", "getPut", "atomicIncrByFloat"} {
		fd := funcDecl(atomGo, "DMap", fn)
		ok := false
		if fd != nil && len(fd.Body.List) > 0 {
			// the first statement forwards the request when atomicOwner says so, before the locker is taken
			if ifs, isIf := fd.Body.List[0].(*ast.IfStmt); isIf && ifs.Init != nil &&
				strings.Contains(src(ifs.Init), "atomicOwner(") && strings.Contains(src(ifs.Body), "client.Get(member") &&
				strings.Contains(src(ifs.Body), "return") {
				ok = true
			}
		}
		onOwner = onOwner && ok
	}
	// every entry (public API and RESP handlers) goes through those three functions
	ahGo := parse("internal/dmap/atomic_handlers.go")
	for fn, callee := range map[string]string{"incrDecrCommon": "dm.atomicIncrDecr(", "getPutCommandHandler": "dm.getPut(", "incrByFloatCommandHandler": "dm.atomicIncrByFloat("} {
		fd := funcDecl(ahGo, "Service", fn)
		onOwner = onOwner && fd != nil && strings.Contains(src(fd), callee)
	}
	for fn, callee := range map[string]string{"Incr": "dm.atomicIncrDecr(", "Decr": "dm.atomicIncrDecr(", "GetPut": "dm.getPut(", "IncrByFloat": "dm.atomicIncrByFloat("} {
		fd := funcDecl(atomGo, "DMap", fn)
		onOwner = onOwner && fd != nil && strings.Contains(src(fd), callee)
	}
	ao := funcDecl(atomGo, "DMap", "atomicOwner")
	onOwner = onOwner && ao != nil && strings.Contains(src(ao), "PartitionByHKey(hkey).Owner()") &&
		strings.Contains(src(ao), "!member.CompareByName(dm.s.rt.This())")
	addBool("atomic_ops_run_on_owner", onOwner, "atomicIncrDecr, getPut and atomicIncrByFloat begin by forwarding to the partition owner (atomicOwner) before taking the member's named mutex")
	lockGo := parse("internal/dmap/lock.go")
	guarded := true
	uk := funcDecl(lockGo, "DMap", "unlockKey")
	lk := funcDecl(lockGo, "DMap", "leaseKey")
	dlk := funcDecl(lockGo, "DMap", "deleteLockKey")
	elk := funcDecl(lockGo, "DMap", "expireLockKey")
	guarded = guarded && uk != nil && strings.Contains(src(uk), "dm.deleteLockKey(key, token)") && !strings.Contains(src(uk), "deleteKeys(")
	guarded = guarded && lk != nil && strings.Contains(src(lk), "dm.expireLockKey(ctx, key, token, timeout)") && !strings.Contains(src(lk), "dm.Expire(")
	if dlk != nil {
		t := src(dlk)
		guarded = guarded && strings.Index(t, "f.Lock()") >= 0 && strings.Index(t, "f.Lock()") < strings.Index(t, "checkLockOwnership(f, hkey, token)") &&
			strings.Index(t, "checkLockOwnership(f, hkey, token)") < strings.Index(t, "deleteOnCluster(")
	} else {
		guarded = false
	}
	guarded = guarded && elk != nil && strings.Contains(src(elk), "e.lockToken = token")
	cpc := funcDecl(putGo, "DMap", "checkPutConditions")
	guarded = guarded && cpc != nil && strings.Contains(src(cpc), "checkLockOwnership(e.fragment, e.hkey, e.lockToken)")
	addBool("lock_release_compares_under_fragment_lock", guarded, "unlockKey/leaseKey finish with deleteLockKey/expireLockKey, which compare the stored token under the fragment lock before deleting / updating the expiry")

	// ---- structural facts: eviction (C10)
	evGo := parse("internal/dmap/eviction.go")
	ek := funcDecl(evGo, "DMap", "evictKeyWithLRU")
	lruOK := false
	if ek != nil {
		t := src(ek)
		// samples LRUSamples entries (counter starts at 0, stops at lruSamples), an empty sample is not an error,
		// the victim is deleted on the whole cluster
		lruOK = strings.Contains(t, "var idx = 0") && strings.Contains(t, "idx >= dm.config.lruSamples") &&
			strings.Contains(t, "dm.deleteOnCluster(item.HKey, key, e.fragment)")
		ast.Inspect(ek.Body, func(n ast.Node) bool {
			if ifs, ok := n.(*ast.IfStmt); ok && strings.Contains(src(ifs.Cond), "len(items) == 0") {
				lruOK = lruOK && strings.Contains(src(ifs.Body), "return nil")
			}
			return true
		})
	}
	addBool("lru_evicts_one_sampled_entry", lruOK, "evictKeyWithLRU samples lruSamples entries, deletes one of them on the cluster, and treats an empty fragment as nothing to evict")
	sle := funcDecl(putGo, "DMap", "setLRUEvictionStats")
	once := false
	if sle != nil {
		t := src(sle)
		once = strings.Count(t, "storage.Stats()") == 1 && strings.Contains(t, "st.Length > 0 && st.Length >= dm.config.maxKeys/int(ownedPartitionCount)") &&
			strings.Contains(t, "st.Inuse > 0 && st.Inuse >= dm.config.maxInuse/int(ownedPartitionCount)") &&
			strings.Index(t, "storage.Stats()") < strings.Index(t, "evictKeyWithLRU")
	}
	addBool("lru_limits_checked_on_one_snapshot", once, "setLRUEvictionStats reads the statistics once, then checks MaxKeys and MaxInuse against their per-partition shares")
	sfe := funcDecl(evGo, "Service", "scanFragmentForEviction")
	scanOK := sfe != nil && strings.Contains(src(sfe), `getOrCreateDMap(strings.TrimPrefix(name, "dmap."))`) &&
		strings.Contains(src(sfe), "isKeyExpired(ttl) || dm.isKeyIdleOnFragment(hkey, f)") &&
		strings.Contains(src(sfe), "dm.deleteOnCluster(hkey, key, f)")
	addBool("eviction_scan_deletes_expired_or_idle_on_cluster", scanOK, "scanFragmentForEviction resolves the DMap by its own name and deletes expired or idle entries with deleteOnCluster")

	// ---- structural facts: routing table (C13)
	distGo := parse("internal/cluster/routingtable/distribute.go")
	ordered := func(t string, parts ...string) bool {
		pos := 0
		for _, p := range parts {
			i := strings.Index(t[pos:], p)
			if i < 0 {
				return false
			}
			pos += i + len(p)
		}
		return true
	}
	dp := funcDecl(distGo, "RoutingTable", "distributePrimaryCopies")
	db := funcDecl(distGo, "RoutingTable", "distributeBackups")
	shape := dp != nil && db != nil &&
		ordered(src(dp), "GetPartitionOwner(int(partID))", "len(owners) == 0", "FindMemberByName(owner.Name)", "!owner.CompareByID(current)",
			"NewLengthOfPart(partID)", "count == 0", "owner.CompareByID(newOwner.(discovery.Member))", "return append(owners, newOwner.(discovery.Member))") &&
		ordered(src(db), "r.getReplicaOwners(partID)", "newOwners = newOwners[1:]", "len(owners) == 0", "FindMemberByName(backup.Name)", "!backup.CompareByID(cur)",
			"NewLengthOfPart(partID).SetReplica()", "count != 0", "owners = append(owners[:i], owners[i+1:]...)", "for _, newOwner := range newOwners", "owner.CompareByID(newOwner.(discovery.Member))",
			"owners = append(owners[:i], owners[i+1:]...)", "owners = append(owners, newOwner.(discovery.Member))")
	copies := dp != nil && db != nil &&
		ordered(src(dp), "part := r.primary.PartitionByID(partID)", "owners := make([]discovery.Member, part.OwnerCount())", "copy(owners, part.Owners())", "GetPartitionOwner") &&
		ordered(src(db), "part := r.backup.PartitionByID(partID)", "owners := make([]discovery.Member, part.OwnerCount())", "copy(owners, part.Owners())", "r.getReplicaOwners(partID)") &&
		strings.Count(src(dp), "part.Owners()") == 1 && strings.Count(src(db), "part.Owners()") == 1
	addBool("distribute_works_on_a_copy_of_the_owners", copies, "distributePrimaryCopies / distributeBackups copy the partition's owners list before pruning it in place: the list the data path reads is replaced only by the push")
	addBool("distribute_prunes_then_appends_ring_owners", shape, "distributePrimaryCopies / distributeBackups: prune departed or re-joined members, prune owners that report zero keys, move the ring's owner(s) to the end")
	rtGo := parse("internal/cluster/routingtable/routingtable.go")
	opGo := parse("internal/cluster/routingtable/operations.go")
	discGo := parse("internal/discovery/discovery.go")
	ur := funcDecl(rtGo, "RoutingTable", "updateRouting")
	vr := funcDecl(opGo, "RoutingTable", "verifyRoutingTable")
	gc := funcDecl(discGo, "Discovery", "GetCoordinator")
	gm := funcDecl(discGo, "Discovery", "GetMembers")
	coord := ur != nil && vr != nil && gc != nil && gm != nil &&
		ordered(src(ur), "!r.discovery.IsCoordinator()", "return", "r.fillRoutingTable()", "r.updateRoutingTableOnCluster()", "r.processLeftOverDataReports(reports)") &&
		strings.Contains(src(vr), "coordinator.CompareByID(myCoordinator)") &&
		strings.Contains(src(gc), "return members[0]") && strings.Contains(src(gm), "members[i].Birthdate < members[j].Birthdate")
	// ---- the client iterator's walk over the owners of a partition (C12)
	ciGo := parse("cluster_iterator.go")
	eiGo := parse("embedded_iterator.go")
	ciGet := funcDecl(ciGo, "ClusterIterator", "getOwners")
	ciRem := funcDecl(ciGo, "ClusterIterator", "removeScannedOwner")
	ciLoad := funcDecl(ciGo, "ClusterIterator", "loadRoute")
	ciScan := funcDecl(ciGo, "ClusterIterator", "scanOnOwners")
	ciUpd := funcDecl(ciGo, "ClusterIterator", "updateIterator")
	ciNext := funcDecl(ciGo, "ClusterIterator", "next")
	eiScan := funcDecl(eiGo, "EmbeddedIterator", "scanOnOwners")
	iterOK := ciGet != nil && ciRem != nil && ciLoad != nil && ciScan != nil && ciUpd != nil && ciNext != nil && eiScan != nil &&
		ordered(src(ciGet), "raw = i.route.ReplicaOwners", "raw = i.route.PrimaryOwners") && !strings.Contains(src(ciGet), "i.routingTable") &&
		ordered(src(ciRem), "(owner string)", "if o != owner", "rest = append(rest, o)", "i.route.ReplicaOwners = remove(i.route.ReplicaOwners)", "i.route.PrimaryOwners = remove(i.route.PrimaryOwners)") &&
		ordered(src(ciLoad), "i.routingTable[i.partID]", "PrimaryOwners: append([]string(nil), route.PrimaryOwners...)", "ReplicaOwners: append([]string(nil), route.ReplicaOwners...)") &&
		ordered(src(ciScan), "owners := i.getOwners()", "for _, owner := range owners", "i.loadCursor(owner)", "i.updateIterator(keys, newCursor, owner)", "if newCursor == 0", "i.removeScannedOwner(owner)") &&
		ordered(src(eiScan), "owners := e.clusterIterator.getOwners()", "for _, owner := range owners", "e.clusterIterator.updateIterator(keys, newCursor, owner)", "if newCursor == 0", "e.clusterIterator.removeScannedOwner(owner)", "continue",
			"e.clusterIterator.updateIterator(keys, newCursor, owner)", "if newCursor == 0", "e.clusterIterator.removeScannedOwner(owner)") &&
		ordered(src(ciUpd), "if _, ok := i.partitionKeys[key]; !ok", "i.page = append(i.page, key)", "i.partitionKeys[key] = struct{}{}", "i.updateCursor(owner, cursor)") &&
		ordered(src(ciNext), "i.fetchData()", "if len(i.page) != 0", "break", "if len(i.route.PrimaryOwners) == 0 && len(i.route.ReplicaOwners) == 0", "break",
			"if len(i.page) == 0 && len(i.route.PrimaryOwners) == 0 && len(i.route.ReplicaOwners) == 0", "i.partID++", "i.reset()") &&
		func() bool {
			rs, rp := funcDecl(ciGo, "ClusterIterator", "reset"), funcDecl(ciGo, "ClusterIterator", "resetPage")
			return rs != nil && rp != nil && ordered(src(rs), "i.partitionKeys = make(map[string]struct{})", "i.resetPage()", "i.loadRoute()") &&
				!strings.Contains(src(rp), "partitionKeys") && strings.Count(src(ciGo), "i.partitionKeys = make(") == 1
		}()
	addBool("client_iterator_walks_remaining_owners_once", iterOK, "the client iterators ask the owners still on their own copy of the route, skip keys already met in the partition, and remove an owner by name when its cursor comes back 0; next() repeats until the route is empty")
	loGo := parse("internal/cluster/routingtable/left_over_data.go")
	plo := funcDecl(loGo, "RoutingTable", "processLeftOverDataReports")
	repush := ur != nil && plo != nil &&
		ordered(src(ur), "for attempt := 0; attempt < 2; attempt++", "r.fillRoutingTable()", "r.updateRoutingTableOnCluster()", "if !r.processLeftOverDataReports(reports)", "return") &&
		ordered(src(plo), "var changed bool", "newOwners = append([]discovery.Member{member}, newOwners...)", "part.SetOwners(newOwners)", "changed = true", "return changed")
	addBool("leftover_report_is_pushed_again", repush, "updateRouting computes and pushes the table once more when processLeftOverDataReports added a member to an owners list (it reports exactly that)")
	// the periodic push runs on EVERY member (updateRouting itself returns at once on a member that is not the coordinator):
	// whoever becomes the coordinator later keeps pruning emptied owners and repairing members that missed a push
	rtStart := funcDecl(rtGo, "RoutingTable", "Start")
	ppFn := funcDecl(rtGo, "RoutingTable", "pushPeriodically")
	periodic := false
	if rtStart != nil && ppFn != nil && ur != nil {
		periodic = ordered(src(ppFn), "time.NewTicker(r.pushPeriod)", "case <-ticker.C:", "r.updateRouting()") &&
			ordered(src(ur), "r.Lock()", "if !r.discovery.IsCoordinator()", "return", "r.fillRoutingTable()")
		// `go r.pushPeriodically()` is a statement of Start's own body, not of a conditional block inside it
		top := false
		for _, st := range rtStart.Body.List {
			if g, ok := st.(*ast.GoStmt); ok && strings.Contains(src(g), "r.pushPeriodically()") {
				top = true
			}
		}
		periodic = periodic && top && strings.Count(src(rtStart), "pushPeriodically") == 1
	}
	addBool("periodic_push_runs_on_every_member", periodic, "Start launches pushPeriodically unconditionally; the loop calls updateRouting on every tick, which returns at once unless this member is the coordinator NOW")
	pushChecked := vr != nil && funcDecl(opGo, "RoutingTable", "updateRoutingCommandHandler") != nil &&
		ordered(src(vr), "r.config.PartitionCount != uint64(len(table))", "for partID, data := range table", "partID >= r.config.PartitionCount", "data == nil || len(data.Owners) == 0", "return nil") &&
		ordered(src(funcDecl(opGo, "RoutingTable", "updateRoutingCommandHandler")), "msgpack.Unmarshal(updateRoutingCmd.Payload, &table)", "r.verifyRoutingTable(updateRoutingCmd.CoordinatorID, table)", "protocol.WriteError(conn, err)", "return", "part.SetOwners(data.Owners)")
	addBool("pushed_table_is_checked_before_it_is_applied", pushChecked, "a member checks every entry of a pushed routing table (partition id in range, a route, at least one primary owner) before it touches its partitions")
	addBool("only_oldest_member_computes_and_receivers_verify_sender", coord, "updateRouting runs on the coordinator only (oldest member by birthdate), receivers reject a table whose sender is not their coordinator")

	// ---- structural facts: critical sections of writes, steps of a read (C01)
	getGo := parse("internal/dmap/get.go")
	poc := funcDecl(putGo, "DMap", "putOnCluster")
	dkey := funcDecl(delGo, "DMap", "deleteKey")
	doc := funcDecl(delGo, "DMap", "deleteOnCluster")
	sections := poc != nil && dkey != nil && doc != nil &&
		ordered(src(poc), "dm.loadOrCreateLockedFragment(part)", "defer f.Unlock()", "dm.checkPutConditions(e)", "dm.syncPutOnCluster(e, nt)") &&
		func() bool {
			fragGo := parse("internal/dmap/fragment.go")
			lf := funcDecl(fragGo, "DMap", "loadOrCreateLockedFragment")
			// the lock is taken, then the fragment is checked to be still alive (not wiped by the janitor)
			return lf != nil && ordered(src(lf), "dm.loadOrCreateFragment(part)", "f.Lock()", "<-f.ctx.Done()", "f.Unlock()", "continue", "return f, nil")
		}() &&
		ordered(src(dkey), "f.Lock()", "defer f.Unlock()", "dm.deleteOnCluster(hkey, key, f)") &&
		ordered(src(doc), "dm.deleteOnOtherOwners(hkey, key)", "f.storage.Delete(hkey)")
	addBool("write_sections_hold_fragment_lock", sections, "putOnCluster and deleteKey hold the fragment's write lock from the condition check to the local write / delete; deleteOnCluster removes the other copies before the local one")
	lot := funcDecl(getGo, "DMap", "lookupOnThisNode")
	goc := funcDecl(getGo, "DMap", "getOnCluster")
	reads := lot != nil && goc != nil &&
		ordered(src(lot), "f.RLock()", "defer f.RUnlock()", "f.storage.Get(hkey)") &&
		ordered(src(goc), "dm.lookupOnOwners(hkey, key)", "dm.lookupOnReplicas(hkey, key)", "dm.sanitizeAndSortVersions(versions)")
	addBool("get_reads_owner_under_read_lock_then_replicas", reads, "a Get reads the owner's copy under the fragment's read lock, then asks the replica owners, then picks among the gathered versions")

	// ---- structural facts: fragment hand-over (C03)
	fragGo2 := parse("internal/dmap/fragment.go")
	balGo := parse("internal/dmap/balance.go")
	trGo := parse("internal/kvstore/transport.go")
	mv := funcDecl(fragGo2, "fragment", "Move")
	mf := funcDecl(balGo, "DMap", "mergeFragments")
	fmf := funcDecl(balGo, "DMap", "fragmentMergeFunction")
	imp := funcDecl(trGo, "KVStore", "Import")
	rrp := funcDecl(getGo, "DMap", "readRepair")
	handover := mv != nil && mf != nil && fmf != nil && imp != nil && rrp != nil &&
		// export, send to every target, and only then drop; the fragment keeps its DMap's name
		ordered(src(mv), "f.Lock()", "i.Export()", "Name:    name,", "NewMoveFragment(value)", "return err", "return i.Drop(index)") &&
		!strings.Contains(src(mv), "TrimPrefix") &&
		ordered(src(mf), "dm.loadOrCreateLockedFragment(part)", "f.storage.Import(fp.Payload", "dm.fragmentMergeFunction(f, hkey, entry)") &&
		strings.Contains(src(fmf), "dm.sortVersions(versions)") &&
		// the import reports the first entry it could not merge
		ordered(src(imp), "err = f(hkey, e)", "return err == nil", "return err") &&
		// previous owners are not repaired
		ordered(src(rrp), "value.previousOwner", "continue", "NewPutEntry") &&
		// a Delete visits EVERY previous owner: the loop body returns only on an error
		func() bool {
			dfp := funcDecl(delGo, "DMap", "deleteFromPreviousOwners")
			if dfp == nil {
				return false
			}
			ok := true
			ast.Inspect(dfp.Body, func(n ast.Node) bool {
				if fs, isFor := n.(*ast.ForStmt); isFor {
					for _, st := range fs.Body.List {
						if _, isRet := st.(*ast.ReturnStmt); isRet {
							ok = false // an unconditional return inside the loop ends it after the first owner
						}
					}
				}
				return true
			})
			return ok && strings.Contains(src(dfp), "i := len(owners) - 2; i >= 0; i--")
		}()
	addBool("handover_merges_lww_then_drops", handover, "fragment.Move exports a table, sends it under the DMap's own name, and drops it only after every receiver acknowledged; the receiver merges entry by entry (last write wins) and reports a failed merge; read repair skips previous owners")

	// ---- structural facts: pub/sub (C14)
	psGo := parse("internal/pubsub/pubsub.go")
	pub := funcDecl(psGo, "PubSub", "Publish")
	countInside := false
	if pub != nil {
		ast.Inspect(pub.Body, func(n ast.Node) bool {
			if ifs, ok := n.(*ast.IfStmt); ok && strings.Contains(src(ifs.Cond), "match.Match") {
				countInside = strings.Contains(src(ifs.Body), "sent++")
			}
			return true
		})
		// and no `sent++` in the pattern callback outside that if
		ast.Inspect(pub.Body, func(n ast.Node) bool {
			if fl, ok := n.(*ast.FuncLit); ok && strings.Contains(src(fl), "match.Match") {
				for _, st := range fl.Body.List {
					if inc, isInc := st.(*ast.IncDecStmt); isInc && strings.Contains(src(inc), "sent") {
						countInside = false
					}
				}
			}
			return true
		})
	}
	addBool("publish_counts_only_matches", countInside, "Publish increments the receiver count inside `if match.Match(...)` only")
	sub := funcDecl(psGo, "PubSub", "subscribe")
	addBool("subscribe_is_idempotent", sub != nil && strings.Contains(src(sub), "ient.pattern == pattern && ient.channel == channel"),
		"subscribe looks for an existing (pattern, channel) entry of the connection before adding one")
	ns := funcDecl(psGo, "PubSub", "Numsub")
	addBool("numsub_excludes_patterns", ns != nil && strings.Contains(src(ns), "!ient.pattern"), "Numsub skips pattern entries")

	// ---- write
	sort.SliceStable(facts, func(i, j int) bool { return false })
	var sb strings.Builder
	sb.WriteString("/- GENERATED by /verif/extract/facts from the Go sources of the repository on every run. Do not edit. -/\n")
	sb.WriteString("namespace Olric.Facts\n\n")
	for _, f := range facts {
		if f.doc != "" {
			fmt.Fprintf(&sb, "/-- %s -/\n", strings.ReplaceAll(f.doc, "-/", ""))
		}
		fmt.Fprintf(&sb, "def %s : %s := %s\n\n", f.name, f.typ, f.val)
	}
	sb.WriteString("end Olric.Facts\n")
	if err := os.WriteFile(os.Args[2], []byte(sb.String()), 0o644); err != nil {
		fmt.Fprintln(os.Stderr, err)
		os.Exit(1)
	}
	for _, f := range facts {
		fmt.Printf("%s=%s\n", f.name, f.val)
	}
}

// orderedIn: the parts occur in t in this order
func orderedIn(t string, parts ...string) bool {
	i := 0
	for _, p := range parts {
		j := strings.Index(t[i:], p)
		if j < 0 {
			return false
		}
		i += j + len(p)
	}
	return true
}
