// parsers: translates every protocol.Parse* function (and errWrongNumber's use) of the repository into
// the small IR of OlricModel/Proto/IR.lean.  Purely syntactic (go/ast); anything outside the
// supported subset is an error naming the construct — the check then reports a lost obligation.
//
// usage: parsers <repo> <out Parsers.lean> <out ParsersSafe.lean> [<out registry.go>]
package main

import (
	"fmt"
	"go/ast"
	"go/parser"
	"go/token"
	"os"
	"path/filepath"
	"sort"
	"strconv"
	"strings"
)

var fset = token.NewFileSet()

type tokAlias struct {
	v, i  int
	upper bool
}

type tr struct {
	fn      string
	vars    map[string]int      // slice variables -> Var
	toks    map[string]tokAlias // string variables holding one argument
	nextVar int
	errs    []string
	inLoop  int
}

func (t *tr) fail(n ast.Node, msg string) {
	t.errs = append(t.errs, fmt.Sprintf("%s: %s: %s", t.fn, fset.Position(n.Pos()), msg))
}

// sliceVar: is e a tracked slice (cmd.Args or a local)?
func (t *tr) sliceVar(e ast.Expr) (int, bool) {
	switch x := e.(type) {
	case *ast.SelectorExpr:
		if id, ok := x.X.(*ast.Ident); ok && id.Name == "cmd" && x.Sel.Name == "Args" {
			return 0, true
		}
	case *ast.Ident:
		if v, ok := t.vars[x.Name]; ok {
			return v, true
		}
	case *ast.ParenExpr:
		return t.sliceVar(x.X)
	}
	return 0, false
}

func intLit(e ast.Expr) (int, bool) {
	if b, ok := e.(*ast.BasicLit); ok && b.Kind == token.INT {
		n, err := strconv.Atoi(b.Value)
		return n, err == nil
	}
	return 0, false
}

func strLit(e ast.Expr) (string, bool) {
	if b, ok := e.(*ast.BasicLit); ok && b.Kind == token.STRING {
		s, err := strconv.Unquote(b.Value)
		return s, err == nil
	}
	return "", false
}

// argOf: e is (possibly wrapped in util.BytesToString / string() / strings.ToUpper) v[i]
func (t *tr) argOf(e ast.Expr) (v, i int, upper, ok bool) {
	switch x := e.(type) {
	case *ast.ParenExpr:
		return t.argOf(x.X)
	case *ast.IndexExpr:
		if sv, is := t.sliceVar(x.X); is {
			if n, isn := intLit(x.Index); isn {
				return sv, n, false, true
			}
		}
	case *ast.CallExpr:
		name := callName(x)
		if len(x.Args) == 1 && (name == "util.BytesToString" || name == "string" || name == "strings.ToUpper") {
			v, i, up, ok := t.argOf(x.Args[0])
			return v, i, up || name == "strings.ToUpper", ok
		}
	case *ast.Ident:
		if a, is := t.toks[x.Name]; is {
			return a.v, a.i, a.upper, true
		}
	}
	return 0, 0, false, false
}

func callName(c *ast.CallExpr) string {
	switch f := c.Fun.(type) {
	case *ast.Ident:
		return f.Name
	case *ast.SelectorExpr:
		if id, ok := f.X.(*ast.Ident); ok {
			return id.Name + "." + f.Sel.Name
		}
		return "?." + f.Sel.Name
	}
	return "?"
}

var numKinds = map[string]string{
	"strconv.ParseInt": ".int", "strconv.ParseUint": ".uint", "strconv.ParseFloat": ".float", "strconv.Atoi": ".atoi",
}

// uses: the index / slice / parse effects of evaluating expression e, in source order
func (t *tr) uses(e ast.Node) []string {
	var out []string
	var walk func(n ast.Node)
	walk = func(n ast.Node) {
		if n == nil {
			return
		}
		switch x := n.(type) {
		case *ast.CallExpr:
			name := callName(x)
			if kind, ok := numKinds[name]; ok && len(x.Args) >= 1 {
				if v, i, _, ok := t.argOf(x.Args[0]); ok {
					out = append(out, fmt.Sprintf(".parse %d %d %s", v, i, kind))
					for _, a := range x.Args[1:] {
						walk(a)
					}
					return
				}
			}
			if name == "errWrongNumber" && len(x.Args) == 1 {
				if v, ok := t.sliceVar(x.Args[0]); ok {
					out = append(out, fmt.Sprintf(".index %d 0", v)) // errWrongNumber reads args[0] first
					return
				}
			}
			if name == "len" && len(x.Args) == 1 {
				if _, ok := t.sliceVar(x.Args[0]); ok {
					return
				}
			}
			for _, a := range x.Args {
				walk(a)
			}
			if sel, ok := x.Fun.(*ast.SelectorExpr); ok {
				walk(sel.X)
			}
			return
		case *ast.IndexExpr:
			if v, ok := t.sliceVar(x.X); ok {
				if i, ok := intLit(x.Index); ok {
					out = append(out, fmt.Sprintf(".index %d %d", v, i))
				} else {
					t.fail(x, "index is not a constant")
				}
				return
			}
		case *ast.SliceExpr:
			if v, ok := t.sliceVar(x.X); ok {
				if x.High != nil || x.Max != nil {
					t.fail(x, "slice with an upper bound")
					return
				}
				k := 0
				if x.Low != nil {
					var isn bool
					if k, isn = intLit(x.Low); !isn {
						t.fail(x, "slice bound is not a constant")
					}
				}
				out = append(out, fmt.Sprintf(".rangeTail %d %d", v, k))
				return
			}
		case *ast.Ident:
			return
		case *ast.FuncLit:
			t.fail(x, "function literal")
			return
		}
		ast.Inspect(n, func(m ast.Node) bool {
			if m == n || m == nil {
				return true
			}
			walk(m)
			return false
		})
	}
	walk(e)
	return out
}

func block(stmts []string) string {
	s := ".nil"
	for i := len(stmts) - 1; i >= 0; i-- {
		s = "(.cons (" + stmts[i] + ") " + s + ")"
	}
	return s
}

func tokLit(s string) string {
	parts := make([]string, len(s))
	for i := 0; i < len(s); i++ {
		parts[i] = strconv.Itoa(int(s[i]))
	}
	return "[" + strings.Join(parts, ", ") + "]"
}

var cmpOf = map[token.Token]string{token.LSS: ".lt", token.LEQ: ".le", token.EQL: ".eq", token.NEQ: ".ne", token.GEQ: ".ge", token.GTR: ".gt"}

// lenCond: len(v) op N
func (t *tr) lenCond(e ast.Expr) (v int, cmp string, n int, ok bool) {
	b, isb := e.(*ast.BinaryExpr)
	if !isb {
		return
	}
	c, isc := b.X.(*ast.CallExpr)
	if !isc || callName(c) != "len" || len(c.Args) != 1 {
		return
	}
	sv, iss := t.sliceVar(c.Args[0])
	if !iss {
		return
	}
	k, isn := intLit(b.Y)
	cm, iscm := cmpOf[b.Op]
	if !isn || !iscm {
		return
	}
	return sv, cm, k, true
}

func (t *tr) hasEffects(n ast.Node) bool {
	found := false
	ast.Inspect(n, func(m ast.Node) bool {
		switch x := m.(type) {
		case *ast.ReturnStmt, *ast.BranchStmt, *ast.ForStmt, *ast.RangeStmt:
			found = true
		case *ast.IndexExpr:
			if _, ok := t.sliceVar(x.X); ok {
				found = true
			}
		case *ast.SliceExpr:
			if _, ok := t.sliceVar(x.X); ok {
				found = true
			}
		case *ast.AssignStmt:
			for _, l := range x.Lhs {
				if id, ok := l.(*ast.Ident); ok {
					if _, tracked := t.vars[id.Name]; tracked {
						found = true
					}
				}
			}
		}
		return !found
	})
	return found
}

func (t *tr) stmts(list []ast.Stmt) []string {
	var out []string
	for _, s := range list {
		out = append(out, t.stmt(s)...)
	}
	return out
}

func (t *tr) stmt(s ast.Stmt) []string {
	switch x := s.(type) {
	case *ast.BlockStmt:
		return t.stmts(x.List)
	case *ast.IfStmt:
		if x.Init != nil {
			t.fail(x, "if with init statement")
			return nil
		}
		var els []string
		if x.Else != nil {
			els = t.stmt(x.Else)
		}
		if v, cmp, n, ok := t.lenCond(x.Cond); ok {
			return []string{fmt.Sprintf(".ifLen %d %s %d %s %s", v, cmp, n, block(t.stmts(x.Body.List)), block(els))}
		}
		if b, ok := x.Cond.(*ast.BinaryExpr); ok {
			// err != nil { return ..., err }: the failure branch of the preceding strconv call (`parse`)
			if id, isid := b.X.(*ast.Ident); isid && id.Name == "err" && b.Op == token.NEQ {
				if len(x.Body.List) == 1 {
					if _, isret := x.Body.List[0].(*ast.ReturnStmt); isret && x.Else == nil {
						return nil
					}
				}
			}
			if b.Op == token.EQL || b.Op == token.NEQ {
				if lit, ok := strLit(b.Y); ok {
					if v, i, up, ok := t.argOf(b.X); ok && !up {
						thn, e := block(t.stmts(x.Body.List)), block(els)
						if b.Op == token.NEQ {
							thn, e = e, thn
						}
						return []string{fmt.Sprintf(".ifTok %d %d %s %s %s", v, i, tokLit(lit), thn, e)}
					}
				}
			}
		}
		if !t.hasEffects(x.Body) && (x.Else == nil || !t.hasEffects(x.Else)) && len(t.uses(x.Cond)) == 0 {
			return nil // a field update that neither indexes nor returns
		}
		t.fail(x, "unsupported condition: "+nodeSrc(x.Cond))
		return nil
	case *ast.ForStmt:
		if x.Init != nil || x.Post != nil || x.Cond == nil {
			t.fail(x, "unsupported for statement")
			return nil
		}
		v, cmp, n, ok := t.lenCond(x.Cond)
		if !ok || cmp != ".gt" || n != 0 {
			t.fail(x, "unsupported loop condition: "+nodeSrc(x.Cond))
			return nil
		}
		t.inLoop++
		body := t.stmts(x.Body.List)
		t.inLoop--
		return []string{fmt.Sprintf(".loop %d %s", v, block(body))}
	case *ast.RangeStmt:
		out := t.uses(x.X)
		if sv, ok := t.sliceVar(x.X); ok {
			out = append(out, fmt.Sprintf(".rangeTail %d 0", sv))
		}
		if t.hasEffects(x.Body) {
			t.fail(x, "range body indexes, assigns a slice or returns")
		}
		return out
	case *ast.SwitchStmt:
		var out []string
		var v, i int
		var ok bool
		if x.Init != nil {
			as, isas := x.Init.(*ast.AssignStmt)
			if !isas || len(as.Lhs) != 1 || len(as.Rhs) != 1 {
				t.fail(x, "unsupported switch init")
				return nil
			}
			var up bool
			v, i, up, ok = t.argOf(as.Rhs[0])
			if !ok || !up {
				t.fail(x, "switch init is not strings.ToUpper(arg)")
				return nil
			}
		} else if x.Tag != nil {
			var up bool
			v, i, up, ok = t.argOf(x.Tag)
			if !ok || !up {
				t.fail(x, "switch tag is not an upper-cased argument")
				return nil
			}
		} else {
			t.fail(x, "tagless switch")
			return nil
		}
		cases := ".nil"
		dflt := ".nil"
		type cc struct {
			lit  string
			body string
		}
		var list []cc
		for _, c := range x.Body.List {
			cl := c.(*ast.CaseClause)
			body := block(t.stmts(cl.Body))
			if cl.List == nil {
				dflt = body
				continue
			}
			for _, e := range cl.List {
				lit, ok := strLit(e)
				if !ok {
					t.fail(e, "case is not a string literal")
					continue
				}
				list = append(list, cc{lit, body})
			}
		}
		for j := len(list) - 1; j >= 0; j-- {
			cases = fmt.Sprintf("(.cons %s %s %s)", tokLit(list[j].lit), list[j].body, cases)
		}
		out = append(out, fmt.Sprintf(".switchTok %d %d %s %s", v, i, cases, dflt))
		return out
	case *ast.BranchStmt:
		if x.Tok == token.CONTINUE && x.Label == nil && t.inLoop > 0 {
			return []string{".cont"}
		}
		t.fail(x, "unsupported branch statement "+x.Tok.String())
		return nil
	case *ast.ReturnStmt:
		var out []string
		for _, r := range x.Results {
			out = append(out, t.uses(r)...)
		}
		ok := false
		if len(x.Results) > 0 {
			if id, isid := x.Results[len(x.Results)-1].(*ast.Ident); isid && id.Name == "nil" {
				ok = true
			}
		}
		return append(out, fmt.Sprintf(".ret %v", ok))
	case *ast.AssignStmt:
		// dst = v[k:]  /  arg := BytesToString(v[i])  / anything else: its index effects
		if len(x.Lhs) == 1 && len(x.Rhs) == 1 {
			if id, isid := x.Lhs[0].(*ast.Ident); isid {
				if se, isse := x.Rhs[0].(*ast.SliceExpr); isse {
					if sv, ok := t.sliceVar(se.X); ok && se.High == nil && se.Max == nil {
						k := 0
						if se.Low != nil {
							var isn bool
							if k, isn = intLit(se.Low); !isn {
								t.fail(se, "slice bound is not a constant")
							}
						}
						dst, known := t.vars[id.Name]
						if !known {
							t.nextVar++
							dst = t.nextVar
							t.vars[id.Name] = dst
						}
						return []string{fmt.Sprintf(".slice %d %d %d", dst, sv, k)}
					}
				}
				if v, i, up, ok := t.argOf(x.Rhs[0]); ok {
					if _, isidx := x.Rhs[0].(*ast.IndexExpr); !isidx {
						t.toks[id.Name] = tokAlias{v, i, up}
					}
					return []string{fmt.Sprintf(".index %d %d", v, i)}
				}
				if _, tracked := t.vars[id.Name]; tracked {
					t.fail(x, "slice variable assigned from an unsupported expression")
				}
			}
		}
		var out []string
		for _, r := range x.Rhs {
			out = append(out, t.uses(r)...)
		}
		return out
	case *ast.ExprStmt:
		return t.uses(x.X)
	case *ast.DeclStmt:
		return t.uses(x.Decl)
	case *ast.IncDecStmt, *ast.EmptyStmt:
		return nil
	}
	t.fail(s, fmt.Sprintf("unsupported statement %T", s))
	return nil
}

func nodeSrc(n ast.Node) string {
	b, _ := os.ReadFile(fset.Position(n.Pos()).Filename)
	return string(b[fset.Position(n.Pos()).Offset:fset.Position(n.End()).Offset])
}

func main() {
	if len(os.Args) < 4 {
		fmt.Fprintln(os.Stderr, "usage: parsers <repo> <Parsers.lean> <ParsersSafe.lean>")
		os.Exit(2)
	}
	repo := os.Args[1]
	files, _ := filepath.Glob(filepath.Join(repo, "internal/protocol/*.go"))
	sort.Strings(files)
	type prog struct{ name, body string }
	var progs []prog
	var errs []string
	for _, fn := range files {
		if strings.HasSuffix(fn, "_test.go") {
			continue
		}
		f, err := parser.ParseFile(fset, fn, nil, 0)
		if err != nil {
			errs = append(errs, err.Error())
			continue
		}
		for _, d := range f.Decls {
			fd, ok := d.(*ast.FuncDecl)
			if !ok || fd.Recv != nil || !strings.HasPrefix(fd.Name.Name, "Parse") || fd.Body == nil {
				continue
			}
			// only functions taking a redcon.Command named cmd
			if fd.Type.Params == nil || len(fd.Type.Params.List) != 1 || len(fd.Type.Params.List[0].Names) != 1 ||
				fd.Type.Params.List[0].Names[0].Name != "cmd" {
				continue
			}
			t := &tr{fn: fd.Name.Name, vars: map[string]int{}, toks: map[string]tokAlias{}}
			body := block(t.stmts(fd.Body.List))
			if t.nextVar >= 3 {
				t.errs = append(t.errs, t.fn+": too many slice variables")
			}
			errs = append(errs, t.errs...)
			progs = append(progs, prog{fd.Name.Name, body})
		}
	}
	sort.Slice(progs, func(i, j int) bool { return progs[i].name < progs[j].name })
	var sb strings.Builder
	sb.WriteString("/- GENERATED by /verif/extract/parsers from internal/protocol/*.go on every run. Do not edit. -/\n")
	sb.WriteString("import OlricModel.Proto.IR\nnamespace Olric.Parsers\nopen Olric.IR\n\n")
	for _, p := range progs {
		fmt.Fprintf(&sb, "def prog_%s : Block :=\n  %s\n\n", p.name, p.body)
	}
	sb.WriteString("def all : List (String × Block) := [\n")
	for i, p := range progs {
		sep := ","
		if i == len(progs)-1 {
			sep = ""
		}
		fmt.Fprintf(&sb, "  (\"%s\", prog_%s)%s\n", p.name, p.name, sep)
	}
	sb.WriteString("]\n\n")
	fmt.Fprintf(&sb, "/-- constructs the translator could not express (must be empty) -/\ndef untranslated : List String := [%s]\n\n", quoteList(errs))
	sb.WriteString("end Olric.Parsers\n")
	if err := os.WriteFile(os.Args[2], []byte(sb.String()), 0o644); err != nil {
		fmt.Fprintln(os.Stderr, err)
		os.Exit(1)
	}
	var sf strings.Builder
	sf.WriteString("/- GENERATED by /verif/extract/parsers. One obligation per parser: the checker accepts it, hence\n   (IRSound.safe_sound) no argument vector of any length makes it panic or spin. -/\n")
	sf.WriteString("import OlricModel.Generated.Parsers\nimport OlricModel.Proofs.IRSound\nnamespace Olric.Parsers\nopen Olric.IR\n\n")
	sf.WriteString("theorem translator_complete : untranslated = [] := by decide\n\n")
	for _, p := range progs {
		fmt.Fprintf(&sf, "theorem %s_safe : safe prog_%s = true := by decide\n", p.name, p.name)
	}
	sf.WriteString("\n/-- every translated parser at once -/\ntheorem all_safe : all.all (fun np => safe np.2) = true := by decide\n")
	sf.WriteString("\nend Olric.Parsers\n")
	if err := os.WriteFile(os.Args[3], []byte(sf.String()), 0o644); err != nil {
		fmt.Fprintln(os.Stderr, err)
		os.Exit(1)
	}
	if len(os.Args) >= 5 {
		var g strings.Builder
		g.WriteString("//go:build verif\n\n// GENERATED by /verif/extract/parsers: every protocol.Parse* function found in the source.\npackage main\n\nimport (\n\t\"github.com/olric-data/olric/internal/protocol\"\n\t\"github.com/tidwall/redcon\"\n)\n\nvar parserRegistry = map[string]func(redcon.Command) error{\n")
		for _, p := range progs {
			fmt.Fprintf(&g, "\t%q: func(c redcon.Command) error { _, err := protocol.%s(c); return err },\n", p.name, p.name)
		}
		g.WriteString("}\n")
		if err := os.WriteFile(os.Args[4], []byte(g.String()), 0o644); err != nil {
			fmt.Fprintln(os.Stderr, err)
			os.Exit(1)
		}
	}
	for _, p := range progs {
		fmt.Println("parser=" + p.name)
	}
	for _, e := range errs {
		fmt.Println("untranslated=" + e)
	}
}

func quoteList(xs []string) string {
	q := make([]string, len(xs))
	for i, x := range xs {
		q[i] = strconv.Quote(x)
	}
	return strings.Join(q, ", ")
}
