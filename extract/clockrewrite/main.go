// clockrewrite: reads a Go source file and writes a copy in which every call expression
// `time.Now()` is replaced by `verifhook.Now()`.  Purely syntactic, regenerated from the current
// file on every run; the output is only ever used as an -overlay replacement in verif builds.
//
// usage: clockrewrite <in.go> <out.go> [point-spec...]
package main

import (
	"bytes"
	"fmt"
	"go/ast"
	"go/format"
	"go/parser"
	"go/token"
	"os"
	"strconv"
)

const hookPath = "github.com/olric-data/olric/internal/verifhook"

// callsDirectly: does the statement (not counting nested blocks) contain a call of a function or
// method named callee?
func callsDirectly(st ast.Stmt, callee string) bool {
	found := false
	ast.Inspect(st, func(node ast.Node) bool {
		if _, ok := node.(*ast.BlockStmt); ok {
			return false
		}
		call, ok := node.(*ast.CallExpr)
		if !ok {
			return true
		}
		switch fun := call.Fun.(type) {
		case *ast.SelectorExpr:
			if fun.Sel.Name == callee {
				found = true
			}
		case *ast.Ident:
			if fun.Name == callee {
				found = true
			}
		}
		return true
	})
	return found
}

func main() {
	if len(os.Args) < 3 {
		fmt.Fprintln(os.Stderr, "usage: clockrewrite in.go out.go")
		os.Exit(2)
	}
	fset := token.NewFileSet()
	f, err := parser.ParseFile(fset, os.Args[1], nil, parser.ParseComments)
	if err != nil {
		fmt.Fprintln(os.Stderr, err)
		os.Exit(1)
	}
	n := 0
	hookNow := func() ast.Expr {
		return &ast.CallExpr{Fun: &ast.SelectorExpr{X: ast.NewIdent("verifhook"), Sel: ast.NewIdent("Now")}}
	}
	// time.Until(x) -> (x).Sub(verifhook.Now());  time.Since(x) -> verifhook.Now().Sub(x)
	ast.Inspect(f, func(node ast.Node) bool {
		call, ok := node.(*ast.CallExpr)
		if !ok || len(call.Args) != 1 {
			return true
		}
		sel, ok := call.Fun.(*ast.SelectorExpr)
		if !ok {
			return true
		}
		id, ok := sel.X.(*ast.Ident)
		if !ok || id.Name != "time" {
			return true
		}
		switch sel.Sel.Name {
		case "Until":
			arg := call.Args[0]
			call.Fun = &ast.SelectorExpr{X: &ast.ParenExpr{X: arg}, Sel: ast.NewIdent("Sub")}
			call.Args = []ast.Expr{hookNow()}
			n++
		case "Since":
			arg := call.Args[0]
			call.Fun = &ast.SelectorExpr{X: hookNow(), Sel: ast.NewIdent("Sub")}
			call.Args = []ast.Expr{arg}
			n++
		}
		return true
	})
	ast.Inspect(f, func(node ast.Node) bool {
		call, ok := node.(*ast.CallExpr)
		if !ok || len(call.Args) != 0 {
			return true
		}
		sel, ok := call.Fun.(*ast.SelectorExpr)
		if !ok || sel.Sel.Name != "Now" {
			return true
		}
		id, ok := sel.X.(*ast.Ident)
		if !ok || id.Name != "time" {
			return true
		}
		id.Name = "verifhook"
		n++
		return true
	})
	// gate functions: `if verifhook.Skip("<name>") { return }` at the top of listed result-less functions
	skip := map[string]bool{}
	for i := 3; i+1 < len(os.Args); i++ {
		if os.Args[i] == "-skip" {
			skip[os.Args[i+1]] = true
		}
	}
	for _, d := range f.Decls {
		fd, ok := d.(*ast.FuncDecl)
		if !ok || fd.Body == nil || !skip[fd.Name.Name] || (fd.Type.Results != nil && len(fd.Type.Results.List) > 0) {
			continue
		}
		gate := &ast.IfStmt{
			Cond: &ast.CallExpr{Fun: &ast.SelectorExpr{X: ast.NewIdent("verifhook"), Sel: ast.NewIdent("Skip")},
				Args: []ast.Expr{&ast.BasicLit{Kind: token.STRING, Value: strconv.Quote(fd.Name.Name)}}},
			Body: &ast.BlockStmt{List: []ast.Stmt{&ast.ReturnStmt{}}},
		}
		fd.Body.List = append([]ast.Stmt{gate}, fd.Body.List...)
		n++
	}
	// yield points: `verifhook.At("<name>")` before every statement of function <fn> that calls <callee>
	// (-point <fn> <callee> <name>); the statement is looked for in every block of the function
	for i := 3; i+3 < len(os.Args); i++ {
		if os.Args[i] != "-point" {
			continue
		}
		fn, callee, name := os.Args[i+1], os.Args[i+2], os.Args[i+3]
		for _, d := range f.Decls {
			fd, ok := d.(*ast.FuncDecl)
			if !ok || fd.Body == nil || fd.Name.Name != fn {
				continue
			}
			ast.Inspect(fd.Body, func(node ast.Node) bool {
				blk, ok := node.(*ast.BlockStmt)
				if !ok {
					return true
				}
				var out []ast.Stmt
				for _, st := range blk.List {
					if callsDirectly(st, callee) {
						out = append(out, &ast.ExprStmt{X: &ast.CallExpr{
							Fun:  &ast.SelectorExpr{X: ast.NewIdent("verifhook"), Sel: ast.NewIdent("At")},
							Args: []ast.Expr{&ast.BasicLit{Kind: token.STRING, Value: strconv.Quote(name)}}}})
						n++
					}
					out = append(out, st)
				}
				blk.List = out
				return true
			})
		}
	}
	if n > 0 {
		// add the import
		spec := &ast.ImportSpec{Path: &ast.BasicLit{Kind: token.STRING, Value: strconv.Quote(hookPath)}}
		added := false
		for _, d := range f.Decls {
			if gd, ok := d.(*ast.GenDecl); ok && gd.Tok == token.IMPORT {
				gd.Specs = append(gd.Specs, spec)
				if !gd.Lparen.IsValid() {
					gd.Lparen = gd.Pos()
					gd.Rparen = gd.End()
				}
				added = true
				break
			}
		}
		if !added {
			gd := &ast.GenDecl{Tok: token.IMPORT, Specs: []ast.Spec{spec}}
			f.Decls = append([]ast.Decl{gd}, f.Decls...)
		}
		f.Imports = append(f.Imports, spec)
	}
	var buf bytes.Buffer
	buf.WriteString("//go:build verif\n\n")
	if err := format.Node(&buf, fset, f); err != nil {
		fmt.Fprintln(os.Stderr, err)
		os.Exit(1)
	}
	if n > 0 {
		// keep the "time" import used even if every use was rewritten
		hasTime := false
		for _, im := range f.Imports {
			if im.Path.Value == `"time"` {
				hasTime = true
			}
		}
		if hasTime {
			buf.WriteString("\nvar _ = time.Now\n")
		}
	}
	if err := os.WriteFile(os.Args[2], buf.Bytes(), 0o644); err != nil {
		fmt.Fprintln(os.Stderr, err)
		os.Exit(1)
	}
	fmt.Printf("%s: %d time.Now() call(s) rewritten\n", os.Args[1], n)
}
