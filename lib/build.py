"""Build helpers: Go harness (overlay-injected into /repo), extractor tools, Lean project."""
import glob
import json
import os
import subprocess
import sys
import tempfile
import time

VERIF = os.path.dirname(os.path.dirname(os.path.abspath(__file__)))
REPO = os.environ.get("VERIF_REPO", "/repo")
BUILD = os.path.join(VERIF, ".build")          # git-ignored; rebuilt by setup / on demand
LEAN = os.path.join(VERIF, "lean")

GOENV = dict(os.environ, GOFLAGS="-mod=mod", GOPROXY="off", GOSUMDB="off", GOTOOLCHAIN="local",
             CGO_ENABLED="0")

# files whose time.Now() calls are redirected to the virtual clock in harness builds
CLOCK_GLOBS = ["internal/kvstore/table/table.go", "internal/kvstore/compaction.go", "internal/dmap/*.go", "internal/cluster/routingtable/routingtable.go"]


# background workers that the harness can switch off (gate inserted at the top of the function)
GATES = {"internal/dmap/eviction.go": ["-skip", "evictKeys"],
         # yield points (verifhook.At) between the read and the write of read-modify-write sequences
         "internal/dmap/lock.go": ["-point", "unlockKey", "deleteKeys", "unlock.checked",
                                   "-point", "unlockKey", "deleteLockKey", "unlock.checked",
                                   "-point", "leaseKey", "Expire", "lease.checked",
                                   "-point", "leaseKey", "expireLockKey", "lease.checked"],
         "internal/dmap/get.go": ["-point", "getOnCluster", "lookupOnReplicas", "get.owner-read",
                                  "-point", "getOnCluster", "readRepair", "get.before-repair"],
         "internal/dmap/put.go": ["-point", "putOnCluster", "Lock", "put.loaded",
                                  "-point", "syncPutOnCluster", "putEntryOnFragment", "put.replicated"],
         "internal/dmap/fragment.go": ["-point", "loadOrCreateLockedFragment", "Lock", "put.loaded"],
         "internal/dmap/delete.go": ["-point", "deleteKey", "Lock", "del.loaded",
                                     "-point", "deleteOnCluster", "Delete", "del.others-deleted"],
         "internal/dmap/compaction.go": ["-point", "callCompactionOnFragment", "Lock", "compact.fragment"],
         "internal/dmap/janitor.go": ["-point", "janitor", "Lock", "janitor.locking"],
         # one hit per scan request a member serves (remote DM.SCAN or the embedded iterator's local call)
         "internal/dmap/scan_handlers.go": ["-point", "Scan", "loadFragment", "scan.request"],
         # the coordinator has computed the new table (and asked every previous owner whether it still holds data) but
         # has not pushed it yet
         "internal/cluster/routingtable/routingtable.go": ["-point", "updateRouting", "updateRoutingTableOnCluster", "routing.computed"],
         "internal/dmap/atomic.go": ["-point", "atomicIncrDecr", "Lock", "atomic.env",
                                     "-point", "getPut", "Lock", "atomic.env",
                                     "-point", "atomicIncrDecr", "put", "atomic.read",
                                     "-point", "getPut", "put", "atomic.read",
                                     "-point", "atomicIncrByFloat", "put", "atomic.read"]}


class lean_lock:
    """One Lean / tools build at a time across concurrently running checks: `lake build` processes that rebuild the
    same module at the same moment (the first run after the source changed a generated file) trip over each other's
    output files.  Re-entrant within a process."""
    depth = 0
    fh = None

    def __enter__(self):
        import fcntl
        if lean_lock.depth == 0:
            os.makedirs(BUILD, exist_ok=True)
            lean_lock.fh = open(os.path.join(BUILD, "lean.lock"), "w")
            fcntl.flock(lean_lock.fh, fcntl.LOCK_EX)
        lean_lock.depth += 1
        return self

    def __exit__(self, *exc):
        import fcntl
        lean_lock.depth -= 1
        if lean_lock.depth == 0:
            fcntl.flock(lean_lock.fh, fcntl.LOCK_UN)
            lean_lock.fh.close()
            lean_lock.fh = None
        return False


def run(cmd, cwd=None, env=None, check=True, timeout=None, quiet=False):
    p = subprocess.run(cmd, cwd=cwd, env=env, stdout=subprocess.PIPE, stderr=subprocess.STDOUT,
                       text=True, timeout=timeout)
    if check and p.returncode != 0:
        if not quiet:
            sys.stderr.write(p.stdout)
        raise RuntimeError("command failed (%d): %s\n%s" % (p.returncode, " ".join(cmd), p.stdout[-4000:]))
    return p


def build_tools():
    with lean_lock():
        return _build_tools()


def _build_tools():
    """extractor + clock rewriter (stdlib-only Go module in /verif/extract)."""
    os.makedirs(BUILD, exist_ok=True)
    src = os.path.join(VERIF, "extract")
    for tool in sorted(os.listdir(src)):
        d = os.path.join(src, tool)
        if not os.path.isdir(d) or not glob.glob(os.path.join(d, "*.go")):
            continue
        out = os.path.join(BUILD, tool)
        newest = max(os.path.getmtime(f) for f in glob.glob(os.path.join(d, "*.go")))
        if os.path.exists(out) and os.path.getmtime(out) >= newest:
            continue
        run(["go", "build", "-o", out, "./" + tool], cwd=src, env=GOENV)


def build_harness(workdir):
    """Builds verif-drv from /repo's CURRENT working tree plus the injected files. Returns the
    binary path and a dict of build facts (rewritten files, anchors)."""
    build_tools()
    t0 = time.time()
    rw = os.path.join(workdir, "rw")
    os.makedirs(rw, exist_ok=True)
    replace = {}
    ovroot = os.path.join(VERIF, "harness", "overlay")
    for root, _, files in os.walk(ovroot):
        for f in files:
            if f.endswith(".go"):
                p = os.path.join(root, f)
                replace[os.path.join(REPO, os.path.relpath(p, ovroot))] = p
    rewritten = {}
    for g in CLOCK_GLOBS:
        for src in sorted(glob.glob(os.path.join(REPO, g))):
            if src.endswith("_test.go") or src in replace:
                continue
            txt = open(src).read()
            rel = os.path.relpath(src, REPO)
            if "time.Now()" not in txt and "time.Until(" not in txt and "time.Since(" not in txt and rel not in GATES:
                continue
            dst = os.path.join(rw, rel.replace("/", "__"))
            p = run([os.path.join(BUILD, "clockrewrite"), src, dst] + GATES.get(rel, []))
            replace[src] = dst
            rewritten[rel] = p.stdout.strip().split(": ")[-1]
    # registry of every Parse* function, regenerated from the source
    reg = os.path.join(rw, "zz_parsers_registry.go")
    pr = run([os.path.join(BUILD, "parsers"), REPO, os.path.join(rw, "Parsers.lean"), os.path.join(rw, "ParsersSafe.lean"), reg],
             check=False)
    if pr.returncode == 0:
        replace[os.path.join(REPO, "cmd", "verif-drv", "zz_parsers_registry.go")] = reg
    ov = os.path.join(workdir, "overlay.json")
    with open(ov, "w") as fh:
        json.dump({"Replace": replace}, fh)
    out = os.path.join(workdir, "verif-drv")
    run(["go", "build", "-tags", "verif", "-overlay", ov, "-o", out, "./cmd/verif-drv"], cwd=REPO, env=GOENV)
    return out, {"clock_rewritten": rewritten, "build_s": round(time.time() - t0, 1)}


def lake_build(targets, timeout=3000):
    """Returns (ok, output)."""
    with lean_lock():
        p = run(["lake", "build"] + list(targets), cwd=LEAN, check=False, timeout=timeout)
    return p.returncode == 0, p.stdout


def model_exe():
    exe = os.path.join(LEAN, ".lake", "build", "bin", "olric_model")
    return exe


def mkwork(prefix="verif-"):
    return tempfile.mkdtemp(prefix=prefix)
