"""Episode runner: drives a stream's generator coroutine against impl+model, shrinks failures."""
import hashlib
import random
import time

from lockstep import Pair, replay, ddmin


class Failure:
    def __init__(self, kind, stream, ops, index, op, detail, seed, episode):
        self.kind = kind          # 'oracle' | 'crash' | 'diff'
        self.stream = stream
        self.ops = ops
        self.index = index
        self.op = op
        self.detail = detail
        self.seed = seed
        self.episode = episode
        self.min_ops = None
        self.min_detail = None

    def signature(self):
        """Shape of the failure, used to match known findings: stream, kind, op kind, message class."""
        import re
        d = self.min_detail or self.detail
        d = re.sub(r"[0-9a-f]{6,}", "H", d)
        d = re.sub(r"\d+", "N", d)
        return "%s|%s|%s|%s" % (self.stream, self.kind, self.op.split()[0], d[:120])

    def to_json(self):
        return {"kind": self.kind, "stream": self.stream, "seed": self.seed, "episode": self.episode,
                "failing_op_index": self.index, "failing_op": self.op, "detail": self.detail,
                "ops": self.ops, "minimized_ops": self.min_ops, "minimized_detail": self.min_detail}


class Stats:
    def __init__(self):
        self.evaluations = 0       # ops executed on the implementation
        self.episodes = 0
        self.compared = 0          # replies compared with the model
        self.distinct = set()      # hashes of (op kind, reply class) n-grams
        self.shapes = {}
        self.samples = []
        self.opkinds = {}
        self.wall = 0.0

    def merge_shapes(self, d):
        for k, v in d.items():
            self.shapes[k] = self.shapes.get(k, 0) + v


def reply_class(r):
    f = r.split(" ")
    return f[0] if f else ""


def run_stream(name, drv, model, make_gen, make_oracle, seed, episodes, nops, header=3,
               shrink_budget=40, max_failures=2, env=None, deadline=None):
    """Runs `episodes` generated episodes.  The model is compared reply by reply until the first
    divergence of an episode; after a divergence the episode (and, once `max_failures` divergences
    were recorded, every later episode) continues with the implementation and the property oracle
    only — that is the failing-input search."""
    st = Stats()
    failures = []
    ndiff = nreal = 0
    t0 = time.time()
    for ep in range(episodes):
        if deadline and time.time() > deadline:
            break
        if nreal >= max_failures:
            break
        rng = random.Random(seed * 1000003 + ep * 7919 + 17)
        use_model = model if ndiff < max_failures else None
        pair = Pair(drv, use_model, env=env)
        orc = make_oracle()
        gen = make_gen(rng)
        gen.ep = ep          # generators may place a directed episode at a fixed position of the run
        co = gen.episode(orc, nops)
        ops = []
        fails = []
        window = []
        comparing = use_model is not None
        try:
            op = next(co)
            while True:
                ri, rm = pair.ask(op)
                ops.append(op)
                st.evaluations += 1
                kind = op.split(" ", 1)[0]
                st.opkinds[kind] = st.opkinds.get(kind, 0) + 1
                window = (window + [kind + ">" + reply_class(ri)])[-3:]
                st.distinct.add(hashlib.md5("|".join(window).encode()).hexdigest()[:12])
                if ri.startswith("panic") or ri.startswith("dead") or ri in ("hang", "spin"):
                    fails.append(Failure("crash", name, list(ops), len(ops) - 1, op, ri, seed, ep))
                    break
                msg = orc.observe(op, ri)
                if msg:
                    fails.append(Failure("oracle", name, list(ops), len(ops) - 1, op, msg, seed, ep))
                    break
                if comparing:
                    st.compared += 1
                    if ri != rm:
                        fails.append(Failure("diff", name, list(ops), len(ops) - 1, op,
                                             "impl=%s model=%s" % (ri[:600], rm[:600]), seed, ep))
                        comparing = False
                        pair.model.close()
                        pair.model = None
                op = co.send(ri)
        except StopIteration:
            pass
        finally:
            pair.close()
        st.episodes += 1
        st.merge_shapes(getattr(orc, "shapes", {}))
        if len(st.samples) < 3 and ops:
            st.samples.append({"episode": ep, "ops": [o[:160] for o in ops[:12]], "n_ops": len(ops)})
        for fail in fails:
            if fail.kind == "diff":
                ndiff += 1
                if ndiff > max_failures:
                    continue
            else:
                nreal += 1

            def msg_class(m):
                import re
                m = re.sub(r"[0-9a-f]{6,}", "H", m)
                return re.sub(r"\d+", "N", m)[:48]

            def fails_same(cand, kind=fail.kind, want=msg_class(fail.detail)):
                out = replay(drv, model if kind == "diff" else None, cand, make_oracle, env=env)
                if kind == "oracle":
                    # the SAME complaint of the oracle, not any complaint (a shortened sequence may fail for a reason of its own)
                    return any(msg_class(o[2]) == want for o in out.oracle)
                if kind == "crash":
                    return bool(out.crashes)
                return bool(out.diffs) and not out.oracle and not out.crashes
            try:
                m = ddmin(fail.ops, fails_same, keep_prefix=header, budget_s=shrink_budget)
                out = replay(drv, model if fail.kind == "diff" else None, m, make_oracle, env=env)
                fail.min_ops = m
                if fail.kind == "oracle" and out.oracle:
                    fail.min_detail = out.oracle[0][2]
                elif fail.kind == "crash" and out.crashes:
                    fail.min_detail = out.crashes[0][2]
                elif fail.kind == "diff" and out.diffs:
                    fail.min_detail = "impl=%s model=%s" % (out.diffs[0][2][:600], out.diffs[0][3][:600])
            except Exception:  # shrinking is best effort
                fail.min_detail = None
            failures.append(fail)
    st.wall = time.time() - t0
    return st, failures
