"""Lock-step execution of the real code (Go harness) and the Lean model over a line protocol."""
import os
import select
import tempfile
import subprocess
import time


class Proc:
    TIMEOUT = 180   # seconds without a reply line: the process is killed and the reply is "hang"

    def __init__(self, argv, name, env=None):
        self.name = name
        self.argv = argv
        # stderr goes to an anonymous temp file: when the process dies its panic message names the crash
        self.errf = tempfile.TemporaryFile(mode="w+b")
        self.p = subprocess.Popen(argv, stdin=subprocess.PIPE, stdout=subprocess.PIPE,
                                  stderr=self.errf, text=True, bufsize=1, env=env)
        self.dead = False

    def death_note(self):
        """'dead' plus the first panic / fatal line the process wrote, if any"""
        try:
            self.p.wait(timeout=5)
        except Exception:
            pass
        try:
            self.errf.seek(0)
            for line in self.errf.read().decode("utf-8", "replace").splitlines():
                if line.startswith("panic:") or line.startswith("fatal error:"):
                    return "dead " + line.strip()[:200].replace(" ", "_")
        except Exception:
            pass
        return "dead"

    def ask(self, line):
        if self.dead:
            return "dead"
        try:
            self.p.stdin.write(line + "\n")
            self.p.stdin.flush()
            if not select.select([self.p.stdout], [], [], self.TIMEOUT)[0]:
                self.dead = True
                self.p.kill()
                return "hang"
            r = self.p.stdout.readline()
        except (BrokenPipeError, OSError):
            r = ""
        if r == "":
            self.dead = True
            return self.death_note()
        return r.rstrip("\n")

    def close(self):
        try:
            if not self.dead:
                self.p.stdin.write("quit\n")
                self.p.stdin.flush()
            self.p.stdin.close()
        except Exception:
            pass
        try:
            self.p.wait(timeout=20)
        except Exception:
            self.p.kill()


class Pair:
    """impl + model.  `ask(op)` sends op to the implementation, forwards the nondeterministic choice it
    reports (` order=...`, ` pick=...`) to the model as extra arguments, and returns both replies."""

    CHOICE_KEYS = ("order=", "pick=", "sample=", "part=", "owned=", "in=")
    # white-box listings the model does not mirror (they feed the property oracle only)
    IMPL_ONLY = ("wb.keys", "wb.frags", "c.scanall", "c.commands", "c.rawcmd", "c.sync", "c.add", "c.stop", "c.update",
                 "c.balance", "bg.compact", "bg.janitor", "wb.stats", "wb.mergex", "c.lockrace", "c.atomrace", "c.incrf", "c.atomxf", "c.getf", "rt.dump", "rt.client", "c.converge", "c.rejoin", "c.balanceall", "r.put", "c.kill", "c.settle", "wb.owners", "wb.slab", "c.rawerr", "c.rawscan", "wb.wait", "wb.baks", "c.rawseq", "c.addconv", "c.stopconv", "c.inter", "c.rawhold", "c.rawdrop", "c.rawquit", "c.rawint", "c.wait", "c.rawframe", "rangestop", "c.badrouting", "c.badfragment")

    def __init__(self, drv, model, env=None):
        self.drv_path, self.model_path, self.env = drv, model, env
        self.impl = Proc([drv], "impl", env=env)
        self.model = Proc([model], "model") if model else None
        self.log = []

    def ask(self, op):
        ri = self.impl.ask(op)
        mop = op
        for part in ri.split(" "):
            for ck in self.CHOICE_KEYS:
                if part.startswith(ck):
                    mop += " " + part[len(ck):]
        if op.split(" ", 1)[0] in self.IMPL_ONLY:
            rm = ri
        else:
            rm = self.model.ask(mop) if self.model else ri
        self.log.append((op, ri, rm))
        return ri, rm

    def close(self):
        self.impl.close()
        if self.model:
            self.model.close()


class Outcome:
    def __init__(self):
        self.ops = 0
        self.diffs = []        # (index, op, impl, model)
        self.oracle = []       # (index, op, message)
        self.crashes = []      # (index, op, reply)
        self.shapes = {}       # coverage counters
        self.samples = []
        self.distinct = set()


def replay(drv, model, ops, oracle_factory=None, stop_at_first=True, env=None):
    """Runs a fixed op list; returns Outcome.  oracle_factory() -> object with observe(op, reply) -> msg|None."""
    pair = Pair(drv, model, env=env)
    out = Outcome()
    orc = oracle_factory() if oracle_factory else None
    try:
        for i, op in enumerate(ops):
            ri, rm = pair.ask(op)
            out.ops += 1
            if ri.startswith("panic") or ri.startswith("dead") or ri in ("hang", "spin"):
                out.crashes.append((i, op, ri))
                if stop_at_first:
                    break
            if ri != rm:
                out.diffs.append((i, op, ri, rm))
                if stop_at_first:
                    break
            if orc is not None:
                msg = orc.observe(op, ri)
                if msg:
                    out.oracle.append((i, op, msg))
                    if stop_at_first:
                        break
    finally:
        pair.close()
    return out


def ddmin(ops, fails, keep_prefix=0, budget_s=60):
    """Delta-debugging on an op list: `fails(ops)` -> bool.  The first keep_prefix ops are never removed."""
    t0 = time.time()
    head, body = ops[:keep_prefix], ops[keep_prefix:]
    n = 2
    while len(body) >= 2 and time.time() - t0 < budget_s:
        chunk = max(1, len(body) // n)
        reduced = False
        for i in range(0, len(body), chunk):
            cand = body[:i] + body[i + chunk:]
            if cand and fails(head + cand):
                body = cand
                n = max(n - 1, 2)
                reduced = True
                break
            if time.time() - t0 > budget_s:
                break
        if not reduced:
            if chunk == 1:
                break
            n = min(len(body), n * 2)
    return head + body
