"""T1: facts regenerated from /repo's current source on every run (extract/facts -> Generated/Facts.lean)."""
import os

from build import BUILD, LEAN, REPO, build_tools, lean_lock, run


def write_atomic(path, text):
    tmp = path + ".tmp%d" % os.getpid()
    with open(tmp, "w") as fh:
        fh.write(text)
    os.replace(tmp, path)


def regenerate(pid, work):
    with lean_lock():
        return _regenerate(pid, work)


def _regenerate(pid, work):
    """Regenerates lean/OlricModel/Generated/Facts.lean (written only if different) and reports the
    per-property fact obligations.  Returns dict(obligations, discharged, problems, facts)."""
    res = {"obligations": 0, "discharged": 0, "problems": [], "facts": {}}
    build_tools()
    tool = os.path.join(BUILD, "facts")
    if not os.path.exists(tool):
        return res
    out = os.path.join(LEAN, "OlricModel", "Generated", "Facts.lean")
    os.makedirs(os.path.dirname(out), exist_ok=True)
    tmp = os.path.join(work, "Facts.lean")
    p = run([tool, REPO, tmp], check=False)
    if p.returncode != 0:
        res["problems"].append("extractor failed: " + p.stdout[-500:])
        return res
    for line in p.stdout.splitlines():
        if "=" in line:
            k, v = line.split("=", 1)
            res["facts"][k] = v
    new = open(tmp).read()
    if not os.path.exists(out) or open(out).read() != new:
        write_atomic(out, new)
    # parser translation
    ptool = os.path.join(BUILD, "parsers")
    if os.path.exists(ptool):
        t1, t2 = os.path.join(work, "Parsers.lean"), os.path.join(work, "ParsersSafe.lean")
        p = run([ptool, REPO, t1, t2], check=False)
        if p.returncode != 0:
            res["problems"].append("parser translator failed: " + p.stdout[-500:])
        else:
            res["parsers"] = [l.split("=", 1)[1] for l in p.stdout.splitlines() if l.startswith("parser=")]
            res["untranslated"] = [l.split("=", 1)[1] for l in p.stdout.splitlines() if l.startswith("untranslated=")]
            for src, name in ((t1, "Parsers.lean"), (t2, "ParsersSafe.lean")):
                dst = os.path.join(LEAN, "OlricModel", "Generated", name)
                new = open(src).read()
                if not os.path.exists(dst) or open(dst).read() != new:
                    write_atomic(dst, new)
    return res
