"""T1: facts regenerated from /repo's current source on every run (extract/facts -> Generated/Facts.lean)."""
import os

from build import BUILD, LEAN, REPO, build_tools, run


def regenerate(pid, work):
    """Regenerates lean/OlricModel/Generated/Facts.lean (written only if different) and reports the
    per-property fact obligations.  Returns dict(obligations, discharged, problems, facts)."""
    res = {"obligations": 0, "discharged": 0, "problems": [], "facts": {}}
    build_tools()
    tool = os.path.join(BUILD, "facts")
    if not os.path.exists(tool):
        return res
    out = os.path.join(LEAN, "OlricModel", "Generated", "Facts.lean")
    os.makedirs(os.path.dirname(out), exist_ok=True)
    tmp = os.path.join(work, "Facts.lean")
    p = run([tool, REPO, tmp], check=False)
    if p.returncode != 0:
        res["problems"].append("extractor failed: " + p.stdout[-500:])
        return res
    for line in p.stdout.splitlines():
        if "=" in line:
            k, v = line.split("=", 1)
            res["facts"][k] = v
    new = open(tmp).read()
    if not os.path.exists(out) or open(out).read() != new:
        open(out, "w").write(new)
    return res
