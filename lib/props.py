"""Registry: property -> Lean modules, correspondence streams, trusted base."""

TRUSTED_COMMON = [
    "Lean 4.33.0 kernel (thorough tier re-checks the compiled modules with leanchecker)",
    "axioms allowed in #print axioms of every property theorem: propext, Classical.choice, Quot.sound (audited on every run)",
    "correspondence harness /verif/harness (Go, injected with go build -overlay) and its generators: the model is shown equal to the code only on the generated operation sequences",
    "fact extractor / clock rewriter /verif/extract (go/ast, stdlib only)",
]

# stream spec: (stream name, quick (episodes, ops/episode), thorough (episodes, ops/episode))
PROPS = {
    "C11": {
        "lean": ["OlricModel.Props.C11"],
        "streams": [("kv", (40, 300), (600, 400))],
        "model": True,
        "level_text": "Refinement theorem (C11_refines): for every operation sequence of the store model, of any length and with any sizes, every answer is that of a plain map, compaction never changes contents, Put never loops; plus transfer (export/import LWW) and count/iteration theorems. The model is tied to internal/kvstore by lock-step execution with full state dumps on generated sequences.",
        "design_ref": "DESIGN.md §6 C11",
        "modelled": "internal/kvstore/{kvstore,compaction,transport}.go, table/{table,pack}.go at record level (Store/Model.lean); byte layout separately (Store/Layout.lean)",
        "assumptions": [
            "hkey collisions (64-bit xxhash) are out of scope: one hkey = one key",
            "float64 rounding of the 0.40 garbage ratio is not modelled (rational 2/5); table sizes divisible by 5 are not used in the correspondence stream",
            "msgpack/roaring (de)serialisation of an exported table round-trips",
        ],
    },
}

NOT_CLAIMED = {}
