"""Registry: property -> Lean modules, correspondence streams, trusted base."""

TRUSTED_COMMON = [
    "Lean 4.33.0 kernel (thorough tier re-checks the compiled modules with leanchecker)",
    "axioms allowed in #print axioms of every property theorem: propext, Classical.choice, Quot.sound (audited on every run)",
    "correspondence harness /verif/harness (Go, injected with go build -overlay) and its generators: the model is shown equal to the code only on the generated operation sequences",
    "fact extractor / clock rewriter /verif/extract (go/ast, stdlib only)",
]

# stream spec: (stream name, quick (episodes, ops/episode), thorough (episodes, ops/episode))
PROPS = {
    "C11": {
        "lean": ["OlricModel.Props.C11"],
        "streams": [("kv", (40, 300), (600, 400)), ("churn", (4, 300), (20, 1000))],
        "model": True,
        "level_text": "Refinement theorem (C11_refines): for every operation sequence of the store model, of any length and with any sizes, every answer is that of a plain map, compaction never changes contents, Put never loops; repeated Compaction answers done within 2*records + tables + 3 calls for every iteration order (C11_compaction_terminates, by a measure that every not-done call strictly lowers); plus transfer (export/import LWW) and count/iteration theorems. The model is tied to internal/kvstore by lock-step execution with full state dumps on generated sequences.",
        "design_ref": "DESIGN.md §6 C11",
        "modelled": "internal/kvstore/{kvstore,compaction,transport}.go, table/{table,pack}.go at record level (Store/Model.lean); byte layout separately (Store/Layout.lean)",
        "assumptions": [
            "hkey collisions (64-bit xxhash) are out of scope: one hkey = one key",
            "float64 rounding of the 0.40 garbage ratio is not modelled (rational 2/5); table sizes divisible by 5 are not used in the correspondence stream",
            "msgpack/roaring (de)serialisation of an exported table round-trips",
        ],
    },
}

PROPS["C20"] = {
    "lean": ["OlricModel.Props.C20"],
    "streams": [("churn", (30, 500), (300, 2000)), ("kv", (15, 300), (200, 400)), ("cchurn", (5, 160), (40, 300))],
    "model": True,
    "level_text": "Invariant theorems over every reachable state of the store model: bytes in use = bytes of live records and inuse+garbage = bytes written for every table (so every superseding write, delete, raw write and compaction move turns the old bytes into garbage); Compaction reports done exactly when every retired table is below the 40% threshold, and the worker's call-until-done loop reaches that state in a bounded number of calls; a recycled table is reused before a new one is allocated; per-table bound 3*alloc < 5*inuse + 5*E + 1 for every non-empty retired table of every reachable state once compaction is done (entries of at most E bytes). Tied to internal/kvstore by the lock-step churn/kv streams whose dumps expose the counters; the member-level worker (internal/dmap/compaction.go: every primary and backup fragment, until done) by an extracted fact and by the cchurn stream, which churns a cluster's DMap through the API, runs the worker and checks the slab statistics of every primary and backup fragment against the threshold.",
    "design_ref": "DESIGN.md §6 C20",
    "modelled": "internal/kvstore (as C11); dmap/compaction.go's worker loop is KV.compactLoop (call Compaction until done), its coverage of primary and backup fragments is an extracted fact",
    "assumptions": [
        "the bound is proved for every state a workload with entries of at most E bytes reaches from a fresh store (C20_bound_reachable: 'retired => nearly full' is the invariant KV.Churn, kept by every operation); compaction-to-done is proved to terminate below the threshold (C20_compaction_reaches_threshold) for every iteration order that enumerates the drained table's keys once (Go's map range); table transfer (export / import) is outside the workloads of this theorem",
        "float64 rounding of the 0.40 ratio is not modelled",
    ],
}

PROPS["C17"] = {
    "lean": ["OlricModel.Props.C17"],
    "streams": [("codec", (6, 2500), (40, 20000)), ("kv", (10, 300), (100, 400)), ("cluster", (8, 150), (80, 400)), ("asyncbuf", (3, 30), (20, 60))],
    "model": True,
    "level_text": "Round-trip theorems for all inputs: decodeRec(encodeRec r) = r for every encodable record (any key/value bytes, any length below the field widths); ParseInt/ParseUint of the decimal text of n is n for every width when in range and a range error otherwise; Put-then-Get returns the stored record in every reachable store state; the two size limits are exact and a refused insert changes nothing; a record moved inside a table arrives unchanged. Tied to internal/resp, entry.Encode/Decode and kvstore by the codec and kv streams (byte-for-byte comparison).",
    "design_ref": "DESIGN.md §6 C17",
    "modelled": "internal/kvstore/entry/entry.go, internal/resp/{encoder,scan}.go integer paths, table layout (Base/Codec.lean)",
    "assumptions": [
        "A-float: strconv.ParseFloat(AppendFloat(f,'f',-1,64)) = f and the float32 widening; A-time: RFC3339Nano round trip; BinaryMarshaler bytes verbatim — not proved (Lean's Float is opaque to the kernel); the codec stream checks the implementation against these on boundary values",
        "strconv is modelled by fmtInt/parseInt (Base/Codec.lean) and compared byte-for-byte on generated and boundary inputs",
    ],
}

PROPS["C12"] = {
    "lean": ["OlricModel.Props.C12"],
    "streams": [("kv", (40, 300), (500, 400)), ("cluster", (6, 150), (40, 400)), ("rebalance", (6, 3), (24, 5))],
    "model": True,
    "level_text": "Theorems for every reachable store state: a cursor-resumed walk over one table yields every (matching) entry at or after the cursor exactly once for every page size >= 1 (walkTable_complete, by induction, no bound on the table); the hop to the next table picks the least existing coefficient above the current one; and the whole iteration of a fragment store from cursor 0, every page stamping lastAccess and handing the store on, ends within entries + tables + 1 pages and yields, lastAccess aside, a rearrangement of the entries of the present keys matching the pattern - every present key exactly once, nothing deleted, superseded or never stored (C12_full_walk, C12_full_walk_exactly_once, C12_full_walk_complete_sound), under an invariant on table coefficients and offsets that every store operation keeps (C12_scaninv_step/_run). The client iterator's composition for one partition (Cluster/Iterator.lean, following cluster_iterator.go / embedded_iterator.go as repaired by 4f77bd3: every owner still on the iterator's route answers its next page, keys met before are skipped, an owner whose cursor comes back 0 leaves the route): for every set of owners and whatever pages they answer, every page of every owner is fetched exactly once, the walk ends, no key is handed out twice and exactly the keys of some page of some owner are handed out (C12_client_iterator); its shape is extracted on every run (facts_tie). Tied to the code by the kv, cluster and rebalance streams: all five client paths, MATCH and COUNT, one to three members and copies, previous owners during a hand-over, a consumer slower than the iterator's routing-table refresh, and a bound on the number of scan requests the members serve for one iteration. The partition loop across members and the routing-table refresh are checked by the streams only (partial).",
    "design_ref": "DESIGN.md §6 C12",
    "modelled": "table.Scan/ScanRegexMatch, kvstore.scanCommon/findCoefficient (Store/Model.lean); regexp matching is a parameter",
    "assumptions": ["regexp / glob matching is a parameter `m : Rec -> Bool` that does not look at lastAccess (LaInd)", "the store does not change during the iteration other than by the iteration's own lastAccess stamps (stable keys); iterations interleaved with writes, compaction and table kills are explored by the kv stream", "the cluster/embedded iterator (cluster_iterator.go) is not modelled in Lean; exercised by the cluster streams only"],
}

PROPS["C18"] = {
    "lean": ["OlricModel.Props.C18"],
    "streams": [("alias", (30, 240), (300, 600)), ("kv", (8, 300), (60, 400)), ("cluster", (6, 150), (40, 400)), ("asyncbuf", (3, 30), (20, 60)), ("repair", (14, 60), (60, 150))],
    "model": True,
    "level_text": "Theorems over an explicit aliasing model (table memory = mutable array, a returned value = owned copy or view): with reads that copy — the generated fact extracted from table.Get/get on every run — a returned value is unaffected by every later sequence of writes, recycling and freeing of table memory, and poking it changes no table memory; the same statements are refuted for views by closed witnesses. Tied to the code by the alias stream, which keeps the very slices the store hands out, churns/recycles/transfers tables, then re-reads and scribbles on them, and reuses Put buffers.",
    "design_ref": "DESIGN.md §6 C18",
    "modelled": "the copy-out in table.Get/get and Table.Put's copy-in (Store/Heap.lean); GetResponse/Scan string aliasing (util.BytesToString) is exercised only by the cluster alias stream",
    "assumptions": ["Go's make+copy yields memory no one else references (runtime/GC trusted)"],
}

PROPS["C16"] = {
    "lean": ["OlricModel.Generated.ParsersSafe", "OlricModel.Props.C16"],
    "streams": [("parsers", (2, 60000), (6, 2000000)), ("handlers", (2, 800), (6, 6000))],
    "model": True,
    "technique": "Lean 4: verified abstract-interpretation checker (safe_sound) + per-parser `decide` obligations over a model REGENERATED from the Go source by a go/ast translator on every run; translator validated by lock-step runs of the IR interpreter against the real parsers",
    "level_text": "For every Parse*Command function found in internal/protocol at check time — translated mechanically to a small IR — the Lean kernel checks `safe prog = true`, and the once-proved theorem safe_sound lifts that to: for all argument vectors of all lengths and all strconv behaviours the parser returns a command or an error (no out-of-range index/slice, every option loop terminates). The translation is validated against the real functions on exhaustive short vectors and random long ones. Handler bodies are not modelled; they are exercised by the handlers stream against live members: every registered command (the list is the member's own) with random vectors, every known command skeleton with each position replaced by every extreme / malformed token, each also with a PING behind it on the same connection (exactly one reply per command), entries around the table size, raw entries that are not entries, sequences of commands over one connection in subscriber mode, and the two internal commands whose payload is a structure of its own - a routing-table push and a fragment hand-over that are well formed on the wire and falsified inside (partition id out of range, nil route, no owners; write offset, index entry or value length beyond the table). For a table received over the network (Store/Pack.lean, the check added by ef8ceb4): every pack that validate accepts is at most 4 GiB, its memory is as long as its write offset, and every position the readers access for an indexed entry lies inside it (C16_validated_pack_reads_in_bounds); two extracted facts pin where the two payload checks sit (facts_tie_payloads; also tied in C13 / C11).",
    "design_ref": "DESIGN.md §6 C16",
    "modelled": "internal/protocol/*.go Parse* functions (translated, not hand-written); redcon's RESP reader and the handlers' bodies are not modelled",
    "assumptions": ["redcon never dispatches an empty command (cmd.Args[0] exists)", "strconv/hex functions return an error on bad input and never panic"],
}

DMAP_MODELLED = "internal/dmap/{put,get,delete,expire}.go and their handlers over abstract fragments (DMap/Model.lean); routing and time are inputs read from the running cluster"

PROPS["C01"] = {
    "lean": ["OlricModel.Props.C01", "OlricModel.Props.C09", "OlricModel.Props.C04"],
    "streams": [("linear", (10, 10), (120, 20)), ("cluster", (4, 150), (40, 400))],
    "model": True,
    "level_text": "Theorem over a micro-step model of one key (owner + backup owners): a write is a critical section under the owner's fragment lock (begin with the condition decided on the owner's copy, one step per backup owner, the owner's copy last), a Get reads the owner's copy under the read lock and then asks each backup owner separately with no lock held. For EVERY interleaving of any number of writers' and readers' micro-steps, the version a Get answers with - whichever of the gathered versions it picks - is a value the abstract register held at some instant between the Get's first step and its answer, the register having one instant per write (C01_read_in_interval, invariant inv_step); conditional writes decide by the register's value at their instant (C01_write_decides_on_register); after a write every copy is the register (C01_quiescent). For a single register that is linearizability. With read-repair on the statement is false: Lean witness C01_read_repair_resurrects, replayed on the implementation and listed as known finding F14. The sequential meaning of each step (Put plain/NX/XX, Get, Delete through every entry point, multi-table fragments) is the DMap model of C04/C09/C15, run in lock-step by the cluster stream. Section shapes (lock scopes, order of backup and local writes, read lock of the owner read) are extracted from the source on every run (facts_tie). Tied to the code by the linear stream: a second operation started inside the first one at yield points of the harness build (Get vs Delete/Put, Put vs Get, Delete vs Get, conditional races, the janitor vs a Put), real concurrent histories, every key's history checked by a linearizability checker.",
    "design_ref": "DESIGN.md §6 C01",
    "modelled": DMAP_MODELLED + "; the critical sections of putOnCluster / deleteKey and the steps of getOnCluster as the micro-step model of Props/C01.lean",
    "assumptions": ["atomicity of each micro-step (the fragment RW lock is a lock; a replica write is one message) is runtime behaviour, exercised by the real-concurrency histories",
                    "timestamps of successive writes on the owner increase (wall clock); the theorem itself does not use which gathered version is picked",
                    "ReadRepair off: with it on the property does not hold (F14)",
                    "stable membership, every backup owner reachable, no expiry options (C09)"],
}
PROPS["C02"] = {
    "lean": ["OlricModel.Props.C02", "OlricModel.Props.C04", "OlricModel.Props.C13"],
    "streams": [("failover", (9, 30), (60, 40)), ("cluster", (3, 150), (20, 400))],
    "model": True,
    "level_text": "Theorems, composing C04 and C13: an acknowledged write leaves the same entry on the owner and every backup owner and nowhere else (C04_put_written -> Stored); the routing table computed after the failures keeps every surviving holder listed - a listed owner or backup owner is dropped only when it is gone or reports zero keys (C02_survivor_listed_primary / _backup, from C13_backups); a Get over ANY new route that lists at least one surviving holder with the kind of copy it holds, whoever the new owner is, answers the acknowledged entry - never an older value, never not-found (C02_survives, get_all_same); fewer than R failures leave a holder alive (C02_some_survivor, pigeonhole over the distinct holders); an acknowledged Delete leaves no copy anywhere, so the key reads not-found under every later routing (C02_delete_removes_all, C02_delete_survives). Tied to the code by the failover stream: 3-5 members, R in {2,3}, read-repair off/on, up to R-1 members stopped gracefully or abruptly (no leave message), between operations or during a Put / Delete executing elsewhere (yield points), primary owners, backup owners, the coordinator; after re-stabilisation every key is read from every survivor, then the workload continues.",
    "design_ref": "DESIGN.md §6 C02",
    "modelled": DMAP_MODELLED + "; the routing computation of C13",
    "assumptions": ["'healthy when acknowledged' = every backup owner reachable, so the write reached all R holders (C04); ReadQuorum 1",
                    "a crash of the member that EXECUTES the operation cannot be produced inside one process: such an operation is unacknowledged (its client dies with it) and carries no obligation; crashes of every other member at the yield points are exact",
                    "failure detection and gossip timing are memberlist's: the stream waits for convergence (up to 60 s) and abandons the episode otherwise",
                    "failures beyond R-1 in total, and conditional Puts (NX/XX evaluate the new owner's local copy only) after a failover, are outside the property"],
}
PROPS["C03"] = {
    "lean": ["OlricModel.Props.C03", "OlricModel.Props.C13"],
    "streams": [("rebalance", (9, 3), (60, 5)), ("repair", (6, 60), (60, 150))],
    "model": True,
    "level_text": "Theorems about the hand-over of a key in separate steps that operations and crashes may interleave with: after the receiver's merge it holds the newer of its own and the sender's version (incoming on a tie) while the sender still holds its version; after the sender's drop exactly one of the two holds the key, the newest version, nobody else is touched (C03_move); whichever of the two members is lost at whichever point, the other one holds a version at least as new, except the loss of a sole holder before anything was merged (C03_move_crash_points; backups: C02); a move carries nothing from a member that holds nothing - a deleted key cannot come back through it (C03_move_nothing_from_nothing); while previous owners are listed a Get answers with a version at least as new as every live copy on the owner, on every previous owner and on every backup owner (C03_read_during_handover, for every route) and a Delete removes the key from all of them (C03_delete_during_handover); a Get with read-repair never writes to a member that is neither the owner nor a backup owner, so no copy is planted out of a later Delete's reach (C03_repair_skips_previous_owners); arrival order and repetition of merges do not matter (C06_merge_lww); previous owners stay listed until they report zero keys (C13_primary, C02_survivor_listed_primary). Hand-over shape extracted on every run (facts_tie). Tied to the code by the rebalance stream: joins and one graceful leave with data in small tables, a Put placed inside the coordinator's routing update (table computed, not yet pushed; yield point routing.computed) of an almost empty cluster and read from every member right afterwards, operations from every member after the routing push, before any move, between single-table moves and after, a DMap named with the fragment prefix, white-box key placement after stabilisation; real DMAP.MOVEFRAGMENT deliveries in the repair stream.",
    "design_ref": "DESIGN.md §6 C03",
    "modelled": DMAP_MODELLED + "; fragment.Move / mergeFragments / kvstore transfer as moveMerge / moveDrop (Props/C03.lean) over the store theorems of C11 (exportDrop_spec, merge_spec, importTable_spec)",
    "assumptions": ["'stabilised' = routing updates, balancer passes and the empty-fragment janitor repeated until three rounds in a row change nothing (a balancer pass stops at the first empty fragment of a partition, so the janitor is part of convergence)",
                    "a leave is asserted only while every key has its backups: backup copies of a departed member are not re-created by the system, so at most one member leaves per episode",
                    "conditional Puts (NX / XX look at the new owner's local copy only) during a hand-over are outside the property",
                    "crashes of sender or receiver during a move are proved on the model (C03_move_crash_points) and exercised as graceful stops; process-level crashes cannot be produced inside one process"],
}
PROPS["C04"] = {
    "lean": ["OlricModel.Props.C04"],
    "streams": [("cluster", (12, 150), (150, 400))],
    "model": True,
    "level_text": "Invariant theorem (C04_mirror): for every sequence of Put (any options) / Expire / Delete / Get on a key, of any length, from any state where the copies agree, every backup copy equals the primary copy (value, expiry, timestamp; absent iff absent) after each operation; acknowledged writes leave exactly the written entry everywhere; operations on other keys/DMaps touch nothing (frame). Tied to the code by the cluster stream, which reads every member's primary and backup copy after each mutation through all client paths and compares them with the model and with each other.",
    "design_ref": "DESIGN.md §6 C04",
    "modelled": DMAP_MODELLED,
    "assumptions": ["stable membership, every backup owner reachable (C05 covers unreachable ones)", "atomic ops, locks and eviction are compositions of these steps; their mirror property is exercised by the atomic/lock streams, not proved separately"],
}
PROPS["C05"] = {
    "lean": ["OlricModel.Props.C05"],
    "streams": [("quorum", (25, 0), (400, 0)), ("cluster", (6, 150), (60, 400)), ("failover", (6, 30), (40, 40))],
    "model": True,
    "level_text": "Theorems for all configurations and all subsets of unreachable backup owners: a Put is acknowledged iff stored copies >= WriteQuorum and fails with exactly the write-quorum error otherwise (C05_write_iff), the counted copies are really stored; a Get returns a value only with >= ReadQuorum copies obtained, read-quorum error when too few members answer or too few hold the key, not-found when no answering member holds it (C05_read); below MemberCountQuorum the guarded handler does not run (C05_member_quorum) — with the guard's shape extracted from server/handler.go, olric.go and dmap.go on every run. Tied to the code by the quorum stream (listeners really closed, member count really faked).",
    "design_ref": "DESIGN.md §6 C05",
    "modelled": DMAP_MODELLED + "; server.Handler.ServeRESP as `guarded`",
    "assumptions": ["an unreachable member = its RESP listener and connections closed while memberlist still lists it"],
}
PROPS["C06"] = {
    "lean": ["OlricModel.Props.C06"],
    "streams": [("repair", (14, 60), (200, 150)), ("cluster", (4, 150), (40, 400)), ("rrfail", (10, 0), (40, 0))],
    "model": True,
    "level_text": "Theorems for every set of gathered versions (owner, previous owners, backup owners; arbitrary timestamps, ties, missing and expired copies): the sorted version list is descending and its head carries the maximum timestamp of all live copies, so a successful Get returns a copy with the newest timestamp, which is one of the stored copies (C06_read_newest, C06_winner_is_a_copy, C06_get_returns_newest); merging received tables onto a fragment leaves, for every key, the maximum timestamp of everything delivered, for every arrival order and every repetition (C06_merge_lww, C06_merge_idempotent, C06_mergeEntries; the store-level callback is KV.lww of C11_transfer: C06_store_merge_is_lww); with read-repair on, one Get leaves the owner's copy and every backup owner's copy with the winner's timestamp (C06_read_repair). Tied to the code by the repair stream: copies planted in the fragments, hand-overs delivered through the real DMAP.MOVEFRAGMENT handler, reads through every path, copies read back after every step.",
    "design_ref": "DESIGN.md §6 C06",
    "modelled": DMAP_MODELLED + "; dmap.fragmentMergeFunction / mergeFragments as `lwwC` / `mergeEntries`; sort.Slice on <= 12 versions as insertion sort (`sortV`)",
    "assumptions": ["read-repair is stated for reads executed by the partition owner with every backup owner reachable and no previous owner (C06_read_repair hypotheses); unreachable members are skipped by the code and by the model",
                    "on equal timestamps the incoming / later gathered version wins; the property does not order ties and the oracle accepts either"],
}
PROPS["C07"] = {
    "lean": ["OlricModel.Props.C07"],
    "streams": [("atomics", (12, 60), (150, 200)), ("cluster", (4, 150), (30, 400)), ("failover", (5, 30), (30, 40)), ("rebalance", (5, 3), (24, 5))],
    "model": True,
    "level_text": "Theorems: (A) a micro-step model of n concurrent read-modify-write callers (take the executing member's named mutex, read, write, release), for EVERY schedule of the micro-steps: when all callers execute on one member the writes form a serial execution in which each caller read exactly what the callers before it left, nobody is lost or duplicated (C07_serializable); for counters the final value is the initial value plus the sum of all deltas (C07_no_lost_update), for GetPut the returned values form one chain (C07_getput_chain); the statement is false with callers on two members (witness by decide). (B) in a stable healthy cluster the model's incr / getPut are the abstract counter / register step, acknowledged and mirrored, the expiry kept, and the stored decimal number round-trips so that sequences add up (incr_refines, getPut_refines, parseIntB_intBytes, C07_counter_sums). (C) that every call executes on the partition owner is extracted from the source on every run (facts_tie). Tied to the code by the atomics stream: all entry points, a second caller started inside the first one's read-modify-write window at a yield point of the harness build, and real concurrent races through all members and client kinds.",
    "design_ref": "DESIGN.md §6 C07",
    "modelled": DMAP_MODELLED + "; dmap.atomicIncrDecr / getPut as compositions of get and put; internal/locker as one mutex per member and key",
    "assumptions": ["the named mutex (internal/locker) is a mutex, and Get/Put inside the window are the model's get/put (exercised by the races, not proved)",
                    "IncrByFloat is covered by the stream only (dyadic deltas, exact float arithmetic): floats are not modelled in Lean",
                    "int overflow of the counter is outside the property; an unparsable stored value counts as 0 (as in the code)"],
}
PROPS["C08"] = {
    "lean": ["OlricModel.Props.C08"],
    "streams": [("locks", (12, 70), (150, 200)), ("cluster", (4, 150), (30, 400))],
    "model": True,
    "level_text": "Theorems, by refinement to an abstract lock (one Option (token, deadline)): in a stable healthy cluster every history of Lock / Unlock / Lease steps of the cluster model - for every replica count, quorum and read-repair setting - answers exactly like the abstract lock and keeps owner and backups mirrored (C08_refines); on the abstract lock, for ALL histories by any number of clients at non-decreasing instants, with the second halves of Unlock and Lease delayed past other clients' steps and past deadlines: every token handed out, not given back and not past its (leased) deadline is THE stored lock, so at most one token is held at any instant (C08_mutex, C08_tokens_unique); Lock returns a token iff no live entry is stored (C08_acquire_iff); a step not presenting the live holder's token fails with lock-not-acquired / no-such-lock and changes nothing (C08_holder_stable, C08_chk); a lock with a timeout is held exactly until floor((now+timeout)/1ms) and acquirable from then on, one without never expires (C08_timeout, C08_no_timeout, C08_deadline_granularity). Tied to the code by the locks stream: all entry points, virtual clock moved onto every deadline, competitors scheduled inside Unlock/Lease at yield points of the harness build, waiting acquisitions, and a real-concurrency critical-section race.",
    "design_ref": "DESIGN.md §6 C08",
    "modelled": DMAP_MODELLED + "; dmap.Lock/tryLock (one attempt = one step), unlockKey/leaseKey as two steps (token comparison; guarded delete / expiry update under the fragment lock)",
    "assumptions": ["each step (a tryLock attempt, the guarded delete, the guarded expiry update) is atomic: it runs under the owner's fragment lock (exercised, not proved: real-concurrency race in the stream)",
                    "lock tokens are never reused (16 random bytes)",
                    "the waiting loop of Lock (10 ms polling until the deadline, real-time timers) is runtime behaviour: the stream checks that lock-not-acquired is never returned before the deadline and that a waiting Lock acquires once the holder's timeout passes",
                    "deadlines are stored in whole milliseconds: a lock may be released up to 1 ms before now+timeout (C08_deadline_granularity)",
                    "a DMap-wide default TTL (TTLDuration) applies to lock entries like to any entry: 'without timeout' means without DMap default either"],
}
PROPS["C09"] = {
    "lean": ["OlricModel.Props.C09"],
    "streams": [("cluster", (14, 150), (150, 400)), ("repair", (10, 60), (60, 150))],
    "model": True,
    "level_text": "Theorems with `now` an arbitrary input: once every copy is absent-or-expired (eviction run or not) Get is not-found, NX is accepted, XX and Expire are not-found and change nothing (C09_invisible_after); before the deadline with agreeing copies Get returns the value (C09_visible_before); the deadline arithmetic of every option form and of Expire (C09_ttl_rules, C09_expire_keeps_value), boundary at the exact millisecond. Tied to the code with a virtual clock (time.Now rewritten in the harness build) so that deadlines are hit exactly.",
    "design_ref": "DESIGN.md §6 C09",
    "modelled": DMAP_MODELLED,
    "assumptions": ["EX/EXAT travel as decimal float seconds on forwarded paths; the stream uses whole seconds for them (sub-second float rounding is outside the model)", "idle eviction (MaxIdleDuration) is C10"],
}

PROPS["C15"] = {
    "lean": ["OlricModel.Props.C15"],
    "streams": [("cluster", (14, 150), (200, 400))],
    "model": True,
    "level_text": "Theorems: the option codec of a forwarded Put (writePutCommand -> handler) is the identity on every configuration the API can build, so the owner executes the same Put whatever the entry path (C15_put_roundtrip, C15_put_paths_equal); a multi-key Delete deletes every key on its owner exactly once and returns the key count for every processing order of the per-owner groups; for EVERY queue of pipelined commands, every partition state and every behaviour of the partition owners, the futures read exactly the replies of the same commands issued one at a time, none is out of range and every partition ends in the same state (C15_pipeline_futures, C15_pipeline_state, C15_pipeline_every_future_answered over Cluster/Pipeline.lean: addCommand's slots, per-partition in-order execution), and the pipeline's life cycle (not ready before Exec, Exec once, futures of a discarded generation closed for ever, a closed pipeline refuses Exec and Discard: C15_pipeline_lifecycle, C15_pipeline_old_futures_closed). The handler/forwarding shapes are extracted from the source on every run. Tied to the code by the cluster stream: every operation kind x option combination through embedded (owner / non-owner), cluster client, raw RESP and (multi-command) pipelines, results and white-box copies compared.",
    "design_ref": "DESIGN.md §6 C15",
    "modelled": "dmap.writePutCommand, protocol.Put.Command, putCommandHandler, DMap.put forwarding, deleteKeys (Proto/Codec.lean); DMapPipeline addCommand / execOnPartition / Future.Result / Exec / Discard / Close (Cluster/Pipeline.lean)",
    "assumptions": ["EX/EXAT are carried as decimal float seconds: only float-exact values are compared (A-float)", "a zero duration option (PX 0) is indistinguishable from an absent one on the wire (known limitation of the wire format, not exercised)", "pipeline theorems: what a partition owner does with one command is a parameter acting on that partition's state only (tied per command by the cluster stream); connection failures during Exec and commands queued after Exec are outside the model"],
}

PROPS["C10"] = {
    "lean": ["OlricModel.Props.C10"],
    "streams": [("evict", (16, 40), (200, 120))],
    "model": True,
    "level_text": "Theorems with the code's random choices (which entries the LRU sampling picks, which entries a background scan visits) as universally quantified inputs: after ANY sequence of Puts on the keys of a partition a primary fragment holds at most max(1, MaxKeys div owned) keys (C10_maxkeys_step, C10_maxkeys), fragment lengths add up to at most owned x share <= MaxKeys (C10_member_bound); with entries of one size the bytes in use stay within MaxInuse div owned plus one entry, with both limits active at once (C10_maxinuse_step); a Put under the policy has no failing outcome and a victim can always be found (C10_put_ok, evictOne_possible); the key just written reads back (C10_just_written); an entry is idle exactly from floor((lastAccess+MaxIdleDuration)/1ms) on (C10_idle_window), a scan never removes an entry that is neither expired nor idle (C10_idle_safe) and removes a visited idle or expired entry from the owner and every backup (C10_scan_evicts). The code shapes the model follows are extracted on every run (facts_tie). Tied to the code by the evict stream: LRU with MaxKeys / MaxInuse / both, LRUSamples 1..5, MaxKeys below the partition count, white-box statistics after every Put; idle windows (DMap-wide and per-DMap configuration) with a virtual clock moved onto the deadlines and explicit background scans.",
    "design_ref": "DESIGN.md §6 C10",
    "modelled": DMAP_MODELLED + "; dmap.setLRUEvictionStats / evictKeyWithLRU / isKeyIdleOnFragment / scanFragmentForEviction (DMap/Evict.lean)",
    "assumptions": ["'eventually disappears' is liveness under fairness of the evictor's random partition choice and of Go's map iteration order: proved is what one scan does to the entries it visits",
                    "which member owns how many partitions, and which keys hash to a partition, are inputs read from the running cluster",
                    "stable membership; LRU exactness (that the victim is the least recently used of the sample) is not part of the property and not claimed"],
}

PROPS["C13"] = {
    "lean": ["OlricModel.Props.C13"],
    "streams": [("routing", (5, 6), (60, 12))],
    "model": True,
    "level_text": "Theorems about one routing-table computation of the coordinator, for EVERY previous owners list, member list, key-count report and ring answer: the primary owners list ends with the ring's owner (exactly one primary owner, last), every other listed owner was listed before, is still that live member (same name AND id: departed or re-joined members are dropped) and did not report zero keys, ids stay distinct (C13_primary, C13_primary_all_live); the backup list is (previous backups that are live, hold data and are not new) ++ the ring's replica owners in ring order, i.e. the current backup owners are the last min(R, N) - 1 entries, distinct, live, not the primary (C13_backups, C13_backups_members, C13_backups_valid under the stated ring contract RingOK); a member reporting left-over data is listed afterwards (C13_leftover) and, when it still holds that data, is on the owners list of the last push of the same update - every member learns it, not only the coordinator (C13_leftover_pushed over updateRoutingPart, the update as repaired by aa5aa21); a push that reaches every member leaves all with the same table (C13_agreement); with distinct birthdates every member seeing the same member set names the same, oldest, coordinator whatever the listing order (C13_coordinator); the ring's bounded-load assignment never exceeds its bound and has room whenever partitions >= members (C13_load_bound, C13_room); witness that the bound is 0 and the assignment impossible with fewer partitions than members. Code shapes extracted on every run (facts_tie). Tied to the code by the routing stream: joins, graceful leaves (coordinator included), re-joins under the old address, data in between; single computations captured under the routing lock with everything they read and compared with the model; stabilised dumps of every member and a cluster client checked by an independent oracle.",
    "design_ref": "DESIGN.md §6 C13",
    "modelled": "internal/cluster/routingtable/{distribute,update,operations,left_over_data}.go and discovery.GetCoordinator (Cluster/Routing.lean); buraksezer/consistent is a parameter with the contract RingOK, its load assignment is modelled separately",
    "assumptions": ["the consistent-hash ring (third-party) answers within RingOK: checked on every captured computation by the stream, not proved",
                    "memberlist is abstracted to the member list it reports; 'stabilised' = every live member lists exactly the live members and a push reached all of them",
                    "abrupt failure detection timing is not claimed (graceful leaves only in this stream; abrupt stops belong to C02)",
                    "PartitionCount >= member count: otherwise the ring library panics on join (finding F34, stated as a witness; generators keep parts >= members)"],
}

PROPS["C14"] = {
    "lean": ["OlricModel.Props.C14"],
    "streams": [("pubsub", (8, 120), (120, 400))],
    "model": True,
    "level_text": "Theorems for every history of (p)subscribe / (p)unsubscribe / disconnect over any connections and members and every glob matcher: a published message is delivered exactly once to every current subscription on that channel or with a matching pattern, on every member, and to nothing else (C14_delivery); the PUBLISH reply is the number of deliveries (C14_count); nothing reaches a subscription after it left (C14_silence_*); CHANNELS / NUMSUB / NUMPAT are the distinct channels, the subscribed connections and the distinct patterns (C14_introspection). Tied to the code through real go-redis subscriber connections to 1-3 in-process members.",
    "design_ref": "DESIGN.md §6 C14",
    "modelled": "internal/pubsub/{pubsub,handlers}.go (PubSub/Model.lean); tidwall/match is a parameter, a `*`/`?` matcher is used for the correspondence",
    "assumptions": ["delivery = one `message` per channel subscription and one `pmessage` per matching pattern subscription (Redis semantics)", "ordering across different publishers and socket buffering are not claimed", "PUBSUB sub-commands are sent in lower case (the mux does not fold the case of the second word)"],
}

PROPS["C19"] = {
    "lean": ["OlricModel.Props.C19"],
    "streams": [("dmaps", (12, 150), (150, 400)), ("failover", (6, 30), (40, 40)), ("rebalance", (5, 3), (24, 5))],
    "model": True,
    "level_text": "Theorems: Destroy leaves no entry of the DMap on any member, primary or backup, every key then reads not-found, a later Put works (C19_destroy*); no operation on DMap a changes any copy of a DMap b != a whatever the keys (C19_isolation, from the frame theorem), and the answers on a do not depend on b's contents (C19_results_independent). Tied to the code by the dmaps stream: names/keys with colliding concatenations, Destroy followed by a white-box listing of all fragments' keys and a client iteration.",
    "design_ref": "DESIGN.md §6 C19",
    "modelled": DMAP_MODELLED + "; destroy.go/destroy_handlers.go as `destroy`",
    "assumptions": ["the per-member locker key dmap+key used by atomic operations can make colliding names wait for each other (extra serialisation, no interference); not modelled"],
}

NOT_CLAIMED = {}
