"""Stream `quorum` (C05): every (R, W, RQ) with W, RQ <= R <= 3, every subset of the key's backup
owners made unreachable (listener closed, member still in the member list), Puts and Gets through the
owner; member-count quorum with a faked member count.  Oracle: the quorum arithmetic of the property."""
from streams.cluster import T0, hx

HEADER = 3
REQUIRED_SHAPES = ["operation_inside_routing_update_after_leave", "connection_served_before_quorum_was_lost", "every_command_refused_below_member_quorum", "backup_without_copy", "write_quorum_met_with_unreachable", "write_quorum_unmet", "read_quorum_unmet", "read_quorum_met",
                   "member_quorum_refused"]


class Oracle:
    def __init__(self):
        self.shapes = {}
        self.cfg = {}
        self.unreach = set()
        self.route = None
        self.copies = {}        # member -> has a copy of the key (after acknowledged or failed writes)
        self.written = False
        self.lowq = set()
        self.served = set()

    def hit(self, s):
        self.shapes[s] = self.shapes.get(s, 0) + 1

    def observe(self, op, reply):
        f = op.split()
        name, a = f[0], f[1:]
        if reply.startswith("err:") or reply.startswith("other:") or reply in ("bad-op", "no-cluster", "down"):
            return "unexpected reply %r to %s" % (reply[:160], op[:100])
        if name == "c.new":
            self.cfg = dict(kv.split("=") for kv in a if "=" in kv)
            self.unreach = set()
            self.copies = {}
            self.lowq = set()
            self.served = set()
            return None
        if name == "c.own":
            p, b = reply.split("pick=")[1].split()[0].split("/")
            self.route = ([int(x) for x in p.split(",")], [int(x) for x in b.split(",")] if b != "-" else [])
            return None
        if name == "wb.del":
            self.copies.pop(int(a[0]), None)
            self.hit("backup_without_copy")
            return None
        if name == "c.mcq":
            self.cfg["mcq"] = a[0]
            return None
        if name == "c.unreach":
            self.unreach.add(int(a[0]))
            return None
        if name == "c.nummembers":
            if int(a[1]) < int(self.cfg.get("mcq", 1)):
                self.lowq.add(int(a[0]))
            else:
                self.lowq.discard(int(a[0]))
            return None
        if name == "c.inter":
            sep = a.index("--")
            inner, st = a[sep + 1:], reply.split("inner=")[1]
            if st == "-" or not getattr(self, "window", None):
                return None
            need, alive = self.window
            self.hit("operation_inside_routing_update_after_leave")
            want = "wq" if inner[0] == "c.put" else "rq"
            res = st.split(":", 1)[1] if ":" in st else st
            if res != want:
                return ("%s through the coordinator while it was updating the routing table after a backup owner left, quorum %d with %d members alive, "
                        "answered %s (expected the %s quorum error): a member was counted twice" % (inner[0], need, alive, res[:40], "write" if want == "wq" else "read"))
            return None
        R, W, RQ = int(self.cfg.get("r", 1)), int(self.cfg.get("w", 1)), int(self.cfg.get("rq", 1))
        if name == "c.rawerr":
            if int(a[0]) not in self.lowq:
                return None
            cmd = bytes.fromhex(a[1]).decode().lower()
            self.hit("every_command_refused_below_member_quorum")
            return None if reply == "cq" else "%s sent to a member below MemberCountQuorum was answered %s instead of the cluster-quorum error" % (cmd.upper(), reply[:60])
        if name in ("c.put", "c.get") and int(a[1]) not in self.lowq:
            self.served.add(a[0])
        if name in ("c.put", "c.get") and int(a[1]) in self.lowq:
            self.hit("member_quorum_refused")
            if a[0] in self.served:
                self.hit("connection_served_before_quorum_was_lost")
            return None if reply == "cq" else "%s through a member below MemberCountQuorum answered %s" % (name, reply)
        if name == "c.put":
            owner, baks = self.route[0][-1], self.route[1]
            reach = [b for b in baks if b not in self.unreach]
            stored = len(reach) + 1 if R > 1 else 1
            for b in reach:
                self.copies[b] = a[4]
            self.copies[owner] = a[4]
            if R <= 1 or stored >= W:
                if len(reach) < len(baks):
                    self.hit("write_quorum_met_with_unreachable")
                return None if reply == "ok" else "put with %d of %d copies stored, W=%d: %s" % (stored, len(baks) + 1, W, reply)
            self.hit("write_quorum_unmet")
            return None if reply == "wq" else "put with %d copies stored, W=%d: %s (expected the write-quorum error)" % (stored, W, reply)
        if name == "c.get":
            owner, baks = self.route[0][-1], self.route[1]
            reach = [b for b in baks if b not in self.unreach]
            answers = 1 + len(reach)
            have = [m for m in [owner] + reach if m in self.copies]
            if answers < RQ:
                self.hit("read_quorum_unmet")
                exp = "rq"
            elif not have:
                exp = "nf"
            elif len(have) < RQ:
                self.hit("read_quorum_unmet")
                exp = "rq"
            else:
                self.hit("read_quorum_met")
                exp = self.copies[owner] if owner in self.copies else None
            if exp is None:
                return None
            return None if reply == exp else "get with %d answering members, %d copies, RQ=%d: %s, expected %s" % (answers, len(have), RQ, reply[:60], exp[:60])
        return None


class Gen:
    def __init__(self, rng, tier="quick"):
        self.rng = rng

    def episode(self, orc, nops):
        if getattr(self, "ep", 0) % 6 == 4:
            yield from self.during_update(orc)
            return
        r = self.rng
        R = r.choice([1, 2, 2, 3, 3])
        W = r.randint(1, R)
        RQ = r.randint(1, R)
        n = 3
        mcq = r.choice([1, 1, 2, 3])
        yield "watchdog 60s"
        yield "clock %d" % T0
        yield "c.new n=%d r=%d w=%d rq=%d parts=7 tsize=4096" % (n, R, W, RQ)
        yield "c.mcq %d" % mcq
        key = hx(b"q%d" % r.randrange(50))
        rep = yield "c.own dm %s" % key
        p, b = rep.split("pick=")[1].split()[0].split("/")
        owner = int(p.split(",")[-1])
        baks = [int(x) for x in b.split(",")] if b != "-" else []
        # phase 1: healthy
        yield "c.get emb %d dm %s" % (owner, key)
        yield "c.put emb %d dm %s %s" % (owner, key, hx(b"v1"))
        yield "wb dm %s" % key
        yield "c.get emb %d dm %s" % (owner, key)
        # phase 1b: a reachable backup owner that holds no copy (e.g. it joined late): it answers, but
        # its answer is not a copy of the key
        if baks and r.random() < 0.6:
            lose = [m for m in baks if r.random() < 0.6] or [baks[0]]
            for m in lose:
                yield "wb.del %d B dm %s" % (m, key)
            yield "c.get emb %d dm %s" % (owner, key)
            yield "c.put emb %d dm %s %s" % (owner, key, hx(b"v1b"))
            yield "c.get emb %d dm %s" % (owner, key)
        # phase 2: a subset of the backup owners becomes unreachable
        victims = [m for m in baks if r.random() < 0.6]
        for v in victims:
            yield "c.unreach %d" % v
        yield "c.put emb %d dm %s %s" % (owner, key, hx(b"v2"))
        yield "wb dm %s" % key
        yield "c.get emb %d dm %s" % (owner, key)
        key2 = hx(b"fresh%d" % r.randrange(50))
        # phase 3: member-count quorum on the owner
        if mcq > 1 and not victims:
            # connections that were opened - and served - while the member had its quorum are used again below it
            yield "c.get raw %d dm %s" % (owner, key)
            yield "c.get cli %d dm %s" % (owner, key)
            yield "c.nummembers %d %d" % (owner, mcq - 1)
            yield "c.get raw %d dm %s" % (owner, key)
            yield "c.get cli %d dm %s" % (owner, key)
            yield "c.put raw %d dm %s %s" % (owner, key, hx(b"v3"))
            yield "c.get emb %d dm %s" % (owner, key)
            # every command a member serves (the list is the member's own) - except the routing-table push, which is what
            # lets a member below the quorum learn about new members - is refused with the cluster-quorum error
            cmds = (yield "c.commands %d" % owner).split(",")
            for c in cmds:
                if c in ("internal.node.updaterouting", "subscribe", "psubscribe"):
                    continue
                words = c.split(" ")
                args = {"dm.": ["dm", "k", "1"], "publish": ["ch", "m"], "internal.node.": ["1", "2"], "pubsub": ["ch"]}
                extra = next((v for p, v in args.items() if c.startswith(p)), [])
                yield "c.rawerr %d %s" % (owner, " ".join(hx(w.encode()) for w in words + extra))
            yield "c.nummembers %d %d" % (owner, n)
            yield "c.get raw %d dm %s" % (owner, key)
        _ = key2

    def during_update(self, orc):
        """directed: three members, three copies, W = RQ = 3.  A backup owner leaves gracefully; while the coordinator (the
        oldest member, m0) is between computing the new table and pushing it, a Put / Get of a key it owns goes through it.
        Two members are alive: a write cannot be stored three times, a read cannot be answered three times."""
        r = self.rng
        yield "watchdog 120s"
        yield "clock %d" % T0
        yield "c.new n=3 r=3 w=3 rq=3 parts=7 tsize=4096"
        cand = None
        for i in range(40):
            k = hx(b"u%d" % i)
            rep = yield "c.own dm %s" % k
            p, b = rep.split("pick=")[1].split()[0].split("/")
            if p.split(",")[-1] == "0" and b != "-" and len(b.split(",")) == 2:
                cand = (k, [int(x) for x in b.split(",")])
                break
        if cand is None:
            return
        key, baks = cand
        yield "c.put emb 0 dm %s %s" % (key, hx(b"three-copies"))
        yield "c.get emb 0 dm %s" % key
        inner = r.choice(["c.put emb 0 dm %s %s" % (key, hx(b"two-copies")), "c.get emb 0 dm %s" % key])
        # the leaving member stops answering first (its listener is closed), so that it cannot serve the operation below
        # while it is still shutting down; then it leaves
        yield "c.unreach %d" % baks[0]
        orc.window = (3, 2)
        yield "c.inter routing.computed c.stopconv %d -- %s" % (baks[0], inner)
        orc.window = None
