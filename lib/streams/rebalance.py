"""Stream `rebalance` (C03): data written on 1-3 members with small tables (fragments of several tables),
then members join one after the other — and, with ReplicaCount >= 2 once every key has its backups, leave
gracefully — while Gets from every member, Puts and Deletes are issued after the routing push, before any
fragment has moved, BETWEEN the individual table moves (one balancer pass of one member moves one table of
each fragment), and after.  DMap names include one that starts with the fragment prefix ("dmap.x") next to
"x".  Once stabilised every key is read from every member and the white-box key lists are compared.

Oracle: a per-key register (the workload is sequential); after joins every live key is stored exactly once
as a primary copy and min(R, N) - 1 times as a backup copy; DMaps never exchange keys.  No model in
lock-step (membership changes); the Lean theorems of C03 are about the move / merge step and about reads
and deletes over routes with previous owners."""
from streams.cluster import hx

NO_MODEL = True
HEADER = 3
REQUIRED_SHAPES = ["counter_race_with_previous_owner", "destroy_with_previous_owner", "slow_consumer_during_handover", "write_during_routing_update", "join", "leave", "stacked_handovers", "read_with_previous_owner", "delete_with_previous_owner", "overwrite_with_previous_owner", "between_table_moves",
                   "stable_all_members_read", "exactly_once_primary", "backups_kept", "prefixed_dmap_name"]
DMS = ["dm", "dmap.x", "x"]


class Oracle:
    def __init__(self):
        self.shapes = {}
        self.cfg = {}
        self.exp = {}        # (dm, key) -> value | absent
        self.alive = set()
        self.n_total = 0
        self.handover = False
        self.left = False

    def hit(self, s):
        self.shapes[s] = self.shapes.get(s, 0) + 1

    def observe(self, op, reply):
        f = op.split()
        name, a = f[0], f[1:]
        if reply.startswith("other:") or reply.startswith("err:") or reply.split()[0] in ("bad-op", "no-cluster", "hang", "nocoord", "neterr", "down"):
            return "unexpected reply %r to %s" % (reply[:160], op[:100])
        if name == "c.new":
            self.cfg = dict(kv.split("=") for kv in a if "=" in kv)
            self.alive = set(range(int(self.cfg["n"])))
            self.n_total = len(self.alive)
            self.exp, self.handover, self.left = {}, False, False
            return None
        if name == "c.add":
            self.alive.add(int(reply.split()[1]))
            if self.handover:
                self.hit("stacked_handovers")
            self.handover = True
            self.hit("join")
            return None
        if name == "c.inter" and a[0] == "routing.computed":
            # a member joins; inside the coordinator's routing update - the new table is computed, not yet pushed - a Put
            sep = a.index("--")
            head = reply.split()[0]
            if head == "not-converged":
                return None
            self.alive.add(int(head.split("_")[1]))
            if self.handover:
                self.hit("stacked_handovers")
            self.handover = True
            self.hit("join")
            inner = a[sep + 1:]
            st = reply.split("inner=")[1]
            if st == "-":
                return None        # the update had been computed before the point was armed
            if st.endswith(":ok"):
                self.exp[(inner[3], inner[4])] = inner[5]
                self.hit("write_during_routing_update")
                return None
            return "a Put issued while the coordinator was updating the routing table failed: %s" % st
        if name == "c.stop":
            self.alive.discard(int(a[0]))
            self.handover = True
            self.left = True
            self.hit("leave")
            return None
        if name == "c.balance":
            self.hit("between_table_moves")
            return None
        if name == "c.incr":
            ck = (a[2], a[3])
            cnt = self.__dict__.setdefault("cnt", {})
            cnt[ck] = cnt.get(ck, 0) + int(a[4])
            if self.handover:
                self.hit("counter_with_previous_owner")
            return None if reply == str(cnt[ck]) else (
                "Incr of a counter of DMap %s through m%s answered %s, %d increments were acknowledged before it: an update was lost" % (a[2], a[1], reply[:30], cnt[ck] - int(a[4])))
        if name == "c.inter" and a[0] == "atomic.read":
            # two Incr of one counter, the second started inside the first one's read-modify-write: both count
            sep = a.index("--")
            outer, inner = a[1:sep], a[sep + 1:]
            cnt = self.__dict__.setdefault("cnt", {})
            ck = (outer[3], outer[4])
            cnt[ck] = cnt.get(ck, 0) + int(outer[5]) + int(inner[5])
            self.hit("counter_race_with_previous_owner")
            return None
        if name == "c.destroy":
            for ck in [ck for ck in self.__dict__.get("cnt", {}) if ck[0] == a[2]]:
                del self.cnt[ck]
            if reply != "ok":
                return "Destroy answered %s" % reply
            for dk in [dk for dk in self.exp if dk[0] == a[2]]:
                del self.exp[dk]
            if self.handover:
                self.hit("destroy_with_previous_owner")
            return None
        if name == "c.put":
            dk = (a[2], a[3])
            if reply != "ok":
                return "Put failed: %s" % reply
            if self.handover and dk in self.exp:
                self.hit("overwrite_with_previous_owner")
            self.exp[dk] = a[4]
            if a[2] == "dmap.x":
                self.hit("prefixed_dmap_name")
            return None
        if name == "c.del":
            dk = (a[2], a[3])
            if self.handover and dk in self.exp:
                self.hit("delete_with_previous_owner")
            self.exp.pop(dk, None)
            return None if reply == "1" else "Delete answered %s" % reply
        if name == "c.get":
            dk = (a[2], a[3])
            want = self.exp.get(dk)
            if self.handover:
                self.hit("read_with_previous_owner")
            if want is None:
                return None if reply == "nf" else "a deleted (or never written) key of DMap %s reads %s on m%s" % (a[2], reply[:24], a[1])
            return None if reply == want else "key of DMap %s reads %s on m%s, last acknowledged %s" % (a[2], reply[:24], a[1], want[:24])
        if name == "c.settle":
            if not reply.startswith("ok"):
                self.hit("unsettled")
            return None
        if name == "wb.frags":
            self.handover = False
            return None
        if name in ("c.scanall", "c.rawscan"):
            # a full iteration - during the hand-over as well as afterwards - yields exactly the live keys
            dm = a[2] if name == "c.scanall" else a[0]
            if not reply.startswith("n="):
                return "iteration over %s: %s" % (dm, reply[:80])
            got = reply.split()[1:]
            live = {k for (d, k) in list(self.exp) + list(self.__dict__.get('cnt', {})) if d == dm}
            self.hit("scan_during_handover" if self.handover else "scan_after_stabilisation")
            if name == "c.scanall" and len(set(got)) != len(got):
                return "the client iterator over %s yielded a key twice: %s" % (dm, sorted(got)[:12])
            tok = reply.split()[0]
            if name == "c.scanall" and "reqs=" in tok:
                reqs = int(tok.split("reqs=")[1])
                nk = len([1 for (d, k) in self.exp if d == dm]) + 8
                nm = max(len(self.alive), 1) + 2
                bound = 4 * nk * nm + 6 * int(self.cfg.get("parts", 7)) * nm + 50
                self.hit("iterator_requests_bounded")
                if reqs > bound:
                    return ("the client iterator over %s needed %d scan requests for %d keys (at most %d when every owner of a partition is "
                            "walked once): owners that were finished are asked again" % (dm, reqs, nk - 8, bound))
            extra, missing = sorted(set(got) - live), sorted(live - set(got))
            if name == "c.rawscan" or (self.handover and self.left):
                # the raw walk of the harness asks the primary owner's primary copies only: during a hand-over the previous
                # owner still holds keys, and after a leave a key may live on the promoted member's backup fragment, which
                # the client iterator reads (RC) and this walk does not.  The client iterator, between two balancer passes
                # after JOINS only, walks every primary owner of a partition - the previous ones too - and misses nothing
                missing = []
            elif self.handover:
                self.hit("complete_iteration_with_previous_owner")
            if extra or missing:
                return "a full iteration over %s (%s) yielded %d keys: deleted / foreign keys %s, missing keys %s" % (
                    dm, "client iterator" if name == "c.scanall" else "raw DM.SCAN cursors", len(got), extra[:8], missing[:8])
            return None
        if name == "wb.baks":
            # in the middle of a hand-over whose new backup owner cannot be reached: whoever held a backup copy still does
            dm = a[0]
            bak = {}
            for part in reply.split():
                m, rest = part.split(":", 1)
                p, b = rest.split(";")
                for k in ([] if b[2:] == "-" else b[2:].split(",")):
                    bak[k] = bak.get(k, 0) + 1
            R = int(self.cfg.get("r", 1))
            self.hit("handover_to_unreachable_backup_owner")
            for k in sorted(k for (d, k) in self.exp if d == dm):
                if bak.get(k, 0) < R - 1:
                    return ("DMap %s: key %s has %d backup copies while the hand-over to a new backup owner that cannot be reached is pending, "
                            "%d before it started: a sender dropped a table that one of its receivers never got" % (dm, k, bak.get(k, 0), R - 1))
            return None
        if name == "wb.keys":
            dm = a[0]
            prim, bak = {}, {}
            for part in reply.split():
                m, rest = part.split(":", 1)
                p, b = rest.split(";")
                for k in ([] if p[2:] == "-" else p[2:].split(",")):
                    prim[k] = prim.get(k, 0) + 1
                for k in ([] if b[2:] == "-" else b[2:].split(",")):
                    bak[k] = bak.get(k, 0) + 1
            live = {k for (d, k) in list(self.exp) + list(self.__dict__.get('cnt', {})) if d == dm}
            R, N = int(self.cfg.get("r", 1)), len(self.alive)
            for k in sorted(set(prim) | set(bak) | live):
                if k not in live:
                    return "DMap %s: key %s is stored (%d primary, %d backup copies) but was deleted or belongs to another DMap" % (dm, k, prim.get(k, 0), bak.get(k, 0))
                if prim.get(k, 0) > 1 or (prim.get(k, 0) != 1 and not self.left):
                    return "DMap %s: key %s is stored %d times as a primary copy after stabilisation" % (dm, k, prim.get(k, 0))
                self.hit("exactly_once_primary")
                if not self.left and int(self.cfg["n"]) >= R:
                    if bak.get(k, 0) != min(R, N) - 1:
                        return "DMap %s: key %s has %d backup copies after the joins, expected %d" % (dm, k, bak.get(k, 0), min(R, N) - 1)
                    self.hit("backups_kept")
            self.hit("stable_all_members_read")
            return None
        return None


class Gen:
    def __init__(self, rng, tier="quick"):
        self.rng = rng

    def unreachable_receiver(self, orc):
        """directed: three members with three copies of everything, a fourth joins and becomes a backup owner of some
        partitions - but it cannot be reached when the previous backup owners hand their fragments over (to it AND to the
        backup owner that stays).  Nobody may drop what the newcomer did not get."""
        r = self.rng
        yield "watchdog 300s"
        yield "clock 0"
        yield "c.new n=3 r=3 w=1 rq=1 rr=0 parts=%d tsize=%d" % (r.choice([5, 7]), r.choice([256, 512]))
        keys = [(d, hx(b"r%d" % i)) for d in DMS for i in range(8)]
        for i, (d, key) in enumerate(keys):
            yield "c.put emb %d %s %s %s" % (r.randrange(3), d, key, hx(b"v%d" % i + b"z" * r.choice([0, 30, 90])))
        yield "c.add nosync"
        rep = yield "c.converge"
        if rep == "not-converged":
            return
        yield "c.update"
        yield "c.unreach 3"
        for _ in range(3):
            for m in (0, 1, 2):
                yield "c.balance %d" % m
        for d in DMS:
            yield "wb.baks %s" % d

    def sparse(self, orc):
        """directed: an almost empty cluster (most partitions hold nothing anywhere, so nobody is kept as their previous
        owner); members join one after the other, and while the coordinator is between computing a table and pushing it, a
        key nobody has written yet is Put through some member.  Whoever stored it: every member reads it afterwards -
        without a second push by hand and without a balancer pass - and after stabilisation."""
        r = self.rng
        n0, R = r.choice([1, 1, 2]), r.choice([1, 1, 2])
        yield "watchdog 300s"
        yield "clock 0"
        yield "c.new n=%d r=%d w=1 rq=1 rr=0 parts=%d tsize=512" % (n0, R, r.choice([7, 11, 13]))
        alive = list(range(n0))
        keys = []
        for j in range(r.choice([3, 4])):
            d, key, val = r.choice(DMS), hx(b"d%d" % j), hx(b"u%d" % j)
            rep = yield "c.inter routing.computed c.addconv -- c.put emb %d %s %s %s" % (r.choice(alive), d, key, val)
            if rep.startswith("not-converged"):
                return
            alive.append(len(alive))
            keys.append((d, key))
            for (d2, k2) in keys:
                for m in alive:
                    yield "c.get emb %d %s %s" % (m, d2, k2)
            if r.random() < 0.5:
                yield "c.scanall emb %d %s * %d" % (r.choice(alive), d, r.choice([1, 100]))
        rep = yield "c.settle"
        if not rep.startswith("ok"):
            return
        yield "wb.frags"
        for d, key in keys:
            for m in alive:
                yield "c.get emb %d %s %s" % (m, d, key)
        for d in DMS:
            yield "wb.keys %s" % d

    def slow_consumer(self, orc):
        """directed: a partition with a previous owner (one old key there) and a current owner that holds a new key, the
        overwritten old key, then more new keys - in that order; a client iterates with COUNT 1 and takes more than a second
        (real time: the iterator refreshes its routing table every second) over one of the keys.  Every key was present
        during the whole iteration."""
        r = self.rng
        yield "watchdog 300s"
        yield "clock 0"
        yield "c.new n=1 r=%d w=1 rq=1 rr=0 parts=3 tsize=4096" % r.choice([1, 1])
        parts = {}
        for i in range(30):
            k = hx(b"c%d" % i)
            rep = yield "c.own dm %s" % k
            parts.setdefault(int(rep.split("part=")[1].split()[0]), []).append(k)
        for pid, ks in sorted(parts.items()):
            yield "c.put emb 0 dm %s %s" % (ks[0], hx(b"old"))
        yield "c.add nosync"
        rep = yield "c.converge"
        if rep == "not-converged":
            return
        yield "c.update"
        n = len(parts)
        for pid, ks in sorted(parts.items()):
            rep = yield "c.own dm %s" % ks[0]
            if "," in rep.split("pick=")[1].split("/")[0] and len(ks) >= 4:
                for k, v in ((ks[1], b"n1"), (ks[0], b"over"), (ks[2], b"n2"), (ks[3], b"n3")):
                    yield "c.put emb %d dm %s %s" % (r.randrange(2), k, hx(v))
                n += 3
        for i in range(1, n + 1):
            yield "c.scanall %s dm * 1 slow=%d" % (r.choice(["emb 0", "emb 1", "cli 0", "cli 1"]), i)
            orc.hit("slow_consumer_during_handover")

    def episode(self, orc, nops):
        if getattr(self, "ep", 0) % 8 == 5:
            yield from self.slow_consumer(orc)
            return
        if getattr(self, "ep", 0) % 4 == 3:
            yield from self.unreachable_receiver(orc)
            return
        if getattr(self, "ep", 0) % 4 == 1:
            yield from self.sparse(orc)
            return
        r = self.rng
        R = r.choice([1, 2, 2, 3])
        n0 = r.choice([1, 2, 3, 3])
        parts = r.choice([5, 7])
        tsize = r.choice([256, 512])
        yield "watchdog 300s"
        yield "clock 0"
        idle = r.choice([0, 0, 3600000])      # an hour: nothing is idle during the episode
        yield "c.new n=%d r=%d w=1 rq=1 rr=%d parts=%d tsize=%d%s" % (n0, R, r.choice([0, 0, 1]), parts, tsize, " idle_ms=%d" % idle if idle else "")
        alive = list(range(n0))
        total = n0
        keys = [(d, hx(b"r%d" % i)) for d in DMS for i in range(8)]
        ver = [0]

        def op_mix(k):
            out = []
            for _ in range(k):
                d, key = r.choice(keys)
                m = r.choice(alive)
                x = r.random()
                ver[0] += 1
                if x < 0.45:
                    out.append("c.put emb %d %s %s %s" % (m, d, key, hx(b"v%d" % ver[0] + b"z" * r.choice([0, 30, 90])) if r.random() > 0.08 else hx(b"")))
                elif x < 0.6:
                    out.append("c.del emb %d %s %s" % (m, d, key))
                else:
                    out.append("c.get emb %d %s %s" % (m, d, key))
            return out

        for op in op_mix(40):
            yield op
        for j in range(3):
            yield "c.incr emb %d dm %s 1" % (r.choice(alive), hx(b"ctr%d" % j))
        for _ in range(nops or 3):
            x = r.random()
            during = None
            if x < 0.7 and len(alive) < min(5, parts):
                if r.random() < 0.5:
                    # the join, with a Put of a key nobody has written yet (its partition may be empty everywhere) while the
                    # coordinator is between computing the new table and pushing it
                    ver[0] += 1
                    during = (r.choice(DMS), hx(b"d%d" % ver[0]))
                    keys.append(during)
                    rep = yield "c.inter routing.computed c.addconv -- c.put emb %d %s %s %s" % (r.choice(alive), during[0], during[1], hx(b"u%d" % ver[0]))
                    if rep.startswith("not-converged"):
                        return
                else:
                    yield "c.add nosync"
                alive.append(total)
                total += 1
            elif R >= 2 and len(alive) > R and n0 >= R and not orc.left:
                # every key has its backups (written with >= R members present, every round so far was stabilised and
                # nobody has left yet: a departed backup owner's copies are not re-created): ONE member may leave
                v = r.choice(alive)
                yield "c.stop %d" % v
                alive.remove(v)
            else:
                continue
            rep = yield "c.converge"
            if rep == "not-converged":
                return
            if during:
                # no second push by hand, no balancer pass: whoever holds the key is in every member's owners list
                for m in alive:
                    yield "c.get emb %d %s %s" % (m, during[0], during[1])
            yield "c.update"
            if r.random() < 0.45 and len(alive) < min(5, parts):
                # a second hand-over stacked on the first: nothing has moved yet, keys are overwritten on the new owner
                # (the first owner keeps the old version), then the next member joins: owners [A, B, C]
                for d, key in r.sample(keys, 10):
                    ver[0] += 1
                    yield "c.put emb %d %s %s %s" % (r.choice(alive), d, key, hx(b"s%d" % ver[0]))
                yield "c.add nosync"
                alive.append(total)
                total += 1
                rep = yield "c.converge"
                if rep == "not-converged":
                    return
                yield "c.update"
                for d, key in r.sample(keys, 8):
                    yield "c.del emb %d %s %s" % (r.choice(alive), d, key)
                    for m in r.sample(alive, min(2, len(alive))):
                        yield "c.get emb %d %s %s" % (m, d, key)
            # previous owners still hold everything: reads, overwrites, deletes from every member
            for op in op_mix(10):
                yield op
            if r.random() < 0.6:
                # a counter that exists since before the join: Incr through every member while previous owners are listed, one
                # of them started inside another one's read-modify-write; the next plain Incr tells whether all of them counted
                cd, ck = "dm", hx(b"ctr%d" % r.randrange(3))
                for m in alive:
                    yield "c.incr emb %d %s %s 1" % (m, cd, ck)
                m1, m2 = r.choice(alive), r.choice(alive)
                yield "c.inter atomic.read c.incr emb %d %s %s 1 -- c.incr emb %d %s %s 1" % (m1, cd, ck, m2, cd, ck)
                yield "c.incr emb %d %s %s 1" % (r.choice(alive), cd, ck)
            if r.random() < 0.3:
                # Destroy while previous owners still hold (all of) the DMap: every copy goes, wherever it lives
                d = r.choice(DMS)
                yield "c.destroy emb %d %s" % (r.choice(alive), d)
                for d2, key in [dk for dk in keys if dk[0] == d][:4]:
                    for m in alive:
                        yield "c.get emb %d %s %s" % (m, d2, key)
                yield "c.scanall emb %d %s * 100" % (r.choice(alive), d)
            # ... and a full iteration from any member: nothing has moved, the keys are where the routing table's list of
            # previous owners says
            yield "c.scanall emb %d %s * %d" % (r.choice(alive), r.choice(DMS), r.choice([1, 3, 100]))
            # overwrite / read (read-repair meets a previous owner with an older version) / delete / routing update / read
            for d, key in r.sample(keys, 3):
                ver[0] += 1
                yield "c.put emb %d %s %s %s" % (r.choice(alive), d, key, hx(b"w%d" % ver[0]))
                for m in r.sample(alive, min(2, len(alive))):
                    yield "c.get emb %d %s %s" % (m, d, key)
                if r.random() < 0.7:
                    yield "c.del emb %d %s %s" % (r.choice(alive), d, key)
                yield "c.update"
                for m in alive:
                    yield "c.get emb %d %s %s" % (m, d, key)
            for d, key in r.sample(keys, 6):
                for m in alive:
                    yield "c.get emb %d %s %s" % (m, d, key)
            # table moves, one balancer pass of one member at a time, operations in between
            for _ in range(r.randint(2, 6)):
                yield "c.balance %d" % r.choice(alive)
                for op in op_mix(4):
                    yield op
                if r.random() < 0.35:
                    # a full iteration while some tables have moved and others have not
                    d = r.choice(DMS)
                    if r.random() < 0.5:
                        yield "c.scanall emb %d %s * %d" % (r.choice(alive), d, r.choice([1, 3, 100]))
                    else:
                        yield "c.rawscan %s * %d" % (d, r.choice([1, 3, 100]))
                if r.random() < 0.3:
                    yield "c.update"
            rep = yield "c.settle"
            if not rep.startswith("ok"):
                return
            yield "wb.frags"
            for d, key in keys:
                for m in alive:
                    yield "c.get emb %d %s %s" % (m, d, key)
            for d in DMS:
                yield "wb.keys %s" % d
            for d in DMS:
                # (embedded clients only: a cluster client created before a member left keeps its connection pool and its copy
                # of the routing table for a while - its errors are not the cluster's)
                yield "c.scanall emb %d %s * %d" % (r.choice(alive), d, r.choice([1, 2, 10]))
                yield "c.rawscan %s * %d" % (d, r.choice([1, 2, 10]))
