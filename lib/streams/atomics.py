"""Stream `atomics` (C07): Incr / Decr / IncrByFloat / GetPut on a few keys of a stable cluster through
every entry point (embedded client on the owner / on another member, cluster client, raw RESP), with a
second caller started INSIDE the first caller's read-modify-write window (yield point of the harness
build between the read and the write) and with real concurrent callers spread over all members and
client kinds.

Oracle (independent of the Lean model): a counter / register per key.
  * every Incr/Decr returns the previous value plus its delta, whatever the entry point; two overlapping
    calls return the two prefix sums of one of the two serial orders and the counter ends at the sum;
  * GetPut returns the value written by the previous call (or none): one chain;
  * the concurrent race returns every value 1..N exactly once (Incr) / every written value at most once
    and exactly one `none` (GetPut)."""
from streams.cluster import T0, hx

HEADER = 3
REQUIRED_SHAPES = ["destroy_then_atomic_ops_through_old_handles", "older_timestamp_writes_last", "incr", "incr_via_non_owner", "overlap_incr", "overlap_getput", "overlap_float", "overlap_two_members", "race_incr", "race_getput",
                   "float", "incr_keeps_ttl", "getput_chain"]


def fnum(s):
    return float(s)


class Oracle:
    def __init__(self):
        self.shapes = {}
        self.now = T0
        self.route = {}
        self.cnt = {}      # key -> int   (absent = 0)
        self.flt = {}      # key -> float
        self.reg = {}      # key -> hex value or None
        self.ttl = {}      # key -> deadline ms

    def hit(self, s):
        self.shapes[s] = self.shapes.get(s, 0) + 1

    def apply(self, key, op, arg):
        """one serial step; returns the expected reply"""
        if op in ("incr", "decr"):
            d = int(arg) if op == "incr" else -int(arg)
            self.cnt[key] = self.cnt.get(key, 0) + d
            return str(self.cnt[key])
        if op == "incrf":
            self.flt[key] = self.flt.get(key, 0.0) + float(arg)
            return self.flt[key]
        old = self.reg.get(key)
        self.reg[key] = arg
        return old if old is not None else "none"

    @staticmethod
    def same(exp, got):
        if isinstance(exp, float):
            try:
                return float(got) == exp
            except ValueError:
                return False
        return exp == got

    def observe(self, op, reply):
        f = op.split()
        name, a = f[0], f[1:]
        if reply.startswith("err:") or reply.startswith("other:") or reply in ("bad-op", "no-cluster", "down", "neterr", "hang", "dead"):
            return "unexpected reply %r to %s" % (reply[:160], op[:100])
        if name == "clock":
            self.now = int(a[0])
            return None
        if name == "c.new":
            self.cnt, self.flt, self.reg, self.route, self.ttl = {}, {}, {}, {}, {}
            return None
        if name == "c.own":
            p, b = reply.split("pick=")[1].split()[0].split("/")
            self.route[a[1]] = int(p.split(",")[-1])
            return None
        if name == "c.destroy":
            # the DMap is emptied; the application keeps its handles (they stay usable)
            self.cnt, self.flt, self.reg, self.ttl = {}, {}, {}, {}
            self.hit("destroy_then_atomic_ops_through_old_handles")
            return None if reply == "ok" else "destroy: %s" % reply[:60]
        if name == "c.put":
            # a counter seeded with an expiry
            self.cnt[a[3]] = int(bytes.fromhex(a[4]))
            self.ttl[a[3]] = self.now // 1_000_000 + int(a[6])
            return None if reply == "ok" else "put: " + reply
        if name in ("c.incr", "c.decr", "c.incrf", "c.getput"):
            key = a[3]
            exp = self.apply(key, name[2:], a[4])
            self.hit("float" if name == "c.incrf" else ("getput_chain" if name == "c.getput" else "incr"))
            if name != "c.getput" and int(a[1]) != self.route.get(key, int(a[1])):
                self.hit("incr_via_non_owner")
            if not self.same(exp, reply):
                return "%s %s via %s/m%s returned %s, expected %s" % (name[2:], a[4], a[0], a[1], reply[:60], exp)
            return None
        if name == "c.atomenv":
            # <path> <i> dm <key> <op1> <arg1> -- <adv> <path2> <i2> <op2> <arg2>: second, then first (which wrote with the older timestamp)
            key, op1, arg1, op2, arg2 = a[3], a[4], a[5], a[10], a[11]
            r1, inner = reply.split(" inner=")
            if inner == "-":
                self.hit("env_point_not_reached")
                e1 = self.apply(key, op1, arg1)
                return None if self.same(e1, r1) else "%s %s returned %s, expected %s" % (op1, arg1, r1, e1)
            r2 = inner.split(":", 1)[1]
            e2 = self.apply(key, op2, arg2)
            e1 = self.apply(key, op1, arg1)
            self.now += int(a[7]) * 1_000_000
            self.hit("older_timestamp_writes_last")
            if not (self.same(e2, r2) and self.same(e1, r1)):
                return ("an operation that took its timestamp before another one ran, and its lock after it: %s %s returned %s, %s %s returned %s; "
                        "serial order second-then-first gives %s and %s" % (op1, arg1, r1, op2, arg2, r2, e1, e2))
            return None
        if name in ("c.atomx", "c.atomxf"):
            key, op1, arg1 = a[3], a[4], a[5]
            m1, m2, op2, arg2 = int(a[1]), int(a[8]), a[9], a[10]
            r1, inner = reply.split(" inner=")
            if inner == "-":
                return "the first operation never reached its read-modify-write section: %s" % reply[:100]
            state, r2 = inner.split(":", 1)
            # the two serial orders
            import copy
            saved = (copy.deepcopy(self.cnt), copy.deepcopy(self.flt), copy.deepcopy(self.reg))
            e1 = self.apply(key, op1, arg1)
            e2 = self.apply(key, op2, arg2)
            order_a = self.same(e1, r1) and self.same(e2, r2)
            after_a = (copy.deepcopy(self.cnt), copy.deepcopy(self.flt), copy.deepcopy(self.reg))
            self.cnt, self.flt, self.reg = saved
            f2 = self.apply(key, op2, arg2)
            f1 = self.apply(key, op1, arg1)
            order_b = self.same(f1, r1) and self.same(f2, r2)
            self.hit("overlap_" + ("float" if "incrf" in (op1, op2) else ("getput" if "getput" in (op1, op2) else "incr")))
            if m1 != m2:
                self.hit("overlap_two_members")
            if not (order_a or order_b):
                return ("two overlapping operations (%s %s via m%d, %s %s via m%d) returned %s and %s: not the result of either serial order "
                        "(%s then %s, or %s then %s)" % (op1, arg1, m1, op2, arg2, m2, r1, r2, e1, e2, f2, f1))
            if order_a:
                self.cnt, self.flt, self.reg = after_a
            return None
        if name in ("c.get", "c.getf"):
            key = a[3]
            if key in self.cnt:
                exp = hx(str(self.cnt[key]).encode())
                return None if reply == exp else "counter reads %s, the sum of the acknowledged deltas is %d" % (reply, self.cnt[key])
            if key in self.reg and self.reg[key] is not None:
                return None if reply == self.reg[key] else "register reads %s, last GetPut wrote %s" % (reply[:40], self.reg[key][:40])
            if key in self.flt:
                try:
                    got = float(bytes.fromhex(reply).decode())
                except ValueError:
                    return "float counter holds %s" % reply
                return None if got == self.flt[key] else "float counter reads %s, expected %s" % (got, self.flt[key])
            return None
        if name == "wb.ttl":
            key = a[1]
            if key in self.ttl:
                owner = self.route[key]
                for part in reply.split():
                    m, rest = part.split(":", 1)
                    if int(m[1:]) == owner:
                        p = rest.split(",")[0][2:]
                        self.hit("incr_keeps_ttl")
                        if p != str(self.ttl[key]):
                            return "the counter's expiry was %d before the Incr, the owner now stores %s" % (self.ttl[key], p)
            return None
        if name == "c.atomrace":
            kv = dict(x.split("=", 1) for x in reply.split())
            self.hit("race_" + a[4])
            if int(kv["errors"]) or int(kv["dup"]) or int(kv["missing"]):
                return "concurrent %s race lost or duplicated updates: %s" % (a[4], reply)
            if a[4] == "incr" and kv["final"] != hx(str(int(kv["total"])).encode()):
                return "concurrent Incr race: final value %s after %s increments" % (kv["final"], kv["total"])
            return None
        return None


class Gen:
    def __init__(self, rng, tier="quick"):
        self.rng = rng

    def episode(self, orc, nops):
        r = self.rng
        n = r.choice([2, 3, 3])
        R = r.choice([1, 2])
        now = T0
        yield "watchdog 120s"
        yield "clock %d" % now
        yield "c.new n=%d r=%d w=%d rq=1 rr=%d parts=%d tsize=4096" % (n, R, R, r.choice([0, 1]), r.choice([3, 7]))
        ck = [hx(b"cnt%d" % i) for i in range(2)]
        fk = [hx(b"flt%d" % i) for i in range(1)]
        gk = [hx(b"reg%d" % i) for i in range(2)]
        for k in ck + fk + gk:
            yield "c.own dm %s" % k
        # one counter starts with an expiry: Incr must keep it
        yield "c.put emb 0 dm %s %s PX 60000" % (ck[1], hx(b"10"))
        ver = 0
        races = 0

        def entry():
            return r.choice(["emb", "emb", "cli", "raw"]), r.randrange(n)

        FD = ["0.5", "1.25", "-0.75", "2", "0.125"]
        for _ in range(nops or 60):
            x = r.random()
            p, m = entry()
            if x < 0.25:
                k = r.choice(ck)
                yield "c.%s %s %d dm %s %d" % (r.choice(["incr", "incr", "decr"]), p, m, k, r.choice([1, 2, 7, 100]))
                if k == ck[1]:
                    yield "wb.ttl dm %s" % k
                yield "c.get %s %d dm %s" % (r.choice(["emb", "cli"]), r.randrange(n), k)
            elif x < 0.35:
                k = r.choice(fk)
                yield "c.incrf %s %d dm %s %s" % (p, m, k, r.choice(FD))
                yield "c.getf emb %d dm %s" % (r.randrange(n), k)
            elif x < 0.50:
                k = r.choice(gk)
                ver += 1
                yield "c.getput %s %d dm %s %s" % (p, m, k, hx(b"g%d" % ver))
                yield "c.get %s %d dm %s" % (r.choice(["emb", "cli"]), r.randrange(n), k)
            elif x < 0.56:
                # the first caller takes its timestamp, the clock moves, a second caller runs completely, then the first
                # one takes the lock: it writes LAST with the OLDER timestamp; every copy must end up with its value
                p2, m2 = entry()
                adv = r.choice([1, 50, 2000])
                if r.random() < 0.6:
                    k = ck[0]
                    yield "c.atomenv %s %d dm %s %s %d -- %d %s %d %s %d" % (p, m, k, r.choice(["incr", "decr"]), r.choice([1, 5, 50]), adv,
                                                                             p2, m2, r.choice(["incr", "decr"]), r.choice([3, 7, 1000]))
                else:
                    k = r.choice(gk)
                    ver += 2
                    yield "c.atomenv %s %d dm %s getput %s -- %d %s %d getput %s" % (p, m, k, hx(b"g%d" % (ver - 1)), adv, p2, m2, hx(b"g%d" % ver))
                now += adv * 1_000_000
                yield "clock %d" % now
                for mm in range(n):
                    yield "c.get emb %d dm %s" % (mm, k)
            elif x < 0.80:
                p2, m2 = entry()
                kind = r.random()
                if kind < 0.5:
                    k = r.choice(ck)
                    yield "c.atomx %s %d dm %s %s %d -- %s %d %s %d" % (p, m, k, r.choice(["incr", "decr"]), r.choice([1, 5, 50]),
                                                                       p2, m2, r.choice(["incr", "decr"]), r.choice([3, 7, 1000]))
                elif kind < 0.8:
                    k = r.choice(gk)
                    ver += 2
                    yield "c.atomx %s %d dm %s getput %s -- %s %d getput %s" % (p, m, k, hx(b"g%d" % (ver - 1)), p2, m2, hx(b"g%d" % ver))
                else:
                    k = r.choice(fk)
                    yield "c.atomxf %s %d dm %s incrf %s -- %s %d incrf %s" % (p, m, k, r.choice(FD), p2, m2, r.choice(FD))
                yield "c.get%s emb %d dm %s" % ("f" if k in fk else "", r.randrange(n), k)
            elif x < 0.83 and n >= 1:
                # Destroy, then atomic operations through a handle obtained BEFORE it (on the key's owner) overlapping with
                # operations that arrive over the network: one per-key lock for all of them
                k = ck[0]
                yield "c.destroy emb %d dm" % r.randrange(n)
                rep = yield "c.own dm %s" % k
                o = int(rep.split("pick=")[1].split()[0].split("/")[0].split(",")[-1])
                yield "c.atomx emb %d dm %s incr %d -- %s %d incr %d" % (o, k, r.choice([1, 5]), r.choice(["raw", "cli"]), r.randrange(n), r.choice([3, 7]))
                yield "c.get emb %d dm %s" % (r.randrange(n), k)
                kg = gk[0]
                rep = yield "c.own dm %s" % kg
                o = int(rep.split("pick=")[1].split()[0].split("/")[0].split(",")[-1])
                ver += 2
                yield "c.atomx emb %d dm %s getput %s -- %s %d getput %s" % (o, kg, hx(b"g%d" % (ver - 1)), r.choice(["raw", "cli"]), r.randrange(n), hx(b"g%d" % ver))
                yield "c.get emb %d dm %s" % (r.randrange(n), kg)
            elif x < 0.88:
                races += 1
                yield "c.atomrace dm %s %d %d %s" % (hx(b"race%d" % races), r.choice([3, 6]), r.choice([5, 10]), r.choice(["incr", "getput"]))
            else:
                now += r.choice([1, 100, 1000]) * 1_000_000
                yield "clock %d" % now
