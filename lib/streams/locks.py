"""Stream `locks` (C08): competing lockers on a few keys of a stable cluster, through every entry point
(embedded client on the owner / on another member, cluster client, raw RESP), with timeouts, leases,
stale and forged tokens, a virtual clock that is moved up to, onto and past every deadline, waiting
acquisitions, and competitors scheduled INSIDE Unlock and Lease (between the token comparison and the
delete / expiry update, where the harness build has a yield point).  A real-concurrency race (many
clients, no timeouts) checks that the critical section is never shared.

Oracle (independent of the Lean model): an abstract lock per key, `beliefs` = the tokens handed out and
not yet released with their deadlines.
  * Lock returns a token only when no belief is valid at that instant (mutual exclusion);
  * with a valid belief Lock fails with lock-not-acquired, and not before its deadline (real time);
  * Unlock / Lease with a token that is not the valid holder's answers no-such-lock and the stored
    expiry does not change;
  * a lock with a timeout is valid exactly until its deadline (millisecond granularity), one without is
    valid until unlocked."""
from streams.cluster import T0, hx

HEADER = 3
REQUIRED_SHAPES = ["filler_puts", "acquired", "acquired_after_timeout", "contended", "stale_token", "forged_token", "unlock_ok", "lease_ok",
                   "lease_extends", "expired_at_boundary", "unlock_straddles_expiry", "lease_straddles_expiry", "wait_acquires", "race",
                   "via_non_owner", "no_timeout_survives"]


def parse_ttl(reply):
    out = {}
    for part in reply.split():
        m, rest = part.split(":", 1)
        if rest == "down":
            continue
        p, b = rest.split(",")
        out[int(m[1:])] = (p[2:], b[2:])
    return out


class Oracle:
    def __init__(self):
        self.shapes = {}
        self.now = T0
        self.cfg = {}
        self.route = {}
        self.bel = {}       # key -> {token: deadline_ms (0 = none)}
        self.stored = {}    # key -> deadline stored on the owner as last seen ("-" = no entry)
        self.expect_ttl = None

    def hit(self, s):
        self.shapes[s] = self.shapes.get(s, 0) + 1

    def ms(self):
        return self.now // 1_000_000

    def valid(self, key, at_ms=None):
        at = self.ms() if at_ms is None else at_ms
        return {t: d for t, d in self.bel.get(key, {}).items() if d == 0 or at < d}

    def on_lock(self, key, reply, timeout, at_ms, entry, what):
        v = self.valid(key, at_ms)
        if reply.startswith("tok"):
            if v:
                return "%s returned a token while %s still holds the lock (deadline %s, now %d)" % (what, list(v)[0], list(v.values())[0], at_ms)
            if self.bel.get(key):
                self.hit("acquired_after_timeout")
            self.bel.setdefault(key, {})[reply] = at_ms + timeout if timeout else 0
            self.hit("acquired")
            if entry is not None and entry != self.route[key][0]:
                self.hit("via_non_owner")
            return None
        if reply == "notacquired":
            if not v:
                return "%s failed with lock-not-acquired although the key is free (beliefs %s, now %d)" % (what, self.bel.get(key), at_ms)
            self.hit("contended")
            if 0 in v.values() and len(self.bel.get(key, {})) >= 1:
                self.hit("no_timeout_survives")
            return None
        if reply == "notacquired-early":
            return "%s failed with lock-not-acquired before its deadline had passed" % what
        return "%s: unexpected reply %s" % (what, reply)

    def on_release(self, kind, key, tok, reply, at_ms, lease_ms, what):
        v = self.valid(key, at_ms)
        if tok in v:
            if reply != "ok":
                return "%s with the holder's token answered %s" % (what, reply)
            if kind == "unlock":
                self.bel[key].pop(tok)
                self.hit("unlock_ok")
            else:
                old = self.bel[key][tok]
                self.bel[key][tok] = at_ms + lease_ms if lease_ms else 0
                self.hit("lease_ok")
                if old and (not lease_ms or at_ms + lease_ms > old):
                    self.hit("lease_extends")
            return None
        if reply != "nolock":
            return "%s with a token that is not the current holder's answered %s (valid holders %s, now %d)" % (what, reply, v, at_ms)
        self.hit("forged_token" if tok == "forged" else "stale_token")
        return None

    def observe(self, op, reply):
        f = op.split()
        name, a = f[0], f[1:]
        if reply.startswith("err:") or reply.startswith("other:") or reply in ("bad-op", "no-cluster", "down", "neterr", "hang", "dead"):
            return "unexpected reply %r to %s" % (reply[:160], op[:100])
        if name == "clock":
            self.now = int(a[0])
            return None
        if name == "c.new":
            self.cfg = dict(kv.split("=") for kv in a if "=" in kv)
            self.bel, self.route, self.stored = {}, {}, {}
            return None
        if name == "c.own":
            p, b = reply.split("pick=")[1].split()[0].split("/")
            self.route[a[1]] = (int(p.split(",")[-1]), [int(x) for x in b.split(",")] if b != "-" else [])
            return None
        if name == "c.lock":
            return self.on_lock(a[3], reply, int(a[4]), self.ms(), int(a[1]), "Lock via %s/m%s" % (a[0], a[1]))
        if name == "c.put":
            self.hit("filler_puts")
            return None if reply == "ok" else "Put of an ordinary entry next to the locks: %s" % reply
        if name == "c.lockw":
            # one attempt now; the key being held, the attempts after the clock moved by adv
            v = self.valid(a[3])
            at = self.ms() if not v else self.ms() + int(a[6])
            err = self.on_lock(a[3], reply, int(a[4]), at, int(a[1]), "waiting Lock via %s/m%s" % (a[0], a[1]))
            if v and reply.startswith("tok"):
                self.hit("wait_acquires")
            return err
        if name in ("c.unlock", "c.lease"):
            before = dict(self.valid(a[3]))
            err = self.on_release(name[2:], a[3], a[4], reply, self.ms(), int(a[5]) if name == "c.lease" else 0, "%s via %s/m%s" % (name[2:], a[0], a[1]))
            if a[4] not in before and any(d and abs(d - self.ms()) <= 1 for d in self.bel.get(a[3], {}).values()):
                self.hit("expired_at_boundary")
            return err
        if name in ("c.unlockx", "c.leasex"):
            sep = a.index("--")
            own, rest = a[:sep], a[sep + 1:]
            key, tok = own[3], own[4]
            res, inner = reply.split(" inner=")
            kind = "unlock" if name == "c.unlockx" else "lease"
            what = "%s (competitor scheduled inside it) via %s/m%s" % (kind, own[0], own[1])
            if inner == "-":
                # the first half refused: nothing else happened
                return self.on_release(kind, key, tok, res, self.ms(), int(own[5]) if kind == "lease" else 0, what)
            if tok not in self.valid(key):
                return "%s: the token comparison let a token through that is not the holder's" % what
            at2 = self.ms() + int(rest[0])
            held_then = tok in self.valid(key, at2)
            err = self.on_lock(key, inner, int(rest[3]), at2, int(rest[2]), "the competing Lock")
            if err:
                return err
            if not held_then:
                self.hit(kind + "_straddles_expiry")
            return self.on_release(kind, key, tok, res, at2, int(own[5]) if kind == "lease" else 0, what)
        if name == "wb.ttl":
            key = a[1]
            owner, baks = self.route[key]
            seen = parse_ttl(reply)
            v = self.valid(key)
            p = seen[owner][0]
            if v:
                d = list(v.values())[0]
                if p == "-" or int(p) != d:
                    return "the holder's deadline is %d, the owner stores %s" % (d, p)
                for b in baks:
                    if seen[b][1] != p:
                        return "backup copy of the lock entry on m%d is %s, the owner stores %s" % (b, seen[b][1], p)
            elif p != "-" and (int(p) == 0 or self.ms() < int(p)):
                return "nobody holds the lock but the owner stores a live entry (deadline %s, now %d)" % (p, self.ms())
            return None
        if name == "c.lockrace":
            kv = dict(x.split("=", 1) for x in reply.split())
            self.hit("race")
            want = int(a[2]) * int(a[3])
            if int(kv["maxinside"]) > 1:
                return "%s clients were inside the critical section at the same time" % kv["maxinside"]
            if int(kv["acquired"]) != want or int(kv["failed"]) != 0:
                return "lock race: %s" % reply
            return None
        return None


class Gen:
    def __init__(self, rng, tier="quick"):
        self.rng = rng
        self.tier = tier

    def episode(self, orc, nops):
        r = self.rng
        n = r.choice([1, 2, 3, 3])
        R = r.choice([1, 2]) if n >= 2 else 1
        now = T0
        yield "watchdog 120s"
        yield "clock %d" % now
        yield "c.new n=%d r=%d w=%d rq=1 rr=%d parts=%d tsize=4096" % (n, R, R, r.choice([0, 1]), r.choice([3, 7]))
        keys = [hx(b"L%d" % i) for i in range(2)]
        owner = {}
        for k in keys:
            rep = yield "c.own dm %s" % k
            owner[k] = int(rep.split("pick=")[1].split()[0].split("/")[0].split(",")[-1])
        toks = {k: [] for k in keys}       # (token, path it was obtained through)
        TMO = [0, 0, 200, 500, 1000]

        def entry():
            p = r.choice(["emb", "emb", "cli", "raw"])
            return p, r.randrange(n)

        def pick_token(k):
            v = orc.valid(k)
            x = r.random()
            if v and x < 0.6:
                t = list(v)[0]
            elif toks[k] and x < 0.85:
                t = r.choice(toks[k])[0]          # possibly a stale one
            else:
                return "forged", "raw"
            was = dict(toks[k]).get(t, "raw")
            return t, ("raw" if was == "raw" else r.choice(["emb", "cli"]))

        fill = 0
        for _ in range(nops or 60):
            k = r.choice(keys)
            x = r.random()
            if r.random() < 0.07:
                # ordinary entries of the same DMap, more than a table of them: the lock entries end up in tables behind
                # the one being written (a held lock must be seen there too)
                for _i in range(r.choice([8, 16])):
                    fill += 1
                    if fill <= 40:
                        yield "c.own dm %s" % hx(b"fill%d" % (fill % 40))      # the model is told every key's owners
                    yield "c.put emb %d dm %s %s" % (r.randrange(n), hx(b"fill%d" % (fill % 40)), hx(b"f" * r.choice([500, 700])))
            if x < 0.30:
                p, m = entry()
                if r.random() < 0.3:
                    m = owner[k]
                rep = yield "c.lock %s %d dm %s %d %d" % (p, m, k, r.choice(TMO), r.choice([0, 15, 30]))
                if rep.startswith("tok"):
                    toks[k].append((rep, p))
            elif x < 0.36:
                p, m = entry()
                v = orc.valid(k)
                d = [dl for dl in v.values() if dl]
                adv = (d[0] - now // 1_000_000 + r.choice([0, 1, 50])) if d and r.random() < 0.8 else r.choice([1, 100])
                adv = max(adv, 1)
                rep = yield "c.lockw %s %d dm %s %d %d %d" % (p, m, k, r.choice(TMO), 1000, adv)
                if rep.startswith("tok"):
                    toks[k].append((rep, p))
                if v:
                    now += adv * 1_000_000
                yield "clock %d" % now
            elif x < 0.52:
                t, p = pick_token(k)
                yield "c.unlock %s %d dm %s %s" % (p, r.randrange(n), k, t)
            elif x < 0.64:
                t, p = pick_token(k)
                yield "c.lease %s %d dm %s %s %d" % (p, r.randrange(n), k, t, r.choice([100, 400, 2000]))
            elif x < 0.76:
                t, p = pick_token(k)
                v = orc.valid(k)
                d = v.get(t, 0)
                # the competitor arrives before, exactly at, or after the holder's deadline
                adv = max(1, d - now // 1_000_000 + r.choice([-5, 0, 0, 1, 20])) if d else r.choice([1, 50])
                p2, m2 = entry()
                kind = r.choice(["unlockx", "leasex"])
                extra = " %d" % r.choice([100, 2000]) if kind == "leasex" else ""
                rep = yield "c.%s %s %d dm %s %s%s -- %d %s %d %d" % (kind, p, r.randrange(n), k, t, extra, adv, p2, m2, r.choice(TMO))
                inner = rep.split(" inner=")[-1]
                if inner.startswith("tok"):
                    toks[k].append((inner, p2))
                if inner != "-":
                    now += adv * 1_000_000
                yield "clock %d" % now
            elif x < 0.97:
                # move the clock: just before, onto, or past a deadline
                ds = [d for kk in keys for d in orc.valid(kk).values() if d]
                if ds and r.random() < 0.7:
                    tgt = r.choice(ds) + r.choice([-1, 0, 0, 1])
                    now = max(now, tgt * 1_000_000 + r.choice([0, 0, 999_999]))
                else:
                    now += r.choice([1, 50, 150, 600]) * 1_000_000
                yield "clock %d" % now
            else:
                rk = hx(b"race")
                yield "c.lockrace dm %s %d %d" % (rk, r.choice([2, 4, 6]), r.choice([3, 6]))
            yield "wb.ttl dm %s" % k
