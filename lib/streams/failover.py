"""Stream `failover` (C02): clusters of 3-5 in-process members with ReplicaCount 2 or 3 (read-repair off / on).
A sequential workload of Puts, overwrites and Deletes is acknowledged on a healthy cluster; then up to
ReplicaCount - 1 members are stopped — primary owners, backup owners, the coordinator, bystanders; gracefully
(leave message) or abruptly (listener closed, membership layer silenced: the others find out by probing);
between operations, or DURING a Put / Delete executing elsewhere (at the yield point between its remote and
local writes).  After the membership layer and the routing table have re-stabilised every key is read from
every surviving member, then the workload goes on (plain Put / Get / Delete) and is checked again.

Oracle: a per-key register of the last acknowledged value (an operation that overlapped a failure and was
not acknowledged leaves either value acceptable).  No model is run in lock-step; the Lean theorems (C02:
survival over any new route that still lists a surviving holder; C13: survivors stay listed) are about the
DMap and routing models tied by the cluster and routing streams."""
from streams.cluster import hx
from streams.repair import parse_wb

NO_MODEL = True
HEADER = 3
REQUIRED_SHAPES = ["counter_continues_after_failover", "primary_owner_lost", "backup_owner_lost", "coordinator_lost", "abrupt", "graceful", "killed_during_put", "killed_during_delete",
                   "value_survived", "delete_survived", "read_from_every_survivor", "two_members_lost", "ops_after_failover"]


class Oracle:
    def __init__(self):
        self.shapes = {}
        self.cfg = {}
        self.exp = {}          # key -> set of acceptable values (None = not found)
        self.alive = set()
        self.route = {}
        self.lost = 0
        self.after = False

    def hit(self, s):
        self.shapes[s] = self.shapes.get(s, 0) + 1

    def set(self, key, val):
        self.exp[key] = {val}

    def lose(self, v, how):
        self.alive.discard(v)
        self.lost += 1
        self.hit("graceful" if how == "c.stop" else "abrupt")
        if self.lost >= 2:
            self.hit("two_members_lost")
        if any(o == v for (o, _) in self.route.values()):
            self.hit("primary_owner_lost")
        if any(v in b for (_, b) in self.route.values()):
            self.hit("backup_owner_lost")
        if v == min(self.alive | {v}):
            self.hit("coordinator_lost")
        self.after = True

    def observe(self, op, reply):
        f = op.split()
        name, a = f[0], f[1:]
        if reply.startswith("other:") or reply.split()[0] in ("bad-op", "no-cluster", "hang", "nocoord"):
            return "unexpected reply %r to %s" % (reply[:160], op[:100])
        if name == "c.new":
            self.cfg = dict(kv.split("=") for kv in a if "=" in kv)
            self.alive = set(range(int(self.cfg["n"])))
            self.exp, self.route, self.lost, self.after = {}, {}, 0, False
            self.destroyed = False
            self.cnt = {}
            return None
        if name == "c.own":
            p, b = reply.split("pick=")[1].split()[0].split("/")
            self.route[a[1]] = (int(p.split(",")[-1]), [int(x) for x in b.split(",")] if b != "-" else [])
            return None
        if name == "c.unreach":
            self.hit("unreachable_backup_owner_then_lost")
            return None
        if name in ("c.stop", "c.kill"):
            self.lose(int(a[0]), name)
            return None
        if name == "c.converge":
            if reply == "not-converged":
                self.hit("not_converged")
            return None
        if name == "wb":
            pend = self.__dict__.pop("pending_put", None)
            if pend and pend[0] == a[1]:
                W = int(self.cfg.get("w", 1))
                n = sum(1 for (m, kind), c in parse_wb(reply).items() if m in self.alive and c[0] == pend[1])
                self.hit("copies_counted_after_failover")
                if n < W:
                    return ("a Put acknowledged with WriteQuorum=%d after the loss of %d member(s) left %d cop%s of the value in the cluster "
                            "(a promoted owner that is its own backup owner stores two: primary and backup fragment)" % (W, self.lost, n, "y" if n == 1 else "ies"))
            return None
        if name == "c.put":
            key, val = a[3], a[4]
            if reply == "ok" and self.after:
                self.pending_put = (key, val)
            if reply == "ok":
                self.set(key, val)
                if self.after:
                    self.hit("ops_after_failover")
                return None
            # not acknowledged: it may or may not have taken effect
            self.exp.setdefault(key, {None}).add(val)
            return None if not self.after or reply in ("neterr", "wq", "down") else "Put after re-stabilisation failed: %s" % reply
        if name == "c.del":
            key = a[3]
            if reply == "1":
                self.set(key, None)
                return None
            self.exp.setdefault(key, {None}).add(None)
            return None
        if name == "c.inter":
            sep = a.index("--")
            outer, inner = a[1:sep], a[sep + 1:]
            r_outer, st = reply.split(" inner=")
            if inner[0] in ("c.kill", "c.stop") and st != "-":
                self.lose(int(inner[1]), inner[0])
                self.hit("killed_during_put" if outer[0] == "c.put" else "killed_during_delete")
            key = outer[4]
            if outer[0] == "c.put":
                if r_outer == "ok":
                    self.set(key, outer[5])
                else:
                    self.exp.setdefault(key, {None}).add(outer[5])
            else:
                if r_outer == "1":
                    self.set(key, None)
                else:
                    self.exp.setdefault(key, {None}).add(None)
            return None
        if name == "c.incr":
            key, d = a[3], int(a[4])
            cnt = self.__dict__.setdefault("cnt", {})
            if not reply.lstrip("-").isdigit():
                cnt.pop(key, None)          # not acknowledged: the counter is unknown from here on
                return None if not self.after or reply in ("neterr", "wq", "down") else "Incr after re-stabilisation failed: %s" % reply
            if key in cnt and int(reply) != cnt[key] + d:
                return "Incr of a counter with acknowledged value %d by %d returned %s%s" % (
                    cnt[key], d, reply, " (after the loss of %d member(s): the promoted owner holds the counter as a backup copy)" % self.lost if self.after else "")
            if self.after and key in cnt:
                self.hit("counter_continues_after_failover")
            cnt[key] = int(reply)
            return None
        if name == "c.destroy":
            cnt = self.__dict__.setdefault("cnt", {})
            cnt.clear()
            if reply != "ok":
                return "Destroy after the failover: %s" % reply[:80]
            self.destroyed = True
            for k in list(self.exp):
                self.exp[k] = {None}
            return None
        if name == "wb.keys":
            if not getattr(self, "destroyed", False):
                return None
            self.hit("destroy_after_member_left")
            for part in reply.split():
                mi, rest = part.split(":", 1)
                if int(mi[1:]) not in self.alive:
                    continue
                p, b = rest.split(";")
                for kind, lst in (("primary", p[2:]), ("backup", b[2:])):
                    if lst != "-":
                        return "after Destroy %s still holds %s entries of the DMap: %s" % (mi, kind, lst[:80])
            return None
        if name == "c.get":
            key = a[3]
            want = self.exp.get(key, {None})
            got = None if reply == "nf" else reply
            if reply in ("neterr", "down", "rq") or reply.startswith("err"):
                return "Get on surviving member m%s after re-stabilisation failed: %s" % (a[1], reply)
            if got not in want:
                w = sorted(str(x)[:24] for x in want)
                if got is None:
                    return "acknowledged value lost: m%s reads not-found, acknowledged %s (lost members so far: %d, R=%s)" % (a[1], w, self.lost, self.cfg.get("r"))
                if None in want and len(want) == 1:
                    return "acknowledged Delete undone: m%s reads %s" % (a[1], got[:24])
                return "m%s reads %s, acknowledged %s (an older value came back?)" % (a[1], got[:24], w)
            # from now on the value read is the value (reads are stable)
            if self.after:
                self.hit("read_from_every_survivor")
                self.hit("delete_survived" if got is None and key in self.exp else "value_survived")
            if len(want) > 1:
                self.exp[key] = {got}
            return None
        return None


class Gen:
    def __init__(self, rng, tier="quick"):
        self.rng = rng

    def episode(self, orc, nops):
        r = self.rng
        R = r.choice([2, 2, 3])
        n = r.choice([2, 3, 3, 4, 5]) if R == 2 else r.choice([3, 3, 4, 5])      # N >= R; N = R keeps a promoted backup owner listed as its own backup
        unreach_mode = R == 3 and r.random() < 0.6
        if unreach_mode:
            n = r.choice([4, 5])
        parts = r.choice([7, 11])
        yield "watchdog 300s"
        yield "clock 0"
        # an idle window far longer than the episode (one hour) must change nothing: no key is idle, least of all one
        # that the new owner has not read yet
        idle = r.choice([0, 0, 3600000])
        W = r.choice([1, 1, 2])       # WriteQuorum 2: a Put that cannot reach a backup owner is refused (not acknowledged)
        yield "c.new n=%d r=%d w=%d rq=1 rr=%d parts=%d tsize=%d%s" % (n, R, W, r.choice([0, 1]), parts, r.choice([512, 4096]), " idle_ms=%d" % idle if idle else "")
        alive = list(range(n))
        keys = [hx(b"f%d" % i) for i in range(10)]
        # the longest keys the store takes (table.MaxKeyLength - 1 = 255 bytes): the owner and the backup owners must
        # agree on what they accept, or an acknowledged write has fewer copies than R
        keys += [hx(b"L%d" % i + b"k" * 253) for i in range(3)]
        ver = [0]

        ckeys = [hx(b"cnt%d" % i) for i in range(3)]

        def wl(k):
            out = []
            for _ in range(k):
                key = r.choice(keys)
                ver[0] += 1
                m = r.choice(alive)
                if r.random() < 0.15:
                    # counters: an Incr continues from the last acknowledged value, wherever the newest copy lives
                    out.append("c.incr %s %d dm %s %d" % (r.choice(["emb", "raw"]), m, r.choice(ckeys), r.choice([1, 5])))
                    continue
                if r.random() < 0.75:
                    out.append("c.put %s %d dm %s %s" % (r.choice(["emb", "raw"]), m, key, hx(b"v%d" % ver[0] + b"y" * r.choice([0, 40])) if r.random() > 0.1 else hx(b"")))
                else:
                    out.append("c.del %s %d dm %s" % (r.choice(["emb", "raw"]), m, key))
            return out

        for op in wl(nops or 30):
            yield op
        for ck in ckeys:
            yield "c.incr emb %d dm %s %d" % (r.choice(alive), ck, r.choice([2, 10]))
        owners = {}
        for key in keys:
            rep = yield "c.own dm %s" % key
            p, b = rep.split("pick=")[1].split()[0].split("/")
            owners[key] = (int(p.split(",")[-1]), [int(x) for x in b.split(",")] if b != "-" else [])
        budget = r.randint(1, R - 1)
        if unreach_mode:
            # a backup owner stops answering but is still a member (nobody has noticed yet): Puts are acknowledged with the
            # copies on the owner and on the OTHER backup owner.  Then that member and the primary owner are lost for good
            # (two = R - 1 members): the other backup owner has everything.
            key = r.choice(keys)
            o, bs = owners[key]
            if len(bs) >= 2 and o in alive and bs[0] in alive:
                b1 = bs[0]
                yield "c.unreach %d" % b1
                for _ in range(6):
                    ver[0] += 1
                    kk = r.choice([key, key, r.choice(keys)])
                    yield "c.put emb %d dm %s %s" % (r.choice([m for m in alive if m != b1]), kk, hx(b"u%d" % ver[0]))
                yield "c.kill %d" % b1
                alive.remove(b1)
                rep = yield "c.converge"
                if rep == "not-converged":
                    return
                yield "c.stop %d" % o
                alive.remove(o)
                rep = yield "c.converge"
                if rep == "not-converged":
                    return
                yield "c.sync"
                yield "c.sync"
                for k2 in keys:
                    for m in alive:
                        yield "c.get emb %d dm %s" % (m, k2)
                budget = 0
        for _ in range(budget):
            # who: an owner, a backup owner, the coordinator (oldest), anybody
            key = r.choice(keys)
            cand = {"owner": owners[key][0], "backup": (owners[key][1] or [owners[key][0]])[0], "coord": min(alive), "any": r.choice(alive)}
            v = cand[r.choice(["owner", "backup", "coord", "any"])]
            if v not in alive:
                v = r.choice(alive)
            mode = r.choice(["c.stop", "c.kill", "c.kill"])
            how = r.random()
            others = [m for m in alive if m != v]
            if how < 0.4:
                yield "%s %d" % (mode, v)
            else:
                # during a Put / Delete that executes on another member (its owner is not the victim)
                ks = [k for k in keys if owners[k][0] != v] or keys
                k2 = r.choice(ks)
                entry = r.choice([m for m in others if True])
                ver[0] += 1
                if how < 0.8:
                    yield "c.inter put.replicated c.put emb %d dm %s %s -- %s %d" % (entry, k2, hx(b"v%d" % ver[0]), mode, v)
                else:
                    yield "c.inter del.others-deleted c.del emb %d dm %s -- %s %d" % (entry, k2, mode, v)
                if v in orc.alive:
                    # the yield point was not reached (R = 1 path or nothing to delete): stop it now
                    yield "%s %d" % (mode, v)
            alive.remove(v)
            rep = yield "c.converge"
            if rep == "not-converged":
                return
            yield "c.sync"
            yield "c.sync"
            for key in keys:
                for m in alive:
                    yield "c.get emb %d dm %s" % (m, key)
            # the FIRST write a promoted owner sees for a partition may be a Delete (it has no primary fragment of the DMap
            # yet, the surviving copies are on backup owners): it removes every copy like any other Delete
            for key in r.sample(keys, min(2, len(keys))):
                yield "c.del %s %d dm %s" % (r.choice(["emb", "raw"]), r.choice(alive), key)
                orc.hit("delete_first_after_loss")
                for m in alive:
                    yield "c.get emb %d dm %s" % (m, key)
            for key in keys:
                rep = yield "c.own dm %s" % key
                p, b = rep.split("pick=")[1].split()[0].split("/")
                owners[key] = (int(p.split(",")[-1]), [int(x) for x in b.split(",")] if b != "-" else [])
            for ck in ckeys:
                yield "c.incr %s %d dm %s %d" % (r.choice(["emb", "raw"]), r.choice(alive), ck, r.choice([1, 5]))
            for op in wl(8):
                yield op
                if op.startswith("c.put"):
                    yield "wb dm %s" % op.split()[4]        # how many copies did the acknowledged Put leave?
            for key in keys:
                yield "c.get %s %d dm %s" % (r.choice(["emb", "raw"]), r.choice(alive), key)
        if r.random() < 0.85:
            # Destroy after members were lost: a survivor that was promoted to primary owner may still hold the backup
            # fragment of the same partition - both go; every key reads not-found from every survivor, nothing is left
            yield "c.destroy %s %d dm" % (r.choice(["emb", "cli"]), r.choice(alive))
            yield "wb.keys dm"
            for key in keys:
                yield "c.get emb %d dm %s" % (r.choice(alive), key)
