"""Stream `pubsub` (C14): subscribe / psubscribe / unsubscribe / punsubscribe / disconnect / publish over
several real connections (go-redis) to 1-3 in-process members; channel and pattern alphabets with match,
no-match, overlap and duplicates.  Oracle: exactly-once delivery to every matching subscription, the
PUBLISH count, silence after leaving, PUBSUB CHANNELS / NUMSUB / NUMPAT."""
HEADER = 3
REQUIRED_SHAPES = ["command_name_not_lower_case", "raw_subscriber_quit", "publish_to_raw_subscribers", "publish_with_pattern_nomatch", "publish_channel_and_pattern_same_conn", "duplicate_subscribe",
                   "publish_after_unsubscribe", "publish_after_disconnect", "publish_cross_member"]

CHANNELS = [b"news", b"news.a", b"sport", b"n"]
PATTERNS = [b"news*", b"n*", b"*", b"sport", b"news.?", b"x*"]
# the empty name is a name: SUBSCRIBE "" / UNSUBSCRIBE "" concern that one channel, not "all"
CH_E = CHANNELS * 3 + [b""]
PAT_E = PATTERNS        # (the client library cannot tell a pmessage for the empty pattern from a message)


def hx(b):
    return b.hex() if b else "-"


def unhx(s):
    return b"" if s == "-" else bytes.fromhex(s)


def glob(p, s):
    # '*' any run, '?' any byte
    if not p:
        return not s
    if p[0:1] == b"*":
        return glob(p[1:], s) or (bool(s) and glob(p, s[1:]))
    if not s:
        return False
    return (p[0:1] == b"?" or p[0] == s[0]) and glob(p[1:], s[1:])


class Oracle:
    def __init__(self):
        self.subs = {}       # (m, c) -> set of (pat, name)
        self.shapes = {}
        self.n = 1
        self.left = set()    # (m,c,pat,name) that were unsubscribed / disconnected since the last publish

    def hit(self, s):
        self.shapes[s] = self.shapes.get(s, 0) + 1

    def observe(self, op, reply):
        f = op.split()
        name, a = f[0], f[1:]
        if reply.startswith("err:") or reply in ("bad-op", "no-confirmation", "neterr") or reply.startswith("other"):
            return "unexpected reply %r to %s" % (reply[:120], op[:80])
        if name == "c.new":
            self.n = int(dict(kv.split("=") for kv in a).get("n", 1))
            self.subs = {}
            return None
        if name == "c.rawhold":
            # a subscriber that writes RESP by hand: command names in upper, lower or mixed case mean the same
            raw = self.__dict__.setdefault("raw", {})
            st = raw.setdefault(a[0], (set(), set()))
            cmd = []
            for tok in a[2:] + ["|"]:
                if tok != "|":
                    cmd.append(unhx(tok))
                    continue
                if cmd:
                    c, names = cmd[0].lower(), cmd[1:]
                    if c == b"subscribe":
                        st[0].update(names)
                    elif c == b"psubscribe":
                        st[1].update(names)
                    elif c == b"unsubscribe":
                        st[0].difference_update(names) if names else st[0].clear()
                    elif c == b"punsubscribe":
                        st[1].difference_update(names) if names else st[1].clear()
                    if cmd[0] != cmd[0].lower():
                        self.hit("command_name_not_lower_case")
                cmd = []
            return None if reply == "ok" else "raw subscriber connection: %s" % reply
        if name == "c.rawdrop":
            self.__dict__.setdefault("raw", {}).pop(a[0], None)
            return None
        if name == "c.rawquit":
            # QUIT in subscriber mode: the member hangs up and the connection's subscriptions are gone
            if self.__dict__.setdefault("raw", {}).pop(a[0], None) is not None:
                self.hit("raw_subscriber_quit")
            return None if reply == "ok" else "QUIT on a subscriber connection: %s" % reply
        if name == "c.rawint":
            toks = [unhx(t) for t in a[1:]]
            raw = self.__dict__.get("raw", {})
            if toks[0].lower() == b"publish":
                ch = toks[1]
                want = sum((ch in chans) + sum(1 for p in pats if glob(p, ch)) for (chans, pats) in raw.values())
                self.hit("publish_to_raw_subscribers")
                return None if reply == str(want) else (
                    "PUBLISH on %r answered %s, %d subscriptions of the raw connections match (%s)" % (ch, reply, want, {k: (sorted(v[0]), sorted(v[1])) for k, v in raw.items()}))
            if toks[0].lower() == b"pubsub" and toks[1].lower() == b"numpat":
                want = len(set(p for (_, pats) in raw.values() for p in pats))
                return None if reply == str(want) else "PUBSUB NUMPAT answered %s, %d distinct patterns are subscribed" % (reply, want)
            return None
        if name in ("ps.sub", "ps.psub"):
            k = (int(a[0]), int(a[1]))
            pat = name == "ps.psub"
            s = self.subs.setdefault(k, set())
            item = (pat, unhx(a[2]))
            if item in s:
                self.hit("duplicate_subscribe")
            s.add(item)
            exp = len([x for x in s if x[0] == pat])
            return None if reply == "count=%d" % exp else "%s reply %s, the connection holds %d subscriptions of that kind" % (name, reply, exp)
        if name in ("ps.unsub", "ps.punsub"):
            k = (int(a[0]), int(a[1]))
            pat = name == "ps.punsub"
            s = self.subs.get(k, set())
            if reply == "not-subscribed":
                return None
            if len(a) < 3:
                for x in [x for x in s if x[0] == pat]:
                    s.discard(x)
                    self.left.add(k + x)
            else:
                x = (pat, unhx(a[2]))
                if x in s:
                    s.discard(x)
                    self.left.add(k + x)
            exp = len([x for x in s if x[0] == pat])
            return None if reply == "count=%d" % exp else "%s reply %s, expected count=%d" % (name, reply, exp)
        if name == "ps.close":
            k = (int(a[0]), int(a[1]))
            for x in self.subs.pop(k, set()):
                self.left.add(k + x)
            self.closed = getattr(self, "closed", set()) | {k}
            return None
        if name == "ps.pub":
            ch = unhx(a[1])
            msg = a[2]
            exp = {}
            for (m, c), s in self.subs.items():
                items = []
                if (False, ch) in s:
                    items.append("message/-/%s/%s" % (hx(ch), msg))
                for (pat, nm) in sorted(x for x in s if x[0]):
                    if glob(nm, ch):
                        items.append("pmessage/%s/%s/%s" % (hx(nm), hx(ch), msg))
                    else:
                        self.hit("publish_with_pattern_nomatch")
                if len(items) >= 2 and items[0].startswith("message"):
                    self.hit("publish_channel_and_pattern_same_conn")
                if items:
                    exp["%d:%d" % (m, c)] = items
                    if m != int(a[0]):
                        self.hit("publish_cross_member")
            if any(True for x in self.left):
                if any(len(x) == 4 and ((not x[2] and x[3] == ch) or (x[2] and glob(x[3], ch))) for x in self.left):
                    self.hit("publish_after_unsubscribe")
            if getattr(self, "closed", None):
                self.hit("publish_after_disconnect")
            self.left = set()
            total = sum(len(v) for v in exp.values())
            r = reply.split()
            got = {}
            for part in r[1:]:
                if part == "-":
                    continue
                k, v = part.split("=", 1)
                got[k] = v.split(",")
            if r[0] != "count=%d" % total:
                return "PUBLISH returned %s, %d subscriptions match" % (r[0], total)
            for k in set(exp) | set(got):
                e, g = sorted(exp.get(k, [])), sorted(got.get(k, []))
                if e != g:
                    return "connection %s received %s, expected exactly %s" % (k, g, e)
            return None
        if name == "ps.channels":
            m = int(a[0])
            pat = unhx(a[1]) if len(a) > 1 else None
            chans = set()
            for (mm, c), s in self.subs.items():
                if mm == m:
                    for (p, nm) in s:
                        if not p and (pat is None or glob(pat, nm)):
                            chans.add(nm)
            exp = ",".join(sorted(hx(x) for x in chans)) or "-"
            return None if reply == exp else "PUBSUB CHANNELS on m%d: %s, expected %s" % (m, reply, exp)
        if name == "ps.numsub":
            m = int(a[0])
            outs = []
            for chh in a[1:]:
                ch = unhx(chh)
                n = sum(1 for (mm, c), s in self.subs.items() if mm == m and (False, ch) in s)
                outs.append("%s:%d" % (chh, n))
            exp = ",".join(outs) or "-"
            return None if reply == exp else "PUBSUB NUMSUB on m%d: %s, expected %s" % (m, reply, exp)
        if name == "ps.numpat":
            m = int(a[0])
            pats = set(nm for (mm, c), s in self.subs.items() if mm == m for (p, nm) in s if p)
            return None if reply == str(len(pats)) else "PUBSUB NUMPAT on m%d: %s, expected %d" % (m, reply, len(pats))
        return None


class Gen:
    def __init__(self, rng, tier="quick"):
        self.rng = rng

    def raw_case(self, orc):
        """directed: subscribers that write their commands by hand, in any letter case (the client library always sends
        lower case); a publisher counts the deliveries after every step"""
        r = self.rng

        def style(w):
            return r.choice([w.upper(), w.upper(), w.lower(), w.capitalize(), w[:1].lower() + w[1:].upper()])
        yield "watchdog 60s"
        yield "clock 1700000000000000000"
        yield "c.new n=1 parts=7"
        chans, pats = [b"a", b"b", b"a*"], [b"a*", b"b*", b"*", b"a"]
        for step in range(24):
            conn = r.choice(["A", "A", "B"])
            w = r.random()
            if w < 0.25:
                cmd = [style(b"subscribe")] + r.sample(chans, r.choice([1, 1, 2]))
            elif w < 0.5:
                cmd = [style(b"psubscribe")] + r.sample(pats, r.choice([1, 1, 2]))
            elif w < 0.7:
                cmd = [style(b"unsubscribe")] + (r.sample(chans, 1) if r.random() < 0.8 else [])
            elif w < 0.92:
                cmd = [style(b"punsubscribe")] + (r.sample(pats, 1) if r.random() < 0.8 else [])
            elif conn in getattr(orc, "raw", {}) and step > 2:
                # the connection says QUIT in subscriber mode; publishes and NUMPAT right afterwards must not count it
                yield "c.rawquit %s 0" % conn
                for ch in (b"a", b"b"):
                    yield "c.rawint 0 %s" % " ".join(hx(t) for t in [b"publish", ch, b"q%d" % step])
                yield "c.rawint 0 %s" % " ".join(hx(t) for t in [b"pubsub", b"numpat"])
                continue
            else:
                continue
            if step == 0 or conn not in getattr(orc, "raw", {}):
                cmd = [style(b"subscribe"), b"a"] if r.random() < 0.5 else [style(b"psubscribe"), b"a*"]   # enter subscriber mode first
            yield "c.rawhold %s 0 %s" % (conn, " ".join(hx(t) for t in cmd))
            for ch in (b"a", b"b"):
                yield "c.rawint 0 %s" % " ".join(hx(t) for t in [b"publish", ch, b"m%d" % step])
            yield "c.rawint 0 %s" % " ".join(hx(t) for t in [b"pubsub", b"numpat"])

    def episode(self, orc, nops):
        if getattr(self, "ep", 0) % 4 == 1:
            yield from self.raw_case(orc)
            return
        r = self.rng
        n = r.choice([1, 2, 3])
        yield "watchdog 60s"
        yield "clock 1700000000000000000"
        yield "c.new n=%d parts=7" % n
        seq = 0
        live = set()          # connections that are in pub/sub mode (have subscribed and were not closed)
        for _ in range(nops):
            m = r.randrange(n)
            c = r.randrange(3)
            w = r.random()
            if 0.40 <= w < 0.58 and (m, c) not in live:
                w = 0.1       # nothing to leave yet: subscribe instead
            if w < 0.40:
                live.add((m, c))
            if 0.58 <= w < 0.63:
                live.discard((m, c))
            if w < 0.22:
                yield "ps.sub %d %d %s" % (m, c, hx(r.choice(CH_E)))
            elif w < 0.40:
                yield "ps.psub %d %d %s" % (m, c, hx(r.choice(PAT_E)))
            elif w < 0.50:
                yield ("ps.unsub %d %d %s" % (m, c, hx(r.choice(CH_E)))) if r.random() < 0.7 else "ps.unsub %d %d" % (m, c)
            elif w < 0.58:
                yield ("ps.punsub %d %d %s" % (m, c, hx(r.choice(PAT_E)))) if r.random() < 0.7 else "ps.punsub %d %d" % (m, c)
            elif w < 0.63:
                yield "ps.close %d %d" % (m, c)
            elif w < 0.88:
                seq += 1
                yield "ps.pub %d %s %s" % (m, hx(r.choice(CH_E + [b"other"] * 3)), hx(b"m%d" % seq))
            elif w < 0.93:
                yield ("ps.channels %d" % m) if r.random() < 0.6 else "ps.channels %d %s" % (m, hx(r.choice(PATTERNS)))
            elif w < 0.97:
                yield "ps.numsub %d %s" % (m, " ".join(hx(x) for x in r.sample(CHANNELS + [b"news*"], 2)))
            else:
                yield "ps.numpat %d" % m
