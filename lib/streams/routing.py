"""Stream `routing` (C13): clusters of 1-5 in-process members that join, leave gracefully (the coordinator
included) and re-join under their old address, with data written in between so that previous owners
hold keys.  After every membership event the membership layer is awaited (`c.converge`), then single
routing-table computations of the coordinator are captured under its routing lock (`rt.fill`: everything
the computation read — previous owners, member list, ring answers, key counts — and the table it
produced) and compared with the Lean model of distribute.go fed with the same inputs; balancer passes
and pushes are interleaved.  Once stabilised (`c.sync`), every member's table, member lists, coordinator
and the cluster client's table are dumped.

Oracle (independent of the model), on the stabilised dump:
  * every live member names the same coordinator, the oldest live member; membership layer and ring list
    exactly the live members (current ids: no departed or superseded member anywhere);
  * all members hold the same table, and a cluster client obtains the same owners;
  * per partition: the last primary owner is live; the last min(R, N) - 1 backup owners are distinct, live
    and not the primary; every further listed owner is live (and, per the last capture, reported data);
  * no member owns more partitions than the ring's bound;
  * every member maps a key to the same partition and owner."""
import math

from streams.cluster import T0, hx

HEADER = 3
REQUIRED_SHAPES = ["periodic_push_prunes_emptied_owners", "load_bound_checked", "load_factor_configured", "join", "leave", "coordinator_left", "rejoin_same_address", "previous_owner_listed", "previous_owner_pruned",
                   "fill_compared", "stable_dump", "client_table", "backups_checked", "replica_shortage", "same_owner_everywhere"]


def mems(s):
    return [] if s in ("-", "") else s.split(";")


class Oracle:
    def __init__(self):
        self.shapes = {}
        self.cfg = {}
        self.alive = {}       # member index -> birth order
        self.births = 0
        self.last_table = None
        self.last_in = None

    def hit(self, s):
        self.shapes[s] = self.shapes.get(s, 0) + 1

    def born(self, i):
        self.births += 1
        self.alive[i] = self.births

    def observe(self, op, reply):
        f = op.split()
        name, a = f[0], f[1:]
        if name == "r.put" and not reply.startswith("dead"):
            return None      # data is only written to give previous owners something to hold; a failed write is no concern here
        if reply.startswith("err:") or reply.startswith("other:") or reply in ("bad-op", "no-cluster", "down", "neterr", "hang", "dead", "nocoord"):
            return "unexpected reply %r to %s" % (reply[:160], op[:100])
        if name == "r.put":
            return None      # data is only written to give previous owners something to hold; a failed write is no concern here
        if name == "c.new":
            self.cfg = dict(kv.split("=") for kv in a if "=" in kv)
            self.alive, self.births = {}, 0
            for i in range(int(self.cfg.get("n", 1))):
                self.born(i)
            return None
        if name == "c.add":
            self.born(int(reply.split()[1]))
            self.hit("join")
            return None
        if name == "c.stop":
            i = int(a[0])
            if self.alive and min(self.alive, key=lambda x: self.alive[x]) == i:
                self.hit("coordinator_left")
            self.alive.pop(i, None)
            self.hit("leave")
            return None
        if name == "c.rejoin":
            self.born(int(a[0]))
            self.hit("rejoin_same_address")
            return None
        if name == "c.converge":
            if reply == "not-converged":
                # the membership layer (memberlist gossip, timing) did not settle within a minute: the episode is
                # abandoned, nothing is concluded from it
                self.hit("not_converged")
                return None
            return None if reply == "ok %d" % len(self.alive) else "membership converged to %s members, live are %s" % (reply, sorted(self.alive))
        if name == "rt.fill":
            self.hit("fill_compared")
            inp, out = reply.split(" out=")
            inp = inp[3:]
            rows_in = inp.split("~")
            live = mems(rows_in[0][5:])
            R = int(self.cfg.get("r", 1))
            for rin, rout in zip(rows_in[1:], out.split("~")):
                pname, body = rin.split(":")
                ow, bk, ro, cl, pc, bc = body.split("|")
                owners, backups = rout.split(":")[1].split("/")
                owners, backups = mems(owners), mems(backups)
                pcount = dict(e.split("=") for e in mems(pc))
                bcount = dict(e.split("=") for e in mems(bc))
                if not owners or owners[-1] != ro:
                    return "%s: the last primary owner is %s, the ring's owner is %s" % (pname, owners[-1:] or None, ro)
                for o in owners:
                    if o not in live:
                        return "%s: primary owners list names %s, which is not a current member (%s)" % (pname, o, live)
                for o in owners[:-1]:
                    self.hit("previous_owner_listed")
                    if pcount.get(o) == "0":
                        return "%s: previous owner %s is still listed although it reported no keys" % (pname, o)
                for o in mems(ow):
                    if o in live and o != ro and pcount.get(o) == "0" and o not in owners:
                        self.hit("previous_owner_pruned")
                if R > 1:
                    want = mems(cl)[1:] if cl != "x" else []
                    if len(live) < R:
                        self.hit("replica_shortage")
                    if cl != "x":
                        if backups[len(backups) - len(want):] != want:
                            return "%s: backup owners %s do not end with the ring's replica owners %s" % (pname, backups, want)
                        if len(want) != min(R, len(live)) - 1:
                            return "%s: %d current backup owners, expected min(R=%d, N=%d) - 1" % (pname, len(want), R, len(live))
                    for o in backups:
                        if o not in live:
                            return "%s: backup owners list names %s, which is not a current member" % (pname, o)
                    for o in backups[:len(backups) - len(want)]:
                        if bcount.get(o) == "0":
                            return "%s: former backup owner %s is still listed although it reported no keys" % (pname, o)
                elif backups:
                    return "%s: backup owners %s listed with ReplicaCount 1" % (pname, backups)
            self.last_in = inp
            return None
        if name == "rt.dump":
            self.hit("stable_dump")
            R = int(self.cfg.get("r", 1))
            views = {}
            for part in reply.split():
                m, rest = part.split(":", 1)
                kv = dict(x.split("=", 1) for x in rest.split(","))
                views[int(m[1:])] = kv
            if getattr(self, "periodic", False) == "probe":
                # (the generator asks whether the tables have settled; nothing is judged yet)
                tabs = set(kv["table"] for kv in views.values())
                self.periodic_stale = len(tabs) != 1 or any(
                    int(views[int(o.split(".")[0])]["plen"].split(";")[pi]) == 0
                    for pi, row in enumerate(next(iter(tabs)).split("~")) for o in mems(row.split("/")[0])[:-1] if int(o.split(".")[0]) in views)
                return None
            if sorted(views) != sorted(self.alive):
                return "dump lists members %s, live are %s" % (sorted(views), sorted(self.alive))
            oldest = min(self.alive, key=lambda x: self.alive[x])
            tables = set()
            for i, kv in views.items():
                if int(kv["coord"].split(".")[0]) != oldest:
                    return "member %d names %s as coordinator, the oldest live member is %d" % (i, kv["coord"], oldest)
                if kv["disc"] != kv["ring"]:
                    return "member %d: membership layer lists %s, routing service %s" % (i, kv["disc"], kv["ring"])
                if sorted(int(x.split(".")[0]) for x in mems(kv["disc"])) != sorted(self.alive):
                    return "member %d lists members %s, live are %s" % (i, kv["disc"], sorted(self.alive))
                tables.add(kv["table"])
            if len(tables) != 1:
                return "members hold different routing tables: %s" % sorted(tables)
            if len(set(kv["disc"] for kv in views.values())) != 1:
                return "members disagree on the member ids: %s" % sorted(set(kv["disc"] for kv in views.values()))
            live = mems(views[oldest]["disc"])
            table = tables.pop()
            if getattr(self, "periodic", False) and all("plen" in kv for kv in views.values()):
                # left to its periodic push: an owner listed in front of the current one still holds data of the partition
                self.hit("periodic_push_prunes_emptied_owners")
                for pi, row in enumerate(table.split("~")):
                    owners = mems(row.split("/")[0])
                    for o in owners[:-1]:
                        mi = int(o.split(".")[0])
                        if mi in views and int(views[mi]["plen"].split(";")[pi]) == 0:
                            return ("partition %d still lists member %s, which holds nothing of it, %s after the hand-over: the periodic routing push "
                                    "of the current coordinator (member %d, not the founding one) does not prune it" % (pi, o, "1.5 to 9 s (ten to sixty push periods)", oldest))
            self.last_table = table
            N = len(live)
            for pi, row in enumerate(table.split("~")):
                owners, backups = (mems(x) for x in row.split("/"))
                if not owners:
                    return "partition %d has no primary owner" % pi
                for o in owners + backups:
                    if o not in live:
                        return "partition %d lists %s, not a current member (departed or superseded)" % (pi, o)
                if R > 1:
                    k = min(R, N) - 1
                    cur = backups[len(backups) - k:] if k else []
                    self.hit("backups_checked")
                    if len(cur) != k or len(set(cur)) != k or owners[-1] in cur:
                        return "partition %d: current backup owners %s (of %s), primary %s, expected %d distinct live members other than the primary" % (pi, cur, backups, owners[-1], k)
            # the bound the CONFIGURED load factor allows (buraksezer/consistent: ceil(float(P / N) * Load)), against the
            # primary owners listed in the table itself
            lf = int(self.cfg.get("lf100", 125)) / 100.0
            P = len(table.split("~"))
            bound = math.ceil(float(P // N) * lf) if N else 0
            owned = {}
            for row in table.split("~"):
                o = mems(row.split("/")[0])[-1]
                owned[o] = owned.get(o, 0) + 1
            self.hit("load_bound_checked")
            if lf != 1.25:
                self.hit("load_factor_configured")
            for o, c in sorted(owned.items()):
                if c > bound:
                    return "member %s is the primary owner of %d of %d partitions, load factor %.2f with %d members allows at most %d" % (o, c, P, lf, N, bound)
            kv = views[oldest]
            if "loads" in kv:
                avg = int(kv["avg"])
                for e in mems(kv["loads"]):
                    m, l = e.split("=")
                    if int(l) > avg:
                        return "member %s owns %s partitions, the ring's bound is %d" % (m, l, avg)
            return None
        if name == "rt.client":
            self.own_seen = {}
            if self.last_table is None:
                return None
            self.hit("client_table")
            self.own_seen = {}
            want = "~".join("/".join(";".join(x.split(".")[0] for x in mems(side)) or "-" for side in row.split("/")) for row in self.last_table.split("~"))
            return None if reply == want else "a cluster client obtained %s, the members hold %s" % (reply, want)
        if name == "c.own" and len(a) >= 3:
            key = (a[0], a[1])
            got = reply
            prev = getattr(self, "own_seen", {}).get(key)
            self.own_seen = getattr(self, "own_seen", {})
            if prev is not None and prev != got:
                return "members map the key to different owners / partitions: %s vs %s" % (prev, got)
            self.own_seen[key] = got
            self.hit("same_owner_everywhere")
            return None
        return None


class Gen:
    def __init__(self, rng, tier="quick"):
        self.rng = rng

    def periodic(self, orc):
        """directed: the periodic routing push left to itself (150 ms, real time), never pushed by hand.  The founding
        coordinator leaves; under the next coordinator a member joins and the balancers hand the data over; a second and a
        half later every member holds the same table and nobody is listed for a partition it holds nothing of."""
        r = self.rng
        yield "watchdog 300s"
        yield "clock 0"
        yield "c.new n=3 r=1 w=1 rq=1 parts=%d tsize=4096 push_ms=150" % r.choice([7, 11])
        for i in range(16):
            yield "r.put emb %d dm %s %s" % (r.randrange(3), hx(b"k%d" % i), hx(b"v"))
        yield "c.stop 0"
        rep = yield "c.converge"
        if rep == "not-converged":
            return
        yield "c.add nosync"
        rep = yield "c.converge"
        if rep == "not-converged":
            return
        for i in range(16, 24):
            yield "r.put emb %d dm %s %s" % (r.choice([1, 2, 3]), hx(b"k%d" % i), hx(b"v"))
        for _ in range(3):
            yield "c.balanceall"
            yield "c.wait 300"
        # ten push periods, and up to eight seconds more on a machine that is busy with other things
        for attempt in range(9):
            yield "c.wait %d" % (900 if attempt == 0 else 1000)
            orc.periodic = "probe"
            yield "rt.dump"
            if not orc.periodic_stale:
                break
        orc.periodic = True
        yield "rt.dump"
        orc.periodic = False

    def episode(self, orc, nops):
        if getattr(self, "ep", 0) % 5 == 3:
            yield from self.periodic(orc)
            return
        r = self.rng
        R = r.choice([1, 2, 2, 3])
        parts = r.choice([5, 7, 11, 31, 47])
        lf = r.choice([0, 0, 105, 110, 150])
        n0 = r.choice([1, 2, 3])
        yield "watchdog 300s"
        yield "clock 0"
        yield "c.new n=%d r=%d w=1 rq=1 parts=%d tsize=4096%s" % (n0, R, parts, " lf100=%d" % lf if lf else "")
        alive = list(range(n0))
        stopped = []
        total = n0
        kn = 0

        def write(k):
            nonlocal kn
            out = []
            for _ in range(k):
                kn += 1
                out.append("r.put emb %d dm %s %s" % (r.choice(alive), hx(b"k%d" % kn), hx(b"v")))
            return out

        for op in write(r.randint(5, 15)):
            yield op
        yield "rt.fill"
        for _ in range(nops or 6):
            x = r.random()
            if x < 0.45 and len(alive) < min(6, parts):
                rep = yield "c.add nosync"
                alive.append(total)
                total += 1
            elif x < 0.75 and len(alive) > 1:
                # the coordinator (oldest) leaves as often as anybody else
                v = r.choice(alive) if r.random() < 0.6 else min(alive, key=lambda i: orc.alive.get(i, 0))
                yield "c.stop %d" % v
                alive.remove(v)
                stopped.append(v)
            elif x < 0.9 and stopped and len(alive) < min(6, parts):
                v = stopped.pop(r.randrange(len(stopped)))
                yield "c.rejoin %d" % v
                alive.append(v)
            else:
                for op in write(r.randint(2, 8)):
                    yield op
                continue
            rep = yield "c.converge"
            if rep == "not-converged":
                return
            # single computations before, between and after balancer passes and pushes
            yield "rt.fill"
            if r.random() < 0.6:
                yield "c.update"
                yield "rt.fill"
            if r.random() < 0.6:
                yield "c.balanceall"
                yield "rt.fill"
            if r.random() < 0.5:
                for op in write(r.randint(1, 4)):
                    yield op
            yield "c.sync"
            yield "c.sync"
            yield "rt.fill"
            yield "rt.dump"
            yield "rt.client %d" % r.choice(alive)
            k = hx(b"k%d" % r.randint(1, max(1, kn)))
            for v in alive:
                yield "c.own dm %s %d" % (k, v)
